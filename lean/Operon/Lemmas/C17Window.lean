import Operon.Lemmas.C17
import Operon.Model.ImmuneWindow
/-! Helper lemmas for C17: the pipeline with real observation windows (`WSys`) refines the pipeline with display slots
(`Sys`), and the slot of an agent with a real window always holds the fingerprint of the window as it is now. -/
namespace Operon.Immune

/-- what the display side of an agent is for the pipeline: registered? and what it shows -/
def Agent.slot (ag : Agent) : Bool × Option Peptide := (ag.registered, ag.display)

theorem afterTCell_slot (s : Sys) (a : Nat) (p : Peptide) (mem : Memory) (t' : TCell) (r : Response) (b : Nat) :
    ((s.afterTCell a (s.agents a) p mem t' r).1.agents b).slot = (s.agents b).slot := by
  unfold Sys.afterTCell Agent.slot
  cases (s.agents a).record with
  | none =>
    simp only []
    split <;> (simp only []; split <;> simp_all)
  | some rec =>
    simp only []
    cases s.treg.evaluate r rec with
    | raise => simp only []; split <;> simp_all
    | ok su o m =>
      simp only []
      split <;> (simp only []; split <;> simp_all)

theorem inspect_slot (s : Sys) (a b : Nat) : ((s.inspect a).1.agents b).slot = (s.agents b).slot := by
  unfold Sys.inspect
  cases ht : (s.agents a).tcell with
  | none => rfl
  | some t =>
    cases hd : (s.agents a).display with
    | none => rfl
    | some p =>
      simp only []
      cases hr : (recallGo a p.vocab p.struct (s.clock + 1) s.mem.sigs).2 with
      | none => simp only []; rw [afterTCell_slot]
      | some sig =>
        simp only []
        by_cases hg : (!t.isAnergic && !(check t.profile p).isEmpty) = true
        · simp only [hg, if_true]
        · have hg' : (!t.isAnergic && !(check t.profile p).isEmpty) = false := by simpa using hg
          simp only [hg', Bool.false_eq_true, if_false]
          rw [afterTCell_slot]

theorem train_slot (s : Sys) (a b : Nat) : ((s.train a).1.agents b).slot = (s.agents b).slot := by
  unfold Sys.train
  by_cases hr : (s.agents a).registered = true
  · simp only [hr, if_true]
    cases hd : (s.agents a).display with
    | none => rfl
    | some p =>
      simp only []
      cases ht : trainThymus ⟨s.minTrain, s.tol, s.varThr⟩ ⟨0, 0, 0⟩ (List.replicate s.minTrain.toNat p) with
      | positive pr =>
        by_cases hb : b = a
        · subst hb; simp [Sys.setAgent, Agent.slot, hr, hd]
        · simp [Sys.setAgent, hb]
      | insufficient => rfl
      | anergic => rfl
      | raiseStats => rfl
  · simp [hr]

theorem setAgent_slot_same (s : Sys) (a b : Nat) (t : Option TCell) (r : Option Record) :
    ((s.setAgent a ⟨(s.agents a).registered, (s.agents a).display, t, r⟩).agents b).slot = (s.agents b).slot := by
  by_cases hb : b = a
  · subst hb; simp [Sys.setAgent, Agent.slot]
  · simp [Sys.setAgent, hb]

theorem configT_slot (s : Sys) (a b : Nat) (f : TCell → TCell) : ((s.configT a f).agents b).slot = (s.agents b).slot := by
  unfold Sys.configT
  cases (s.agents a).tcell with
  | none => rfl
  | some t => exact setAgent_slot_same s a b _ _

/-- only `register` and the display slot itself change what an agent shows: every other pipeline operation leaves the
    registration and the shown fingerprint of every agent as they were -/
theorem step_slot (s : Sys) (op : Op) (h1 : ∀ a, op ≠ .register a) (h2 : ∀ a p, op ≠ .showP a p) (b : Nat) :
    (((s.step op).1).agents b).slot = (s.agents b).slot := by
  cases op with
  | register a => exact absurd rfl (h1 a)
  | showP a p => exact absurd rfl (h2 a p)
  | train a => exact train_slot s a b
  | inspect a => exact inspect_slot s a b
  | flag a x =>
    simp only [Sys.step, Sys.flag]
    cases (s.agents a).tcell with
    | none => rfl
    | some t => exact setAgent_slot_same s a b _ _
  | reset a =>
    simp only [Sys.step, Sys.resetT]
    cases (s.agents a).tcell with
    | none => rfl
    | some t => exact setAgent_slot_same s a b _ _
  | resetFA a =>
    simp only [Sys.step, Sys.resetT]
    cases (s.agents a).tcell with
    | none => rfl
    | some t => exact setAgent_slot_same s a b _ _
  | dropRecord a => exact setAgent_slot_same s a b _ _
  | markUpdated a =>
    simp only [Sys.step, Sys.markUpdated]
    cases (s.agents a).record with
    | none => rfl
    | some r => exact setAgent_slot_same s a b _ _
  | expire => rfl
  | pruneOld k => rfl
  | importSigs data => rfl
  | setRep a k => exact configT_slot s a b _
  | setAnergy a k => exact configT_slot s a b _
  | setProfile a pr => exact configT_slot s a b _
  | setTreg g => rfl
  | setCap c => rfl
  | setThymus t v => rfl
  | peek => rfl
  | forget m => rfl
  | recall a v st => rfl

theorem run_append_fst (l1 : List Op) : ∀ (s : Sys) (l2 : List Op), (s.run (l1 ++ l2)).1 = ((s.run l1).1.run l2).1 := by
  induction l1 with
  | nil => intro s l2; rfl
  | cons op r ih => intro s l2; simp [Sys.run, ih]

theorem run_append_snd (l1 : List Op) : ∀ (s : Sys) (l2 : List Op),
    (s.run (l1 ++ l2)).2 = (s.run l1).2 ++ ((s.run l1).1.run l2).2 := by
  induction l1 with
  | nil => intro s l2; rfl
  | cons op r ih => intro s l2; simp [Sys.run, ih]

theorem showPeptide_agents_ne (s : Sys) (a b : Nat) (p : Option Peptide) (h : b ≠ a) :
    (s.showPeptide a p).agents b = s.agents b := by
  unfold Sys.showPeptide
  split <;> simp [Sys.setAgent, h]

theorem showPeptide_registered (s : Sys) (a : Nat) (p : Option Peptide) (h : (s.agents a).registered = true) :
    ((s.showPeptide a p).agents a).registered = true ∧ ((s.showPeptide a p).agents a).display = p := by
  unfold Sys.showPeptide
  simp [h, Sys.setAgent]

/-- one window operation is the pipeline operations `WSys.ops` spells it out as -/
theorem wstep_sys (w : WSys) (op : WOp) : (w.step op).sys = (w.sys.run (w.ops op)).1 := by
  cases op with
  | sys o =>
    cases o <;> simp [WSys.step, WSys.ops, Sys.run, Sys.step]
    all_goals (split <;> simp [Sys.run, Sys.step])
  | install a ws mo => simp [WSys.step, WSys.ops, Sys.run, Sys.step]
  | record a o sd => cases hw : w.win a <;> simp [WSys.step, WSys.ops, WOp.newWindow, hw, Sys.run, Sys.step]
  | canary a x => cases hw : w.win a <;> simp [WSys.step, WSys.ops, WOp.newWindow, hw, Sys.run, Sys.step]
  | clear a => cases hw : w.win a <;> simp [WSys.step, WSys.ops, WOp.newWindow, hw, Sys.run, Sys.step]
  | setCanaries a l => cases hw : w.win a <;> simp [WSys.step, WSys.ops, WOp.newWindow, hw, Sys.run, Sys.step]
  | setObs a l sd => cases hw : w.win a <;> simp [WSys.step, WSys.ops, WOp.newWindow, hw, Sys.run, Sys.step]
  | setWindow a k => cases hw : w.win a <;> simp [WSys.step, WSys.ops, WOp.newWindow, hw, Sys.run, Sys.step]
  | setMinObs a k => cases hw : w.win a <;> simp [WSys.step, WSys.ops, WOp.newWindow, hw, Sys.run, Sys.step]

/-- a window history is the pipeline history `WSys.trace` spells it out as -/
theorem wrun_sys (ops : List WOp) : ∀ w : WSys, (w.run ops).sys = (w.sys.run (w.trace ops)).1 := by
  induction ops with
  | nil => intro w; rfl
  | cons op r ih =>
    intro w
    simp only [WSys.run, WSys.trace]
    rw [run_append_fst, ih, wstep_sys]

/-- refilling the slot of agent `a` from its new window keeps every slot current -/
theorem put_slots (w : WSys) (a : Nat) (d : Display) (sd : Sds) (x : Display × Sds) (hw : w.win a = some x)
    (inv : w.SlotsCurrent) :
    WSys.SlotsCurrent ⟨w.sys.showPeptide a (d.generate sd), w.setWin a (some (d, sd))⟩ := by
  intro b d' sd' hb
  by_cases hba : b = a
  · subst hba
    simp only [WSys.setWin, if_true, Option.some.injEq, Prod.mk.injEq] at hb
    obtain ⟨rfl, rfl⟩ := hb
    exact showPeptide_registered _ _ _ (inv b x.1 x.2 hw).1
  · simp only [WSys.setWin, hba, if_false] at hb
    simp only []
    rw [showPeptide_agents_ne _ _ _ _ hba]
    exact inv b d' sd' hb

theorem wstep_slots (w : WSys) (op : WOp) (inv : w.SlotsCurrent) : (w.step op).SlotsCurrent := by
  have window : ∀ (o : WOp), (∀ x, o ≠ .sys x) → (∀ a ws mo, o ≠ .install a ws mo) →
      (∀ a d sd, o.newWindow w = some (a, d, sd) → ∃ x, w.win a = some x) → (w.step o).SlotsCurrent := by
    intro o h1 h2 h3
    cases o with
    | sys x => exact absurd rfl (h1 x)
    | install a ws mo => exact absurd rfl (h2 a ws mo)
    | record a ob sd =>
      cases hn : (WOp.record a ob sd).newWindow w with
      | none => simpa [WSys.step, hn] using inv
      | some y =>
        obtain ⟨a', d, sd'⟩ := y
        obtain ⟨x, hx⟩ := h3 a' d sd' hn
        simpa [WSys.step, hn] using put_slots w a' d sd' x hx inv
    | canary a b =>
      cases hn : (WOp.canary a b).newWindow w with
      | none => simpa [WSys.step, hn] using inv
      | some y =>
        obtain ⟨a', d, sd'⟩ := y
        obtain ⟨x, hx⟩ := h3 a' d sd' hn
        simpa [WSys.step, hn] using put_slots w a' d sd' x hx inv
    | clear a =>
      cases hn : (WOp.clear a).newWindow w with
      | none => simpa [WSys.step, hn] using inv
      | some y =>
        obtain ⟨a', d, sd'⟩ := y
        obtain ⟨x, hx⟩ := h3 a' d sd' hn
        simpa [WSys.step, hn] using put_slots w a' d sd' x hx inv
    | setCanaries a l =>
      cases hn : (WOp.setCanaries a l).newWindow w with
      | none => simpa [WSys.step, hn] using inv
      | some y =>
        obtain ⟨a', d, sd'⟩ := y
        obtain ⟨x, hx⟩ := h3 a' d sd' hn
        simpa [WSys.step, hn] using put_slots w a' d sd' x hx inv
    | setObs a l sd =>
      cases hn : (WOp.setObs a l sd).newWindow w with
      | none => simpa [WSys.step, hn] using inv
      | some y =>
        obtain ⟨a', d, sd'⟩ := y
        obtain ⟨x, hx⟩ := h3 a' d sd' hn
        simpa [WSys.step, hn] using put_slots w a' d sd' x hx inv
    | setWindow a k =>
      cases hn : (WOp.setWindow a k).newWindow w with
      | none => simpa [WSys.step, hn] using inv
      | some y =>
        obtain ⟨a', d, sd'⟩ := y
        obtain ⟨x, hx⟩ := h3 a' d sd' hn
        simpa [WSys.step, hn] using put_slots w a' d sd' x hx inv
    | setMinObs a k =>
      cases hn : (WOp.setMinObs a k).newWindow w with
      | none => simpa [WSys.step, hn] using inv
      | some y =>
        obtain ⟨a', d, sd'⟩ := y
        obtain ⟨x, hx⟩ := h3 a' d sd' hn
        simpa [WSys.step, hn] using put_slots w a' d sd' x hx inv
  have nw : ∀ (o : WOp) a d sd, o.newWindow w = some (a, d, sd) → ∃ x, w.win a = some x := by
    intro o a d sd h
    cases o <;> simp only [WOp.newWindow, Option.map_eq_some_iff, reduceCtorEq] at h
    all_goals (obtain ⟨x, hx, he⟩ := h; simp only [Prod.mk.injEq] at he; exact ⟨x, by rw [← he.1]; exact hx⟩)
  have other : ∀ (o : Op), (∀ a, o ≠ .register a) → (∀ a p, o ≠ .showP a p) →
      WSys.SlotsCurrent ⟨(w.sys.step o).1, w.win⟩ := by
    intro o h1 h2 b d sd hb
    have hs := step_slot w.sys o h1 h2 b
    simp only [Agent.slot, Prod.mk.injEq] at hs
    have := inv b d sd hb
    exact ⟨by rw [hs.1]; exact this.1, by rw [hs.2]; exact this.2⟩
  cases op with
  | sys o =>
    cases o with
    | register a =>
      intro b d sd hb
      by_cases hba : b = a
      · subst hba; simp [WSys.step, WSys.setWin] at hb
      · simp only [WSys.step, WSys.setWin, hba, if_false] at hb
        simp only [WSys.step, Sys.register, Sys.setAgent, hba, if_false]
        exact inv b d sd hb
    | showP a p =>
      simp only [WSys.step]
      split
      · exact inv
      · rename_i hn
        intro b d sd hb
        simp only [] at hb
        have hba : b ≠ a := by
          intro e; subst e; rw [hb] at hn; simp at hn
        simp only []
        rw [showPeptide_agents_ne _ _ _ _ hba]
        exact inv b d sd hb
    | train a => simpa [WSys.step] using other (.train a) (by simp) (by simp)
    | inspect a => simpa [WSys.step] using other (.inspect a) (by simp) (by simp)
    | flag a x => simpa [WSys.step] using other (.flag a x) (by simp) (by simp)
    | reset a => simpa [WSys.step] using other (.reset a) (by simp) (by simp)
    | resetFA a => simpa [WSys.step] using other (.resetFA a) (by simp) (by simp)
    | dropRecord a => simpa [WSys.step] using other (.dropRecord a) (by simp) (by simp)
    | markUpdated a => simpa [WSys.step] using other (.markUpdated a) (by simp) (by simp)
    | expire => simpa [WSys.step] using other .expire (by simp) (by simp)
    | pruneOld k => simpa [WSys.step] using other (.pruneOld k) (by simp) (by simp)
    | importSigs data => simpa [WSys.step] using other (.importSigs data) (by simp) (by simp)
    | setRep a k => simpa [WSys.step] using other (.setRep a k) (by simp) (by simp)
    | setAnergy a k => simpa [WSys.step] using other (.setAnergy a k) (by simp) (by simp)
    | setProfile a pr => simpa [WSys.step] using other (.setProfile a pr) (by simp) (by simp)
    | setTreg g => simpa [WSys.step] using other (.setTreg g) (by simp) (by simp)
    | setCap c => simpa [WSys.step] using other (.setCap c) (by simp) (by simp)
    | setThymus t v => simpa [WSys.step] using other (.setThymus t v) (by simp) (by simp)
    | peek => simpa [WSys.step] using other .peek (by simp) (by simp)
    | forget m => simpa [WSys.step] using other (.forget m) (by simp) (by simp)
    | recall a v st => simpa [WSys.step] using other (.recall a v st) (by simp) (by simp)
  | install a ws mo =>
    intro b d sd hb
    by_cases hba : b = a
    · subst hba
      simp only [WSys.step, WSys.setWin, if_true, Option.some.injEq, Prod.mk.injEq] at hb
      obtain ⟨rfl, rfl⟩ := hb
      exact showPeptide_registered _ _ _ (by simp [Sys.register, Sys.setAgent])
    · simp only [WSys.step, WSys.setWin, hba, if_false] at hb
      simp only [WSys.step]
      rw [showPeptide_agents_ne _ _ _ _ hba]
      simp only [Sys.register, Sys.setAgent, hba, if_false]
      exact inv b d sd hb
  | record a o sd => exact window _ (by simp) (by simp) (nw _)
  | canary a x => exact window _ (by simp) (by simp) (nw _)
  | clear a => exact window _ (by simp) (by simp) (nw _)
  | setCanaries a l => exact window _ (by simp) (by simp) (nw _)
  | setObs a l sd => exact window _ (by simp) (by simp) (nw _)
  | setWindow a k => exact window _ (by simp) (by simp) (nw _)
  | setMinObs a k => exact window _ (by simp) (by simp) (nw _)

theorem wrun_slots (ops : List WOp) : ∀ w : WSys, w.SlotsCurrent → (w.run ops).SlotsCurrent := by
  induction ops with
  | nil => intro w h; exact h
  | cons op r ih => intro w h; exact ih _ (wstep_slots w op h)

theorem winit_slots (minTrain : Int) (tol varThr : Rat) (g : Treg) (cap : Int) :
    (WSys.init minTrain tol varThr g cap).SlotsCurrent := by
  intro a d sd h; simp [WSys.init] at h

/-- a window operation is well formed if the pipeline operation it carries is -/
def WOp.WF : WOp → Prop
  | .sys op => op.WF
  | _ => True

theorem wops_wf (w : WSys) (op : WOp) (h : op.WF) : ∀ o ∈ w.ops op, o.WF := by
  intro o ho
  cases op with
  | sys x =>
    cases x <;> simp only [WSys.ops] at ho
    case showP a p => split at ho <;> simp_all [Op.WF]
    all_goals simp_all [WOp.WF, Op.WF]
  | install a ws mo => simp only [WSys.ops, List.mem_cons, List.mem_nil_iff, or_false] at ho; rcases ho with rfl | rfl <;> trivial
  | record a ob sd => simp only [WSys.ops] at ho; split at ho <;> simp_all [Op.WF]
  | canary a x => simp only [WSys.ops] at ho; split at ho <;> simp_all [Op.WF]
  | clear a => simp only [WSys.ops] at ho; split at ho <;> simp_all [Op.WF]
  | setCanaries a l => simp only [WSys.ops] at ho; split at ho <;> simp_all [Op.WF]
  | setObs a l sd => simp only [WSys.ops] at ho; split at ho <;> simp_all [Op.WF]
  | setWindow a k => simp only [WSys.ops] at ho; split at ho <;> simp_all [Op.WF]
  | setMinObs a k => simp only [WSys.ops] at ho; split at ho <;> simp_all [Op.WF]

theorem wtrace_wf (ops : List WOp) : ∀ w : WSys, (∀ op ∈ ops, op.WF) → ∀ o ∈ w.trace ops, o.WF := by
  induction ops with
  | nil => intro w _ o ho; simp [WSys.trace] at ho
  | cons op r ih =>
    intro w h o ho
    simp only [WSys.trace, List.mem_append] at ho
    rcases ho with ho | ho
    · exact wops_wf w op (h op (by simp)) o ho
    · exact ih _ (fun x hx => h x (by simp [hx])) o ho

end Operon.Immune
