import Operon.Model.MitoTools
/-! Helper lemmas for C03: every operation only appends executions of tools that are within the ceiling in force. -/
namespace Operon.MitoTools

/-! ### registry -/

theorem lookup_nil (n : String) : Registry.lookup [] n = none := rfl

theorem lookup_cons (p : String × Tool) (ps : Registry) (n : String) :
    Registry.lookup (p :: ps) n = if p.1 == n then some p.2 else Registry.lookup ps n := by
  unfold Registry.lookup
  by_cases h : (p.1 == n) = true
  · simp [h]
  · have h' : (p.1 == n) = false := by simpa using h
    simp [h']

theorem lookup_set (r : Registry) (n : String) (t : Tool) : (r.set n t).lookup n = some t := by
  unfold Registry.set
  split
  · rename_i h
    induction r with
    | nil => simp at h
    | cons p ps ih =>
      rw [List.map_cons, lookup_cons]
      by_cases hp : (p.1 == n) = true
      · simp [hp]
      · have hne : (p.1 == n) = false := by simpa using hp
        simp only [List.any_cons, hne, Bool.false_or] at h
        simp only [hne, Bool.false_eq_true, ite_false]
        exact ih h
  · rename_i h
    induction r with
    | nil => simp [lookup_cons]
    | cons p ps ih =>
      simp only [List.any_cons, Bool.or_eq_true, not_or] at h
      have hne : (p.1 == n) = false := by simpa using h.1
      rw [List.cons_append, lookup_cons]
      simp only [hne]
      exact ih h.2

theorem lookup_redeclare (r : Registry) (n : String) (t : Tool) (req caps : Option (List Cap))
    (hl : r.lookup n = some t) :
    (r.redeclare n req caps).lookup n = some { t with req := req, caps := caps } := by
  unfold Registry.redeclare
  induction r with
  | nil => simp [lookup_nil] at hl
  | cons p ps ih =>
    rw [lookup_cons] at hl
    rw [List.map_cons, lookup_cons]
    by_cases hp : (p.1 == n) = true
    · simp only [hp, ite_true] at hl ⊢
      injection hl with hl
      rw [hl]
    · have hne : (p.1 == n) = false := by simpa using hp
      simp only [hne, Bool.false_eq_true, ite_false] at hl ⊢
      exact ih hl

/-! ### executions -/

/-- an execution that was within the ceiling it was judged against -/
def Ev.ok (e : Ev) : Prop := permitted e.ceiling e.tool = true

/-- `s'` keeps the ceiling of `s` and extends its execution log by tools that are all within that ceiling
    (the registry may change: registration can happen while a call is in flight) -/
def Ext (s s' : St) : Prop :=
  s'.allowed = s.allowed ∧
    ∃ new, s'.events = s.events ++ new ∧ ∀ e ∈ new, e.ceiling = s.allowed ∧ permitted s.allowed e.tool = true

theorem Ext.refl (s : St) : Ext s s := ⟨rfl, [], by simp, by simp⟩

theorem Ext.trans {a b c : St} (h1 : Ext a b) (h2 : Ext b c) : Ext a c := by
  obtain ⟨ha1, n1, he1, hp1⟩ := h1
  obtain ⟨ha2, n2, he2, hp2⟩ := h2
  refine ⟨ha2.trans ha1, n1 ++ n2, by rw [he2, he1, List.append_assoc], ?_⟩
  intro e he
  rcases List.mem_append.mp he with h | h
  · exact hp1 e h
  · have := hp2 e h
    rw [ha1] at this
    exact this

theorem ext_ros (s : St) : Ext s { s with rosErrors := s.rosErrors + 1 } := ⟨rfl, [], by simp, by simp⟩

theorem ext_during (s : St) (ops : List RegOp) : Ext s (during s ops) := ⟨rfl, [], by simp [during], by simp⟩

theorem ext_during_ros (s : St) (ops : List RegOp) :
    Ext s { during s ops with rosErrors := s.rosErrors + 1 } := ⟨rfl, [], by simp [during], by simp⟩

theorem runBody_ext (s : St) (t : Tool) (hp : permitted s.allowed t = true) : Ext s (runBody s t).1 := by
  unfold runBody
  split
  · exact ⟨rfl, [⟨t, s.allowed⟩], rfl, by simpa using hp⟩
  · exact ⟨rfl, [⟨t, s.allowed⟩], rfl, by simpa using hp⟩

theorem runBody_during_ext (s : St) (ops : List RegOp) (t : Tool) (hp : permitted s.allowed t = true) :
    Ext s (runBody (during s ops) t).1 :=
  Ext.trans (ext_during s ops) (runBody_ext (during s ops) t (by simpa [during] using hp))

theorem oxidative_ext (s : St) (callee : Callee) (argsOk : Bool) (ops : List RegOp) :
    Ext s (oxidative ⟨true, true⟩ s callee argsOk ops).1 := by
  unfold oxidative
  split
  · exact ext_ros s
  · exact ext_ros s
  · split
    · exact ext_ros s
    · rename_i t _
      by_cases hp : permitted s.allowed t = true
      · simp only [hp]
        split
        · rename_i h; simp at h
        · split
          · exact ext_during_ros s ops
          · exact runBody_during_ext s ops t hp
      · simp only [Bool.not_eq_true] at hp
        simp only [hp]
        exact ext_ros s

theorem metabolize_ext (s : St) (pre : Pre) (callee : Callee) (argsOk : Bool) (ops : List RegOp) :
    Ext s (metabolize ⟨true, true⟩ s pre callee argsOk ops).1 := by
  unfold metabolize
  split
  · exact Ext.refl s
  · exact Ext.refl s
  · exact ext_during s ops
  · exact Ext.refl s
  · exact oxidative_ext s callee argsOk ops

theorem executeToolCall_ext (s : St) (n : String) (ops : List RegOp) :
    Ext s (executeToolCall ⟨true, true⟩ s n ops).1 := by
  unfold executeToolCall
  split
  · exact Ext.refl s
  · rename_i t _
    by_cases hp : permitted s.allowed t = true
    · simp only [hp]
      split
      · rename_i h; simp at h
      · exact runBody_during_ext s ops t hp
    · simp only [Bool.not_eq_true] at hp
      simp only [hp]
      exact ext_ros s

theorem loopRound_ext : ∀ (cs : List (String × List RegOp)) (s : St), Ext s (loopRound ⟨true, true⟩ s cs).1
  | [], s => Ext.refl s
  | c :: cs, s => by
    simp only [loopRound]
    exact Ext.trans (executeToolCall_ext s c.1 c.2) (loopRound_ext cs _)

theorem loopRound_length (g : Guards) : ∀ (cs : List (String × List RegOp)) (s : St),
    (loopRound g s cs).2.length = cs.length
  | [], _ => rfl
  | c :: cs, s => by simp [loopRound, loopRound_length g cs]

theorem loopRound_append (g : Guards) : ∀ (a b : List (String × List RegOp)) (s : St),
    loopRound g s (a ++ b) =
      ((loopRound g (loopRound g s a).1 b).1, (loopRound g s a).2 ++ (loopRound g (loopRound g s a).1 b).2)
  | [], b, s => by simp [loopRound]
  | c :: a, b, s => by
    simp only [List.cons_append, loopRound]
    rw [loopRound_append g a b]

theorem toolLoop_ext : ∀ (k : Nat) (auto : Bool) (rounds : List Round) (s : St),
    Ext s (toolLoop ⟨true, true⟩ k auto s rounds).1
  | 0, _, _, s => by simp [toolLoop]; exact Ext.refl s
  | _ + 1, _, [], s => by simp [toolLoop]; exact Ext.refl s
  | k + 1, auto, r :: rounds, s => by
    simp only [toolLoop]
    split
    · exact ext_during s r.before
    · exact Ext.trans (ext_during s r.before)
        (Ext.trans (loopRound_ext r.calls _) (toolLoop_ext k auto rounds _))

/-- log-only extension: what `step` guarantees (the ceiling itself may be re-assigned between requests) -/
def ExtLog (s s' : St) : Prop :=
  ∃ new, s'.events = s.events ++ new ∧ ∀ e ∈ new, e.ceiling = s.allowed ∧ permitted s.allowed e.tool = true

theorem step_extLog (s : St) (op : Op) : ExtLog s (step ⟨true, true⟩ s op) := by
  cases op with
  | register n t => exact ⟨[], by simp [step], by simp⟩
  | unregister n => exact ⟨[], by simp [step], by simp⟩
  | redeclare n req caps => exact ⟨[], by simp [step], by simp⟩
  | setCeiling al => exact ⟨[], by simp [step], by simp⟩
  | script b ops => exact ⟨[], by simp [step], by simp⟩
  | metabolize pre callee argsOk ops => exact (metabolize_ext s pre callee argsOk ops).2
  | call n ops => exact (executeToolCall_ext s n ops).2
  | loop k auto rounds =>
    simp only [step]
    split
    · exact ⟨[], by simp, by simp⟩
    · exact (toolLoop_ext k auto rounds s).2

/-- does the history re-assign the ceiling? -/
def Op.isSetCeiling : Op → Bool
  | .setCeiling _ => true
  | _ => false

theorem step_allowed (s : St) (op : Op) (h : op.isSetCeiling = false) :
    (step ⟨true, true⟩ s op).allowed = s.allowed := by
  cases op with
  | register n t => rfl
  | unregister n => rfl
  | redeclare n req caps => rfl
  | setCeiling al => simp [Op.isSetCeiling] at h
  | script b ops => rfl
  | metabolize pre callee argsOk ops => exact (metabolize_ext s pre callee argsOk ops).1
  | call n ops => exact (executeToolCall_ext s n ops).1
  | loop k auto rounds =>
    simp only [step]
    split
    · rfl
    · exact (toolLoop_ext k auto rounds s).1

theorem run_events (ops : List Op) : ∀ (s : St),
    (∀ e ∈ s.events, e.ok) → ∀ e ∈ (run ⟨true, true⟩ s ops).events, e.ok := by
  induction ops with
  | nil => intro s h; simpa [run] using h
  | cons op ops ih =>
    intro s h
    simp only [run, List.foldl_cons]
    apply ih
    obtain ⟨new, he, hp⟩ := step_extLog s op
    intro e hm
    rw [he] at hm
    rcases List.mem_append.mp hm with h' | h'
    · exact h e h'
    · have := hp e h'
      unfold Ev.ok
      rw [this.1]
      exact this.2

/-- without re-assignment of the ceiling every execution was judged against the ceiling of the start state -/
theorem run_events_fixed (ops : List Op) : ∀ (s : St),
    (∀ op ∈ ops, op.isSetCeiling = false) →
    (∀ e ∈ s.events, e.ceiling = s.allowed) →
    (run ⟨true, true⟩ s ops).allowed = s.allowed ∧ ∀ e ∈ (run ⟨true, true⟩ s ops).events, e.ceiling = s.allowed := by
  induction ops with
  | nil => intro s _ h; exact ⟨rfl, by simpa [run] using h⟩
  | cons op ops ih =>
    intro s hno h
    simp only [run, List.foldl_cons]
    have ha := step_allowed s op (hno op (by simp))
    have := ih (step ⟨true, true⟩ s op) (fun o ho => hno o (by simp [ho])) (by
      obtain ⟨new, he, hp⟩ := step_extLog s op
      intro e hm
      rw [he] at hm
      rw [ha]
      rcases List.mem_append.mp hm with h' | h'
      · exact h e h'
      · exact (hp e h').1)
    rw [ha] at this
    exact this

end Operon.MitoTools
