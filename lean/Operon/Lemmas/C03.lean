import Operon.Model.MitoTools
/-! Helper lemmas for C03: every operation only appends permitted tools to the execution log. -/
namespace Operon.MitoTools

/-- `s'` extends the execution log of `s` by tools that are all within the ceiling; the registry is unchanged -/
def Ext (allowed : Option (List Cap)) (s s' : St) : Prop :=
  s'.reg = s.reg ∧ ∃ new, s'.events = s.events ++ new ∧ ∀ t ∈ new, permitted allowed t = true

theorem Ext.refl (allowed : Option (List Cap)) (s : St) : Ext allowed s s :=
  ⟨rfl, [], by simp, by simp⟩

theorem Ext.trans {allowed : Option (List Cap)} {a b c : St} (h1 : Ext allowed a b) (h2 : Ext allowed b c) :
    Ext allowed a c := by
  obtain ⟨hr1, n1, he1, hp1⟩ := h1
  obtain ⟨hr2, n2, he2, hp2⟩ := h2
  refine ⟨hr2.trans hr1, n1 ++ n2, by rw [he2, he1, List.append_assoc], ?_⟩
  intro t ht
  rcases List.mem_append.mp ht with h | h
  · exact hp1 t h
  · exact hp2 t h

theorem ext_ros (allowed : Option (List Cap)) (s : St) :
    Ext allowed s { s with rosErrors := s.rosErrors + 1 } := ⟨rfl, [], by simp, by simp⟩

theorem runBody_ext (allowed : Option (List Cap)) (s : St) (t : Tool) (hp : permitted allowed t = true) :
    Ext allowed s (runBody s t).1 := by
  unfold runBody
  split
  · exact ⟨rfl, [t], rfl, by simpa using hp⟩
  · exact ⟨rfl, [t], rfl, by simpa using hp⟩

theorem oxidative_ext (allowed : Option (List Cap)) (s : St) (callee : Callee) (argsOk : Bool) :
    Ext allowed s (oxidative ⟨true, true⟩ allowed s callee argsOk).1 := by
  unfold oxidative
  split
  · exact ext_ros allowed s
  · exact ext_ros allowed s
  · split
    · exact ext_ros allowed s
    · rename_i t _
      by_cases hp : permitted allowed t = true
      · simp only [hp]
        split
        · rename_i h; simp at h
        · split
          · exact ext_ros allowed s
          · exact runBody_ext allowed s t hp
      · simp only [Bool.not_eq_true] at hp
        simp only [hp]
        exact ext_ros allowed s

theorem metabolize_ext (allowed : Option (List Cap)) (s : St) (pre : Pre) (callee : Callee) (argsOk : Bool) :
    Ext allowed s (metabolize ⟨true, true⟩ allowed s pre callee argsOk).1 := by
  unfold metabolize
  split
  · exact Ext.refl allowed s
  · exact Ext.refl allowed s
  · exact Ext.refl allowed s
  · exact oxidative_ext allowed s callee argsOk

theorem executeToolCall_ext (allowed : Option (List Cap)) (s : St) (n : String) :
    Ext allowed s (executeToolCall ⟨true, true⟩ allowed s n).1 := by
  unfold executeToolCall
  split
  · exact Ext.refl allowed s
  · rename_i t _
    by_cases hp : permitted allowed t = true
    · simp only [hp]
      split
      · rename_i h; simp at h
      · exact runBody_ext allowed s t hp
    · simp only [Bool.not_eq_true] at hp
      simp only [hp]
      exact ext_ros allowed s

theorem loopRound_ext (allowed : Option (List Cap)) : ∀ (ns : List String) (s : St),
    Ext allowed s (loopRound ⟨true, true⟩ allowed s ns).1
  | [], s => Ext.refl allowed s
  | n :: ns, s => by
    simp only [loopRound]
    exact Ext.trans (executeToolCall_ext allowed s n) (loopRound_ext allowed ns _)

theorem toolLoop_ext (allowed : Option (List Cap)) : ∀ (k : Nat) (rounds : List (List String)) (s : St),
    Ext allowed s (toolLoop ⟨true, true⟩ allowed k s rounds).1
  | 0, _, s => by simp [toolLoop]; exact Ext.refl allowed s
  | _ + 1, [], s => by simp [toolLoop]; exact Ext.refl allowed s
  | _ + 1, [] :: _, s => by simp [toolLoop]; exact Ext.refl allowed s
  | k + 1, (c :: cs) :: rounds, s => by
    simp only [toolLoop]
    exact Ext.trans (loopRound_ext allowed (c :: cs) s) (toolLoop_ext allowed k rounds _)

/-- log-only extension (registry may change): what `step` guarantees -/
def ExtLog (allowed : Option (List Cap)) (s s' : St) : Prop :=
  ∃ new, s'.events = s.events ++ new ∧ ∀ t ∈ new, permitted allowed t = true

theorem step_extLog (allowed : Option (List Cap)) (s : St) (op : Op) :
    ExtLog allowed s (step ⟨true, true⟩ allowed s op) := by
  cases op with
  | register n t => exact ⟨[], by simp [step], by simp⟩
  | unregister n => exact ⟨[], by simp [step], by simp⟩
  | metabolize pre callee argsOk => exact (metabolize_ext allowed s pre callee argsOk).2
  | call n => exact (executeToolCall_ext allowed s n).2
  | loop k auto rounds =>
    simp only [step]
    split
    · exact ⟨[], by simp, by simp⟩
    · exact (toolLoop_ext allowed k rounds s).2

theorem run_events (allowed : Option (List Cap)) (ops : List Op) : ∀ (s : St),
    (∀ t ∈ s.events, permitted allowed t = true) →
    ∀ t ∈ (run ⟨true, true⟩ allowed s ops).events, permitted allowed t = true := by
  induction ops with
  | nil => intro s h; simpa [run] using h
  | cons op ops ih =>
    intro s h
    simp only [run, List.foldl_cons]
    apply ih
    obtain ⟨new, he, hp⟩ := step_extLog allowed s op
    intro t ht
    rw [he] at ht
    rcases List.mem_append.mp ht with h' | h'
    · exact h t h'
    · exact hp t h'

end Operon.MitoTools
