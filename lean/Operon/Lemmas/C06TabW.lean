import Operon.Model.QuorumTab
/-!
# C06 - the evaluated weight table against the model (core Lean only; used by Props/C06T.lean, which lake checks in
parallel with Props/C06.lean)
-/
namespace Operon.Quorum
open Operon.Gen.Quorum

def weightRowOk (row : (Nat × Option Rat × Nat) × Nat) : Bool :=
  match cfgOfCode row.1 with
  | some cfg => agreeB (unpack weightBallots.length row.2) (weightBallots.map (outcomeCode cfg))
  | none => false

/-- "every row of the evaluated weight table (WEIGHTED / CONFIDENCE / BAYESIAN x every multiset of <= 3 voters of the
    alphabet) is reproduced by `runVote`; digit 7 = not compared (float boundary)": established with `decide +kernel`
    inside `c06_weight_tables_agree` (Props/C06T.lean) -/
def WeightTableOk : Prop := weightTable.all weightRowOk = true

theorem agreeB_get {ds ms : List Nat} (h : agreeB ds ms = true) :
    ds.length = ms.length ∧ ∀ (i : Nat) d m, ds[i]? = some d → ms[i]? = some m → d = 7 ∨ d = m := by
  induction ds generalizing ms with
  | nil =>
    cases ms with
    | nil => exact ⟨rfl, fun i d m h1 _ => by simp at h1⟩
    | cons _ _ => simp [agreeB] at h
  | cons x xs ih =>
    cases ms with
    | nil => simp [agreeB] at h
    | cons y ys =>
      simp only [agreeB, Bool.and_eq_true, Bool.or_eq_true, beq_iff_eq] at h
      obtain ⟨h1, h2⟩ := ih h.2
      refine ⟨by simp [h1], ?_⟩
      intro i d m hd hm
      cases i with
      | zero =>
        simp only [List.getElem?_cons_zero, Option.some.injEq] at hd hm
        rw [← hd, ← hm]; exact h.1
      | succ j =>
        simp only [List.getElem?_cons_succ] at hd hm
        exact h2 j d m hd hm

end Operon.Quorum
