import Operon.Lemmas.Mito
/-! C01 helper lemmas: confinement of the walker's trace, failure of strictly evaluated refused nodes,
    linear work. -/
namespace Operon.Mito
open R

/-- every primitive the tables can hand out -/
def primsOf (T : Tables) : List Prim := T.bin.map (·.2) ++ T.un.map (·.2) ++ T.cmp.map (·.2)

/-- What the walker may do: look an allow-listed name up, apply a primitive found in the operator tables,
    take `bool()` of a value, call the value bound to an allow-listed name.  Running a tool is NOT allowed here
    (the walker never does; only the tool pathway does, see `AllowedTool`). -/
def Allowed (T : Tables) (env : Env) : Act → Prop
  | .lookup n => n ∈ T.names
  | .prim p _ => p ∈ primsOf T
  | .truthy _ => True
  | .apply f _ _ => ∃ n, n ∈ T.names ∧ f = env.lookup n
  | .tool _ _ _ => False

theorem truthyR_allowed (T : Tables) (env : Env) (v : Val) : ∀ a ∈ (truthyR env v).1, Allowed T env a := by
  cases v <;> simp [truthyR, Allowed]

theorem mem_primsOf_bin {T : Tables} {k p} (h : T.bin.lookup k = some p) : p ∈ primsOf T := by
  have := lookup_mem _ _ _ h
  simp only [primsOf, List.mem_append, List.mem_map]
  exact Or.inl (Or.inl ⟨(k, p), this, rfl⟩)

theorem mem_primsOf_un {T : Tables} {k p} (h : T.un.lookup k = some p) : p ∈ primsOf T := by
  have := lookup_mem _ _ _ h
  simp only [primsOf, List.mem_append, List.mem_map]
  exact Or.inl (Or.inr ⟨(k, p), this, rfl⟩)

theorem mem_primsOf_cmp {T : Tables} {k p} (h : T.cmp.lookup k = some p) : p ∈ primsOf T := by
  have := lookup_mem _ _ _ h
  simp only [primsOf, List.mem_append, List.mem_map]
  exact Or.inr ⟨(k, p), this, rfl⟩

section confined
variable (T : Tables) (env : Env)

mutual
theorem walk_confined : ∀ e, ∀ a ∈ (walk T env e).1, Allowed T env a
  | .const v => by simp [walk]
  | .name id => by
    unfold walk; split
    · rename_i h; simp [Allowed, h]
    · simp
  | .binop k l r => by
    unfold walk
    refine bind_all _ _ _ (walk_confined l) fun a => bind_all _ _ _ (walk_confined r) fun b => ?_
    split
    · simp
    · rename_i p hp; simp [Allowed, mem_primsOf_bin hp]
  | .unop k e => by
    unfold walk
    refine bind_all _ _ _ (walk_confined e) fun a => ?_
    split
    · exact bind_all _ _ _ (truthyR_allowed T env a) fun b => by simp
    · split
      · simp
      · rename_i p hp; simp [Allowed, mem_primsOf_un hp]
  | .call f args kn kv => by
    unfold walk
    split
    · rename_i fn
      split
      · rename_i hmem
        split
        · simp
        · refine bind_all' _ _ _ (by simp [Allowed, hmem]) fun fv hfv => ?_
          have hfv' : fv = env.lookup fn := by simpa using hfv.symm
          refine bind_all _ _ _ (walkList_confined args) fun as =>
            bind_all _ _ _ (walkKws_confined kn kv) fun ks => ?_
          simp only [act_fst, List.mem_singleton, forall_eq, Allowed]
          exact ⟨fn, hmem, hfv'⟩
      · simp
    · simp
  | .list es => by
    unfold walk; exact bind_all _ _ _ (walkList_confined es) fun vs => by simp
  | .tuple es => by
    unfold walk; exact bind_all _ _ _ (walkList_confined es) fun vs => by simp
  | .compare l ops cs => by
    unfold walk; exact bind_all _ _ _ (walk_confined l) fun a => walkCmp_confined a ops cs
  | .boolop k es => by
    unfold walk; split
    · exact walkBool_confined k es
    · simp
  | .ifexp c t e => by
    unfold walk
    refine bind_all _ _ _ (walk_confined c) fun cv => bind_all _ _ _ (truthyR_allowed T env cv) fun b => ?_
    split
    · exact walk_confined t
    · exact walk_confined e
  | .other _ _ => by simp [walk]

theorem walkList_confined : ∀ es, ∀ a ∈ (walkList T env es).1, Allowed T env a
  | [] => by simp [walkList]
  | e :: es => by
    unfold walkList
    exact bind_all _ _ _ (walk_confined e) fun v => bind_all _ _ _ (walkList_confined es) fun vs => by simp

theorem walkKws_confined (kn : List (Option String)) : ∀ es, ∀ a ∈ (walkKws T env kn es).1, Allowed T env a
  | [] => by simp [walkKws]
  | e :: es => by
    unfold walkKws
    split
    · simp
    · simp
    · rename_i n ns
      exact bind_all _ _ _ (walk_confined e) fun v => bind_all _ _ _ (walkKws_confined ns es) fun r => by simp

theorem walkCmp_confined (a : Val) (ops : List CmpK) : ∀ cs, ∀ x ∈ (walkCmp T env a ops cs).1, Allowed T env x
  | [] => by simp [walkCmp]
  | c :: cs => by
    unfold walkCmp
    split
    · simp
    · rename_i op ops'
      refine bind_all _ _ _ (walk_confined c) fun right => ?_
      split
      · simp
      · rename_i p hp
        refine bind_all _ _ _ (by simp [Allowed, mem_primsOf_cmp hp]) fun r =>
          bind_all _ _ _ (truthyR_allowed T env r) fun b => ?_
        split
        · exact walkCmp_confined right ops' cs
        · simp

theorem walkBool_confined (k : BoolK) : ∀ es, ∀ a ∈ (walkBool T env k es).1, Allowed T env a
  | [] => by simp [walkBool]
  | e :: es => by
    unfold walkBool
    split
    · exact walk_confined e
    · refine bind_all _ _ _ (walk_confined e) fun v => bind_all _ _ _ (truthyR_allowed T env v) fun b => ?_
      split
      · simp
      · exact walkBool_confined _ _
end

/-! #### linear work: `|trace| ≤ 3 · nodes − 2` -/

theorem nodes_pos : ∀ e : Expr, 1 ≤ e.nodes := by
  intro e; cases e <;> simp [Expr.nodes] <;> omega

mutual
theorem walk_len : ∀ e, (walk T env e).1.length ≤ 3 * e.nodes - 2
  | .const v => by simp [walk, Expr.nodes]
  | .name id => by unfold walk; split <;> simp [Expr.nodes]
  | .binop k l r => by
    have := nodes_pos l; have := nodes_pos r
    unfold walk; simp only [Expr.nodes]
    refine length_bind_le' (3 * l.nodes - 2) (3 * r.nodes - 2 + 1) _ (walk_len l) (fun a =>
      length_bind_le' (3 * r.nodes - 2) 1 _ (walk_len r) (fun b => ?_) (Nat.le_refl _)) (by omega)
    split <;> simp
  | .unop k e => by
    have := nodes_pos e
    unfold walk; simp only [Expr.nodes]
    refine length_bind_le' (3 * e.nodes - 2) 1 _ (walk_len e) (fun a => ?_) (by omega)
    split
    · exact length_bind_le' 1 0 _ (truthyR_length env a) (fun b => by simp) (Nat.le_refl _)
    · split <;> simp
  | .call f args kn kv => by
    have := nodes_pos f
    unfold walk; simp only [Expr.nodes]
    split
    · split
      · split
        · simp
        · refine length_bind_le' 1 (3 * nodesList args + (3 * nodesList kv + 1)) _ (by simp) (fun fv =>
            length_bind_le' _ _ _ (walkList_len args) (fun as =>
              length_bind_le' _ 1 _ (walkKws_len kn kv) (fun ks => by simp) (Nat.le_refl _)) (Nat.le_refl _)) ?_
          simp only [Expr.nodes]; omega
      · simp
    · simp
  | .list es => by
    unfold walk; simp only [Expr.nodes]
    exact length_bind_le' _ 0 _ (walkList_len es) (fun vs => by simp) (by omega)
  | .tuple es => by
    unfold walk; simp only [Expr.nodes]
    exact length_bind_le' _ 0 _ (walkList_len es) (fun vs => by simp) (by omega)
  | .compare l ops cs => by
    have := nodes_pos l
    unfold walk; simp only [Expr.nodes]
    exact length_bind_le' (3 * l.nodes - 2) _ _ (walk_len l) (fun a => walkCmp_len a ops cs) (by omega)
  | .boolop k es => by
    have h := walkBool_len k es
    unfold walk; simp only [Expr.nodes]; split
    · omega
    · simp
  | .ifexp c t e => by
    have := nodes_pos c; have := nodes_pos t; have := nodes_pos e
    have ht := walk_len t; have he := walk_len e
    unfold walk; simp only [Expr.nodes]
    refine length_bind_le' (3 * c.nodes - 2) (1 + (3 * t.nodes + 3 * e.nodes - 2)) _ (walk_len c) (fun cv =>
      length_bind_le' _ _ _ (truthyR_length env cv) (fun b => ?_) (Nat.le_refl _)) (by omega)
    split <;> omega
  | .other _ cs => by simp [walk, Expr.nodes]

theorem walkList_len : ∀ es, (walkList T env es).1.length ≤ 3 * nodesList es
  | [] => by simp [walkList, nodesList]
  | e :: es => by
    have := nodes_pos e
    unfold walkList; simp only [nodesList]
    exact length_bind_le' (3 * e.nodes - 2) (3 * nodesList es + 0) _ (walk_len e) (fun v =>
      length_bind_le' _ _ _ (walkList_len es) (fun vs => by simp) (Nat.le_refl _)) (by omega)

theorem walkKws_len (kn : List (Option String)) : ∀ es, (walkKws T env kn es).1.length ≤ 3 * nodesList es
  | [] => by simp [walkKws, nodesList]
  | e :: es => by
    have := nodes_pos e
    unfold walkKws; simp only [nodesList]
    split
    · simp
    · simp
    · rename_i n ns
      exact length_bind_le' (3 * e.nodes - 2) (3 * nodesList es + 0) _ (walk_len e) (fun v =>
        length_bind_le' _ _ _ (walkKws_len ns es) (fun vs => by simp) (Nat.le_refl _)) (by omega)

theorem walkCmp_len (a : Val) (ops : List CmpK) : ∀ cs, (walkCmp T env a ops cs).1.length ≤ 3 * nodesList cs
  | [] => by simp [walkCmp, nodesList]
  | c :: cs => by
    have := nodes_pos c
    unfold walkCmp; simp only [nodesList]
    split
    · simp
    · rename_i op ops'
      refine length_bind_le' (3 * c.nodes - 2) (1 + (1 + 3 * nodesList cs)) _ (walk_len c) (fun right => ?_) (by omega)
      split
      · simp
      · exact length_bind_le' _ _ _ (by simp) (fun r => length_bind_le' _ _ _ (truthyR_length env r)
          (fun b => by
            split
            · exact walkCmp_len right ops' cs
            · simp) (Nat.le_refl _)) (Nat.le_refl _)

theorem walkBool_len (k : BoolK) : ∀ es, (walkBool T env k es).1.length ≤ 3 * nodesList es
  | [] => by simp [walkBool, nodesList]
  | e :: es => by
    have := nodes_pos e
    have he := walk_len e
    have hs := walkBool_len k es
    unfold walkBool; simp only [nodesList]
    split
    · omega
    · rename_i x xs
      refine length_bind_le' (3 * e.nodes - 2) (1 + 3 * nodesList (x :: xs)) _ he (fun v =>
        length_bind_le' _ _ _ (truthyR_length env v) (fun b => ?_) (Nat.le_refl _)) (by simp only [nodesList]; omega)
      split
      · simp
      · exact hs
end
end confined


/-! #### nodes in strict positions: evaluated whatever the values are, provided everything before them succeeded -/

mutual
def Expr.strictSub : Expr → List Expr
  | .const _ => []
  | .name _ => []
  | .binop _ l r => l :: l.strictSub ++ (r :: r.strictSub)
  | .unop _ e => e :: e.strictSub
  | .call _ args kn kv => strictList args ++ strictKws kn kv
  | .list es => strictList es
  | .tuple es => strictList es
  | .compare l ops cs => l :: l.strictSub ++ strictFirst (ops.isEmpty) cs
  | .boolop _ es => strictFirst false es
  | .ifexp c _ _ => c :: c.strictSub
  | .other _ _ => []
def strictList : List Expr → List Expr
  | [] => []
  | e :: es => e :: e.strictSub ++ strictList es
/-- keyword values up to (not including) the first `**mapping` argument -/
def strictKws (kn : List (Option String)) : List Expr → List Expr
  | [] => []
  | e :: es =>
    match kn with
    | some _ :: ns => e :: e.strictSub ++ strictKws ns es
    | _ => []
/-- the first element only (first operand of and/or, first comparator) -/
def strictFirst (skip : Bool) : List Expr → List Expr
  | [] => []
  | e :: _ => if skip then [] else e :: e.strictSub
end

section strict
variable (T : Tables) (env : Env)

mutual
theorem strict_fails : ∀ e n, n ∈ e.strictSub → (walk T env n).failed → (walk T env e).failed
  | .const _, n, h, _ => by simp [Expr.strictSub] at h
  | .name _, n, h, _ => by simp [Expr.strictSub] at h
  | .binop k l r, n, h, hf => by
    unfold walk
    simp only [Expr.strictSub, List.mem_append, List.mem_cons] at h
    rcases h with (h | h) | (h | h)
    · subst h; exact bind_failed_left _ _ hf
    · exact bind_failed_left _ _ (strict_fails l n h hf)
    · subst h; exact bind_failed_right _ _ fun a => bind_failed_left _ _ hf
    · exact bind_failed_right _ _ fun a => bind_failed_left _ _ (strict_fails r n h hf)
  | .unop k e, n, h, hf => by
    unfold walk
    simp only [Expr.strictSub, List.mem_cons] at h
    rcases h with h | h
    · subst h; exact bind_failed_left _ _ hf
    · exact bind_failed_left _ _ (strict_fails e n h hf)
  | .call f args kn kv, n, h, hf => by
    unfold walk
    simp only [Expr.strictSub, List.mem_append] at h
    split
    · split
      · split
        · exact failed_fail _
        · refine bind_failed_right _ _ fun fv => ?_
          rcases h with h | h
          · exact bind_failed_left _ _ (strictList_fails args n h hf)
          · exact bind_failed_right _ _ fun as => bind_failed_left _ _ (strictKws_fails kn kv n h hf)
      · exact failed_fail _
    · exact failed_fail _
  | .list es, n, h, hf => by
    unfold walk; exact bind_failed_left _ _ (strictList_fails es n (by simpa [Expr.strictSub] using h) hf)
  | .tuple es, n, h, hf => by
    unfold walk; exact bind_failed_left _ _ (strictList_fails es n (by simpa [Expr.strictSub] using h) hf)
  | .compare l ops cs, n, h, hf => by
    unfold walk
    simp only [Expr.strictSub, List.mem_append, List.mem_cons] at h
    rcases h with (h | h) | h
    · subst h; exact bind_failed_left _ _ hf
    · exact bind_failed_left _ _ (strict_fails l n h hf)
    · refine bind_failed_right _ _ fun a => ?_
      cases cs with
      | nil => simp [strictFirst] at h
      | cons c cs =>
        cases ops with
        | nil => simp [strictFirst] at h
        | cons op ops' =>
          unfold walkCmp
          simp only [strictFirst, List.isEmpty_cons, Bool.false_eq_true, if_false, List.mem_cons] at h
          rcases h with h | h
          · subst h; exact bind_failed_left _ _ hf
          · exact bind_failed_left _ _ (strict_fails c n h hf)
  | .boolop k es, n, h, hf => by
    unfold walk
    split
    · cases es with
      | nil => simp [Expr.strictSub, strictFirst] at h
      | cons e es =>
        simp only [Expr.strictSub, strictFirst, Bool.false_eq_true, if_false, List.mem_cons] at h
        have he : (walk T env e).failed := by
          rcases h with h | h
          · subst h; exact hf
          · exact strict_fails e n h hf
        unfold walkBool
        split
        · exact he
        · exact bind_failed_left _ _ he
    · exact failed_fail _
  | .ifexp c t e, n, h, hf => by
    unfold walk
    simp only [Expr.strictSub, List.mem_cons] at h
    rcases h with h | h
    · subst h; exact bind_failed_left _ _ hf
    · exact bind_failed_left _ _ (strict_fails c n h hf)
  | .other _ _, n, h, _ => by simp [Expr.strictSub] at h

theorem strictList_fails : ∀ es n, n ∈ strictList es → (walk T env n).failed → (walkList T env es).failed
  | [], n, h, _ => by simp [strictList] at h
  | e :: es, n, h, hf => by
    unfold walkList
    simp only [strictList, List.mem_append, List.mem_cons] at h
    rcases h with (h | h) | h
    · subst h; exact bind_failed_left _ _ hf
    · exact bind_failed_left _ _ (strict_fails e n h hf)
    · exact bind_failed_right _ _ fun v => bind_failed_left _ _ (strictList_fails es n h hf)

theorem strictKws_fails (kn : List (Option String)) : ∀ es n, n ∈ strictKws kn es → (walk T env n).failed →
    (walkKws T env kn es).failed
  | [], n, h, _ => by simp [strictKws] at h
  | e :: es, n, h, hf => by
    unfold walkKws
    unfold strictKws at h
    split
    · simp at h
    · simp at h
    · rename_i nm ns
      simp only [List.mem_append, List.mem_cons] at h
      rcases h with (h | h) | h
      · subst h; exact bind_failed_left _ _ hf
      · exact bind_failed_left _ _ (strict_fails e n h hf)
      · exact bind_failed_right _ _ fun v => bind_failed_left _ _ (strictKws_fails ns es n h hf)
end
end strict

/-! #### size of pow-free integer arithmetic -/

theorem val_lt_budget : ∀ e : IExpr, e.powFree = true → e.val < 2 ^ e.budget
  | .lit n, _ => by simpa [IExpr.val, IExpr.budget] using Nat.lt_log2_self
  | .add a b, h => by
    simp only [IExpr.powFree, Bool.and_eq_true] at h
    have ha := val_lt_budget a h.1; have hb := val_lt_budget b h.2
    simp only [IExpr.val, IExpr.budget]
    have h1 : 2 ^ a.budget ≤ 2 ^ (a.budget + b.budget) := Nat.pow_le_pow_right (by omega) (by omega)
    have h2 : 2 ^ b.budget ≤ 2 ^ (a.budget + b.budget) := Nat.pow_le_pow_right (by omega) (by omega)
    have h3 : 2 ^ (a.budget + b.budget + 1) = 2 * 2 ^ (a.budget + b.budget) := by rw [Nat.pow_succ]; omega
    omega
  | .mul a b, h => by
    simp only [IExpr.powFree, Bool.and_eq_true] at h
    have ha := val_lt_budget a h.1; have hb := val_lt_budget b h.2
    simp only [IExpr.val, IExpr.budget, Nat.pow_add]
    exact Nat.mul_lt_mul'' ha hb
  | .pow _ _, h => by simp [IExpr.powFree] at h

theorem two_pow_le_pow_val (a b : IExpr) (h : 2 ≤ a.val) : 2 ^ b.val ≤ (IExpr.pow a b).val := by
  show 2 ^ b.val ≤ a.val ^ b.val
  exact Nat.pow_le_pow_left h _

/-- a `**mapping` argument among the keywords makes the keyword evaluation fail (lists of equal length, as the parser
    produces them) -/
theorem walkKws_star_fails (T : Tables) (env : Env) :
    ∀ (kn : List (Option String)) (kv : List Expr), none ∈ kn → kn.length = kv.length → (walkKws T env kn kv).failed
  | [], _, h, _ => by simp at h
  | _ :: _, [], _, hl => by simp at hl
  | none :: _, _ :: _, _, _ => by unfold walkKws; exact R.failed_fail _
  | some n :: ns, e :: es, h, hl => by
    unfold walkKws
    have h' : none ∈ ns := by simpa using h
    have hl' : ns.length = es.length := by simpa using hl
    exact R.bind_failed_right _ _ fun v => R.bind_failed_left _ _ (walkKws_star_fails T env ns es h' hl')

end Operon.Mito
