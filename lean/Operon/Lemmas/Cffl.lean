import Operon.Model.Cffl
/-!
  Decomposition of `run` shared by the C07 and C08 lemmas: `run` factors through the breaker automaton —
  the breaker part of the state after a request is a function of the breaker part before, the clock and the
  *kind* of the request only — and the reply is either CIRCUIT_OPEN, a cache hit, or `consultOut` (a
  function of the prompt and the two agents' responses only).
-/
namespace Operon.Cffl

theorem mem_allCls (c : Cls) : c ∈ allCls := by cases c <;> decide
theorem mem_allGates (g : Gate) : g ∈ allGates := by cases g <;> decide

/-- the breaker turns the request away -/
def rejects (cfg : Cfg) (now : Nat) (b : Breaker) : Bool :=
  cfg.breakerOn && (b.cstate == .opened) && !elapsedOk cfg now b

/-- breaker state once the request has been admitted (an open breaker past its timeout goes half-open) -/
def enter (cfg : Cfg) (now : Nat) (b : Breaker) : Breaker :=
  if cfg.breakerOn && (b.cstate == .opened) && elapsedOk cfg now b then { b with cstate := .halfOpen } else b

/-- what the kind of an admitted request does to the breaker -/
def applyKind (cfg : Cfg) (now : Nat) (b : Breaker) : Kind → Breaker
  | .agentExc => recordFailure cfg now b
  | .gated ev => applyEvent cfg now b ev
  | _ => b

/-- the breaker automaton: one request of kind `k` -/
def brStep (cfg : Cfg) (now : Nat) (b : Breaker) (k : Kind) : Breaker :=
  if k = .circuitOpen then b else applyKind cfg now (enter cfg now b) k

/-- number of failure outcomes in a trace -/
def failureCount (tr : List Obs) : Nat := (tr.filter fun o => o.out.kind.isFailure).length

theorem checkCircuit_eq (cfg : Cfg) (now : Nat) (b : Breaker) :
    checkCircuit cfg now b =
      if b.cstate = .opened ∧ elapsedOk cfg now b = false then (b, false)
      else (if b.cstate = .opened then { b with cstate := .halfOpen } else b, true) := by
  unfold checkCircuit
  cases h : b.cstate <;> simp
  cases h2 : elapsedOk cfg now b <;> simp

theorem run_eq (cfg : Cfg) (H : Hashes) (s : State) (p : Prompt) (zr yr : Resp) :
    run cfg H s p zr yr =
      if rejects cfg s.now s.br then (s, ⟨.circuitOpen, some circuitOpenResult⟩)
      else afterCircuit cfg H { s with br := enter cfg s.now s.br } p zr yr := by
  unfold run rejects enter
  cases hb : cfg.breakerOn
  · simp
  · rw [checkCircuit_eq]
    cases hc : s.br.cstate <;> simp
    cases he : elapsedOk cfg s.now s.br <;> simp

theorem checkCache_fst (cfg : Cfg) (H : Hashes) (s : State) (p : Prompt) :
    (checkCache cfg H s p).1.br = s.br ∧ (checkCache cfg H s p).1.now = s.now ∧
    (checkCache cfg H s p).1.execCalls = s.execCalls ∧ (checkCache cfg H s p).1.assessCalls = s.assessCalls ∧
    (checkCache cfg H s p).1.spent = s.spent := by
  unfold checkCache
  split
  · split <;> simp
  · simp

/-- everything later proofs need to know about the agent-consulting part of `run` -/
theorem consult_spec (cfg : Cfg) (H : Hashes) (s : State) (p : Prompt) (zr yr : Resp) :
    (consult cfg H s p zr yr).1.br = applyKind cfg s.now s.br (consult cfg H s p zr yr).2.kind ∧
    (consult cfg H s p zr yr).1.now = s.now ∧
    (consult cfg H s p zr yr).1.execCalls = s.execCalls + 1 ∧
    (consult cfg H s p zr yr).2.kind ≠ .circuitOpen ∧ (consult cfg H s p zr yr).2.kind ≠ .cacheHit ∧
    (consult cfg H s p zr yr).2.kind ≠ .admin := by
  unfold consult
  cases zr with
  | exc => simp [applyKind, callExecutor]
  | excU => simp [applyKind, callExecutor]
  | excB => simp [applyKind, callExecutor]
  | ret z =>
    cases yr with
    | exc => simp [applyKind, callExecutor, callAssessor]
    | excU => simp [applyKind, callExecutor, callAssessor]
    | excB => simp [applyKind, callExecutor, callAssessor]
    | ret y =>
      cases hp : p.enc <;> cases hc : cfg.cacheOn <;> simp [applyKind, callExecutor, callAssessor]

theorem afterCircuit_spec (cfg : Cfg) (H : Hashes) (s : State) (p : Prompt) (zr yr : Resp) :
    (afterCircuit cfg H s p zr yr).1.br = applyKind cfg s.now s.br (afterCircuit cfg H s p zr yr).2.kind ∧
    (afterCircuit cfg H s p zr yr).1.now = s.now ∧
    (afterCircuit cfg H s p zr yr).2.kind ≠ .circuitOpen ∧ (afterCircuit cfg H s p zr yr).2.kind ≠ .admin := by
  unfold afterCircuit
  cases hc : cfg.cacheOn
  · simp
    have h := consult_spec cfg H s p zr yr
    exact ⟨h.1, h.2.1, h.2.2.2.1, h.2.2.2.2.2⟩
  · cases hp : p.enc
    · simp [applyKind]
    · simp
      have hcc := checkCache_fst cfg H s p
      generalize hck : checkCache cfg H s p = ck at hcc
      obtain ⟨s1, o⟩ := ck
      cases o with
      | some r => simp [applyKind]; exact ⟨hcc.1, hcc.2.1⟩
      | none =>
        simp
        have h := consult_spec cfg H s1 p zr yr
        simp at hcc
        rw [hcc.1, hcc.2.1] at h
        exact ⟨h.1, h.2.1, h.2.2.2.1, h.2.2.2.2.2⟩

/-- `run` moves the breaker exactly as the breaker automaton does on the kind of the request; the clock is
    untouched; a request is answered CIRCUIT_OPEN exactly when the breaker rejects. -/
theorem run_br (cfg : Cfg) (H : Hashes) (s : State) (p : Prompt) (zr yr : Resp) :
    (run cfg H s p zr yr).1.br = brStep cfg s.now s.br (run cfg H s p zr yr).2.kind ∧
    (run cfg H s p zr yr).1.now = s.now ∧
    ((run cfg H s p zr yr).2.kind = .circuitOpen ↔ rejects cfg s.now s.br = true) ∧
    (run cfg H s p zr yr).2.kind ≠ .admin := by
  rw [run_eq]
  cases hr : rejects cfg s.now s.br
  · have h := afterCircuit_spec cfg H { s with br := enter cfg s.now s.br } p zr yr
    simp at h ⊢
    refine ⟨?_, h.2.1, h.2.2.1, h.2.2.2⟩
    unfold brStep
    rw [if_neg h.2.2.1]
    exact h.1
  · simp [brStep]

/-! ### the reply -/

/-- what consulting the agents yields: a function of the configuration, the prompt and the two responses -/
def consultOut (cfg : Cfg) (H : Hashes) (p : Prompt) : Resp → Resp → Out
  | .ret z, .ret y =>
    if p.enc then
      ⟨.gated (classifyRun (gateResult H cfg.gate p z y).success (gateResult H cfg.gate p z y).blocked z y),
       some (gateResult H cfg.gate p z y)⟩
    else ⟨.raised, none⟩
  | .exc, _ => ⟨.agentExc, some errorResult⟩
  | .excU, _ => ⟨.agentExc, some errorResult⟩
  | .excB, _ => ⟨.aborted, none⟩
  | .ret _, .exc => ⟨.agentExc, some errorResult⟩
  | .ret _, .excU => ⟨.agentExc, some errorResult⟩
  | .ret _, .excB => ⟨.aborted, none⟩

theorem consult_out (cfg : Cfg) (H : Hashes) (s : State) (p : Prompt) (zr yr : Resp) :
    (consult cfg H s p zr yr).2 = consultOut cfg H p zr yr := by
  unfold consult consultOut
  cases zr with
  | exc => simp
  | excU => simp
  | excB => simp
  | ret z =>
    cases yr with
    | exc => simp
    | excU => simp
    | excB => simp
    | ret y => cases hp : p.enc <;> cases hc : cfg.cacheOn <;> simp

/-- the cache after consulting: unchanged, or the new gate result stored -/
theorem consult_cache (cfg : Cfg) (H : Hashes) (s : State) (p : Prompt) (zr yr : Resp) :
    (consult cfg H s p zr yr).1.cache = s.cache ∨
    (∃ z y, zr = .ret z ∧ yr = .ret y ∧ p.enc = true ∧ cfg.cacheOn = true ∧
      (consult cfg H s p zr yr).1.cache = cacheStore (H.md5 p.id) (gateResult H cfg.gate p z y) s.now cfg.gate s.cache) := by
  unfold consult
  cases zr with
  | exc => simp [callExecutor]
  | excU => simp [callExecutor]
  | excB => simp [callExecutor]
  | ret z =>
    cases yr with
    | exc => simp [callExecutor, callAssessor]
    | excU => simp [callExecutor, callAssessor]
    | excB => simp [callExecutor, callAssessor]
    | ret y => cases hp : p.enc <;> cases hc : cfg.cacheOn <;> simp [callExecutor, callAssessor]

theorem cacheFind_some {k : Nat} {c : List Entry} {e : Entry} (h : cacheFind k c = some e) : e ∈ c ∧ e.key = k := by
  induction c with
  | nil => simp [cacheFind] at h
  | cons a as ih =>
    unfold cacheFind at h
    split at h
    · cases h; simp_all
    · have := ih h; simp_all

theorem checkCache_spec (cfg : Cfg) (H : Hashes) (s : State) (p : Prompt) :
    (∀ e ∈ (checkCache cfg H s p).1.cache, e ∈ s.cache) ∧
    (∀ r, (checkCache cfg H s p).2 = some r → (checkCache cfg H s p).1 = s ∧
        ∃ e ∈ s.cache, e.key = H.md5 p.id ∧ e.res = r ∧ (s.now : Int) - (e.ts : Int) < cfg.ttl ∧ e.gate = cfg.gate) := by
  unfold checkCache
  split
  · rename_i e he
    have hm := cacheFind_some he
    split
    · rename_i hfresh
      simp; exact ⟨e, hm.1, hm.2, rfl, hfresh.1, hfresh.2⟩
    · simp [cacheErase]; intro a ha _; exact ha
  · simp

/-- The reply of an admitted request: what the agents' responses determine (`consultOut`), or a cache hit
    on a fresh entry stored under this prompt's key, or `UnicodeEncodeError` from the cache-key computation. -/
theorem afterCircuit_out (cfg : Cfg) (H : Hashes) (s : State) (p : Prompt) (zr yr : Resp) :
    ((afterCircuit cfg H s p zr yr).2 = consultOut cfg H p zr yr ∧
      (afterCircuit cfg H s p zr yr).1.execCalls = s.execCalls + 1) ∨
    (cfg.cacheOn = true ∧ p.enc = true ∧ (afterCircuit cfg H s p zr yr).1 = s ∧
      ∃ e ∈ s.cache, e.key = H.md5 p.id ∧ (s.now : Int) - (e.ts : Int) < cfg.ttl ∧
        (afterCircuit cfg H s p zr yr).2 = ⟨.cacheHit, some { e.res with cached := true }⟩) ∨
    (cfg.cacheOn = true ∧ p.enc = false ∧ (afterCircuit cfg H s p zr yr) = (s, ⟨.raised, none⟩)) := by
  unfold afterCircuit
  cases hc : cfg.cacheOn
  · left; simp; exact ⟨consult_out cfg H s p zr yr, (consult_spec cfg H s p zr yr).2.2.1⟩
  · cases hp : p.enc
    · right; right; simp
    · simp
      have hcs := checkCache_spec cfg H s p
      have hcf := checkCache_fst cfg H s p
      generalize hck : checkCache cfg H s p = ck at hcs hcf
      obtain ⟨s1, o⟩ := ck
      cases o with
      | some r =>
        right
        have := hcs.2 r rfl
        obtain ⟨hs, e, he, hk, hr, ht, _⟩ := this
        simp at hs
        subst hs
        exact ⟨rfl, e, he, hk, ht, by simp [hr]⟩
      | none =>
        left
        simp
        refine ⟨consult_out cfg H s1 p zr yr, ?_⟩
        rw [(consult_spec cfg H s1 p zr yr).2.2.1]
        simp at hcf
        omega

/-- a cache hit is served from an entry stored under this prompt's key that was decided under the gate logic
    configured NOW -/
theorem afterCircuit_hit_gate (cfg : Cfg) (H : Hashes) (s : State) (p : Prompt) (zr yr : Resp)
    (hk : (afterCircuit cfg H s p zr yr).2.kind = .cacheHit) :
    ∃ e ∈ s.cache, e.key = H.md5 p.id ∧ e.gate = cfg.gate ∧
      (afterCircuit cfg H s p zr yr).2 = ⟨.cacheHit, some { e.res with cached := true }⟩ := by
  revert hk
  unfold afterCircuit
  cases hc : cfg.cacheOn
  · intro hk; exact absurd hk (consult_spec cfg H s p zr yr).2.2.2.2.1
  · cases hp : p.enc
    · intro hk; simp at hk
    · simp only [↓reduceIte]
      have hcs := checkCache_spec cfg H s p
      generalize hck : checkCache cfg H s p = ck at hcs
      obtain ⟨s1, o⟩ := ck
      cases o with
      | some r =>
        intro _
        obtain ⟨_, e, he, hk', hr, _, hg⟩ := hcs.2 r rfl
        exact ⟨e, he, hk', hg, by simp [hr]⟩
      | none => intro hk; exact absurd hk (consult_spec cfg H s1 p zr yr).2.2.2.2.1

/-- cache after an admitted request: every entry was there before or is the freshly stored gate result -/
theorem afterCircuit_cache (cfg : Cfg) (H : Hashes) (s : State) (p : Prompt) (zr yr : Resp) :
    (∀ e ∈ (afterCircuit cfg H s p zr yr).1.cache, e ∈ s.cache) ∨
    (∃ z y c, zr = .ret z ∧ yr = .ret y ∧ p.enc = true ∧ cfg.cacheOn = true ∧ (∀ e ∈ c, e ∈ s.cache) ∧
      (afterCircuit cfg H s p zr yr).2 = consultOut cfg H p zr yr ∧
      (afterCircuit cfg H s p zr yr).1.cache = cacheStore (H.md5 p.id) (gateResult H cfg.gate p z y) s.now cfg.gate c) := by
  unfold afterCircuit
  cases hc : cfg.cacheOn
  · simp only [Bool.false_eq_true, ↓reduceIte]
    rcases consult_cache cfg H s p zr yr with h | ⟨z, y, _, _, _, h, _⟩
    · left; rw [h]; exact fun e he => he
    · simp [hc] at h
  · cases hp : p.enc
    · left; simp
    · simp only [↓reduceIte]
      have hcs := checkCache_spec cfg H s p
      have hcf := checkCache_fst cfg H s p
      generalize hck : checkCache cfg H s p = ck at hcs hcf
      obtain ⟨s1, o⟩ := ck
      cases o with
      | some r => left; exact hcs.1
      | none =>
        simp only
        rcases consult_cache cfg H s1 p zr yr with h | ⟨z, y, hz, hy, _, _, h⟩
        · left; rw [h]; exact hcs.1
        · right
          refine ⟨z, y, s1.cache, hz, hy, trivial, trivial, hcs.1, consult_out cfg H s1 p zr yr, ?_⟩
          simp at hcf
          rw [h, hcf.2.1]

/-! ### payloads and exceptions that cannot be rendered -/

/-- the code as it is (`_describe`): rendering cannot fail, `runP true` is `run` whatever the payloads -/
theorem runP_safe (cfg : Cfg) (H : Hashes) (s : State) (p : Prompt) (zr yr : RespP) :
    runP true cfg H s p zr yr = run cfg H s p zr.resp yr.resp := rfl

/-- the pre-fix shape: `runP false` is `run`, or — rendering fails and the request got as far as the gate — the
    look-up phase and the two agent calls, or — the handler got an unrenderable exception — the state of `run`
    (failure recorded) without a reply -/
theorem runP_cases (cfg : Cfg) (H : Hashes) (s : State) (p : Prompt) (zr yr : RespP) :
    runP false cfg H s p zr yr = run cfg H s p zr.resp yr.resp ∨
    (renderFails cfg.gate zr yr = true ∧ (∃ ev, (run cfg H s p zr.resp yr.resp).2.kind = .gated ev) ∧
      runP false cfg H s p zr yr = (callAssessor cfg (callExecutor cfg (lookup cfg H s p).1), ⟨.raised, none⟩)) ∨
    (handlerFails zr.resp yr.resp = true ∧ (run cfg H s p zr.resp yr.resp).2.kind = .agentExc ∧
      runP false cfg H s p zr yr = ((run cfg H s p zr.resp yr.resp).1, ⟨.agentExc, none⟩)) := by
  unfold runP
  generalize run cfg H s p zr.resp yr.resp = r
  simp only [Bool.false_eq_true, ↓reduceIte]
  cases hk : r.2.kind <;> simp
  · cases hf : handlerFails zr.resp yr.resp <;> simp
  · cases hf : renderFails cfg.gate zr yr <;> simp

end Operon.Cffl
