import Operon.Lemmas.C12Str
/-! C12, string layer vs. token layer, continued: the scanner argument made GENERIC.

  Every regex of the implementation starts with `\{\{`.  On the printed form of a well-formed token list a `{` occurs
  only as the first two characters of a tag token, and the third character of a tag is never `{`.  Hence a matcher that
  needs `{{` (`NeedsLL`) can fire only at the first character of a tag token (`inner_none`), and a whole scan is
  determined by what the matcher does AT the start of each tag token (`scan_print_gen`).  Per scanner only that
  "offset 0" table remains to be proved (one line per token kind). -/
namespace Operon.Tmpl
open Operon.Ribosome

/-- a matcher that can only fire where the text reads `{{` -/
structure NeedsLL {α : Type} (m : Str → Option (α × Str)) : Prop where
  ne : ∀ c s, c ≠ 123 → m (c :: s) = none
  one : ∀ c s, c ≠ 123 → m (123 :: c :: s) = none

def Tok.isTag : Tok → Bool
  | .text _ => false
  | .val _ => false
  | _ => true

/-- the printed form of a well-formed token: either no `{` at all (text, value), or `{{c…` with `c ≠ {` and no further `{` -/
theorem print_shape (cfg : Cfg) (hs : CfgSane cfg) (t : Tok) (hw : t.wfp cfg) :
    (t.isTag = false ∧ 123 ∉ t.print) ∨
    (t.isTag = true ∧ ∃ c tail, t.print = 123 :: 123 :: c :: tail ∧ c ≠ 123 ∧ 123 ∉ tail) := by
  cases t with
  | text s => exact Or.inl ⟨rfl, hw⟩
  | val s => exact Or.inl ⟨rfl, hw⟩
  | var n =>
    obtain ⟨c, tl, hn, hc, htl⟩ := head_word_ne hs hw
    subst hn
    exact Or.inr ⟨rfl, c, tl ++ [125, 125], by simp [Tok.print, tagOf, LL, RR], hc, by simp [htl]⟩
  | dot => exact Or.inr ⟨rfl, 46, [125, 125], by simp [Tok.print, tagOf, kDot, LL, RR], by decide, by decide⟩
  | opt n =>
    have hn := mem_of_word_ne hs hw
    exact Or.inr ⟨rfl, 63, n ++ [125, 125], by simp [Tok.print, OPTH, RR], by decide, by simp [hn]⟩
  | inc n =>
    have hn := mem_of_word_ne hs hw
    exact Or.inr ⟨rfl, 62, n ++ [125, 125], by simp [Tok.print, INCH, RR], by decide, by simp [hn]⟩
  | pipe n a =>
    obtain ⟨c, tl, hn, hc, htl⟩ := head_word_ne hs hw.1
    subst hn
    exact Or.inr ⟨rfl, c, tl ++ 124 :: a ++ [125, 125], by simp [Tok.print, pipeTag, LL, RR, BAR], hc,
      by simp [htl, hw.2]⟩
  | ifO ws n =>
    have hn := mem_of_word_ne hs hw.2
    exact Or.inr ⟨rfl, 35, [105, 102] ++ ws ++ n ++ [125, 125], by simp [Tok.print, IFH, RR], by decide,
      by simp [hn, hw.1]⟩
  | els => exact Or.inr ⟨rfl, 35, [101, 108, 115, 101, 125, 125], by simp [Tok.print, ELSE], by decide, by decide⟩
  | ifC => exact Or.inr ⟨rfl, 47, [105, 102, 125, 125], by simp [Tok.print, ENDIF], by decide, by decide⟩
  | eachO ws n =>
    have hn := mem_of_word_ne hs hw.2
    exact Or.inr ⟨rfl, 35, [101, 97, 99, 104] ++ ws ++ n ++ [125, 125], by simp [Tok.print, EACHH, RR], by decide,
      by simp [hn, hw.1]⟩
  | eachC => exact Or.inr ⟨rfl, 47, [101, 97, 99, 104, 125, 125], by simp [Tok.print, ENDEACH], by decide, by decide⟩

/-- inside brace-free text a `{{`-matcher never fires -/
theorem plain_none {α : Type} (m : Str → Option (α × Str)) (hm : NeedsLL m) (s rest : Str) (hs : 123 ∉ s) :
    ∀ i, i < s.length → m (s.drop i ++ rest) = none := by
  intro i hi
  cases hd : s.drop i with
  | nil => have := List.drop_eq_nil_iff.mp hd; omega
  | cons x xs =>
    have hx : x ∈ s := List.mem_of_mem_drop (by rw [hd]; simp)
    simpa using hm.ne x (xs ++ rest) (fun e => hs (e ▸ hx))

/-- …nor strictly inside a printed tag -/
theorem inner_none {α : Type} (cfg : Cfg) (hs : CfgSane cfg) (m : Str → Option (α × Str)) (hm : NeedsLL m) (t : Tok)
    (hw : t.wfp cfg) (rest : Str) : ∀ i, 0 < i → i < t.print.length → m (t.print.drop i ++ rest) = none := by
  intro i h0 hi
  rcases print_shape cfg hs t hw with ⟨_, hp⟩ | ⟨_, c, tail, hp, hc, ht⟩
  · exact plain_none m hm _ rest hp i hi
  · rw [hp] at hi ⊢
    match i with
    | 0 => omega
    | 1 => simpa using hm.one c (tail ++ rest) hc
    | 2 => simpa using hm.ne c (tail ++ rest) hc
    | i + 3 =>
      simp only [List.drop_succ_cons]
      exact plain_none m hm tail rest ht i (by simp at hi; omega)

/-- what a scan sees of one token, given what the matcher makes of the token's start -/
def scanView {α : Type} (view : Tok → Option α) (t : Tok) : List (Sum Nat α) :=
  match view t with
  | some a => [.inr a]
  | none => t.print.map Sum.inl

/-- GENERIC.  A `{{`-matcher whose behaviour at the start of every tag token is `view` (a hit consumes exactly the
    token) scans a printed well-formed token list token by token. -/
theorem scan_print_gen {α : Type} (cfg : Cfg) (hs : CfgSane cfg) (m : Str → Option (α × Str)) (hm : NeedsLL m)
    (view : Tok → Option α) (hv : ∀ t, t.isTag = false → view t = none) (ts : List Tok)
    (hw : ∀ t ∈ ts, t.wfp cfg)
    (hat : ∀ t ∈ ts, t.isTag = true → ∀ rest, m (t.print ++ rest) = (view t).map (fun a => (a, rest))) :
    ∀ f, (printToks ts).length ≤ f → scan m f (printToks ts) = ts.flatMap (scanView view) := by
  induction ts with
  | nil => intro f _; simp [printToks, scan_nil]
  | cons t ts ih =>
    intro f hf
    have hwt := hw t (by simp)
    have ih' := ih (fun x hx => hw x (by simp [hx])) (fun x hx => hat x (by simp [hx]))
    have hpt : printToks (t :: ts) = t.print ++ printToks ts := by simp [printToks]
    rw [hpt] at hf ⊢
    rw [List.flatMap_cons, List.length_append] at *
    cases hvt : view t with
    | some a =>
      have htag : t.isTag = true := by
        cases h : t.isTag
        · rw [hv t h] at hvt; cases hvt
        · rfl
      have h0 := hat t (by simp) htag (printToks ts)
      rw [hvt] at h0
      rcases print_shape cfg hs t hwt with ⟨hno, _⟩ | ⟨_, c, tail, hp, _, _⟩
      · rw [hno] at htag; cases htag
      · obtain ⟨f', rfl⟩ : ∃ f', f = f' + 1 := ⟨f - 1, by rw [hp] at hf; simp at hf; omega⟩
        have hcons : t.print ++ printToks ts = 123 :: (123 :: c :: tail ++ printToks ts) := by rw [hp]; rfl
        rw [hcons] at h0 ⊢
        simp only [List.cons_append, Option.map] at h0
        simp only [scan, h0, scanView, hvt, List.cons_append, List.nil_append]
        rw [ih' f' (by rw [hp] at hf; simp at hf; omega)]
    | none =>
      have hsplit : f = t.print.length + (f - t.print.length) := by omega
      rw [hsplit, scan_skip m t.print (printToks ts) _ ?_, ih' _ (by omega)]
      · simp [scanView, hvt]
      · intro i hi
        match i with
        | 0 =>
          simp only [List.drop_zero]
          cases htag : t.isTag
          · rcases print_shape cfg hs t hwt with ⟨_, hp⟩ | ⟨h1, _⟩
            · simpa using plain_none m hm t.print (printToks ts) hp 0 hi
            · rw [htag] at h1; cases h1
          · have h0 := hat t (by simp) htag (printToks ts)
            rw [hvt] at h0
            exact h0
        | i + 1 => exact inner_none cfg hs m hm t hwt _ (i + 1) (by omega) hi

/-- `re.sub` over a scan that went token by token is a `flatMap` over the tokens -/
theorem subWith_scanView {α : Type} (view : Tok → Option α) (g : α → Str) (ts : List Tok) :
    subWith g (ts.flatMap (scanView view))
      = ts.flatMap (fun t => match view t with | some a => g a | none => t.print) := by
  induction ts with
  | nil => rfl
  | cons t ts ih =>
    simp only [List.flatMap_cons]
    cases hvt : view t with
    | some a => simp [scanView, hvt, subWith, ih]
    | none => simp [scanView, hvt, subWith_inl, ih]

theorem hits_inl {α : Type} (u : Str) (r : List (Sum Nat α)) : hits (u.map Sum.inl ++ r) = hits r := by
  induction u with
  | nil => rfl
  | cons c u ih => simp [hits, ih]

theorem hits_scanView {α : Type} (view : Tok → Option α) (ts : List Tok) :
    hits (ts.flatMap (scanView view)) = ts.filterMap view := by
  induction ts with
  | nil => rfl
  | cons t ts ih =>
    simp only [List.flatMap_cons]
    cases hvt : view t with
    | some a => simp [scanView, hvt, hits, ih]
    | none => simp [scanView, hvt, hits_inl, ih]

/-! ### prefix stripping -/

theorem stripPrefix_append (p s : Str) : stripPrefix p (p ++ s) = some s := by
  induction p with
  | nil => cases s <;> rfl
  | cons a p ih => simp [stripPrefix, ih]

/-- a pattern `{{p…` against a text `{{c…` with `c ≠ p` -/
theorem strip3_ne (p c : Nat) (pre s : Str) (h : p ≠ c) : stripPrefix (123 :: 123 :: p :: pre) (123 :: 123 :: c :: s) = none := by
  simp [stripPrefix, h]

theorem needsLL_of_strip {α : Type} (m : Str → Option (α × Str)) (p : Nat) (pre : Str)
    (h : ∀ s, stripPrefix (123 :: 123 :: p :: pre) s = none → m s = none) : NeedsLL m := by
  constructor
  · intro c s hc
    apply h
    have : (123 = c) = False := by simp; omega
    simp [stripPrefix, this]
  · intro c s hc
    apply h
    have : (123 = c) = False := by simp; omega
    simp [stripPrefix, this]

theorem needsLL_of_LL {α : Type} (m : Str → Option (α × Str))
    (h : ∀ s, stripPrefix LL s = none → m s = none) : NeedsLL m := by
  constructor
  · intro c s hc; exact h _ (stripLL_ne c s hc)
  · intro c s hc; exact h _ (stripLL_one c s hc)

end Operon.Tmpl

namespace Operon.Tmpl
open Operon.Ribosome

/-! ### `matchWordTag` with any prefix -/

theorem mWT_strip_none (cfg : Cfg) (pre s : Str) (h : stripPrefix pre s = none) : matchWordTag cfg pre s = none := by
  simp [matchWordTag, h]

theorem mWT_hit (cfg : Cfg) (hs : CfgSane cfg) (pre n s : Str) (hn : WordName cfg n) :
    matchWordTag cfg pre (pre ++ (n ++ 125 :: 125 :: s)) = some (n, s) := by
  simp only [matchWordTag, stripPrefix_append, spanP_word cfg.isWord n 125 (125 :: s) hn.2 hs.rb]
  simp [hn.1, stripPrefix, RR]

/-- the first character of a name is a word character, hence none of the tag markers -/
theorem word_head {cfg : Cfg} {n : Str} (hn : WordName cfg n) : ∃ c tl, n = c :: tl ∧ cfg.isWord c = true := by
  cases h : n with
  | nil => exact absurd h hn.1
  | cons c tl => exact ⟨c, tl, rfl, hn.2 c (by simp [h])⟩

/-! ### the include scanner `\{\{>(\w+)\}\}` -/

def viewInc : Tok → Option Str
  | .inc n => some n
  | _ => none

theorem needsLL_inc (cfg : Cfg) : NeedsLL (matchWordTag cfg INCH) :=
  needsLL_of_strip _ 62 [] (fun s h => mWT_strip_none cfg INCH s h)

theorem mInc_at (cfg : Cfg) (hs : CfgSane cfg) (t : Tok) (hw : t.wfp cfg) (htag : t.isTag = true) (rest : Str) :
    matchWordTag cfg INCH (t.print ++ rest) = (viewInc t).map (fun a => (a, rest)) := by
  cases t with
  | text s => cases htag
  | val s => cases htag
  | inc n =>
    have := mWT_hit cfg hs INCH n rest hw
    simpa [Tok.print, viewInc, RR] using this
  | var n =>
    obtain ⟨c, tl, rfl, hc⟩ := word_head hw
    have : (62 = c) = False := by simp; intro e; rw [← e, hs.gt] at hc; cases hc
    simp [Tok.print, tagOf, LL, viewInc, matchWordTag, INCH, stripPrefix, this]
  | pipe n a =>
    obtain ⟨c, tl, rfl, hc⟩ := word_head hw.1
    have : (62 = c) = False := by simp; intro e; rw [← e, hs.gt] at hc; cases hc
    simp [Tok.print, pipeTag, LL, viewInc, matchWordTag, INCH, stripPrefix, this]
  | dot => simp [Tok.print, tagOf, kDot, LL, viewInc, matchWordTag, INCH, stripPrefix]
  | opt n => simp [Tok.print, OPTH, viewInc, matchWordTag, INCH, stripPrefix]
  | ifO ws n => simp [Tok.print, IFH, viewInc, matchWordTag, INCH, stripPrefix]
  | els => simp [Tok.print, ELSE, viewInc, matchWordTag, INCH, stripPrefix]
  | ifC => simp [Tok.print, ENDIF, viewInc, matchWordTag, INCH, stripPrefix]
  | eachO ws n => simp [Tok.print, EACHH, viewInc, matchWordTag, INCH, stripPrefix]
  | eachC => simp [Tok.print, ENDEACH, viewInc, matchWordTag, INCH, stripPrefix]

/-- the include scan over printed tokens finds exactly the `inc` tokens -/
theorem scan_print_inc (cfg : Cfg) (hs : CfgSane cfg) (ts : List Tok) (hw : ∀ t ∈ ts, t.wfp cfg) :
    scanStr (matchWordTag cfg INCH) (printToks ts) = ts.flatMap (scanView viewInc) :=
  scan_print_gen cfg hs _ (needsLL_inc cfg) viewInc (by intro t h; cases t <;> first | rfl | cases h) ts hw
    (fun t ht htag rest => mInc_at cfg hs t (hw t ht) htag rest) _ (by omega)

end Operon.Tmpl

namespace Operon.Tmpl
open Operon.Ribosome

/-! ### stronger well-formedness: what the printed form needs to LEX BACK to the same token -/

/-- the space class is sane too: `{` is no space, and no character is both a word character and a space -/
structure CfgSane2 (cfg : Cfg) : Prop extends CfgSane cfg where
  splb : cfg.isSpace 123 = false
  disj : ∀ c, cfg.isWord c = true → cfg.isSpace c = false

def SpaceRun (cfg : Cfg) (ws : Str) : Prop := ws ≠ [] ∧ ∀ c ∈ ws, cfg.isSpace c = true

/-- defaults are non-empty and hold neither `{` nor `}`; block heads carry a non-empty run of spaces -/
def Tok.wfs (cfg : Cfg) : Tok → Prop
  | .pipe n a => WordName cfg n ∧ 123 ∉ a ∧ 125 ∉ a ∧ a ≠ []
  | .ifO ws n => SpaceRun cfg ws ∧ WordName cfg n
  | .eachO ws n => SpaceRun cfg ws ∧ WordName cfg n
  | t => t.wfp cfg

theorem spaceRun_noLB {cfg : Cfg} (hs : CfgSane2 cfg) {ws : Str} (h : SpaceRun cfg ws) : 123 ∉ ws := by
  intro hm
  have := h.2 123 hm
  rw [hs.splb] at this
  cases this

theorem Tok.wfs.wfp {cfg : Cfg} (hs : CfgSane2 cfg) {t : Tok} (h : t.wfs cfg) : t.wfp cfg := by
  cases t with
  | pipe n a => exact ⟨h.1, h.2.1⟩
  | ifO ws n => exact ⟨spaceRun_noLB hs h.1, h.2⟩
  | eachO ws n => exact ⟨spaceRun_noLB hs h.1, h.2⟩
  | _ => exact h

theorem wfs_val (cfg : Cfg) (v : Str) (h : NoLB v) : (Tok.val v).wfs cfg := h

theorem spanP_cases (f : Nat → Bool) (a : Str) :
    (∀ x ∈ a, f x = true) ∨ ∃ w x a', a = w ++ x :: a' ∧ (∀ y ∈ w, f y = true) ∧ f x = false := by
  induction a with
  | nil => exact Or.inl (by simp)
  | cons c a ih =>
    cases hc : f c with
    | false => exact Or.inr ⟨[], c, a, rfl, by simp, hc⟩
    | true =>
      rcases ih with h | ⟨w, x, a', rfl, hw, hx⟩
      · exact Or.inl (by intro y hy; rcases List.mem_cons.mp hy with rfl | h'; exact hc; exact h y h')
      · exact Or.inr ⟨c :: w, x, a', rfl, by intro y hy; rcases List.mem_cons.mp hy with rfl | h'; exact hc; exact hw y h', hx⟩

theorem isWordStr_iff (cfg : Cfg) (a : Str) : isWordStr cfg a = true ↔ WordName cfg a := by
  simp [isWordStr, WordName]

/-! ### the filtered-variable scanner `\{\{(\w+)\|(\w+)\}\}` -/

def viewFilt (cfg : Cfg) : Tok → Option (Str × Str)
  | .pipe n a => if isWordStr cfg a then some (n, a) else none
  | _ => none

theorem mFilt_strip_none (cfg : Cfg) (s : Str) (h : stripPrefix LL s = none) : matchFiltered cfg s = none := by
  simp [matchFiltered, h]

theorem needsLL_filt (cfg : Cfg) : NeedsLL (matchFiltered cfg) := needsLL_of_LL _ (mFilt_strip_none cfg)

theorem mFilt_nonword (cfg : Cfg) (c : Nat) (s : Str) (hc : cfg.isWord c = false) :
    matchFiltered cfg (123 :: 123 :: c :: s) = none := by
  simp [matchFiltered, stripLL_two, spanP, hc]

theorem mFilt_at (cfg : Cfg) (hs : CfgSane cfg) (t : Tok) (hw : t.wfs cfg) (htag : t.isTag = true) (rest : Str) :
    matchFiltered cfg (t.print ++ rest) = (viewFilt cfg t).map (fun a => (a, rest)) := by
  cases t with
  | text s => cases htag
  | val s => cases htag
  | pipe n a =>
    obtain ⟨hn, _, hrb, hne⟩ := hw
    have hp : (Tok.pipe n a).print ++ rest = 123 :: 123 :: (n ++ 124 :: (a ++ 125 :: 125 :: rest)) := by
      simp [Tok.print, pipeTag, LL, RR, BAR]
    rw [hp]
    simp only [matchFiltered, stripLL_two, spanP_word cfg.isWord n 124 _ hn.2 hs.bar, viewFilt]
    rcases spanP_cases cfg.isWord a with hall | ⟨w, x, a', rfl, hw', hx⟩
    · have hws : isWordStr cfg a = true := (isWordStr_iff cfg a).mpr ⟨hne, hall⟩
      simp [hn.1, BAR, spanP_word cfg.isWord a 125 (125 :: rest) hall hs.rb, hne, stripPrefix, RR, hws]
    · have hws : isWordStr cfg (w ++ x :: a') = false := by
        cases h : isWordStr cfg (w ++ x :: a')
        · rfl
        · have := ((isWordStr_iff cfg _).mp h).2 x (by simp)
          rw [hx] at this; cases this
      have hx125 : x ≠ 125 := fun e => hrb (by simp [e])
      have h125 : (125 = x) = False := by simp; omega
      have := spanP_word cfg.isWord w x (a' ++ 125 :: 125 :: rest) hw' hx
      simp only [List.append_assoc, List.cons_append] at this ⊢
      simp [hn.1, BAR, this, hws, stripPrefix, RR, h125]
  | var n =>
    have hp : (Tok.var n).print ++ rest = 123 :: 123 :: (n ++ 125 :: (125 :: rest)) := by
      simp [Tok.print, tagOf, LL, RR]
    rw [hp]
    simp [matchFiltered, stripLL_two, spanP_word cfg.isWord n 125 _ hw.2 hs.rb, viewFilt, hw.1, BAR]
  | dot => simpa [Tok.print, tagOf, kDot, LL, viewFilt] using mFilt_nonword cfg 46 _ hs.dot
  | opt n => simpa [Tok.print, OPTH, viewFilt] using mFilt_nonword cfg 63 _ hs.q
  | inc n => simpa [Tok.print, INCH, viewFilt] using mFilt_nonword cfg 62 _ hs.gt
  | ifO ws n => simpa [Tok.print, IFH, viewFilt] using mFilt_nonword cfg 35 _ hs.hash
  | els => simpa [Tok.print, ELSE, viewFilt] using mFilt_nonword cfg 35 _ hs.hash
  | ifC => simpa [Tok.print, ENDIF, viewFilt] using mFilt_nonword cfg 47 _ hs.slash
  | eachO ws n => simpa [Tok.print, EACHH, viewFilt] using mFilt_nonword cfg 35 _ hs.hash
  | eachC => simpa [Tok.print, ENDEACH, viewFilt] using mFilt_nonword cfg 47 _ hs.slash

end Operon.Tmpl

namespace Operon.Tmpl
open Operon.Ribosome

/-! ### the default scanner `\{\{(\w+)\|([^}]+)\}\}` -/

def viewDef : Tok → Option (Str × Str)
  | .pipe n a => some (n, a)
  | _ => none

theorem mDef_strip_none (cfg : Cfg) (s : Str) (h : stripPrefix LL s = none) : matchDefault cfg s = none := by
  simp [matchDefault, h]

theorem needsLL_def (cfg : Cfg) : NeedsLL (matchDefault cfg) := needsLL_of_LL _ (mDef_strip_none cfg)

theorem mDef_nonword (cfg : Cfg) (c : Nat) (s : Str) (hc : cfg.isWord c = false) :
    matchDefault cfg (123 :: 123 :: c :: s) = none := by
  simp [matchDefault, stripLL_two, spanP, hc]

theorem mDef_at (cfg : Cfg) (hs : CfgSane cfg) (t : Tok) (hw : t.wfs cfg) (htag : t.isTag = true) (rest : Str) :
    matchDefault cfg (t.print ++ rest) = (viewDef t).map (fun a => (a, rest)) := by
  cases t with
  | text s => cases htag
  | val s => cases htag
  | pipe n a =>
    obtain ⟨hn, _, hrb, hne⟩ := hw
    have hp : (Tok.pipe n a).print ++ rest = 123 :: 123 :: (n ++ 124 :: (a ++ 125 :: 125 :: rest)) := by
      simp [Tok.print, pipeTag, LL, RR, BAR]
    rw [hp]
    have hsp := spanP_word (fun x => x != 125) a 125 (125 :: rest)
      (by intro x hx; simp; intro e; exact hrb (e ▸ hx)) (by simp)
    simp only [matchDefault, stripLL_two, spanP_word cfg.isWord n 124 _ hn.2 hs.bar, viewDef]
    simp [hn.1, BAR, hsp, hne, stripPrefix, RR]
  | var n =>
    have hp : (Tok.var n).print ++ rest = 123 :: 123 :: (n ++ 125 :: (125 :: rest)) := by
      simp [Tok.print, tagOf, LL, RR]
    rw [hp]
    simp [matchDefault, stripLL_two, spanP_word cfg.isWord n 125 _ hw.2 hs.rb, viewDef, hw.1, BAR]
  | dot => simpa [Tok.print, tagOf, kDot, LL, viewDef] using mDef_nonword cfg 46 _ hs.dot
  | opt n => simpa [Tok.print, OPTH, viewDef] using mDef_nonword cfg 63 _ hs.q
  | inc n => simpa [Tok.print, INCH, viewDef] using mDef_nonword cfg 62 _ hs.gt
  | ifO ws n => simpa [Tok.print, IFH, viewDef] using mDef_nonword cfg 35 _ hs.hash
  | els => simpa [Tok.print, ELSE, viewDef] using mDef_nonword cfg 35 _ hs.hash
  | ifC => simpa [Tok.print, ENDIF, viewDef] using mDef_nonword cfg 47 _ hs.slash
  | eachO ws n => simpa [Tok.print, EACHH, viewDef] using mDef_nonword cfg 35 _ hs.hash
  | eachC => simpa [Tok.print, ENDEACH, viewDef] using mDef_nonword cfg 47 _ hs.slash

/-! ### `str.replace` as a scan; replacing a printed tag in printed tokens -/

def stripM (old : Str) (s : Str) : Option (Unit × Str) := (stripPrefix old s).map (fun r => ((), r))

theorem stripPrefix_length (p s r : Str) (h : stripPrefix p s = some r) : s.length = p.length + r.length := by
  induction p generalizing s with
  | nil => cases s <;> simp [stripPrefix] at h <;> simp [← h]
  | cons a p ih =>
    cases s with
    | nil => simp [stripPrefix] at h
    | cons c s =>
      simp only [stripPrefix] at h
      split at h
      · have := ih s h; simp [this]; omega
      · cases h

theorem replaceAll_eq_scan (old new : Str) (hold : old ≠ []) : ∀ (f : Nat) (s : Str), s.length ≤ f →
    replaceAll old new f s = subWith (fun _ => new) (scan (stripM old) f s) := by
  intro f
  induction f with
  | zero => intro s hs; cases s with
    | nil => rfl
    | cons c s => simp at hs
  | succ f ih =>
    intro s hs
    cases s with
    | nil => rfl
    | cons c s =>
      simp only [replaceAll, scan, stripM]
      cases h : stripPrefix old (c :: s) with
      | none => simp [subWith, ih s (by simpa using hs)]
      | some r =>
        have hl := stripPrefix_length old (c :: s) r h
        have : 0 < old.length := List.length_pos_iff.mpr hold
        simp [subWith, ih r (by simp at hs hl; omega)]

theorem stripPrefix_append_none (p q s : Str) (h : stripPrefix p s = none) : stripPrefix (p ++ q) s = none := by
  induction p generalizing s with
  | nil => cases s <;> simp [stripPrefix] at h
  | cons a p ih =>
    cases s with
    | nil => rfl
    | cons c s =>
      simp only [List.cons_append, stripPrefix] at h ⊢
      split
      · rename_i hac; rw [if_pos hac] at h; exact ih s h
      · rfl

/-- the separator `x` occurs in neither `u` nor `u'`: a pattern `u x p` strips from a text `u' x s` iff `u = u'` -/
theorem stripPrefix_sep (x : Nat) (u u' p s : Str) (hu : x ∉ u) (hu' : x ∉ u') :
    stripPrefix (u ++ x :: p) (u' ++ x :: s) = if u = u' then stripPrefix p s else none := by
  induction u generalizing u' with
  | nil =>
    cases u' with
    | nil => simp [stripPrefix]
    | cons c u' =>
      have : x ≠ c := fun e => hu' (by simp [e])
      simp [stripPrefix, this]
  | cons a u ih =>
    cases u' with
    | nil =>
      have : a ≠ x := fun e => hu (by simp [e])
      simp [stripPrefix, this]
    | cons c u' =>
      simp only [List.cons_append, stripPrefix]
      by_cases hac : a = c
      · subst hac
        rw [if_pos rfl, ih u' (fun h => hu (by simp [h])) (fun h => hu' (by simp [h]))]
        simp
      · simp [hac]

/-- different separators: `u x p` never strips from `u' y s` when `x ∉ u'`, `y ∉ u`, `x ≠ y` -/
theorem stripPrefix_sep_ne (x y : Nat) (u u' p s : Str) (hx : x ∉ u') (hy : y ∉ u) (hxy : x ≠ y) :
    stripPrefix (u ++ x :: p) (u' ++ y :: s) = none := by
  induction u generalizing u' with
  | nil =>
    cases u' with
    | nil => simp [stripPrefix, hxy]
    | cons c u' =>
      have : x ≠ c := fun e => hx (by simp [e])
      simp [stripPrefix, this]
  | cons a u ih =>
    cases u' with
    | nil =>
      have : a ≠ y := fun e => hy (by simp [e])
      simp [stripPrefix, this]
    | cons c u' =>
      simp only [List.cons_append, stripPrefix]
      by_cases hac : a = c
      · subst hac
        rw [if_pos rfl]
        exact ih u' (fun h => hx (by simp [h])) (fun h => hy (by simp [h]))
      · simp [hac]

theorem word_no {cfg : Cfg} {n : Str} (hn : WordName cfg n) (c : Nat) (hc : cfg.isWord c = false) : c ∉ n := by
  intro h
  have := hn.2 c h
  rw [hc] at this
  cases this

def viewIs (p : Tok) (t : Tok) : Option Unit := if t = p then some () else none

theorem needsLL_stripPipe (n a : Str) : NeedsLL (stripM (pipeTag n a)) := by
  apply needsLL_of_LL
  intro s h
  have : pipeTag n a = LL ++ (n ++ [BAR] ++ a ++ RR) := by simp [pipeTag]
  simp [stripM, this, stripPrefix_append_none LL _ s h]

theorem stripPipe_at (cfg : Cfg) (hs : CfgSane cfg) (n a : Str) (hp : (Tok.pipe n a).wfs cfg) (t : Tok)
    (hw : t.wfs cfg) (htag : t.isTag = true) (rest : Str) :
    stripM (pipeTag n a) (t.print ++ rest) = (viewIs (.pipe n a) t).map (fun u => (u, rest)) := by
  obtain ⟨hn, _, harb, _⟩ := hp
  obtain ⟨c, tl, hntl, hc⟩ := word_head hn
  have hpt : pipeTag n a = 123 :: 123 :: (n ++ 124 :: (a ++ 125 :: [125])) := by simp [pipeTag, LL, RR, BAR]
  have hpt3 : pipeTag n a = 123 :: 123 :: c :: (tl ++ 124 :: (a ++ 125 :: [125])) := by rw [hpt, hntl]; rfl
  have third : ∀ (d : Nat) (s : Str), cfg.isWord d = false → stripM (pipeTag n a) (123 :: 123 :: d :: s) = none := by
    intro d s hd
    have : c ≠ d := fun e => by rw [e, hd] at hc; cases hc
    rw [hpt3]; simp [stripM, stripPrefix, this]
  cases t with
  | text s => cases htag
  | val s => cases htag
  | pipe n' a' =>
    obtain ⟨hn', _, harb', _⟩ := hw
    have hp' : (Tok.pipe n' a').print ++ rest = 123 :: 123 :: (n' ++ 124 :: (a' ++ 125 :: (125 :: rest))) := by
      simp [Tok.print, pipeTag, LL, RR, BAR]
    rw [hp', hpt]
    have h1 := stripPrefix_sep 124 n n' (a ++ 125 :: [125]) (a' ++ 125 :: (125 :: rest))
      (word_no hn 124 hs.bar) (word_no hn' 124 hs.bar)
    have h2 := stripPrefix_sep 125 a a' [125] (125 :: rest) harb harb'
    simp only [stripM, stripPrefix, if_true, h1, h2, viewIs]
    by_cases e1 : n = n'
    · by_cases e2 : a = a'
      · subst e1 e2; simp [stripPrefix]
      · have e2' : ¬ a' = a := fun h => e2 h.symm
        simp [e1, e2, e2']
    · have e1' : ¬ n' = n := fun h => e1 h.symm
      simp [e1, e1']
  | var n' =>
    have hp' : (Tok.var n').print ++ rest = 123 :: 123 :: (n' ++ 125 :: (125 :: rest)) := by
      simp [Tok.print, tagOf, LL, RR]
    rw [hp', hpt]
    have := stripPrefix_sep_ne 124 125 n n' (a ++ 125 :: [125]) (125 :: rest) (word_no hw 124 hs.bar)
      (word_no hn 125 hs.rb) (by decide)
    simp [stripM, stripPrefix, this, viewIs]
  | dot => simpa [Tok.print, tagOf, kDot, LL, viewIs] using third 46 _ hs.dot
  | opt n' => simpa [Tok.print, OPTH, viewIs] using third 63 _ hs.q
  | inc n' => simpa [Tok.print, INCH, viewIs] using third 62 _ hs.gt
  | ifO ws n' => simpa [Tok.print, IFH, viewIs] using third 35 _ hs.hash
  | els => simpa [Tok.print, ELSE, viewIs] using third 35 _ hs.hash
  | ifC => simpa [Tok.print, ENDIF, viewIs] using third 47 _ hs.slash
  | eachO ws n' => simpa [Tok.print, EACHH, viewIs] using third 35 _ hs.hash
  | eachC => simpa [Tok.print, ENDEACH, viewIs] using third 47 _ hs.slash

end Operon.Tmpl

namespace Operon.Tmpl
open Operon.Ribosome

/-! ### pass level -/

/-- `_detect_codons` / `get_required_variables()` on a printed token list: the names of its `var` tokens -/
theorem requiredVars_print (cfg : Cfg) (hs : CfgSane cfg) (ts : List Tok) (hw : ∀ t ∈ ts, t.wfp cfg) :
    requiredVars cfg (printToks ts) = varNames ts := by
  unfold requiredVars scanStr
  rw [scan_print cfg hs ts hw _ (by omega)]
  induction ts with
  | nil => rfl
  | cons t ts ih =>
    have ih' := ih (fun x hx => hw x (by simp [hx]))
    simp only [List.flatMap_cons]
    cases t <;> simp [scanTokD, hits, hits_inl, varNames, ih']

theorem printToks_flatMap (ts : List Tok) (g : Tok → List Tok) :
    printToks (ts.flatMap g) = ts.flatMap (fun t => printToks (g t)) := by
  induction ts with
  | nil => rfl
  | cons t ts ih => simp [printToks, List.flatMap_append] at ih ⊢; rw [ih]

/-- `str.replace("{{n|a}}", new)` on a printed token list replaces exactly the `pipe n a` tokens -/
theorem replaceStr_print (cfg : Cfg) (hs : CfgSane2 cfg) (n a new : Str) (hp : (Tok.pipe n a).wfs cfg)
    (cur : List Tok) (hw : ∀ t ∈ cur, t.wfs cfg) :
    replaceStr (pipeTag n a) new (printToks cur)
      = printToks (cur.flatMap (fun t => if t = .pipe n a then [.val new] else [t])) := by
  unfold replaceStr
  rw [replaceAll_eq_scan _ _ (by simp [pipeTag, LL]) _ _ (by omega)]
  rw [scan_print_gen cfg hs.toCfgSane (stripM (pipeTag n a)) (needsLL_stripPipe n a) (viewIs (.pipe n a))
    (by intro t h; cases t <;> first | (simp [viewIs]; done) | cases h) cur (fun t ht => (hw t ht).wfp hs)
    (fun t ht htag rest => stripPipe_at cfg hs.toCfgSane n a hp t (hw t ht) htag rest) _ (by omega)]
  rw [subWith_scanView, printToks_flatMap]
  apply flatMap_congr'
  intro t _
  by_cases h : t = .pipe n a
  · simp [viewIs, h, printToks, Tok.print]
  · simp [viewIs, h, printToks]

theorem flatMap_wfs (cfg : Cfg) (g : Tok → List Tok) (ts : List Tok) (_ : ∀ t ∈ ts, t.wfs cfg)
    (hg : ∀ t ∈ ts, ∀ x ∈ g t, x.wfs cfg) : ∀ x ∈ ts.flatMap g, x.wfs cfg := by
  intro x hx
  obtain ⟨t, ht, hxt⟩ := List.mem_flatMap.mp hx
  exact hg t ht x hxt

/-- sub-pass 2 of the string layer (`{{name|default}}`: matches on a snapshot, each replaced everywhere) = `passB` -/
theorem passDefault_print (cfg : Cfg) (hs : CfgSane2 cfg) (ctx : Ctx) (htext : ∀ n, NoLB (textOf ctx n))
    (ts : List Tok) (hw : ∀ t ∈ ts, t.wfs cfg) :
    passDefault cfg ctx (printToks ts) = printToks (passB cfg ctx ts) ∧ ∀ t ∈ passB cfg ctx ts, t.wfs cfg := by
  unfold passDefault scanStr passB
  rw [scan_print_gen cfg hs.toCfgSane (matchDefault cfg) (needsLL_def cfg) viewDef
    (by intro t h; cases t <;> first | rfl | cases h) ts (fun t ht => (hw t ht).wfp hs)
    (fun t ht htag rest => mDef_at cfg hs.toCfgSane t (hw t ht) htag rest) _ (by omega), hits_scanView]
  -- generalise: any list M of well-formed pipe tokens, any well-formed current list
  suffices H : ∀ (M cur : List Tok), (∀ m ∈ M, m.wfs cfg) → (∀ t ∈ cur, t.wfs cfg) →
      (M.filterMap viewDef).foldl (fun cur (m : Str × Str) =>
          if cfg.filters.contains m.2 then cur
          else replaceStr (pipeTag m.1 m.2) (if isBound ctx m.1 then textOf ctx m.1 else m.2) cur) (printToks cur)
        = printToks ((M.filter isPipe).foldl (fun cur m => replB cfg ctx m cur) cur) ∧
      ∀ t ∈ (M.filter isPipe).foldl (fun cur m => replB cfg ctx m cur) cur, t.wfs cfg from H ts ts hw hw
  intro M
  induction M with
  | nil => intro cur _ hc; exact ⟨rfl, hc⟩
  | cons m M ih =>
    intro cur hM hc
    have hm := hM m (by simp)
    have ihM := fun c => ih c (fun x hx => hM x (by simp [hx]))
    cases m with
    | pipe n a =>
      simp only [List.filterMap_cons, viewDef, List.foldl_cons, List.filter_cons, isPipe, if_true]
      by_cases hf : cfg.filters.contains a = true
      · simp only [hf, if_true, replB]
        exact ihM cur hc
      · simp only [hf, replB, Bool.false_eq_true, if_false]
        have hv : NoLB (if isBound ctx n = true then textOf ctx n else a) := by
          split
          · exact htext n
          · exact hm.2.1
        rw [replaceStr_print cfg hs n a _ hm cur hc]
        have heq : (cur.flatMap fun t => if t = .pipe n a then [Tok.val (if isBound ctx n = true then textOf ctx n else a)] else [t])
            = cur.flatMap (fun t => if t = .pipe n a then lexVal cfg (if isBound ctx n = true then textOf ctx n else a) else [t]) := by
          rw [lexVal_noLB cfg _ hv]; rfl
        rw [heq]
        apply ihM
        apply flatMap_wfs cfg _ cur hc
        intro t ht x hx
        split at hx
        · rw [lexVal_noLB cfg _ hv] at hx
          rw [mem_valTok hx]; exact hv
        · simp at hx; rw [hx]; exact hc t ht
    | _ => simpa [List.filterMap_cons, viewDef, List.filter_cons, isPipe] using ihM cur hc

end Operon.Tmpl

namespace Operon.Tmpl
open Operon.Ribosome

/-- `subM` over a scan that went token by token -/
theorem subM_scanView_cons {α : Type} (view : Tok → Option α) (g : α → Except Err (Str × List Str)) (t : Tok)
    (r : List (Sum Nat α)) :
    subM g (scanView view t ++ r)
      = match view t with
        | some a => (match g a with
          | .error e => .error e
          | .ok (x, w1) => match subM g r with
            | .ok (s, w2) => .ok (x ++ s, w1 ++ w2)
            | .error e => .error e)
        | none => (match subM g r with
          | .ok (s, w) => .ok (t.print ++ s, w)
          | .error e => .error e) := by
  cases hvt : view t with
  | some a =>
    simp only [scanView, hvt, List.cons_append, List.nil_append, subM]
    cases g a with
    | error e => rfl
    | ok p =>
      obtain ⟨x, w1⟩ := p
      cases subM g r with
      | error e => rfl
      | ok q => rfl
  | none => simp only [scanView, hvt]; exact subM_inl g t.print r

/-- sub-pass 1 of the string layer (`{{name|filter}}`) = `tokA` / `warnA` of the token layer -/
theorem passFiltered_print (cfg : Cfg) (hs : CfgSane2 cfg) (ctx : Ctx) (htext : ∀ n, NoLB (textOf ctx n))
    (hfilt : ∀ f n r, cfg.applyF f n = .ok r → NoLB r) (ts : List Tok) (hw : ∀ t ∈ ts, t.wfs cfg) :
    passFiltered cfg ctx (printToks ts)
      = (match flatMapM (tokA cfg ctx) ts with
         | .ok t4 => .ok (printToks t4, ts.flatMap (warnA cfg ctx))
         | .error e => .error e) ∧
    ∀ t4, flatMapM (tokA cfg ctx) ts = .ok t4 → ∀ t ∈ t4, t.wfs cfg := by
  unfold passFiltered scanStr
  rw [scan_print_gen cfg hs.toCfgSane (matchFiltered cfg) (needsLL_filt cfg) (viewFilt cfg)
    (by intro t h; cases t <;> first | rfl | cases h) ts (fun t ht => (hw t ht).wfp hs)
    (fun t ht htag rest => mFilt_at cfg hs.toCfgSane t (hw t ht) htag rest) _ (by omega)]
  induction ts with
  | nil => exact ⟨rfl, by intro t4 h; cases h; simp⟩
  | cons t ts ih =>
    obtain ⟨ih1, ih2⟩ := ih (fun x hx => hw x (by simp [hx]))
    have hwt := hw t (by simp)
    simp only [List.flatMap_cons, subM_scanView_cons, ih1, flatMapM]
    by_cases hp : ∃ n a, t = .pipe n a ∧ isWordStr cfg a = true
    · obtain ⟨n, a, rfl, hwa⟩ := hp
      simp only [viewFilt, hwa, if_true, tokA, warnA]
      by_cases hb : isBound ctx n = true
      · by_cases hf : cfg.filters.contains a = true
        · simp only [hb, hf, if_true]
          cases hr : cfg.applyF a n with
          | raise c => simp
          | ok r =>
            have hr' := hfilt a n r hr
            simp only [lexVal_noLB cfg r hr']
            cases hrest : flatMapM (tokA cfg ctx) ts with
            | error e => simp
            | ok t4 =>
              refine ⟨by simp [valTok, printToks, Tok.print], ?_⟩
              intro t4' h; cases h
              intro x hx
              rcases List.mem_append.mp hx with h1 | h1
              · rw [mem_valTok h1]; exact hr'
              · exact ih2 t4 hrest x h1
        · simp only [hb, hf, if_true, Bool.false_eq_true, if_false, lexVal_noLB cfg _ (htext n)]
          cases hrest : flatMapM (tokA cfg ctx) ts with
          | error e => simp
          | ok t4 =>
            refine ⟨by simp [valTok, printToks, Tok.print], ?_⟩
            intro t4' h; cases h
            intro x hx
            rcases List.mem_append.mp hx with h1 | h1
            · rw [mem_valTok h1]; exact htext n
            · exact ih2 t4 hrest x h1
      · simp only [hb, Bool.false_eq_true, if_false]
        cases hrest : flatMapM (tokA cfg ctx) ts with
        | error e => simp
        | ok t4 =>
          refine ⟨by simp [printToks, Tok.print], ?_⟩
          intro t4' h; cases h
          intro x hx
          rcases List.mem_append.mp hx with h1 | h1
          · simp at h1; rw [h1]; exact hwt
          · exact ih2 t4 hrest x h1
    · have hv : viewFilt cfg t = none := by
        cases t with
        | pipe n a =>
          cases hwa : isWordStr cfg a
          · simp [viewFilt, hwa]
          · exact absurd ⟨n, a, rfl, hwa⟩ hp
        | _ => rfl
      have hA : tokA cfg ctx t = .ok [t] := by
        cases t with
        | pipe n a =>
          cases hwa : isWordStr cfg a
          · simp [tokA, hwa]
          · exact absurd ⟨n, a, rfl, hwa⟩ hp
        | _ => rfl
      have hW : warnA cfg ctx t = [] := by
        cases t with
        | pipe n a =>
          cases hwa : isWordStr cfg a
          · simp [warnA, hwa]
          · exact absurd ⟨n, a, rfl, hwa⟩ hp
        | _ => rfl
      simp only [hv, hA, hW]
      cases hrest : flatMapM (tokA cfg ctx) ts with
      | error e => simp
      | ok t4 =>
        refine ⟨by simp [printToks], ?_⟩
        intro t4' h; cases h
        intro x hx
        rcases List.mem_cons.mp hx with h1 | h1
        · rw [h1]; exact hwt
        · exact ih2 t4 hrest x h1

end Operon.Tmpl

namespace Operon.Tmpl
open Operon.Ribosome

/-- the variable pass on tokens (the last part of `renderTok`) -/
def varPassTok (cfg : Cfg) (ctx : Ctx) (t3 : List Tok) : Except Err (List Tok × List Str) :=
  match flatMapM (tokA cfg ctx) t3 with
  | .error e => .error e
  | .ok t4 =>
    let t6 := (passB cfg ctx t4).flatMap (tokC cfg ctx)
    .ok (t6.flatMap (tokD cfg ctx), t3.flatMap (warnA cfg ctx) ++ t6.flatMap (warnD ctx))

/-- THE WHOLE VARIABLE PASS (`_process_variables`: filtered, defaulted, optional, simple — four regex sub-passes over
    the text) of the string layer computes the token layer's variable pass, text and warnings, on the printed form of
    every well-formed token list, when bound values and filter results contain no `{`. -/
theorem processVariables_print (cfg : Cfg) (hs : CfgSane2 cfg) (ctx : Ctx) (htext : ∀ n, NoLB (textOf ctx n))
    (hfilt : ∀ f n r, cfg.applyF f n = .ok r → NoLB r) (ts : List Tok) (hw : ∀ t ∈ ts, t.wfs cfg) :
    processVariables cfg ctx (printToks ts)
      = match varPassTok cfg ctx ts with
        | .ok (out, w) => .ok (printToks out, w)
        | .error e => .error e := by
  obtain ⟨h1, h1w⟩ := passFiltered_print cfg hs ctx htext hfilt ts hw
  unfold processVariables varPassTok
  rw [h1]
  cases hA : flatMapM (tokA cfg ctx) ts with
  | error e => rfl
  | ok t4 =>
    have hw4 := h1w t4 hA
    obtain ⟨h2, h2w⟩ := passDefault_print cfg hs ctx htext t4 hw4
    have hwp : ∀ t ∈ passB cfg ctx t4, t.wfp cfg := fun t ht => (h2w t ht).wfp hs
    simp only [h2, passOptional_print cfg hs.toCfgSane ctx htext _ hwp,
      passSimple_print cfg hs.toCfgSane ctx htext _ (tokC_wfp cfg ctx htext _ hwp)]

end Operon.Tmpl

namespace Operon.Tmpl
open Operon.Ribosome

/-! ### `findSub` (the lazy `.*?` up to a closing tag) on printed tokens -/

theorem findSub_skip (p u rest : Str) (h : ∀ i, i < u.length → stripPrefix p (u.drop i ++ rest) = none) :
    findSub p (u ++ rest) = (findSub p rest).map (fun x => (u ++ x.1, x.2)) := by
  induction u with
  | nil => simp only [List.nil_append]; cases hf : findSub p rest <;> simp
  | cons c u ih =>
    have h0 := h 0 (by simp)
    simp only [List.drop_zero, List.cons_append] at h0
    have ih' := ih (fun i hi => by have := h (i + 1) (by simp; omega); simpa using this)
    simp only [List.cons_append, findSub, h0, ih']
    cases hf : findSub p rest <;> simp

theorem findSub_hit (p rest : Str) (hp : p ≠ []) : findSub p (p ++ rest) = some ([], rest) := by
  cases p with
  | nil => exact absurd rfl hp
  | cons a p =>
    have := stripPrefix_append (a :: p) rest
    simp only [List.cons_append] at this ⊢
    simp [findSub, this]

/-- split a token list at the first occurrence of `t0` -/
def splitTok (t0 : Tok) : List Tok → Option (List Tok × List Tok)
  | [] => none
  | t :: r => if t = t0 then some ([], r) else (splitTok t0 r).map (fun x => (t :: x.1, x.2))

/-- GENERIC.  Searching the printed form of a tag `t0` in a printed token list finds the first `t0` TOKEN. -/
theorem findSub_print (cfg : Cfg) (hs : CfgSane cfg) (t0 : Tok) (hne : t0.print ≠ [])
    (hm : NeedsLL (stripM t0.print)) (ts : List Tok) (hw : ∀ t ∈ ts, t.wfp cfg)
    (hat : ∀ t ∈ ts, t.isTag = true → ∀ rest, stripM t0.print (t.print ++ rest) = (viewIs t0 t).map (fun u => (u, rest)))
    (hv : t0.isTag = true) :
    findSub t0.print (printToks ts) = (splitTok t0 ts).map (fun x => (printToks x.1, printToks x.2)) := by
  have strip_of : ∀ s, stripM t0.print s = none → stripPrefix t0.print s = none := by
    intro s h; simp only [stripM] at h; cases hh : stripPrefix t0.print s with
    | none => rfl
    | some r => rw [hh] at h; cases h
  induction ts with
  | nil => cases h : t0.print with
    | nil => exact absurd h hne
    | cons a p => rfl
  | cons t ts ih =>
    have hwt := hw t (by simp)
    have ih' := ih (fun x hx => hw x (by simp [hx])) (fun x hx => hat x (by simp [hx]))
    have hpt : printToks (t :: ts) = t.print ++ printToks ts := by simp [printToks]
    rw [hpt]
    by_cases ht : t = t0
    · subst ht
      simp [splitTok, findSub_hit _ _ hne, printToks]
    · simp only [splitTok, ht, if_false]
      rw [findSub_skip, ih']
      · cases splitTok t0 ts <;> simp [printToks]
      · intro i hi
        apply strip_of
        match i with
        | 0 =>
          simp only [List.drop_zero]
          cases htag : t.isTag
          · rcases print_shape cfg hs t hwt with ⟨_, hp⟩ | ⟨h1, _⟩
            · simpa using plain_none _ hm t.print (printToks ts) hp 0 hi
            · rw [htag] at h1; cases h1
          · have h0 := hat t (by simp) htag (printToks ts)
            simpa [viewIs, ht] using h0
        | i + 1 => exact inner_none cfg hs _ hm t hwt _ (i + 1) (by omega) hi

/-! the three closing / separating tags -/

theorem needsLL_stripTag (p : Nat) (pre : Str) : NeedsLL (stripM (123 :: 123 :: p :: pre)) :=
  needsLL_of_strip _ p pre (fun s h => by simp [stripM, h])

theorem stripEndIf_at (cfg : Cfg) (hs : CfgSane cfg) (t : Tok) (hw : t.wfp cfg) (htag : t.isTag = true) (rest : Str) :
    stripM Tok.ifC.print (t.print ++ rest) = (viewIs .ifC t).map (fun u => (u, rest)) := by
  have third : ∀ (d : Nat) (s : Str), d ≠ 47 → stripM ENDIF (123 :: 123 :: d :: s) = none := by
    intro d s hd
    have : (47 = d) = False := by simp; omega
    simp [stripM, ENDIF, stripPrefix, this]
  have word : ∀ n : Str, WordName cfg n → ∀ s, stripM ENDIF (123 :: 123 :: (n ++ s)) = none := by
    intro n hn s
    obtain ⟨c, tl, rfl, hc⟩ := word_head hn
    exact third c _ (fun e => by rw [e, hs.slash] at hc; cases hc)
  cases t with
  | text s => cases htag
  | val s => cases htag
  | ifC => simp [Tok.print, stripM, stripPrefix_append, viewIs]
  | eachC => simp [Tok.print, stripM, ENDIF, ENDEACH, stripPrefix, viewIs]
  | var n => simpa [Tok.print, tagOf, LL, viewIs] using word n hw _
  | pipe n a => simpa [Tok.print, pipeTag, LL, viewIs] using word n hw.1 _
  | dot => simpa [Tok.print, tagOf, kDot, LL, viewIs] using third 46 _ (by decide)
  | opt n => simpa [Tok.print, OPTH, viewIs] using third 63 _ (by decide)
  | inc n => simpa [Tok.print, INCH, viewIs] using third 62 _ (by decide)
  | ifO ws n => simpa [Tok.print, IFH, viewIs] using third 35 _ (by decide)
  | els => simpa [Tok.print, ELSE, viewIs] using third 35 _ (by decide)
  | eachO ws n => simpa [Tok.print, EACHH, viewIs] using third 35 _ (by decide)

theorem stripEndEach_at (cfg : Cfg) (hs : CfgSane cfg) (t : Tok) (hw : t.wfp cfg) (htag : t.isTag = true) (rest : Str) :
    stripM Tok.eachC.print (t.print ++ rest) = (viewIs .eachC t).map (fun u => (u, rest)) := by
  have third : ∀ (d : Nat) (s : Str), d ≠ 47 → stripM ENDEACH (123 :: 123 :: d :: s) = none := by
    intro d s hd
    have : (47 = d) = False := by simp; omega
    simp [stripM, ENDEACH, stripPrefix, this]
  have word : ∀ n : Str, WordName cfg n → ∀ s, stripM ENDEACH (123 :: 123 :: (n ++ s)) = none := by
    intro n hn s
    obtain ⟨c, tl, rfl, hc⟩ := word_head hn
    exact third c _ (fun e => by rw [e, hs.slash] at hc; cases hc)
  cases t with
  | text s => cases htag
  | val s => cases htag
  | eachC => simp [Tok.print, stripM, stripPrefix_append, viewIs]
  | ifC => simp [Tok.print, stripM, ENDIF, ENDEACH, stripPrefix, viewIs]
  | var n => simpa [Tok.print, tagOf, LL, viewIs] using word n hw _
  | pipe n a => simpa [Tok.print, pipeTag, LL, viewIs] using word n hw.1 _
  | dot => simpa [Tok.print, tagOf, kDot, LL, viewIs] using third 46 _ (by decide)
  | opt n => simpa [Tok.print, OPTH, viewIs] using third 63 _ (by decide)
  | inc n => simpa [Tok.print, INCH, viewIs] using third 62 _ (by decide)
  | ifO ws n => simpa [Tok.print, IFH, viewIs] using third 35 _ (by decide)
  | els => simpa [Tok.print, ELSE, viewIs] using third 35 _ (by decide)
  | eachO ws n => simpa [Tok.print, EACHH, viewIs] using third 35 _ (by decide)

theorem findEndIf_print (cfg : Cfg) (hs : CfgSane cfg) (ts : List Tok) (hw : ∀ t ∈ ts, t.wfp cfg) :
    findSub ENDIF (printToks ts) = (splitTok .ifC ts).map (fun x => (printToks x.1, printToks x.2)) :=
  findSub_print cfg hs .ifC (by simp [Tok.print, ENDIF]) (needsLL_stripTag 47 _) ts hw
    (fun t ht htag rest => stripEndIf_at cfg hs t (hw t ht) htag rest) rfl

theorem findEndEach_print (cfg : Cfg) (hs : CfgSane cfg) (ts : List Tok) (hw : ∀ t ∈ ts, t.wfp cfg) :
    findSub ENDEACH (printToks ts) = (splitTok .eachC ts).map (fun x => (printToks x.1, printToks x.2)) :=
  findSub_print cfg hs .eachC (by simp [Tok.print, ENDEACH]) (needsLL_stripTag 47 _) ts hw
    (fun t ht htag rest => stripEndEach_at cfg hs t (hw t ht) htag rest) rfl

end Operon.Tmpl

namespace Operon.Tmpl
open Operon.Ribosome

/-! ### the conditional scanner: `lazyIf` on printed tokens -/

theorem stripElse_at (cfg : Cfg) (hs : CfgSane cfg) (t : Tok) (hw : t.wfp cfg) (htag : t.isTag = true) (rest : Str) :
    stripM Tok.els.print (t.print ++ rest) = (viewIs .els t).map (fun u => (u, rest)) := by
  have third : ∀ (d : Nat) (s : Str), d ≠ 35 → stripM ELSE (123 :: 123 :: d :: s) = none := by
    intro d s hd
    have : (35 = d) = False := by simp; omega
    simp [stripM, ELSE, stripPrefix, this]
  have word : ∀ n : Str, WordName cfg n → ∀ s, stripM ELSE (123 :: 123 :: (n ++ s)) = none := by
    intro n hn s
    obtain ⟨c, tl, rfl, hc⟩ := word_head hn
    exact third c _ (fun e => by rw [e, hs.hash] at hc; cases hc)
  cases t with
  | text s => cases htag
  | val s => cases htag
  | els => simp [Tok.print, stripM, stripPrefix_append, viewIs]
  | ifO ws n => simp [Tok.print, stripM, IFH, ELSE, stripPrefix, viewIs]
  | eachO ws n => simp [Tok.print, stripM, EACHH, ELSE, stripPrefix, viewIs]
  | var n => simpa [Tok.print, tagOf, LL, viewIs] using word n hw _
  | pipe n a => simpa [Tok.print, pipeTag, LL, viewIs] using word n hw.1 _
  | dot => simpa [Tok.print, tagOf, kDot, LL, viewIs] using third 46 _ (by decide)
  | opt n => simpa [Tok.print, OPTH, viewIs] using third 63 _ (by decide)
  | inc n => simpa [Tok.print, INCH, viewIs] using third 62 _ (by decide)
  | ifC => simpa [Tok.print, ENDIF, viewIs] using third 47 _ (by decide)
  | eachC => simpa [Tok.print, ENDEACH, viewIs] using third 47 _ (by decide)

theorem stripM_none {old s : Str} (h : stripM old s = none) : stripPrefix old s = none := by
  simp only [stripM] at h
  cases hh : stripPrefix old s with
  | none => rfl
  | some r => rw [hh] at h; cases h

theorem stripM_some {old s r : Str} (h : stripM old s = some ((), r)) : stripPrefix old s = some r := by
  simp only [stripM] at h
  cases hh : stripPrefix old s with
  | none => rw [hh] at h; cases h
  | some r' => rw [hh] at h; simp at h; rw [h]

theorem lazyIf_step_none (c : Nat) (s : Str) (h1 : stripPrefix ELSE (c :: s) = none)
    (h2 : stripPrefix ENDIF (c :: s) = none) :
    lazyIf (c :: s) = (lazyIf s).map (fun x => (c :: x.1, x.2.1, x.2.2)) := by
  rw [lazyIf]; simp only [h1, h2]; cases lazyIf s <;> simp

theorem lazyIf_step_end (c : Nat) (s rest : Str) (h1 : stripPrefix ELSE (c :: s) = none)
    (h2 : stripPrefix ENDIF (c :: s) = some rest) : lazyIf (c :: s) = some ([], none, rest) := by
  rw [lazyIf]; simp only [h1, h2]

theorem lazyIf_step_else (c : Nat) (s r : Str) (h1 : stripPrefix ELSE (c :: s) = some r)
    (h2 : stripPrefix ENDIF (c :: s) = none) :
    lazyIf (c :: s) = match findSub ENDIF r with
      | some x => some ([], some x.1, x.2)
      | none => (lazyIf s).map (fun x => (c :: x.1, x.2.1, x.2.2)) := by
  rw [lazyIf]; simp only [h1, h2]
  cases findSub ENDIF r with
  | some x => rfl
  | none => cases lazyIf s <;> simp

theorem lazyIf_skip (u rest : Str) (h1 : ∀ i, i < u.length → stripPrefix ELSE (u.drop i ++ rest) = none)
    (h2 : ∀ i, i < u.length → stripPrefix ENDIF (u.drop i ++ rest) = none) :
    lazyIf (u ++ rest) = (lazyIf rest).map (fun x => (u ++ x.1, x.2.1, x.2.2)) := by
  induction u with
  | nil => simp only [List.nil_append]; cases hf : lazyIf rest <;> simp
  | cons c u ih =>
    have h10 := h1 0 (by simp)
    have h20 := h2 0 (by simp)
    simp only [List.drop_zero, List.cons_append] at h10 h20
    have ih' := ih (fun i hi => by have := h1 (i + 1) (by simp; omega); simpa using this)
      (fun i hi => by have := h2 (i + 1) (by simp; omega); simpa using this)
    simp only [List.cons_append, lazyIf, h10, h20, ih']
    cases hf : lazyIf rest <;> simp

def lazyTok : List Tok → Option (List Tok × Option (List Tok) × List Tok)
  | [] => none
  | t :: r =>
    match (if t = .els then (splitTok .ifC r).map (fun x => (([] : List Tok), some x.1, x.2)) else none) with
    | some x => some x
    | none => if t = .ifC then some ([], none, r) else (lazyTok r).map (fun x => (t :: x.1, x.2.1, x.2.2))

def prT (x : List Tok × Option (List Tok) × List Tok) : Str × Option Str × Str :=
  (printToks x.1, x.2.1.map printToks, printToks x.2.2)

/-- the lazy tail of the conditional regex on printed tokens: up to the first `{{/if}}` TOKEN, split at the first
    `{{#else}}` TOKEN before it -/
theorem lazyIf_print (cfg : Cfg) (hs : CfgSane cfg) (ts : List Tok) (hw : ∀ t ∈ ts, t.wfp cfg) :
    lazyIf (printToks ts) = (lazyTok ts).map prT := by
  induction ts with
  | nil => rfl
  | cons t ts ih =>
    have hwt := hw t (by simp)
    have hws : ∀ x ∈ ts, x.wfp cfg := fun x hx => hw x (by simp [hx])
    have ih' := ih hws
    have hpt : printToks (t :: ts) = t.print ++ printToks ts := by simp [printToks]
    rw [hpt]
    have inner1 : ∀ i, 0 < i → i < t.print.length → stripPrefix ELSE (t.print.drop i ++ printToks ts) = none :=
      fun i h0 hi => stripM_none (inner_none cfg hs _ (needsLL_stripTag 35 _) t hwt _ i h0 hi)
    have inner2 : ∀ i, 0 < i → i < t.print.length → stripPrefix ENDIF (t.print.drop i ++ printToks ts) = none :=
      fun i h0 hi => stripM_none (inner_none cfg hs _ (needsLL_stripTag 47 _) t hwt _ i h0 hi)
    rcases print_shape cfg hs t hwt with ⟨hnt, hp⟩ | ⟨htag, c, tail, hp, hc, htl⟩
    · -- text / value: skipped
      have hne1 : t ≠ .els := by intro e; rw [e] at hnt; cases hnt
      have hne2 : t ≠ .ifC := by intro e; rw [e] at hnt; cases hnt
      rw [lazyIf_skip _ _ (fun i hi => stripM_none (plain_none _ (needsLL_stripTag 35 _) _ _ hp i hi))
        (fun i hi => stripM_none (plain_none _ (needsLL_stripTag 47 _) _ _ hp i hi)), ih']
      simp only [lazyTok, hne1, hne2, if_false]
      cases lazyTok ts <;> simp [prT, printToks]
    · have hE : stripM ELSE (t.print ++ printToks ts) = (viewIs .els t).map (fun u => (u, printToks ts)) :=
        stripElse_at cfg hs t hwt htag (printToks ts)
      have hC : stripM ENDIF (t.print ++ printToks ts) = (viewIs .ifC t).map (fun u => (u, printToks ts)) :=
        stripEndIf_at cfg hs t hwt htag (printToks ts)
      have hsk : lazyIf (123 :: c :: (tail ++ printToks ts))
          = (lazyIf (printToks ts)).map (fun x => (123 :: c :: (tail ++ x.1), x.2.1, x.2.2)) := by
        have := lazyIf_skip (123 :: c :: tail) (printToks ts)
          (fun i hi => by
            have := inner1 (i + 1) (by omega) (by rw [hp]; simpa using hi); rw [hp] at this; simpa using this)
          (fun i hi => by
            have := inner2 (i + 1) (by omega) (by rw [hp]; simpa using hi); rw [hp] at this; simpa using this)
        simpa using this
      have hcons : t.print ++ printToks ts = 123 :: 123 :: c :: (tail ++ printToks ts) := by rw [hp]; simp
      rw [hcons] at hE hC ⊢
      by_cases he : t = .els
      · subst he
        have hE' := stripM_some (r := printToks ts) (by simpa [viewIs] using hE)
        have hC' := stripM_none (by simpa [viewIs] using hC)
        rw [lazyIf_step_else _ _ _ hE' hC', findEndIf_print cfg hs ts hws]
        simp only [lazyTok, if_true]
        cases hsp : splitTok .ifC ts with
        | some x => simp [prT, printToks]
        | none =>
          simp only [Option.map]
          rw [hsk, ih']
          have : ¬ (Tok.els = Tok.ifC) := by intro h; cases h
          simp only [this, if_false]
          cases lazyTok ts <;> simp [prT, printToks, hp]
      · have hE' := stripM_none (by simpa [viewIs, he] using hE)
        by_cases hc' : t = .ifC
        · subst hc'
          have hC' := stripM_some (r := printToks ts) (by simpa [viewIs] using hC)
          rw [lazyIf_step_end _ _ _ hE' hC']
          simp [lazyTok, prT, printToks]
        · have hC' := stripM_none (by simpa [viewIs, hc'] using hC)
          rw [lazyIf_step_none _ _ hE' hC', hsk, ih']
          simp only [lazyTok, he, hc', if_false]
          cases lazyTok ts <;> simp [prT, printToks, hp]

end Operon.Tmpl

namespace Operon.Tmpl
open Operon.Ribosome

/-! ### block heads `\{\{#if\s+(\w+)\}\}` / `\{\{#each\s+(\w+)\}\}` -/

def viewIfO : Tok → Option (Str × Str)
  | .ifO ws n => some (ws, n)
  | _ => none

def viewEachO : Tok → Option (Str × Str)
  | .eachO ws n => some (ws, n)
  | _ => none

theorem mHead_strip_none (cfg : Cfg) (pre s : Str) (h : stripPrefix pre s = none) : matchHead cfg pre s = none := by
  simp [matchHead, h]

theorem mHead_hit (cfg : Cfg) (hs : CfgSane2 cfg) (pre ws n rest : Str) (hws : SpaceRun cfg ws) (hn : WordName cfg n) :
    matchHead cfg pre (pre ++ (ws ++ (n ++ 125 :: 125 :: rest))) = some (ws, n, rest) := by
  obtain ⟨c, tl, rfl, hc⟩ := word_head hn
  have h1 := spanP_word cfg.isSpace ws c (tl ++ 125 :: 125 :: rest) hws.2 (hs.disj c hc)
  have h2 := spanP_word cfg.isWord (c :: tl) 125 (125 :: rest) hn.2 hs.rb
  simp only [List.cons_append] at h1 h2
  simp only [matchHead, stripPrefix_append, List.cons_append, h1, h2]
  simp [hws.1, stripPrefix, RR]

theorem mHeadIf_at (cfg : Cfg) (hs : CfgSane2 cfg) (t : Tok) (hw : t.wfs cfg) (htag : t.isTag = true) (rest : Str) :
    matchHead cfg IFH (t.print ++ rest) = (viewIfO t).map (fun p => (p.1, p.2, rest)) := by
  have third : ∀ (d : Nat) (s : Str), d ≠ 35 → matchHead cfg IFH (123 :: 123 :: d :: s) = none := by
    intro d s hd
    have : (35 = d) = False := by simp; omega
    exact mHead_strip_none cfg _ _ (by simp [IFH, stripPrefix, this])
  have word : ∀ n : Str, WordName cfg n → ∀ s, matchHead cfg IFH (123 :: 123 :: (n ++ s)) = none := by
    intro n hn s
    obtain ⟨c, tl, rfl, hc⟩ := word_head hn
    exact third c _ (fun e => by rw [e, hs.hash] at hc; cases hc)
  cases t with
  | text s => cases htag
  | val s => cases htag
  | ifO ws n =>
    have := mHead_hit cfg hs IFH ws n rest hw.1 hw.2
    simpa [Tok.print, viewIfO, RR] using this
  | els => exact mHead_strip_none cfg _ _ (by simp [Tok.print, IFH, ELSE, stripPrefix])
  | eachO ws n => exact mHead_strip_none cfg _ _ (by simp [Tok.print, IFH, EACHH, stripPrefix])
  | var n => simpa [Tok.print, tagOf, LL, viewIfO] using word n hw _
  | pipe n a => simpa [Tok.print, pipeTag, LL, viewIfO] using word n hw.1 _
  | dot => simpa [Tok.print, tagOf, kDot, LL, viewIfO] using third 46 _ (by decide)
  | opt n => simpa [Tok.print, OPTH, viewIfO] using third 63 _ (by decide)
  | inc n => simpa [Tok.print, INCH, viewIfO] using third 62 _ (by decide)
  | ifC => simpa [Tok.print, ENDIF, viewIfO] using third 47 _ (by decide)
  | eachC => simpa [Tok.print, ENDEACH, viewIfO] using third 47 _ (by decide)

theorem mHeadEach_at (cfg : Cfg) (hs : CfgSane2 cfg) (t : Tok) (hw : t.wfs cfg) (htag : t.isTag = true) (rest : Str) :
    matchHead cfg EACHH (t.print ++ rest) = (viewEachO t).map (fun p => (p.1, p.2, rest)) := by
  have third : ∀ (d : Nat) (s : Str), d ≠ 35 → matchHead cfg EACHH (123 :: 123 :: d :: s) = none := by
    intro d s hd
    have : (35 = d) = False := by simp; omega
    exact mHead_strip_none cfg _ _ (by simp [EACHH, stripPrefix, this])
  have word : ∀ n : Str, WordName cfg n → ∀ s, matchHead cfg EACHH (123 :: 123 :: (n ++ s)) = none := by
    intro n hn s
    obtain ⟨c, tl, rfl, hc⟩ := word_head hn
    exact third c _ (fun e => by rw [e, hs.hash] at hc; cases hc)
  cases t with
  | text s => cases htag
  | val s => cases htag
  | eachO ws n =>
    have := mHead_hit cfg hs EACHH ws n rest hw.1 hw.2
    simpa [Tok.print, viewEachO, RR] using this
  | els => exact mHead_strip_none cfg _ _ (by simp [Tok.print, EACHH, ELSE, stripPrefix])
  | ifO ws n => exact mHead_strip_none cfg _ _ (by simp [Tok.print, IFH, EACHH, stripPrefix])
  | var n => simpa [Tok.print, tagOf, LL, viewEachO] using word n hw _
  | pipe n a => simpa [Tok.print, pipeTag, LL, viewEachO] using word n hw.1 _
  | dot => simpa [Tok.print, tagOf, kDot, LL, viewEachO] using third 46 _ (by decide)
  | opt n => simpa [Tok.print, OPTH, viewEachO] using third 63 _ (by decide)
  | inc n => simpa [Tok.print, INCH, viewEachO] using third 62 _ (by decide)
  | ifC => simpa [Tok.print, ENDIF, viewEachO] using third 47 _ (by decide)
  | eachC => simpa [Tok.print, ENDEACH, viewEachO] using third 47 _ (by decide)

theorem needsLL_cond (cfg : Cfg) : NeedsLL (matchCond cfg) :=
  needsLL_of_strip _ 35 [105, 102] (fun s h => by
    have : matchHead cfg IFH s = none := mHead_strip_none cfg IFH s h
    simp [matchCond, this])

theorem needsLL_loop (cfg : Cfg) : NeedsLL (matchLoop cfg) :=
  needsLL_of_strip _ 35 [101, 97, 99, 104] (fun s h => by
    have : matchHead cfg EACHH s = none := mHead_strip_none cfg EACHH s h
    simp [matchLoop, this])

/-! ### token-level facts about `condGo` and `lazyTok` -/

def verbatim : CSt → List Tok
  | .out => []
  | .thn ws n acc => .ifO ws n :: acc
  | .els ws n t acc => .ifO ws n :: t ++ .els :: acc

theorem condGo_no_close (ctx : Ctx) (r : List Tok) (h : Tok.ifC ∉ r) : ∀ st, condGo ctx st r = verbatim st ++ r := by
  induction r with
  | nil => intro st; cases st <;> simp [condGo, verbatim]
  | cons t r ih =>
    have ht : t ≠ .ifC := fun e => h (by simp [e])
    have ih' := ih (fun hm => h (by simp [hm]))
    intro st
    cases st with
    | out =>
      cases t <;> first | (exact absurd rfl ht) | (simp [condGo, ih', verbatim])
    | thn ws n acc =>
      cases t <;> first | (exact absurd rfl ht) | (simp [condGo, ih', verbatim])
    | els ws n a acc =>
      cases t <;> first | (exact absurd rfl ht) | (simp [condGo, ih', verbatim])

theorem splitTok_none (t0 : Tok) (r : List Tok) (h : splitTok t0 r = none) : t0 ∉ r := by
  induction r with
  | nil => simp
  | cons t r ih =>
    simp only [splitTok] at h
    split at h
    · cases h
    · rename_i hne
      have : splitTok t0 r = none := by cases hh : splitTok t0 r <;> simp [hh] at h ⊢
      intro hm
      rcases List.mem_cons.mp hm with e | e
      · exact hne e.symm
      · exact ih this e

theorem lazyTok_none (r : List Tok) (h : lazyTok r = none) : Tok.ifC ∉ r := by
  induction r with
  | nil => simp
  | cons t r ih =>
    simp only [lazyTok] at h
    split at h
    · cases h
    · split at h
      · cases h
      · rename_i hne
        have : lazyTok r = none := by cases hh : lazyTok r <;> simp [hh] at h ⊢
        intro hm
        rcases List.mem_cons.mp hm with e | e
        · exact hne e.symm
        · exact ih this e

theorem splitTok_of_not_mem (t0 : Tok) (r : List Tok) (h : t0 ∉ r) : splitTok t0 r = none := by
  induction r with
  | nil => rfl
  | cons t r ih =>
    have ht : t ≠ t0 := fun e => h (by simp [e])
    simp [splitTok, ht, ih (fun hm => h (by simp [hm]))]

theorem lazyTok_of_no_close (r : List Tok) (h : Tok.ifC ∉ r) : lazyTok r = none := by
  induction r with
  | nil => rfl
  | cons t r ih =>
    have ht : t ≠ .ifC := fun e => h (by simp [e])
    have hr : Tok.ifC ∉ r := fun hm => h (by simp [hm])
    simp [lazyTok, splitTok_of_not_mem _ _ hr, ht, ih hr]

theorem condGo_els_split (ctx : Ctx) (ws n : Str) (t : List Tok) : ∀ (r acc e rest : List Tok),
    splitTok .ifC r = some (e, rest) →
    condGo ctx (.els ws n t acc) r = (if truthyOf ctx n then t else acc ++ e) ++ condGo ctx .out rest := by
  intro r
  induction r with
  | nil => intro acc e rest h; simp [splitTok] at h
  | cons x r ih =>
    intro acc e rest h
    simp only [splitTok] at h
    split at h
    · rename_i hx
      subst hx
      simp only [Option.some.injEq, Prod.mk.injEq] at h
      obtain ⟨rfl, rfl⟩ := h
      simp [condGo]
    · rename_i hx
      cases hh : splitTok .ifC r with
      | none => simp [hh] at h
      | some y =>
        simp only [hh, Option.map, Option.some.injEq, Prod.mk.injEq] at h
        obtain ⟨rfl, rfl⟩ := h
        have := ih (acc ++ [x]) y.1 y.2 (by rw [hh])
        cases x <;> first | (exact absurd rfl hx) | (simp [condGo, this])

theorem condGo_lazy (ctx : Ctx) (ws n : Str) : ∀ (r acc a : List Tok) (e : Option (List Tok)) (rest : List Tok),
    lazyTok r = some (a, e, rest) →
    condGo ctx (.thn ws n acc) r = (if truthyOf ctx n then acc ++ a else e.getD []) ++ condGo ctx .out rest := by
  intro r
  induction r with
  | nil => intro acc a e rest h; simp [lazyTok] at h
  | cons x r ih =>
    intro acc a e rest h
    simp only [lazyTok] at h
    by_cases hx : x = .els
    · subst hx
      cases hs : splitTok .ifC r with
      | some y =>
        simp only [hs, if_true, Option.map, Option.some.injEq, Prod.mk.injEq] at h
        obtain ⟨rfl, rfl, rfl⟩ := h
        simp [condGo, condGo_els_split ctx ws n acc r [] y.1 y.2 (by rw [hs])]
      | none =>
        have hnc := splitTok_none _ _ hs
        have : lazyTok r = none := lazyTok_of_no_close r hnc
        simp [hs, this] at h
    · simp only [hx, if_false] at h
      by_cases hc : x = .ifC
      · subst hc
        simp only [if_true, Option.some.injEq, Prod.mk.injEq] at h
        obtain ⟨rfl, rfl, rfl⟩ := h
        simp [condGo]
      · simp only [hc, if_false] at h
        cases hl : lazyTok r with
        | none => simp [hl] at h
        | some y =>
          simp only [hl, Option.map, Option.some.injEq, Prod.mk.injEq] at h
          obtain ⟨rfl, rfl, rfl⟩ := h
          have := ih (acc ++ [x]) y.1 y.2.1 y.2.2 (by rw [hl])
          cases x <;> first | (exact absurd rfl hx) | (exact absurd rfl hc) | (simp [condGo, this])

theorem splitTok_length (t0 : Tok) (r e rest : List Tok) (h : splitTok t0 r = some (e, rest)) : rest.length < r.length := by
  induction r generalizing e with
  | nil => simp [splitTok] at h
  | cons x r ih =>
    simp only [splitTok] at h
    split at h
    · simp only [Option.some.injEq, Prod.mk.injEq] at h; rw [← h.2]; simp
    · cases hh : splitTok t0 r with
      | none => simp [hh] at h
      | some y =>
        simp only [hh, Option.map, Option.some.injEq, Prod.mk.injEq] at h
        have := ih y.1 (by rw [hh, ← h.2])
        simp; omega

theorem lazyTok_length (r a : List Tok) (e : Option (List Tok)) (rest : List Tok) (h : lazyTok r = some (a, e, rest)) :
    rest.length < r.length := by
  induction r generalizing a with
  | nil => simp [lazyTok] at h
  | cons x r ih =>
    simp only [lazyTok] at h
    split at h
    · rename_i y hy
      split at hy
      · cases hs : splitTok .ifC r with
        | none => simp [hs] at hy
        | some z =>
          simp only [hs, Option.map, Option.some.injEq] at hy
          subst hy
          simp only [Option.some.injEq, Prod.mk.injEq] at h
          have := splitTok_length .ifC r z.1 z.2 (by rw [hs])
          rw [← h.2.2]; simp; omega
      · cases hy
    · split at h
      · simp only [Option.some.injEq, Prod.mk.injEq] at h; rw [← h.2.2]; simp
      · cases hl : lazyTok r with
        | none => simp [hl] at h
        | some y =>
          simp only [hl, Option.map, Option.some.injEq, Prod.mk.injEq] at h
          have := ih y.1 (by rw [hl, ← h.2.2, ← h.2.1])
          simp; omega

end Operon.Tmpl

namespace Operon.Tmpl
open Operon.Ribosome

theorem splitTok_decomp (t0 : Tok) (r e rest : List Tok) (h : splitTok t0 r = some (e, rest)) : r = e ++ t0 :: rest := by
  induction r generalizing e with
  | nil => simp [splitTok] at h
  | cons x r ih =>
    simp only [splitTok] at h
    split at h
    · rename_i hx
      simp only [Option.some.injEq, Prod.mk.injEq] at h
      obtain ⟨rfl, rfl⟩ := h
      simp [hx]
    · cases hh : splitTok t0 r with
      | none => simp [hh] at h
      | some y =>
        simp only [hh, Option.map, Option.some.injEq, Prod.mk.injEq] at h
        obtain ⟨rfl, rfl⟩ := h
        have := ih y.1 (by rw [hh])
        simp [← this]

def elsPart : Option (List Tok) → List Tok
  | none => []
  | some e => .els :: e

theorem lazyTok_decomp (r a : List Tok) (e : Option (List Tok)) (rest : List Tok) (h : lazyTok r = some (a, e, rest)) :
    r = a ++ elsPart e ++ .ifC :: rest := by
  induction r generalizing a with
  | nil => simp [lazyTok] at h
  | cons x r ih =>
    simp only [lazyTok] at h
    by_cases hx : x = .els
    · subst hx
      cases hs : splitTok .ifC r with
      | some y =>
        simp only [hs, if_true, Option.map, Option.some.injEq, Prod.mk.injEq] at h
        obtain ⟨rfl, rfl, rfl⟩ := h
        have := splitTok_decomp .ifC r y.1 y.2 (by rw [hs])
        simp [elsPart, ← this]
      | none =>
        have := lazyTok_of_no_close r (splitTok_none _ _ hs)
        simp [hs, this] at h
    · simp only [hx, if_false] at h
      by_cases hc : x = .ifC
      · subst hc
        simp only [if_true, Option.some.injEq, Prod.mk.injEq] at h
        obtain ⟨rfl, rfl, rfl⟩ := h
        simp [elsPart]
      · simp only [hc, if_false] at h
        cases hl : lazyTok r with
        | none => simp [hl] at h
        | some y =>
          simp only [hl, Option.map, Option.some.injEq, Prod.mk.injEq] at h
          obtain ⟨rfl, rfl, rfl⟩ := h
          have := ih y.1 (by rw [hl])
          simp only [List.cons_append]
          rw [← this]

theorem printToks_append (a b : List Tok) : printToks (a ++ b) = printToks a ++ printToks b := by
  simp [printToks]

theorem printToks_cons (t : Tok) (b : List Tok) : printToks (t :: b) = t.print ++ printToks b := by
  simp [printToks]

/-- a scan steps over a whole printed token when the matcher fires neither at its start nor (being a `{{`-matcher)
    inside it -/
theorem scan_over_tok {α : Type} (cfg : Cfg) (hs : CfgSane cfg) (m : Str → Option (α × Str)) (hm : NeedsLL m) (t : Tok)
    (hw : t.wfp cfg) (rest : Str) (h0 : t.print ≠ [] → m (t.print ++ rest) = none) (f : Nat) :
    scan m (t.print.length + f) (t.print ++ rest) = t.print.map Sum.inl ++ scan m f rest := by
  apply scan_skip
  intro i hi
  match i with
  | 0 => simp only [List.drop_zero]; exact h0 (by intro e; rw [e] at hi; simp at hi)
  | i + 1 => exact inner_none cfg hs m hm t hw _ (i + 1) (by omega) hi

/-- THE CONDITIONAL PASS of the string layer (`_process_conditionals`: one lazy regex with an optional else part) is the
    token layer's left-to-right state machine `condPass`, on the printed form of every well-formed token list — nested,
    stray and unclosed block tags included. -/
theorem processConditionals_print (cfg : Cfg) (hs : CfgSane2 cfg) (ctx : Ctx) (ts : List Tok)
    (hw : ∀ t ∈ ts, t.wfs cfg) :
    processConditionals cfg ctx (printToks ts) = printToks (condPass ctx ts) := by
  unfold processConditionals scanStr condPass
  suffices H : ∀ (k : Nat) (ts : List Tok), ts.length ≤ k → (∀ t ∈ ts, t.wfs cfg) → ∀ f, (printToks ts).length ≤ f →
      subWith (fun (m : CondM) => if truthyOf ctx m.name then m.thn else m.els.getD [])
        (scan (matchCond cfg) f (printToks ts)) = printToks (condGo ctx .out ts) from
    H ts.length ts (Nat.le_refl _) hw _ (by omega)
  intro k
  induction k with
  | zero =>
    intro ts hl _ f _
    have : ts = [] := List.length_eq_zero_iff.mp (by omega)
    subst this
    simp [printToks, scan_nil, subWith, condGo]
  | succ k ih =>
    intro ts hl hw f hf
    cases ts with
    | nil => simp [printToks, scan_nil, subWith, condGo]
    | cons t r =>
      have hwt := hw t (by simp)
      have hwr : ∀ x ∈ r, x.wfs cfg := fun x hx => hw x (by simp [hx])
      have hwpr : ∀ x ∈ r, x.wfp cfg := fun x hx => (hwr x hx).wfp hs
      have hrl : r.length ≤ k := by simp at hl; omega
      rw [printToks_cons] at hf ⊢
      rw [List.length_append] at hf
      by_cases hhit : ∃ ws n a e rest, t = .ifO ws n ∧ lazyTok r = some (a, e, rest)
      · obtain ⟨ws, n, a, e, rest, rfl, hl'⟩ := hhit
        have hd := lazyTok_decomp r a e rest hl'
        have hm0 : matchCond cfg ((Tok.ifO ws n).print ++ printToks r)
            = some (⟨n, printToks a, e.map printToks⟩, printToks rest) := by
          simp [matchCond, mHeadIf_at cfg hs _ hwt rfl, viewIfO, lazyIf_print cfg hs.toCfgSane r hwpr, hl', prT]
        have hne : (Tok.ifO ws n).print = 123 :: ((Tok.ifO ws n).print.drop 1) := by simp [Tok.print, IFH]
        obtain ⟨f', rfl⟩ : ∃ f', f = f' + 1 := ⟨f - 1, by rw [hne] at hf; simp at hf; omega⟩
        have hlen : (printToks rest).length ≤ f' := by
          have : (printToks r).length = (printToks a).length + (printToks (elsPart e)).length
              + (Tok.ifC.print.length + (printToks rest).length) := by
            rw [hd]; simp [printToks_append, printToks_cons]; omega
          rw [hne] at hf; simp at hf; omega
        have hstep : scan (matchCond cfg) (f' + 1) ((Tok.ifO ws n).print ++ printToks r)
            = .inr ⟨n, printToks a, e.map printToks⟩ :: scan (matchCond cfg) f' (printToks rest) := by
          rw [hne] at hm0 ⊢
          simp only [List.cons_append] at hm0 ⊢
          simp only [scan, hm0]
        rw [hstep]
        simp only [subWith]
        rw [ih rest (by have := lazyTok_length r a e rest hl'; omega)
          (fun x hx => hwr x (by rw [hd]; simp [hx])) f' hlen]
        simp only [condGo, condGo_lazy ctx ws n r [] a e rest hl', List.nil_append, printToks_append]
        congr 1
        cases truthyOf ctx n <;> cases e <;> simp [printToks]
      · -- no hit at this token: it is stepped over
        have hm0 : t.print ≠ [] → matchCond cfg (t.print ++ printToks r) = none := by
          intro hne
          cases htag : t.isTag
          · rcases print_shape cfg hs.toCfgSane t (hwt.wfp hs) with ⟨_, hp⟩ | ⟨h1, _⟩
            · have := plain_none _ (needsLL_cond cfg) t.print (printToks r) hp 0
                (by cases h : t.print <;> simp_all)
              simpa using this
            · rw [htag] at h1; cases h1
          · have hH := mHeadIf_at cfg hs t hwt htag (printToks r)
            cases t with
            | ifO ws n =>
              cases hl' : lazyTok r with
              | none => simp [matchCond, hH, viewIfO, lazyIf_print cfg hs.toCfgSane r hwpr, hl']
              | some y => exact absurd ⟨ws, n, y.1, y.2.1, y.2.2, rfl, hl'⟩ hhit
            | _ => simp [matchCond, hH, viewIfO]
        have hsplit : f = t.print.length + (f - t.print.length) := by omega
        rw [hsplit, scan_over_tok cfg hs.toCfgSane _ (needsLL_cond cfg) t (hwt.wfp hs) _ hm0, subWith_inl,
          ih r hrl hwr _ (by omega)]
        have htok : condGo ctx .out (t :: r) = t :: condGo ctx .out r := by
          cases t with
          | ifO ws n =>
            have hnone : lazyTok r = none := by
              cases hl' : lazyTok r with
              | none => rfl
              | some y => exact absurd ⟨ws, n, y.1, y.2.1, y.2.2, rfl, hl'⟩ hhit
            have hnc := lazyTok_none r hnone
            simp [condGo, condGo_no_close ctx r hnc, verbatim]
          | _ => simp [condGo]
        rw [htok, printToks_cons]

/-- the conditional pass only drops or keeps tokens -/
theorem condGo_mem (ctx : Ctx) (r : List Tok) : ∀ st, ∀ x ∈ condGo ctx st r, x ∈ verbatim st ++ r := by
  induction r with
  | nil => intro st x hx; cases st <;> simp [condGo, verbatim] at hx ⊢ <;> exact hx
  | cons t r ih =>
    intro st x hx
    cases st with
    | out =>
      cases t with
      | ifO ws n =>
        have := ih (.thn ws n []) x (by simpa [condGo] using hx)
        simpa [verbatim] using this
      | _ =>
        simp only [condGo, List.mem_cons] at hx
        rcases hx with rfl | hx
        · simp [verbatim]
        · have := ih .out x hx; simp [verbatim] at this ⊢; exact Or.inr this
    | thn ws n acc =>
      cases t with
      | ifC =>
        simp only [condGo, List.mem_append] at hx
        rcases hx with hx | hx
        · split at hx
          · simp [verbatim, hx]
          · simp at hx
        · have := ih .out x hx; simp [verbatim] at this ⊢; exact Or.inr (Or.inr (Or.inr this))
      | els =>
        have := ih (.els ws n acc []) x (by simpa [condGo] using hx)
        simp [verbatim] at this ⊢
        rcases this with h | h | h | h <;> simp [h]
      | _ =>
        have := ih (.thn ws n (acc ++ [_])) x (by simpa [condGo] using hx)
        simp [verbatim] at this ⊢
        rcases this with h | h | h | h <;> simp [h]
    | els ws n a acc =>
      cases t with
      | ifC =>
        simp only [condGo, List.mem_append] at hx
        rcases hx with hx | hx
        · split at hx <;> simp [verbatim, hx]
        · have := ih .out x hx; simp [verbatim] at this ⊢; simp [this]
      | _ =>
        have := ih (.els ws n a (acc ++ [_])) x (by simpa [condGo] using hx)
        simp [verbatim] at this ⊢
        rcases this with h | h | h | h | h <;> simp [h]

theorem condPass_wfs (cfg : Cfg) (ctx : Ctx) (ts : List Tok) (hw : ∀ t ∈ ts, t.wfs cfg) :
    ∀ t ∈ condPass ctx ts, t.wfs cfg := by
  intro x hx
  have := condGo_mem ctx ts .out x hx
  exact hw x (by simpa [verbatim] using this)

end Operon.Tmpl

namespace Operon.Tmpl
open Operon.Ribosome

/-! ### loop bodies: `str.replace("{{key}}", value)` on printed tokens -/

/-- a loop-context key that can be the name of a `{{key}}` token: a word, or `.` -/
def GoodKey (cfg : Cfg) (k : Str) : Prop := WordName cfg k ∨ k = kDot

def viewKey (k : Str) (t : Tok) : Option Unit := if keyMatches k t then some () else none

theorem needsLL_stripKey (k : Str) : NeedsLL (stripM (tagOf k)) := by
  apply needsLL_of_LL
  intro s h
  have : tagOf k = LL ++ (k ++ RR) := by simp [tagOf]
  simp [stripM, this, stripPrefix_append_none LL _ s h]

theorem stripKey_at (cfg : Cfg) (hs : CfgSane cfg) (k : Str) (hk : GoodKey cfg k) (t : Tok)
    (hw : t.wfp cfg) (htag : t.isTag = true) (rest : Str) :
    stripM (tagOf k) (t.print ++ rest) = (viewKey k t).map (fun u => (u, rest)) := by
  have hk125 : 125 ∉ k := by
    rcases hk with h | h
    · exact word_no h 125 hs.rb
    · subst h; decide
  have hk124 : 124 ∉ k := by
    rcases hk with h | h
    · exact word_no h 124 hs.bar
    · subst h; decide
  have hpt : tagOf k = 123 :: 123 :: (k ++ 125 :: [125]) := by simp [tagOf, LL, RR]
  -- the third character of the pattern is a word character or `.`
  have third : ∀ (d : Nat) (s : Str), cfg.isWord d = false → d ≠ 46 → stripM (tagOf k) (123 :: 123 :: d :: s) = none := by
    intro d s hd hd46
    rcases hk with h | h
    · obtain ⟨c, tl, rfl, hc⟩ := word_head h
      have : c ≠ d := fun e => by rw [e, hd] at hc; cases hc
      rw [hpt]; simp [stripM, stripPrefix, this]
    · subst h
      have : (46 = d) = False := by simp; omega
      simp [stripM, tagOf, kDot, LL, stripPrefix, this]
  cases t with
  | text s => cases htag
  | val s => cases htag
  | var n =>
    have hp' : (Tok.var n).print ++ rest = 123 :: 123 :: (n ++ 125 :: (125 :: rest)) := by
      simp [Tok.print, tagOf, LL, RR]
    rw [hp', hpt]
    have h1 := stripPrefix_sep 125 k n [125] (125 :: rest) hk125 (word_no hw 125 hs.rb)
    simp only [stripM, stripPrefix, if_true, h1, viewKey, keyMatches, beq_iff_eq]
    by_cases e : k = n
    · subst e; simp [stripPrefix]
    · have e' : ¬ n = k := fun h => e h.symm
      simp [e, e']
  | dot =>
    have hp' : Tok.dot.print ++ rest = 123 :: 123 :: ([46] ++ 125 :: (125 :: rest)) := by
      simp [Tok.print, tagOf, kDot, LL, RR]
    rw [hp', hpt]
    have h1 := stripPrefix_sep 125 k [46] [125] (125 :: rest) hk125 (by decide)
    simp only [stripM, stripPrefix, if_true, h1, viewKey, keyMatches, beq_iff_eq, kDot]
    by_cases e : k = [46]
    · subst e; simp [stripPrefix]
    · simp [e]
  | pipe n a =>
    have hp' : (Tok.pipe n a).print ++ rest = 123 :: 123 :: (n ++ 124 :: (a ++ 125 :: 125 :: rest)) := by
      simp [Tok.print, pipeTag, LL, RR, BAR]
    rw [hp', hpt]
    have := stripPrefix_sep_ne 125 124 k n [125] (a ++ 125 :: 125 :: rest) (word_no hw.1 125 hs.rb) hk124 (by decide)
    simp [stripM, stripPrefix, this, viewKey, keyMatches]
  | opt n => simpa [Tok.print, OPTH, viewKey, keyMatches] using third 63 _ hs.q (by decide)
  | inc n => simpa [Tok.print, INCH, viewKey, keyMatches] using third 62 _ hs.gt (by decide)
  | ifO ws n => simpa [Tok.print, IFH, viewKey, keyMatches] using third 35 _ hs.hash (by decide)
  | els => simpa [Tok.print, ELSE, viewKey, keyMatches] using third 35 _ hs.hash (by decide)
  | ifC => simpa [Tok.print, ENDIF, viewKey, keyMatches] using third 47 _ hs.slash (by decide)
  | eachO ws n => simpa [Tok.print, EACHH, viewKey, keyMatches] using third 35 _ hs.hash (by decide)
  | eachC => simpa [Tok.print, ENDEACH, viewKey, keyMatches] using third 47 _ hs.slash (by decide)

/-- one `str.replace("{{key}}", value)` of the loop-body instantiation, on printed tokens -/
theorem replaceKey_print (cfg : Cfg) (hs : CfgSane cfg) (k v : Str) (hk : GoodKey cfg k)
    (b : List Tok) (hw : ∀ t ∈ b, t.wfp cfg) :
    replaceStr (tagOf k) v (printToks b) = printToks (b.flatMap (fun t => if keyMatches k t then [.val v] else [t])) := by
  unfold replaceStr
  rw [replaceAll_eq_scan _ _ (by simp [tagOf, LL]) _ _ (by omega)]
  rw [scan_print_gen cfg hs (stripM (tagOf k)) (needsLL_stripKey k) (viewKey k)
    (by intro t h; cases t <;> first | (simp [viewKey, keyMatches]; done) | cases h) b hw
    (fun t ht htag rest => stripKey_at cfg hs k hk t (hw t ht) htag rest) _ (by omega)]
  rw [subWith_scanView, printToks_flatMap]
  apply flatMap_congr'
  intro t _
  cases h : keyMatches k t <;> simp [viewKey, h, printToks, Tok.print]

def KeysGood (cfg : Cfg) (kvs : List (Str × Str)) : Prop := ∀ p ∈ kvs, GoodKey cfg p.1

/-- the whole loop-body instantiation (sequential `str.replace` over the loop context) = `substTok` -/
theorem substLoop_print (cfg : Cfg) (hs : CfgSane cfg) (kvs : List (Str × Str)) (hk : KeysGood cfg kvs)
    (hv : ValsNoLB kvs) (b : List Tok) (hw : ∀ t ∈ b, t.wfp cfg) :
    substLoop kvs (printToks b) = printToks (substTok cfg kvs b) ∧ ∀ t ∈ substTok cfg kvs b, t.wfp cfg ∧ (t ∈ b ∨ ∃ v, t = .val v) := by
  unfold substLoop substTok
  induction kvs generalizing b with
  | nil => exact ⟨rfl, fun t ht => ⟨hw t ht, Or.inl ht⟩⟩
  | cons p kvs ih =>
    simp only [List.foldl_cons]
    have hvp := hv p (by simp)
    rw [replaceKey_print cfg hs p.1 p.2 (hk p (by simp)) b hw]
    have heq : (b.flatMap fun t => if keyMatches p.1 t then [Tok.val p.2] else [t])
        = b.flatMap (fun t => if keyMatches p.1 t then lexVal cfg p.2 else [t]) := by
      rw [lexVal_noLB cfg _ hvp]; rfl
    rw [heq]
    have hw' : ∀ t ∈ b.flatMap (fun t => if keyMatches p.1 t then lexVal cfg p.2 else [t]),
        t.wfp cfg ∧ (t ∈ b ∨ ∃ v, t = .val v) := by
      intro x hx
      obtain ⟨t, ht, hxt⟩ := List.mem_flatMap.mp hx
      split at hxt
      · rw [lexVal_noLB cfg _ hvp] at hxt
        rw [mem_valTok hxt]; exact ⟨hvp, Or.inr ⟨_, rfl⟩⟩
      · simp at hxt; rw [hxt]; exact ⟨hw t ht, Or.inl ht⟩
    obtain ⟨h1, h2⟩ := ih (fun q hq => hk q (by simp [hq])) (fun q hq => hv q (by simp [hq])) _ (fun t ht => (hw' t ht).1)
    refine ⟨h1, ?_⟩
    intro t ht
    obtain ⟨h3, h4⟩ := h2 t ht
    refine ⟨h3, ?_⟩
    rcases h4 with h4 | h4
    · exact (hw' t h4).2
    · exact Or.inr h4

end Operon.Tmpl

namespace Operon.Tmpl
open Operon.Ribosome

/-! ### the loop pass -/

/-- the names of the documented loop variables are words of the environment's `\w` -/
structure LoopWords (cfg : Cfg) : Prop where
  item : WordName cfg kItem
  index : WordName cfg kIndex
  first : WordName cfg kFirst
  last : WordName cfg kLast

def ItemOK (cfg : Cfg) (it : Item) : Prop := NoLB it.text ∧ ∀ p ∈ it.fields, GoodKey cfg p.1 ∧ NoLB p.2

theorem updKey_keysGood (cfg : Cfg) (kvs : List (Str × Str)) (k v : Str) (h : KeysGood cfg kvs) (hk : GoodKey cfg k) :
    KeysGood cfg (updKey kvs k v) := by
  unfold updKey
  split
  · intro p hp
    simp only [List.mem_map] at hp
    obtain ⟨q, hq, rfl⟩ := hp
    split
    · exact hk
    · exact h q hq
  · intro p hp
    simp only [List.mem_append, List.mem_singleton] at hp
    rcases hp with hp | rfl
    · exact h p hp
    · exact hk

theorem foldl_updKey_keysGood (cfg : Cfg) (fs : List (Str × Str)) (kvs : List (Str × Str)) (h : KeysGood cfg kvs)
    (hf : ∀ p ∈ fs, GoodKey cfg p.1) : KeysGood cfg (fs.foldl (fun acc p => updKey acc p.1 p.2) kvs) := by
  induction fs generalizing kvs with
  | nil => simpa using h
  | cons p fs ih =>
    simp only [List.foldl_cons]
    exact ih _ (updKey_keysGood cfg kvs p.1 p.2 h (hf p (by simp))) (fun q hq => hf q (by simp [hq]))

theorem loopCtx_keysGood (cfg : Cfg) (hl : LoopWords cfg) (i len : Nat) (it : Item) (hf : ∀ p ∈ it.fields, GoodKey cfg p.1) :
    KeysGood cfg (loopCtx i len it) := by
  unfold loopCtx
  apply foldl_updKey_keysGood cfg _ _ _ hf
  intro p hp
  simp only [List.mem_cons, List.not_mem_nil, or_false] at hp
  rcases hp with rfl | rfl | rfl | rfl | rfl
  · exact Or.inr rfl
  · exact Or.inl hl.item
  · exact Or.inl hl.index
  · exact Or.inl hl.first
  · exact Or.inl hl.last

theorem expandItems_print (cfg : Cfg) (hs : CfgSane cfg) (hl : LoopWords cfg) (len : Nat) (body : List Tok)
    (hw : ∀ t ∈ body, t.wfp cfg) (its : List Item) (hi : ∀ it ∈ its, ItemOK cfg it) (i : Nat) :
    expandItems len (printToks body) i its = printToks (expandItemsTok cfg len body i its) ∧
    ∀ t ∈ expandItemsTok cfg len body i its, t ∈ body ∨ ∃ v, NoLB v ∧ t = .val v := by
  induction its generalizing i with
  | nil => exact ⟨rfl, by simp [expandItemsTok]⟩
  | cons it its ih =>
    obtain ⟨hit, hif⟩ := hi it (by simp)
    obtain ⟨h1, h2⟩ := substLoop_print cfg hs (loopCtx i len it)
      (loopCtx_keysGood cfg hl i len it (fun p hp => (hif p hp).1))
      (loopCtx_noLB i len it hit (fun p hp => (hif p hp).2)) body hw
    obtain ⟨h3, h4⟩ := ih (fun x hx => hi x (by simp [hx])) (i + 1)
    refine ⟨by simp only [expandItems, expandItemsTok, h1, h3, printToks_append], ?_⟩
    intro t ht
    simp only [expandItemsTok, List.mem_append] at ht
    rcases ht with ht | ht
    · obtain ⟨hwf, hmem⟩ := h2 t ht
      rcases hmem with hm | ⟨v, rfl⟩
      · exact Or.inl hm
      · exact Or.inr ⟨v, hwf, rfl⟩
    · exact h4 t ht

def CtxItemsOK (cfg : Cfg) (ctx : Ctx) : Prop :=
  ∀ n v its, lookup n ctx = some v → v.items = some its → ∀ it ∈ its, ItemOK cfg it

theorem loopRepl_print (cfg : Cfg) (hs : CfgSane cfg) (hl : LoopWords cfg) (ctx : Ctx) (hc : CtxItemsOK cfg ctx)
    (n : Str) (body : List Tok) (hw : ∀ t ∈ body, t.wfp cfg) :
    loopRepl ctx n (printToks body) = printToks (loopReplTok cfg ctx n body) ∧
    ∀ t ∈ loopReplTok cfg ctx n body, t ∈ body ∨ ∃ v, NoLB v ∧ t = .val v := by
  unfold loopRepl loopReplTok
  cases hlk : lookup n ctx with
  | none => exact ⟨rfl, by simp⟩
  | some v =>
    cases hit : v.items with
    | none => simp only [hit]; exact ⟨rfl, by simp⟩
    | some its => simp only [hit]; exact expandItems_print cfg hs hl its.length body hw its (hc n v its hlk hit) 0

def verbatimL : LSt → List Tok
  | .out => []
  | .body ws n acc => .eachO ws n :: acc

theorem loopGo_no_close (cfg : Cfg) (ctx : Ctx) (r : List Tok) (h : Tok.eachC ∉ r) :
    ∀ st, loopGo cfg ctx st r = verbatimL st ++ r := by
  induction r with
  | nil => intro st; cases st <;> simp [loopGo, verbatimL]
  | cons t r ih =>
    have ht : t ≠ .eachC := fun e => h (by simp [e])
    have ih' := ih (fun hm => h (by simp [hm]))
    intro st
    cases st with
    | out => cases t <;> first | (exact absurd rfl ht) | (simp [loopGo, ih', verbatimL])
    | body ws n acc => cases t <;> first | (exact absurd rfl ht) | (simp [loopGo, ih', verbatimL])

theorem loopGo_split (cfg : Cfg) (ctx : Ctx) (ws n : Str) : ∀ (r acc b rest : List Tok),
    splitTok .eachC r = some (b, rest) →
    loopGo cfg ctx (.body ws n acc) r = loopReplTok cfg ctx n (acc ++ b) ++ loopGo cfg ctx .out rest := by
  intro r
  induction r with
  | nil => intro acc b rest h; simp [splitTok] at h
  | cons x r ih =>
    intro acc b rest h
    simp only [splitTok] at h
    split at h
    · rename_i hx
      subst hx
      simp only [Option.some.injEq, Prod.mk.injEq] at h
      obtain ⟨rfl, rfl⟩ := h
      simp [loopGo]
    · rename_i hx
      cases hh : splitTok .eachC r with
      | none => simp [hh] at h
      | some y =>
        simp only [hh, Option.map, Option.some.injEq, Prod.mk.injEq] at h
        obtain ⟨rfl, rfl⟩ := h
        have := ih (acc ++ [x]) y.1 y.2 (by rw [hh])
        cases x <;> first | (exact absurd rfl hx) | (simp [loopGo, this])

/-- THE LOOP PASS of the string layer (`_process_loops`: one lazy regex, loop bodies instantiated by sequential
    `str.replace` over the loop context) is the token layer's `loopPass`, on the printed form of every well-formed token
    list, when items and dict fields contain no `{` and dict keys are words (or `.`). -/
theorem processLoops_print (cfg : Cfg) (hs : CfgSane2 cfg) (hl : LoopWords cfg) (ctx : Ctx) (hc : CtxItemsOK cfg ctx)
    (ts : List Tok) (hw : ∀ t ∈ ts, t.wfs cfg) :
    processLoops cfg ctx (printToks ts) = printToks (loopPass cfg ctx ts) ∧ ∀ t ∈ loopPass cfg ctx ts, t.wfs cfg := by
  unfold processLoops scanStr loopPass
  suffices H : ∀ (k : Nat) (ts : List Tok), ts.length ≤ k → (∀ t ∈ ts, t.wfs cfg) → ∀ f, (printToks ts).length ≤ f →
      subWith (fun (m : Str × Str) => loopRepl ctx m.1 m.2) (scan (matchLoop cfg) f (printToks ts))
        = printToks (loopGo cfg ctx .out ts) ∧ ∀ t ∈ loopGo cfg ctx .out ts, t.wfs cfg from
    H ts.length ts (Nat.le_refl _) hw _ (by omega)
  intro k
  induction k with
  | zero =>
    intro ts hl' _ f _
    have : ts = [] := List.length_eq_zero_iff.mp (by omega)
    subst this
    simp [printToks, scan_nil, subWith, loopGo]
  | succ k ih =>
    intro ts hl' hw f hf
    cases ts with
    | nil => simp [printToks, scan_nil, subWith, loopGo]
    | cons t r =>
      have hwt := hw t (by simp)
      have hwr : ∀ x ∈ r, x.wfs cfg := fun x hx => hw x (by simp [hx])
      have hwpr : ∀ x ∈ r, x.wfp cfg := fun x hx => (hwr x hx).wfp hs
      have hrl : r.length ≤ k := by simp at hl'; omega
      rw [printToks_cons] at hf ⊢
      rw [List.length_append] at hf
      by_cases hhit : ∃ ws n b rest, t = .eachO ws n ∧ splitTok .eachC r = some (b, rest)
      · obtain ⟨ws, n, b, rest, rfl, hsp⟩ := hhit
        have hd := splitTok_decomp .eachC r b rest hsp
        have hwb : ∀ x ∈ b, x.wfs cfg := fun x hx => hwr x (by rw [hd]; simp [hx])
        have hm0 : matchLoop cfg ((Tok.eachO ws n).print ++ printToks r) = some ((n, printToks b), printToks rest) := by
          simp [matchLoop, mHeadEach_at cfg hs _ hwt rfl, viewEachO, findEndEach_print cfg hs.toCfgSane r hwpr, hsp]
        have hne : (Tok.eachO ws n).print = 123 :: ((Tok.eachO ws n).print.drop 1) := by simp [Tok.print, EACHH]
        obtain ⟨f', rfl⟩ : ∃ f', f = f' + 1 := ⟨f - 1, by rw [hne] at hf; simp at hf; omega⟩
        have hlen : (printToks rest).length ≤ f' := by
          have : (printToks r).length = (printToks b).length + (Tok.eachC.print.length + (printToks rest).length) := by
            rw [hd]; simp [printToks_append, printToks_cons]
          rw [hne] at hf; simp at hf; omega
        have hstep : scan (matchLoop cfg) (f' + 1) ((Tok.eachO ws n).print ++ printToks r)
            = .inr (n, printToks b) :: scan (matchLoop cfg) f' (printToks rest) := by
          rw [hne] at hm0 ⊢
          simp only [List.cons_append] at hm0 ⊢
          simp only [scan, hm0]
        obtain ⟨ih1, ih2⟩ := ih rest (by have := splitTok_length .eachC r b rest hsp; omega)
          (fun x hx => hwr x (by rw [hd]; simp [hx])) f' hlen
        obtain ⟨hr1, hr2⟩ := loopRepl_print cfg hs.toCfgSane hl ctx hc n b (fun x hx => (hwb x hx).wfp hs)
        rw [hstep]
        simp only [subWith, ih1, hr1, loopGo, loopGo_split cfg ctx ws n r [] b rest hsp, List.nil_append,
          printToks_append, true_and]
        intro x hx
        rcases List.mem_append.mp hx with h | h
        · rcases hr2 x h with hm | ⟨v, hv, rfl⟩
          · exact hwb x hm
          · exact hv
        · exact ih2 x h
      · have hm0 : t.print ≠ [] → matchLoop cfg (t.print ++ printToks r) = none := by
          intro hne
          cases htag : t.isTag
          · rcases print_shape cfg hs.toCfgSane t (hwt.wfp hs) with ⟨_, hp⟩ | ⟨h1, _⟩
            · have := plain_none _ (needsLL_loop cfg) t.print (printToks r) hp 0
                (by cases h : t.print <;> simp_all)
              simpa using this
            · rw [htag] at h1; cases h1
          · have hH := mHeadEach_at cfg hs t hwt htag (printToks r)
            cases t with
            | eachO ws n =>
              cases hsp : splitTok .eachC r with
              | none => simp [matchLoop, hH, viewEachO, findEndEach_print cfg hs.toCfgSane r hwpr, hsp]
              | some y => exact absurd ⟨ws, n, y.1, y.2, rfl, hsp⟩ hhit
            | _ => simp [matchLoop, hH, viewEachO]
        have hsplit : f = t.print.length + (f - t.print.length) := by omega
        obtain ⟨ih1, ih2⟩ := ih r hrl hwr (f - t.print.length) (by omega)
        rw [hsplit, scan_over_tok cfg hs.toCfgSane _ (needsLL_loop cfg) t (hwt.wfp hs) _ hm0, subWith_inl, ih1]
        have htok : loopGo cfg ctx .out (t :: r) = t :: loopGo cfg ctx .out r := by
          cases t with
          | eachO ws n =>
            have hnone : splitTok .eachC r = none := by
              cases hsp : splitTok .eachC r with
              | none => rfl
              | some y => exact absurd ⟨ws, n, y.1, y.2, rfl, hsp⟩ hhit
            have hnc := splitTok_none _ r hnone
            simp [loopGo, loopGo_no_close cfg ctx r hnc, verbatimL]
          | _ => simp [loopGo]
        rw [htok, printToks_cons]
        refine ⟨rfl, ?_⟩
        intro x hx
        rcases List.mem_cons.mp hx with rfl | h
        · exact hwt
        · exact ih2 x h

end Operon.Tmpl

namespace Operon.Tmpl
open Operon.Ribosome

/-! ### assembly: `translate` on a printed token list = `renderTok` -/

/-- everything the string layer needs to agree with the token layer: sane character classes, the loop-variable names
    are words, and NOTHING that can be spliced in (value, item, dict field, filter result, marker) contains `{`; dict
    keys are words (or `.`) -/
structure StrOK (cfg : Cfg) (ctx : Ctx) : Prop where
  sane : CfgSane2 cfg
  words : LoopWords cfg
  text : ∀ n, NoLB (textOf ctx n)
  items : CtxItemsOK cfg ctx
  filt : ∀ f n r, cfg.applyF f n = .ok r → NoLB r
  marker : ∀ n, NoLB n → NoLB (cfg.markerPre ++ n ++ cfg.markerSuf)

/-- the registry of the string layer is the printed form of a registry of well-formed token lists -/
structure RegOK (cfg : Cfg) (reg : Reg) : Prop where
  printed : cfg.templates = reg.map (fun p => (p.1, printToks p.2))
  wf : ∀ n b, lookup n reg = some b → ∀ t ∈ b, t.wfs cfg

theorem lookup_map_print (n : Str) (reg : Reg) :
    lookup n (reg.map (fun p => (p.1, printToks p.2))) = (lookup n reg).map printToks := by
  induction reg with
  | nil => rfl
  | cons p reg ih =>
    simp only [List.map_cons, lookup]
    split
    · rfl
    · exact ih

theorem tokC_wfs (cfg : Cfg) (ctx : Ctx) (htext : ∀ n, NoLB (textOf ctx n)) (ts : List Tok)
    (hw : ∀ t ∈ ts, t.wfs cfg) : ∀ t ∈ ts.flatMap (tokC cfg ctx), t.wfs cfg := by
  intro x hx
  obtain ⟨t, ht, hxt⟩ := List.mem_flatMap.mp hx
  cases t with
  | opt n =>
    simp only [tokC, lexVal_noLB cfg _ (htext n)] at hxt
    rw [mem_valTok hxt]
    exact htext n
  | _ => simp [tokC] at hxt; rw [hxt]; exact hw _ ht

theorem tokD_wfs (cfg : Cfg) (ctx : Ctx) (htext : ∀ n, NoLB (textOf ctx n)) (ts : List Tok)
    (hw : ∀ t ∈ ts, t.wfs cfg) : ∀ t ∈ ts.flatMap (tokD cfg ctx), t.wfs cfg := by
  intro x hx
  obtain ⟨t, ht, hxt⟩ := List.mem_flatMap.mp hx
  cases t with
  | var n =>
    simp only [tokD] at hxt
    split at hxt
    · rw [lexVal_noLB cfg _ (htext n)] at hxt
      rw [mem_valTok hxt]
      exact htext n
    · simp at hxt; rw [hxt]; exact hw _ ht
  | _ => simp [tokD] at hxt; rw [hxt]; exact hw _ ht

theorem varPassTok_wfs (cfg : Cfg) (hs : CfgSane2 cfg) (ctx : Ctx) (htext : ∀ n, NoLB (textOf ctx n))
    (hfilt : ∀ f n r, cfg.applyF f n = .ok r → NoLB r) (ts : List Tok) (hw : ∀ t ∈ ts, t.wfs cfg)
    (out : List Tok) (w : List Str) (h : varPassTok cfg ctx ts = .ok (out, w)) : ∀ t ∈ out, t.wfs cfg := by
  unfold varPassTok at h
  cases hA : flatMapM (tokA cfg ctx) ts with
  | error e => simp [hA] at h
  | ok t4 =>
    simp only [hA, Except.ok.injEq, Prod.mk.injEq] at h
    have hw4 := (passFiltered_print cfg hs ctx htext hfilt ts hw).2 t4 hA
    have hw5 := (passDefault_print cfg hs ctx htext t4 hw4).2
    rw [← h.1]
    exact tokD_wfs cfg ctx htext _ (tokC_wfs cfg ctx htext _ hw5)

theorem renderTok_succ_eq (cfg : Cfg) (strict : Bool) (reg : Reg) (ctx : Ctx) (fuel : Nat) (ts : List Tok) :
    renderTok cfg strict reg ctx (fuel + 1) ts =
      (let miss := (varNames ts).filter (fun n => !isBound ctx n)
       if strict && !miss.isEmpty then .error .value else
       match flatMapM (incTok cfg reg (fun b => renderTok cfg strict reg ctx fuel b)) (loopPass cfg ctx (condPass ctx ts)) with
       | .error e => .error e
       | .ok t3 =>
         match varPassTok cfg ctx t3 with
         | .error e => .error e
         | .ok (out, w) => .ok (out, miss ++ w)) := by
  simp only [renderTok, varPassTok]
  split
  · rfl
  · cases flatMapM (incTok cfg reg (fun b => renderTok cfg strict reg ctx fuel b)) (loopPass cfg ctx (condPass ctx ts)) with
    | error e => rfl
    | ok t3 =>
      simp only
      cases flatMapM (tokA cfg ctx) t3 with
      | error e => rfl
      | ok t4 => simp [List.append_assoc]

/-- the include pass: `re.sub` over the include scanner with a recursive `translate` = `flatMapM incTok` with a
    recursive `renderTok`, given that the two recursions agree on every registered template -/
theorem includes_print (cfg : Cfg) (h : StrOK cfg ctx) (reg : Reg) (hreg : RegOK cfg reg)
    (recS : Str → Res) (recT : List Tok → Except Err (List Tok × List Str))
    (hrec : ∀ n b, lookup n reg = some b →
      recS (printToks b) = (match recT b with | .ok (o, w) => .ok (printToks o, w) | .error e => .error e) ∧
      ∀ o w, recT b = .ok (o, w) → ∀ t ∈ o, t.wfs cfg)
    (ts : List Tok) (hw : ∀ t ∈ ts, t.wfs cfg) :
    subM (incRepl cfg recS) (scanStr (matchWordTag cfg INCH) (printToks ts))
      = (match flatMapM (incTok cfg reg recT) ts with
         | .ok t3 => .ok (printToks t3, [])
         | .error e => .error e) ∧
    ∀ t3, flatMapM (incTok cfg reg recT) ts = .ok t3 → ∀ t ∈ t3, t.wfs cfg := by
  rw [scan_print_inc cfg h.sane.toCfgSane ts (fun t ht => (hw t ht).wfp h.sane)]
  induction ts with
  | nil => exact ⟨rfl, by intro t3 h3; cases h3; simp⟩
  | cons t ts ih =>
    obtain ⟨ih1, ih2⟩ := ih (fun x hx => hw x (by simp [hx]))
    have hwt := hw t (by simp)
    simp only [List.flatMap_cons, subM_scanView_cons, ih1, flatMapM]
    cases t with
    | inc n =>
      simp only [viewInc, incTok, incRepl, hreg.printed, lookup_map_print]
      cases hl : lookup n reg with
      | none =>
        have hn : NoLB n := mem_of_word_ne h.sane.toCfgSane hwt
        have hm := h.marker n hn
        simp only [Option.map, markerToks, lex_noLB cfg _ hm]
        cases hrest : flatMapM (incTok cfg reg recT) ts with
        | error e => simp
        | ok t3 =>
          refine ⟨by simp [textTok, printToks]; split <;> simp_all [Tok.print], ?_⟩
          intro t3' h3; cases h3
          intro x hx
          rcases List.mem_append.mp hx with h1 | h1
          · simp only [textTok] at h1
            split at h1
            · simp at h1
            · simp at h1; rw [h1]; show NoLB _; simpa using hm
          · exact ih2 t3 hrest x h1
      | some b =>
        obtain ⟨hr1, hr2⟩ := hrec n b hl
        simp only [Option.map, hr1]
        cases hb : recT b with
        | error e => simp
        | ok p =>
          obtain ⟨o, w⟩ := p
          simp only
          cases hrest : flatMapM (incTok cfg reg recT) ts with
          | error e => simp
          | ok t3 =>
            refine ⟨by simp [printToks_append], ?_⟩
            intro t3' h3; cases h3
            intro x hx
            rcases List.mem_append.mp hx with h1 | h1
            · exact hr2 o w hb x h1
            · exact ih2 t3 hrest x h1
    | _ =>
      simp only [viewInc, incTok]
      cases hrest : flatMapM (incTok cfg reg recT) ts with
      | error e => simp
      | ok t3 =>
        refine ⟨by simp [printToks_cons], ?_⟩
        intro t3' h3; cases h3
        intro x hx
        rcases List.mem_cons.mp hx with h1 | h1
        · rw [h1]; exact hwt
        · exact ih2 t3 hrest x h1

end Operon.Tmpl

namespace Operon.Tmpl
open Operon.Ribosome

/-- MAIN.  On the printed form of every well-formed token list the string layer (`translate`: the model of the code's
    four regex passes) computes exactly what the token layer (`renderTok`) computes — text, warnings and errors — for
    every include depth; and the rendered tokens are well formed again. -/
theorem translate_print (cfg : Cfg) (ctx : Ctx) (h : StrOK cfg ctx) (reg : Reg) (hreg : RegOK cfg reg) :
    ∀ (fuel : Nat) (ts : List Tok), (∀ t ∈ ts, t.wfs cfg) →
      translate cfg ctx fuel (printToks ts)
        = (match renderTok cfg cfg.strict reg ctx fuel ts with
           | .ok (o, w) => .ok (printToks o, w)
           | .error e => .error e) ∧
      ∀ o w, renderTok cfg cfg.strict reg ctx fuel ts = .ok (o, w) → ∀ t ∈ o, t.wfs cfg := by
  intro fuel
  induction fuel with
  | zero => intro ts _; exact ⟨rfl, by intro o w h'; simp [renderTok] at h'⟩
  | succ fuel ih =>
    intro ts hw
    have hs := h.sane
    have hwp : ∀ t ∈ ts, t.wfp cfg := fun t ht => (hw t ht).wfp hs
    rw [renderTok_succ_eq]
    simp only [translate, requiredVars_print cfg hs.toCfgSane ts hwp]
    have hw1 := condPass_wfs cfg ctx ts hw
    obtain ⟨hL, hw2⟩ := processLoops_print cfg hs h.words ctx h.items (condPass ctx ts) hw1
    rw [processConditionals_print cfg hs ctx ts hw, hL]
    obtain ⟨hI, hw3⟩ := includes_print cfg h reg hreg (translate cfg ctx fuel)
      (fun b => renderTok cfg cfg.strict reg ctx fuel b)
      (fun n b hl => ih b (hreg.wf n b hl)) (loopPass cfg ctx (condPass ctx ts)) hw2
    split
    · exact ⟨rfl, by intro o w h'; cases h'⟩
    · rw [hI]
      cases hinc : flatMapM (incTok cfg reg (fun b => renderTok cfg cfg.strict reg ctx fuel b))
          (loopPass cfg ctx (condPass ctx ts)) with
      | error e => exact ⟨rfl, by intro o w h'; cases h'⟩
      | ok t3 =>
        have hw3' := hw3 t3 hinc
        simp only [processVariables_print cfg hs ctx h.text h.filt t3 hw3']
        cases hv : varPassTok cfg ctx t3 with
        | error e => exact ⟨rfl, by intro o w h'; cases h'⟩
        | ok p =>
          obtain ⟨out, w⟩ := p
          refine ⟨rfl, ?_⟩
          intro o w' h'
          simp only [Except.ok.injEq, Prod.mk.injEq] at h'
          rw [← h'.1]
          exact varPassTok_wfs cfg hs ctx h.text h.filt t3 hw3' out w hv

end Operon.Tmpl

namespace Operon.Tmpl
open Operon.Ribosome

/-! ### decidable checkers for the hypotheses (used by the non-vacuity examples and by the driver) -/

def wordNameb (cfg : Cfg) (n : Str) : Bool := !n.isEmpty && n.all cfg.isWord

theorem WordName_of_bool {cfg : Cfg} {n : Str} (h : wordNameb cfg n = true) : WordName cfg n := by
  simp only [wordNameb, Bool.and_eq_true, Bool.not_eq_true', List.all_eq_true] at h
  exact ⟨by intro e; rw [e] at h; simp at h, h.2⟩

def spaceRunb (cfg : Cfg) (ws : Str) : Bool := !ws.isEmpty && ws.all cfg.isSpace

theorem SpaceRun_of_bool {cfg : Cfg} {ws : Str} (h : spaceRunb cfg ws = true) : SpaceRun cfg ws := by
  simp only [spaceRunb, Bool.and_eq_true, Bool.not_eq_true', List.all_eq_true] at h
  exact ⟨by intro e; rw [e] at h; simp at h, h.2⟩

def noRBb (s : Str) : Bool := s.all (· != 125)

def Tok.wfsb (cfg : Cfg) : Tok → Bool
  | .text s => noLBb s
  | .val s => noLBb s
  | .var n => wordNameb cfg n
  | .opt n => wordNameb cfg n
  | .inc n => wordNameb cfg n
  | .pipe n a => wordNameb cfg n && noLBb a && noRBb a && !a.isEmpty
  | .ifO ws n => spaceRunb cfg ws && wordNameb cfg n
  | .eachO ws n => spaceRunb cfg ws && wordNameb cfg n
  | _ => true

theorem wfs_of_bool {cfg : Cfg} {t : Tok} (h : t.wfsb cfg = true) : t.wfs cfg := by
  cases t with
  | text s => exact NoLB_of_bool h
  | val s => exact NoLB_of_bool h
  | var n => exact WordName_of_bool h
  | opt n => exact WordName_of_bool h
  | inc n => exact WordName_of_bool h
  | pipe n a =>
    simp only [Tok.wfsb, Bool.and_eq_true, Bool.not_eq_true'] at h
    refine ⟨WordName_of_bool h.1.1.1, NoLB_of_bool h.1.1.2, ?_, ?_⟩
    · intro hm
      have := List.all_eq_true.mp h.1.2 125 hm
      simp at this
    · intro e; rw [e] at h; simp at h
  | ifO ws n =>
    simp only [Tok.wfsb, Bool.and_eq_true] at h
    exact ⟨SpaceRun_of_bool h.1, WordName_of_bool h.2⟩
  | eachO ws n =>
    simp only [Tok.wfsb, Bool.and_eq_true] at h
    exact ⟨SpaceRun_of_bool h.1, WordName_of_bool h.2⟩
  | dot => trivial
  | els => trivial
  | ifC => trivial
  | eachC => trivial

theorem wfs_all_of_bool {cfg : Cfg} {ts : List Tok} (h : ts.all (Tok.wfsb cfg) = true) : ∀ t ∈ ts, t.wfs cfg :=
  fun t ht => wfs_of_bool (List.all_eq_true.mp h t ht)

def itemsOKb (cfg : Cfg) (ctx : Ctx) : Bool :=
  ctx.all (fun p => (p.2.items.getD []).all (fun it =>
    noLBb it.text && it.fields.all (fun f => (wordNameb cfg f.1 || f.1 == kDot) && noLBb f.2)))

theorem CtxItemsOK_of_bool {cfg : Cfg} {ctx : Ctx} (h : itemsOKb cfg ctx = true) : CtxItemsOK cfg ctx := by
  intro n v its hl hi it hit
  obtain ⟨k, hk⟩ := lookup_mem n ctx v hl
  have h1 := List.all_eq_true.mp h (k, v) hk
  simp only [hi, Option.getD] at h1
  have h2 := List.all_eq_true.mp h1 it hit
  simp only [Bool.and_eq_true] at h2
  refine ⟨NoLB_of_bool h2.1, ?_⟩
  intro p hp
  have h3 := List.all_eq_true.mp h2.2 p hp
  simp only [Bool.and_eq_true, Bool.or_eq_true, beq_iff_eq] at h3
  refine ⟨?_, NoLB_of_bool h3.2⟩
  rcases h3.1 with h4 | h4
  · exact Or.inl (WordName_of_bool h4)
  · exact Or.inr h4

/-- ASCII `\w` / `\s` (what CPython's classes are on ASCII) are sane -/
theorem ascii_disj (c : Nat) (h : asciiWord c = true) : asciiSpace c = false := by
  simp only [asciiWord, asciiSpace, Bool.or_eq_true, Bool.and_eq_true, decide_eq_true_eq, beq_iff_eq,
    Bool.or_eq_false_iff, Bool.and_eq_false_iff, decide_eq_false_iff_not] at *
  omega

theorem StrOK.toBF {cfg : Cfg} {ctx : Ctx} (h : StrOK cfg ctx) : BF cfg ctx where
  text := h.text
  items := fun n v its hl hi it hit => ⟨(h.items n v its hl hi it hit).1, fun p hp => ((h.items n v its hl hi it hit).2 p hp).2⟩
  filt := h.filt
  marker := h.marker

end Operon.Tmpl

namespace Operon.Tmpl
open Operon.Ribosome

/-! ### `printToks ∘ lex = id`: the theorem about printed tokens is a theorem about template STRINGS -/

theorem stripPrefix_some (p s r : Str) (h : stripPrefix p s = some r) : s = p ++ r := by
  induction p generalizing s with
  | nil => cases s <;> simp [stripPrefix] at h <;> simp [h]
  | cons a p ih =>
    cases s with
    | nil => simp [stripPrefix] at h
    | cons c s =>
      simp only [stripPrefix] at h
      split at h
      · rename_i hac; rw [ih s h, hac]; rfl
      · cases h

theorem spanP_append (f : Nat → Bool) (s : Str) : (spanP f s).1 ++ (spanP f s).2 = s := by
  induction s with
  | nil => rfl
  | cons c s ih =>
    simp only [spanP]
    split
    · simp [ih]
    · rfl

theorem matchWordTag_some (cfg : Cfg) (pre s n r : Str) (h : matchWordTag cfg pre s = some (n, r)) :
    s = pre ++ n ++ RR ++ r := by
  simp only [matchWordTag] at h
  cases h1 : stripPrefix pre s with
  | none => simp [h1] at h
  | some r1 =>
    simp only [h1] at h
    split at h
    · cases h
    · cases h2 : stripPrefix RR (spanP cfg.isWord r1).2 with
      | none => simp [h2] at h
      | some r3 =>
        simp only [h2, Option.some.injEq, Prod.mk.injEq] at h
        have e1 := stripPrefix_some _ _ _ h1
        have e2 := stripPrefix_some _ _ _ h2
        have e3 := spanP_append cfg.isWord r1
        rw [e1, ← e3, e2, h.1, h.2]; simp

theorem matchHead_some (cfg : Cfg) (pre s ws n r : Str) (h : matchHead cfg pre s = some (ws, n, r)) :
    s = pre ++ ws ++ n ++ RR ++ r := by
  simp only [matchHead] at h
  cases h1 : stripPrefix pre s with
  | none => simp [h1] at h
  | some r1 =>
    simp only [h1] at h
    split at h
    · cases h
    · split at h
      · cases h
      · cases h2 : stripPrefix RR (spanP cfg.isWord (spanP cfg.isSpace r1).2).2 with
        | none => simp [h2] at h
        | some r3 =>
          simp only [h2, Option.some.injEq, Prod.mk.injEq] at h
          have e1 := stripPrefix_some _ _ _ h1
          have e2 := stripPrefix_some _ _ _ h2
          have e3 := spanP_append cfg.isSpace r1
          have e4 := spanP_append cfg.isWord (spanP cfg.isSpace r1).2
          rw [e1, ← e3, ← e4, e2, h.1, h.2.1, h.2.2]; simp

theorem matchDefault_some (cfg : Cfg) (s n a r : Str) (h : matchDefault cfg s = some ((n, a), r)) :
    s = pipeTag n a ++ r := by
  simp only [matchDefault] at h
  cases h1 : stripPrefix LL s with
  | none => simp [h1] at h
  | some r1 =>
    simp only [h1] at h
    split at h
    · cases h
    · have e3 := spanP_append cfg.isWord r1
      cases h4 : (spanP cfg.isWord r1).2 with
      | nil => simp [h4] at h
      | cons c r2 =>
        simp only [h4] at h
        split at h
        · rename_i hc
          split at h
          · cases h
          · cases h2 : stripPrefix RR (spanP (fun x => x != 125) r2).2 with
            | none => simp [h2] at h
            | some r3 =>
              simp only [h2, Option.some.injEq, Prod.mk.injEq] at h
              have e1 := stripPrefix_some _ _ _ h1
              have e2 := stripPrefix_some _ _ _ h2
              have e5 := spanP_append (fun x => x != 125) r2
              rw [e1, ← e3, h4, ← e5, e2, hc, ← h.1.1, ← h.1.2, ← h.2]; simp [pipeTag]
        · cases h

/-- whatever the lexer recognises at the start of a text prints back to exactly the consumed text -/
theorem lexTag_some (cfg : Cfg) (s : Str) (t : Tok) (r : Str) (h : lexTag cfg s = some (t, r)) : s = t.print ++ r := by
  unfold lexTag at h
  split at h
  · rename_i ws n r' hm; cases h; simpa [Tok.print] using matchHead_some cfg _ _ _ _ _ hm
  split at h
  · rename_i r' hm; cases h; simpa [Tok.print] using stripPrefix_some _ _ _ hm
  split at h
  · rename_i r' hm; cases h; simpa [Tok.print] using stripPrefix_some _ _ _ hm
  split at h
  · rename_i ws n r' hm; cases h; simpa [Tok.print] using matchHead_some cfg _ _ _ _ _ hm
  split at h
  · rename_i r' hm; cases h; simpa [Tok.print] using stripPrefix_some _ _ _ hm
  split at h
  · rename_i n r' hm; cases h; simpa [Tok.print] using matchWordTag_some cfg _ _ _ _ hm
  split at h
  · rename_i n r' hm; cases h; simpa [Tok.print] using matchWordTag_some cfg _ _ _ _ hm
  split at h
  · rename_i n a r' hm; cases h; simpa [Tok.print] using matchDefault_some cfg _ _ _ _ hm
  split at h
  · rename_i n r' hm; cases h; simpa [Tok.print, tagOf] using matchWordTag_some cfg _ _ _ _ hm
  split at h
  · rename_i r' hm; cases h; simpa [Tok.print] using stripPrefix_some _ _ _ hm
  · cases h

def unscan : List (Sum Nat Tok) → Str
  | [] => []
  | .inl c :: r => c :: unscan r
  | .inr t :: r => t.print ++ unscan r

/-- the lexer only ever returns tag tokens, whose printed form is not empty -/
theorem lexTag_print_ne (cfg : Cfg) (s : Str) (t : Tok) (r : Str) (h : lexTag cfg s = some (t, r)) : 0 < t.print.length := by
  unfold lexTag at h
  split at h
  · cases h; simp [Tok.print, IFH]
  split at h
  · cases h; simp [Tok.print, ELSE]
  split at h
  · cases h; simp [Tok.print, ENDIF]
  split at h
  · cases h; simp [Tok.print, EACHH]
  split at h
  · cases h; simp [Tok.print, ENDEACH]
  split at h
  · cases h; simp [Tok.print, INCH]
  split at h
  · cases h; simp [Tok.print, OPTH]
  split at h
  · cases h; simp [Tok.print, pipeTag, LL]
  split at h
  · cases h; simp [Tok.print, tagOf, LL]
  split at h
  · cases h; simp [Tok.print, tagOf, LL]
  · cases h

theorem unscan_scan (cfg : Cfg) : ∀ (f : Nat) (s : Str), s.length ≤ f → unscan (scan (lexTag cfg) f s) = s := by
  intro f
  induction f with
  | zero => intro s hs; cases s with
    | nil => rfl
    | cons c s => simp at hs
  | succ f ih =>
    intro s hs
    cases s with
    | nil => rfl
    | cons c s =>
      simp only [scan]
      cases hm : lexTag cfg (c :: s) with
      | none =>
        simp only [unscan]
        rw [ih s (by simpa using hs)]
      | some p =>
        obtain ⟨t, r⟩ := p
        have e := lexTag_some cfg _ _ _ hm
        have hp := lexTag_print_ne cfg _ _ _ hm
        simp only [unscan]
        have hl : r.length ≤ f := by
          have : (c :: s).length = t.print.length + r.length := by rw [e]; simp
          simp at this hs; omega
        rw [ih r hl]
        exact e.symm

theorem printToks_coalesce (l : List (Sum Nat Tok)) : printToks (coalesce l) = unscan l := by
  induction l with
  | nil => rfl
  | cons x l ih =>
    cases x with
    | inr t => simp [coalesce, unscan, printToks_cons, ih]
    | inl c =>
      simp only [coalesce, unscan]
      rw [← ih]
      split
      · rename_i s r' heq; simp [heq, printToks_cons, Tok.print]
      · simp [printToks_cons, Tok.print]

/-- the lexer loses nothing: printing the tokens of a text gives the text back -/
theorem print_lex (cfg : Cfg) (s : Str) : printToks (lex cfg s) = s := by
  unfold lex scanStr
  rw [printToks_coalesce, unscan_scan cfg _ s (by omega)]

end Operon.Tmpl

namespace Operon.Tmpl
open Operon.Ribosome

/-! ### `parse` is sound: the AST it returns flattens back to the tokens it was given (audit F2) -/

def pend : PSt → List Tok
  | .out => []
  | .thn ws n acc => .ifO ws n :: acc
  | .els ws n a acc => .ifO ws n :: a ++ .els :: acc
  | .body ws n acc => .eachO ws n :: acc

def accOK : PSt → Prop
  | .out => True
  | .thn _ _ acc => ∀ x ∈ acc, x.inline = true
  | .els _ _ a acc => (∀ x ∈ a, x.inline = true) ∧ (∀ x ∈ acc, x.inline = true)
  | .body _ _ acc => ∀ x ∈ acc, x.inline = true

theorem mem_snoc_inline {acc : List Tok} {x : Tok} (h : ∀ y ∈ acc, y.inline = true) (hx : x.inline = true) :
    ∀ y ∈ acc ++ [x], y.inline = true := by
  intro y hy
  rcases List.mem_append.mp hy with h1 | h1
  · exact h y h1
  · simp at h1; rw [h1]; exact hx

theorem parseGo_sound : ∀ (ts : List Tok) (st : PSt) (t : Tmpl), parseGo st ts = some t → accOK st →
    pend st ++ ts = flatten t ∧ ∀ s ∈ t, s.wf = true := by
  intro ts
  induction ts with
  | nil =>
    intro st t h _
    cases st <;> simp [parseGo] at h
    subst h
    exact ⟨rfl, by simp⟩
  | cons x ts ih =>
    intro st t h hacc
    -- a step that stays inside the current state machine: `pend st ++ [x] = pend st'`
    have cont : ∀ st', parseGo st' ts = some t → accOK st' → pend st ++ [x] = pend st' →
        pend st ++ x :: ts = flatten t ∧ ∀ s ∈ t, s.wf = true := by
      intro st' h' ha hp
      have := ih st' t h' ha
      rw [← hp] at this
      simpa using this
    -- a step that closes a segment `sg`
    have close : ∀ (sg : Seg) (t' : Tmpl), parseGo .out ts = some t' → t = sg :: t' → sg.wf = true →
        pend st ++ [x] = sg.flatten → pend st ++ x :: ts = flatten t ∧ ∀ s ∈ t, s.wf = true := by
      intro sg t' h' ht hwf hp
      have := ih .out t' h' trivial
      subst ht
      refine ⟨?_, ?_⟩
      · have e : pend st ++ x :: ts = (pend st ++ [x]) ++ ts := by simp
        rw [e, hp]
        simp only [pend, List.nil_append] at this
        rw [this.1]
        simp [flatten]
      · intro s hs
        rcases List.mem_cons.mp hs with rfl | h1
        · exact hwf
        · exact this.2 s h1
    cases st with
    | out =>
      cases x with
      | ifO ws n => exact cont (.thn ws n []) (by simpa [parseGo] using h) (by simp [accOK]) (by simp [pend])
      | eachO ws n => exact cont (.body ws n []) (by simpa [parseGo] using h) (by simp [accOK]) (by simp [pend])
      | els => simp [parseGo, Tok.inline] at h
      | ifC => simp [parseGo, Tok.inline] at h
      | eachC => simp [parseGo, Tok.inline] at h
      | _ =>
        simp only [parseGo, Tok.inline, if_true, Option.map_eq_some_iff] at h
        obtain ⟨t', h', ht⟩ := h
        exact close (.tok _) t' h' ht.symm (by simp [Seg.wf, Tok.inline]) (by simp [pend, Seg.flatten])
    | thn ws n acc =>
      simp only [accOK] at hacc
      cases x with
      | ifC =>
        simp only [parseGo, Option.map_eq_some_iff] at h
        obtain ⟨t', h', ht⟩ := h
        exact close (.ifB ws n acc none) t' h' ht.symm (by simpa [Seg.wf] using hacc) (by simp [pend, Seg.flatten])
      | els => exact cont (.els ws n acc []) (by simpa [parseGo] using h) (by simp [accOK]; exact hacc) (by simp [pend])
      | ifO ws' n' => simp [parseGo, Tok.inline] at h
      | eachO ws' n' => simp [parseGo, Tok.inline] at h
      | eachC => simp [parseGo, Tok.inline] at h
      | _ =>
        simp only [parseGo, Tok.inline, if_true] at h
        exact cont (.thn ws n (acc ++ [_])) h (by simp only [accOK]; exact mem_snoc_inline hacc (by simp [Tok.inline]))
          (by simp [pend])
    | els ws n a acc =>
      simp only [accOK] at hacc
      cases x with
      | ifC =>
        simp only [parseGo, Option.map_eq_some_iff] at h
        obtain ⟨t', h', ht⟩ := h
        exact close (.ifB ws n a (some acc)) t' h' ht.symm
          (by simp only [Seg.wf, Bool.and_eq_true, List.all_eq_true, Option.getD]; exact hacc) (by simp [pend, Seg.flatten])
      | els => simp [parseGo, Tok.inline] at h
      | ifO ws' n' => simp [parseGo, Tok.inline] at h
      | eachO ws' n' => simp [parseGo, Tok.inline] at h
      | eachC => simp [parseGo, Tok.inline] at h
      | _ =>
        simp only [parseGo, Tok.inline, if_true] at h
        exact cont (.els ws n a (acc ++ [_])) h
          (by simp only [accOK]; exact ⟨hacc.1, mem_snoc_inline hacc.2 (by simp [Tok.inline])⟩) (by simp [pend])
    | body ws n acc =>
      simp only [accOK] at hacc
      cases x with
      | eachC =>
        simp only [parseGo, Option.map_eq_some_iff] at h
        obtain ⟨t', h', ht⟩ := h
        exact close (.each ws n acc) t' h' ht.symm (by simpa [Seg.wf] using hacc) (by simp [pend, Seg.flatten])
      | els => simp [parseGo, Tok.inline] at h
      | ifC => simp [parseGo, Tok.inline] at h
      | ifO ws' n' => simp [parseGo, Tok.inline] at h
      | eachO ws' n' => simp [parseGo, Tok.inline] at h
      | _ =>
        simp only [parseGo, Tok.inline, if_true] at h
        exact cont (.body ws n (acc ++ [_])) h (by simp only [accOK]; exact mem_snoc_inline hacc (by simp [Tok.inline]))
          (by simp [pend])

/-- `parse ts = some t` ⇒ `t` is a template with non-nested blocks whose tokens are exactly `ts` -/
theorem parse_sound (ts : List Tok) (t : Tmpl) (h : parse ts = some t) : flatten t = ts ∧ ∀ s ∈ t, s.wf = true := by
  have := parseGo_sound ts .out t h trivial
  exact ⟨by simpa [pend] using this.1.symm, this.2⟩

theorem wfs_clean {cfg : Cfg} (hs : CfgSane2 cfg) {t : Tok} (h : t.wfs cfg) : t.clean := by
  cases t with
  | pipe n a => exact h.2.1
  | inc n => exact mem_of_word_ne hs.toCfgSane h
  | _ => trivial

theorem grammar_of_wfs {cfg : Cfg} (hs : CfgSane2 cfg) (t : Tmpl) (hwf : ∀ s ∈ t, s.wf = true)
    (hw : ∀ x ∈ flatten t, x.wfs cfg) : Grammar t := by
  refine ⟨hwf, ?_⟩
  intro s hs'
  have sub : ∀ x ∈ s.flatten, x.wfs cfg := fun x hx => hw x (by
    simp only [flatten, List.mem_flatMap]; exact ⟨s, hs', hx⟩)
  cases s with
  | tok x => exact wfs_clean hs (sub x (by simp [Seg.flatten]))
  | ifB ws n a e =>
    refine ⟨fun x hx => wfs_clean hs (sub x ?_), fun x hx => wfs_clean hs (sub x ?_)⟩
    · cases e <;> simp [Seg.flatten, hx]
    · cases e with
      | none => simp at hx
      | some e' => simp at hx; simp [Seg.flatten, hx]
  | each ws n b => exact fun x hx => wfs_clean hs (sub x (by simp [Seg.flatten, hx]))

end Operon.Tmpl

namespace Operon.Tmpl
open Operon.Ribosome

/-! ### strict mode: a render that returns text has nothing missing (audit F4) -/

theorem var_mem_expandItemsTok (cfg : Cfg) (len : Nat) (b : List Tok) (its : List Item)
    (hits : ∀ it ∈ its, NoLB it.text ∧ ∀ p ∈ it.fields, NoLB p.2) (i : Nat) (n : Str)
    (h : Tok.var n ∈ expandItemsTok cfg len b i its) : Tok.var n ∈ b := by
  induction its generalizing i with
  | nil => simp [expandItemsTok] at h
  | cons it its ih =>
    have hi := hits it (by simp)
    simp only [expandItemsTok, List.mem_append] at h
    rcases h with h | h
    · rw [substTok_noLB cfg _ b (loopCtx_noLB i len it hi.1 hi.2)] at h
      obtain ⟨t, ht, hxt⟩ := List.mem_flatMap.mp h
      cases t with
      | var m =>
        simp only [loopSubst] at hxt
        split at hxt
        · have := mem_valTok hxt; cases this
        · simp at hxt; rw [hxt]; exact ht
      | dot =>
        simp only [loopSubst] at hxt
        split at hxt
        · have := mem_valTok hxt; cases this
        · simp at hxt
      | _ => simp [loopSubst] at hxt
    · exact ih (fun y hy => hits y (by simp [hy])) (i + 1) h

theorem var_mem_midSeg (cfg : Cfg) (ctx : Ctx) (hbf : BF cfg ctx) (s : Seg) (n : Str)
    (h : Tok.var n ∈ midSeg cfg ctx s) : Tok.var n ∈ s.flatten := by
  cases s with
  | tok t => simpa [midSeg, Seg.flatten] using h
  | ifB ws m a e =>
    simp only [midSeg] at h
    split at h
    · cases e <;> simp [Seg.flatten, h]
    · cases e with
      | none => simp at h
      | some e' => simp at h; simp [Seg.flatten, h]
  | each ws m b =>
    simp only [midSeg, loopReplTok] at h
    cases hl : lookup m ctx with
    | none => simp [hl] at h
    | some v =>
      simp only [hl] at h
      cases hi : v.items with
      | none => simp [hi] at h
      | some its =>
        simp only [hi] at h
        have := var_mem_expandItemsTok cfg its.length b its (hbf.items m v its hl hi) 0 n h
        simp [Seg.flatten, this]

/-- In strict mode a render of a grammar template that returns text leaves NO unbound plain variable in the output —
    neither from the template itself nor from any included template that was reached (each level ran its own
    required-variable check).  Values, items, fields, filter results, marker without `{`. -/
theorem renderTok_strict_no_var (cfg : Cfg) (reg : SReg) (ctx : Ctx) (hbf : BF cfg ctx)
    (hreg : ∀ n b, lookup n reg = some b → (∀ s ∈ b, s.wf = true) ∧ ∀ s ∈ b, s.clean) :
    ∀ (fuel : Nat) (t : Tmpl), (∀ s ∈ t, s.wf = true) → (∀ s ∈ t, s.clean) → ∀ out w,
      renderTok cfg true (tokReg reg) ctx fuel (flatten t) = .ok (out, w) → ∀ n, Tok.var n ∉ out := by
  intro fuel
  induction fuel with
  | zero => intro t _ _ out w h; simp [renderTok] at h
  | succ fuel ih =>
    intro t hwf hcl out w h n hn
    rw [renderTok_succ_eq] at h
    simp only [Bool.true_and] at h
    split at h
    · cases h
    · rename_i hmiss
      rw [condPass_flatten ctx t hwf, loopPass_cond cfg ctx t hwf] at h
      cases hA : flatMapM (incTok cfg (tokReg reg) (fun b => renderTok cfg true (tokReg reg) ctx fuel b))
          (t.flatMap (midSeg cfg ctx)) with
      | error e => rw [hA] at h; cases h
      | ok t3 =>
        rw [hA] at h
        -- the same include pass in non-strict mode: everything it produced is clean
        have hA' := flatMapM_mono (incTok_mono cfg (tokReg reg) _ (fun b => renderTok cfg false (tokReg reg) ctx fuel b)
          (fun b r hb => renderTok_strict_ok cfg _ ctx fuel b r hb)) _ t3 hA
        have IH' : ∀ m b, lookup m reg = some b →
            (renderTok cfg false (tokReg reg) ctx fuel (flatten b)).toOption.map Prod.fst
              = (specToks cfg reg ctx fuel b).toOption :=
          fun m b hl => tok_eq_spec_aux cfg reg ctx hbf hreg fuel b (hreg m b hl).1 (hreg m b hl).2
        have hclean3 : ∀ x ∈ t3, x.clean := by
          intro x hx
          obtain ⟨t0, ht0, l, hl, hxl⟩ := mem_flatMapM hA' hx
          have ht0c : t0.clean := by
            obtain ⟨s, hsm, hts⟩ := List.mem_flatMap.mp ht0
            exact midSeg_clean cfg ctx hbf s (hcl s hsm) t0 hts
          exact incTok_clean cfg reg ctx hbf hreg fuel IH' t0 ht0c l (by rw [hl]; rfl) x hxl
        simp only [varPassTok] at h
        cases hB : flatMapM (tokA cfg ctx) t3 with
        | error e => rw [hB] at h; cases h
        | ok t4 =>
          rw [hB] at h
          simp only [Except.ok.injEq, Prod.mk.injEq] at h
          rw [← h.1] at hn
          -- back through sub-pass 4
          obtain ⟨x6, hx6, hn6⟩ := List.mem_flatMap.mp hn
          have hx6v : x6 = .var n ∧ isBound ctx n = false := by
            cases x6 with
            | var m =>
              simp only [tokD] at hn6
              split at hn6
              · rw [lexVal_noLB cfg _ (hbf.text m)] at hn6; have := mem_valTok hn6; cases this
              · rename_i hb; simp at hn6; subst hn6; exact ⟨rfl, by simpa using hb⟩
            | _ => simp [tokD] at hn6
          obtain ⟨rfl, hub⟩ := hx6v
          -- sub-pass 3
          obtain ⟨x5, hx5, hn5⟩ := List.mem_flatMap.mp hx6
          have hx5v : x5 = .var n := by
            cases x5 with
            | opt m =>
              simp only [tokC] at hn5
              rw [lexVal_noLB cfg _ (hbf.text m)] at hn5; have := mem_valTok hn5; cases this
            | var m => simp [tokC] at hn5; rw [hn5]
            | _ => simp [tokC] at hn5
          subst hx5v
          -- sub-pass 2
          have hpipe4 : ∀ m a, Tok.pipe m a ∈ t4 → NoLB a := by
            intro m a hm
            obtain ⟨x3, hx3, l, hl, hml⟩ := mem_flatMapM hB hm
            have := tokA_pipe_mem cfg ctx hbf x3 l (by rw [hl]; rfl) m a hml
            subst this
            exact hclean3 _ hx3
          rw [passB_noLB cfg ctx hbf.text t4 hpipe4] at hx5
          obtain ⟨x4, hx4, hn4⟩ := List.mem_flatMap.mp hx5
          have hx4v : x4 = .var n := by
            cases x4 with
            | pipe m a =>
              simp only [tokB] at hn4
              split at hn4
              · simp at hn4
              · have := mem_valTok hn4; cases this
            | var m => simp [tokB] at hn4; rw [hn4]
            | _ => simp [tokB] at hn4
          subst hx4v
          -- sub-pass 1
          obtain ⟨x3, hx3, l, hl, hnl⟩ := mem_flatMapM hB hx4
          have hx3v : x3 = .var n := by
            cases x3 with
            | pipe m a =>
              simp only [tokA] at hl
              split at hl
              · split at hl
                · split at hl
                  · split at hl
                    · rename_i r hr
                      simp only [Except.ok.injEq] at hl; subst hl
                      rw [lexVal_noLB cfg r (hbf.filt _ _ _ hr)] at hnl; have := mem_valTok hnl; cases this
                    · cases hl
                  · simp only [Except.ok.injEq] at hl; subst hl
                    rw [lexVal_noLB cfg _ (hbf.text _)] at hnl; have := mem_valTok hnl; cases this
                · simp only [Except.ok.injEq] at hl; subst hl; simp at hnl
              · simp only [Except.ok.injEq] at hl; subst hl; simp at hnl
            | var m => simp [tokA] at hl; subst hl; simp at hnl; rw [hnl]
            | _ => simp [tokA] at hl; subst hl; simp at hnl
          subst hx3v
          -- include pass
          obtain ⟨t0, ht0, l0, hl0, hnl0⟩ := mem_flatMapM hA hx3
          have ht0v : t0 = .var n := by
            cases t0 with
            | inc m =>
              have hmc : NoLB m := by
                obtain ⟨s, hsm, hts⟩ := List.mem_flatMap.mp ht0
                exact midSeg_clean cfg ctx hbf s (hcl s hsm) _ hts
              simp only [incTok, lookup_tokReg] at hl0
              cases hlk : lookup m reg with
              | none =>
                rw [hlk] at hl0
                simp only [Option.map, Except.ok.injEq] at hl0
                subst hl0
                rw [markerToks, lex_noLB cfg _ (hbf.marker m hmc)] at hnl0
                simp only [textTok] at hnl0
                split at hnl0 <;> simp at hnl0
              | some b =>
                rw [hlk] at hl0
                simp only [Option.map] at hl0
                cases hr : renderTok cfg true (tokReg reg) ctx fuel (flatten b) with
                | error e => rw [hr] at hl0; cases hl0
                | ok p =>
                  obtain ⟨o, w'⟩ := p
                  rw [hr] at hl0
                  simp only [Except.ok.injEq] at hl0
                  subst hl0
                  exact absurd hnl0 (ih b (hreg m b hlk).1 (hreg m b hlk).2 o w' hr n)
            | var m => simp [incTok] at hl0; subst hl0; simp at hnl0; rw [hnl0]
            | _ => simp [incTok] at hl0; subst hl0; simp at hnl0
          subst ht0v
          -- loop / conditional pass: the token stood in the template itself, unbound ⇒ the strict check had failed
          obtain ⟨s, hsm, hts⟩ := List.mem_flatMap.mp ht0
          have hfl : Tok.var n ∈ flatten t := by
            simp only [flatten, List.mem_flatMap]
            exact ⟨s, hsm, var_mem_midSeg cfg ctx hbf s n hts⟩
          apply hmiss
          have : n ∈ (varNames (flatten t)).filter (fun n => !isBound ctx n) :=
            List.mem_filter.mpr ⟨mem_varNames.mpr hfl, by simp [hub]⟩
          cases hq : (varNames (flatten t)).filter (fun n => !isBound ctx n) with
          | nil => rw [hq] at this; simp at this
          | cons a r => simp

end Operon.Tmpl

namespace Operon.Tmpl
open Operon.Ribosome

/-! ### a positive result INSIDE the hostile region: templates of text and plain variables (audit F5) -/

def Tok.plain : Tok → Bool
  | .text _ => true
  | .var _ => true
  | _ => false

/-- what a plain template emits for one token: the bound value AS IT IS, or the slot itself -/
def emitPlain (ctx : Ctx) : Tok → Str
  | .var n => if isBound ctx n then textOf ctx n else tagOf n
  | t => t.print

theorem subWith_all_none {α : Type} (view : Tok → Option α) (g : α → Str) (ts : List Tok)
    (h : ∀ t ∈ ts, view t = none) : subWith g (ts.flatMap (scanView view)) = printToks ts := by
  rw [subWith_scanView]
  unfold printToks
  apply flatMap_congr'
  intro t ht
  simp [h t ht]

theorem subM_all_none {α : Type} (view : Tok → Option α) (g : α → Except Err (Str × List Str)) (ts : List Tok)
    (h : ∀ t ∈ ts, view t = none) : subM g (ts.flatMap (scanView view)) = .ok (printToks ts, []) := by
  induction ts with
  | nil => rfl
  | cons t ts ih =>
    simp only [List.flatMap_cons, subM_scanView_cons, h t (by simp), ih (fun x hx => h x (by simp [hx])), printToks_cons]

theorem plain_wfs_wfp {cfg : Cfg} {t : Tok} (hp : t.plain = true) (h : t.wfs cfg) : t.wfp cfg := by
  cases t <;> first | exact h | cases hp

/-- For a template that consists of text and plain variables only, and for EVERY context — values that contain any
    template construct included — the string layer emits each bound value verbatim, exactly once, and never looks at
    it again: the output is the template's text with every bound `{{name}}` replaced by `str(value)` as it is. -/
theorem translate_plain (cfg : Cfg) (hs : CfgSane2 cfg) (ctx : Ctx) (fuel : Nat) (ts : List Tok)
    (hpl : ∀ t ∈ ts, t.plain = true) (hw : ∀ t ∈ ts, t.wfs cfg) :
    translate cfg ctx (fuel + 1) (printToks ts) =
      (let miss := (varNames ts).filter (fun n => !isBound ctx n)
       if cfg.strict && !miss.isEmpty then .error .value
       else .ok (ts.flatMap (emitPlain ctx), miss ++ miss)) := by
  have hwp : ∀ t ∈ ts, t.wfp cfg := fun t ht => plain_wfs_wfp (hpl t ht) (hw t ht)
  have hsc := hs.toCfgSane
  -- every block / include / pipe / optional scanner passes a plain template through untouched
  have hcond : processConditionals cfg ctx (printToks ts) = printToks ts := by
    rw [processConditionals_print cfg hs ctx ts hw]
    have := condGo_out_pass ctx ts [] (by intro x hx ws n e; have := hpl x hx; rw [e] at this; cases this)
    simp only [List.append_nil, condGo] at this
    rw [condPass, this]
  have hloop : processLoops cfg ctx (printToks ts) = printToks ts := by
    unfold processLoops scanStr
    rw [scan_print_gen cfg hsc (matchLoop cfg) (needsLL_loop cfg) (fun _ => (none : Option (Str × Str))) (fun _ _ => rfl)
      ts hwp (fun t ht htag rest => by
        have hH := mHeadEach_at cfg hs t (hw t ht) htag rest
        have hv : viewEachO t = none := by
          have := hpl t ht
          cases t <;> first | rfl | cases this
        simp [matchLoop, hH, hv]) _ (by omega)]
    exact subWith_all_none _ _ ts (fun _ _ => rfl)
  have hinc : ∀ F : Str → Res, subM F (scanStr (matchWordTag cfg INCH) (printToks ts)) = .ok (printToks ts, []) := by
    intro F
    rw [scan_print_inc cfg hsc ts hwp]
    exact subM_all_none _ _ ts (fun t ht => by have := hpl t ht; cases t <;> first | rfl | cases this)
  have hfilt : passFiltered cfg ctx (printToks ts) = .ok (printToks ts, []) := by
    unfold passFiltered scanStr
    rw [scan_print_gen cfg hsc (matchFiltered cfg) (needsLL_filt cfg) (viewFilt cfg)
      (by intro t h; cases t <;> first | rfl | cases h) ts hwp
      (fun t ht htag rest => mFilt_at cfg hsc t (hw t ht) htag rest) _ (by omega)]
    exact subM_all_none _ _ ts (fun t ht => by have := hpl t ht; cases t <;> first | rfl | cases this)
  have hdef : passDefault cfg ctx (printToks ts) = printToks ts := by
    unfold passDefault scanStr
    rw [scan_print_gen cfg hsc (matchDefault cfg) (needsLL_def cfg) viewDef
      (by intro t h; cases t <;> first | rfl | cases h) ts hwp
      (fun t ht htag rest => mDef_at cfg hsc t (hw t ht) htag rest) _ (by omega), hits_scanView]
    have : ts.filterMap viewDef = [] := by
      apply List.filterMap_eq_nil_iff.mpr
      intro t ht
      have := hpl t ht
      cases t <;> first | rfl | cases this
    rw [this]; rfl
  have hopt : passOptional cfg ctx (printToks ts) = printToks ts := by
    unfold passOptional scanStr
    rw [scan_print_opt cfg hsc ts hwp _ (by omega)]
    have : ts.flatMap scanTokC = ts.flatMap (scanView (fun _ => (none : Option Str))) := by
      apply flatMap_congr'
      intro t ht
      have := hpl t ht
      cases t <;> first | rfl | cases this
    rw [this]
    exact subWith_all_none _ _ ts (fun _ _ => rfl)
  have hsimple : passSimple cfg ctx (printToks ts)
      = .ok (ts.flatMap (emitPlain ctx), (varNames ts).filter (fun n => !isBound ctx n)) := by
    unfold passSimple scanStr
    rw [scan_print cfg hsc ts hwp _ (by omega)]
    clear hcond hloop hinc hfilt hdef hopt
    induction ts with
    | nil => rfl
    | cons t ts ih =>
      have ih' := ih (fun x hx => hpl x (by simp [hx])) (fun x hx => hw x (by simp [hx]))
        (fun x hx => hwp x (by simp [hx]))
      have hp := hpl t (by simp)
      cases t with
      | var n =>
        simp only [List.flatMap_cons, scanTokD, List.cons_append, List.nil_append, subM, ih', emitPlain, varNames,
          List.filter_cons]
        by_cases hb : isBound ctx n = true <;> simp [hb]
      | text s =>
        simp only [List.flatMap_cons, scanTokD, subM_inl, ih', emitPlain, varNames, Tok.print]
      | _ => cases hp
  simp only [translate, requiredVars_print cfg hsc ts hwp, hcond, hloop, hinc, processVariables, hfilt, hdef, hopt, hsimple]
  split <;> simp

end Operon.Tmpl

namespace Operon.Tmpl
open Operon.Ribosome

/-- the specification on a template of text and plain variables, for any context -/
theorem specToks_plain (cfg : Cfg) (reg : SReg) (ctx : Ctx) (fuel : Nat) (ts : List Tok)
    (hpl : ∀ t ∈ ts, t.plain = true) :
    ∃ out, specToks cfg reg ctx (fuel + 1) (ts.map Seg.tok) = .ok out ∧ printToks out = ts.flatMap (emitPlain ctx) ∧
      specMissing out = (varNames ts).filter (fun n => !isBound ctx n) := by
  induction ts with
  | nil => exact ⟨[], rfl, rfl, rfl⟩
  | cons t ts ih =>
    obtain ⟨o, h1, h2, h3⟩ := ih (fun x hx => hpl x (by simp [hx]))
    have hp := hpl t (by simp)
    simp only [specToks] at h1 ⊢
    cases t with
    | var n =>
      by_cases hb : isBound ctx n = true
      · refine ⟨valTok (textOf ctx n) ++ o, by simp [List.map_cons, flatMapM, specSeg, specTok, lookup, semV, hb, h1], ?_, ?_⟩
        · rw [printToks_append, h2]; simp [valTok, printToks, Tok.print, emitPlain, hb]
        · simp [specMissing, valTok, varNames, List.filter_cons, hb] at h3 ⊢; exact h3
      · refine ⟨[.var n] ++ o, by simp [List.map_cons, flatMapM, specSeg, specTok, lookup, semV, hb, h1], ?_, ?_⟩
        · rw [printToks_append, h2]; simp [printToks, Tok.print, emitPlain, hb]
        · simp [specMissing, varNames, List.filter_cons, hb] at h3 ⊢; exact h3
    | text s =>
      refine ⟨[.text s] ++ o, by simp [List.map_cons, flatMapM, specSeg, specTok, semV, h1], ?_, ?_⟩
      · rw [printToks_append, h2]; simp [printToks, Tok.print, emitPlain]
      · simp [specMissing, varNames] at h3 ⊢; exact h3
    | _ => cases hp

end Operon.Tmpl
