import Operon.Model.Membrane
import Operon.Model.Innate
/-! Helper lemmas for the injection-gate theorems (C10). Core Lean only. -/
namespace Operon.Gates

/-! ### strings -/

theorem isPrefix_iff (p c : Str) : isPrefix p c = true ↔ ∃ t, c = p ++ t := by
  induction p generalizing c with
  | nil => simp [isPrefix]
  | cons a p ih =>
    cases c with
    | nil => simp [isPrefix]
    | cons b c =>
      simp only [isPrefix]
      split
      · rename_i h; subst h
        rw [ih]; simp
      · rename_i h
        simp only [Bool.false_eq_true, List.cons_append, List.cons.injEq, false_iff, not_exists, not_and]
        intro t hab; exact absurd hab.symm h

theorem isInfix_iff (p c : Str) : isInfix p c = true ↔ ∃ pre post, c = pre ++ p ++ post := by
  induction c with
  | nil =>
    simp only [isInfix, isPrefix_iff]
    constructor
    · rintro ⟨t, ht⟩; exact ⟨[], t, by simpa using ht⟩
    · rintro ⟨pre, post, h⟩
      have h' := h.symm
      simp only [List.append_eq_nil_iff] at h'
      exact ⟨[], by simp [h'.1.2]⟩
  | cons b c ih =>
    simp only [isInfix]
    split
    · rename_i h
      simp only [true_iff]
      obtain ⟨t, ht⟩ := (isPrefix_iff _ _).mp h
      exact ⟨[], t, by simpa using ht⟩
    · rename_i h
      rw [ih]
      constructor
      · rintro ⟨pre, post, hc⟩; exact ⟨b :: pre, post, by simp [hc]⟩
      · rintro ⟨pre, post, hc⟩
        cases pre with
        | nil =>
          exfalso; apply h
          exact (isPrefix_iff _ _).mpr ⟨post, by simpa using hc⟩
        | cons x pre =>
          simp only [List.cons_append, List.cons.injEq] at hc
          exact ⟨pre, post, by simpa using hc.2⟩

theorem isInfix_embed (p c pre post : Str) (h : isInfix p c = true) : isInfix p (pre ++ c ++ post) = true := by
  obtain ⟨a, b, hc⟩ := (isInfix_iff _ _).mp h
  exact (isInfix_iff _ _).mpr ⟨pre ++ a, b ++ post, by simp [hc]⟩

theorem lowerS_append (env : Env) (a b : Str) : lowerS env (a ++ b) = lowerS env a ++ lowerS env b := by
  simp [lowerS]

/-! ### matching -/

/-- `c'` is a case variant of `c`: the same case-folded code points (per-character upper/lower flips, but also
    `STRASSE` for `straße`: lengths may differ). -/
def CaseVariant (env : Env) (c c' : Str) : Prop := lowerS env c = lowerS env c'

/-- the regex `p` (searched with IGNORECASE) does not distinguish case variants -/
def RxCaseInv (env : Env) (p : Str) : Prop := ∀ c c', CaseVariant env c c' → env.rx p c = env.rx p c'

/-- every signature of `sigs` that matches `c` also matches `c'` -/
def KeepsHits (env : Env) (sigs : List Sig) (c c' : Str) : Prop :=
  ∀ s ∈ sigs, s.matches env c = true → s.matches env c' = true

theorem matches_sub_embed (env : Env) (s : Sig) (hs : s.isRegex = false) (c pre post : Str)
    (h : s.matches env c = true) : s.matches env (pre ++ c ++ post) = true := by
  simp only [Sig.matches, hs, Bool.false_eq_true, if_false] at *
  rw [lowerS_append, lowerS_append]
  exact isInfix_embed _ _ _ _ h

theorem matches_sub_case (env : Env) (s : Sig) (hs : s.isRegex = false) (c c' : Str)
    (hv : CaseVariant env c c') : s.matches env c = s.matches env c' := by
  simp only [Sig.matches, hs, Bool.false_eq_true, if_false]
  rw [hv]

theorem matches_case (env : Env) (s : Sig) (c c' : Str) (hv : CaseVariant env c c')
    (hrx : s.isRegex = true → RxCaseInv env s.pat) : s.matches env c = s.matches env c' := by
  cases hs : s.isRegex with
  | false => exact matches_sub_case env s hs c c' hv
  | true => simp only [Sig.matches, hs, if_true]; exact hrx hs c c' hv

theorem matched_case (env : Env) (sigs : List Sig) (c c' : Str) (hv : CaseVariant env c c')
    (hrx : ∀ s ∈ sigs, s.isRegex = true → RxCaseInv env s.pat) : matched env sigs c = matched env sigs c' := by
  unfold matched
  apply List.filter_congr
  intro s hs
  exact matches_case env s c c' hv (hrx s hs)

theorem keepsHits_of_case (env : Env) (sigs : List Sig) (c c' : Str) (hv : CaseVariant env c c')
    (hrx : ∀ s ∈ sigs, s.isRegex = true → RxCaseInv env s.pat) : KeepsHits env sigs c c' := by
  intro s hs h
  rw [← matches_case env s c c' hv (hrx s hs)]; exact h

theorem keepsHits_of_embed (env : Env) (sigs : List Sig) (c pre post : Str)
    (hrx : ∀ s ∈ sigs, s.isRegex = true → env.rx s.pat c = true → env.rx s.pat (pre ++ c ++ post) = true) :
    KeepsHits env sigs c (pre ++ c ++ post) := by
  intro s hs h
  cases hr : s.isRegex with
  | false => exact matches_sub_embed env s hr c pre post h
  | true =>
    simp only [Sig.matches, hr, if_true] at h ⊢
    exact hrx s hs hr h

/-! ### the running maximum -/

theorem maxFrom_ge_init (m : Nat) (l : List Sig) : m ≤ maxFrom m l := by
  induction l generalizing m with
  | nil => simp [maxFrom]
  | cons s l ih =>
    simp only [maxFrom]
    split
    · exact Nat.le_trans (Nat.le_of_lt ‹_›) (ih _)
    · exact ih _

theorem maxFrom_ge_mem (m : Nat) (l : List Sig) : ∀ s ∈ l, s.level ≤ maxFrom m l := by
  induction l generalizing m with
  | nil => simp
  | cons x l ih =>
    intro s hs
    simp only [maxFrom]
    rcases List.mem_cons.mp hs with h | h
    · subst h
      split
      · exact maxFrom_ge_init _ _
      · rename_i hlt; exact Nat.le_trans (Nat.not_lt.mp hlt) (maxFrom_ge_init _ _)
    · exact ih _ s h

theorem maxFrom_attained (m : Nat) (l : List Sig) : maxFrom m l = m ∨ ∃ s ∈ l, s.level = maxFrom m l := by
  induction l generalizing m with
  | nil => simp [maxFrom]
  | cons x l ih =>
    simp only [maxFrom]
    split
    · rcases ih x.level with h | ⟨s, hs, h⟩
      · right; exact ⟨x, by simp, h.symm⟩
      · right; exact ⟨s, by simp [hs], h⟩
    · rcases ih m with h | ⟨s, hs, h⟩
      · left; exact h
      · right; exact ⟨s, by simp [hs], h⟩

theorem maxLevel_ge_mem (l : List Sig) : ∀ s ∈ l, s.level ≤ maxLevel l := maxFrom_ge_mem 0 l

theorem maxLevel_attained (l : List Sig) : (l = [] ∧ maxLevel l = 0) ∨ ∃ s ∈ l, s.level = maxLevel l := by
  cases l with
  | nil => left; simp [maxLevel, maxFrom]
  | cons x l =>
    right
    rcases maxFrom_attained 0 (x :: l) with h | h
    · refine ⟨x, by simp, ?_⟩
      have := maxLevel_ge_mem (x :: l) x (by simp)
      unfold maxLevel at *; omega
    · exact h

theorem maxLevel_lt_iff (l : List Sig) (t : Nat) : maxLevel l < t ↔ (0 < t ∧ ∀ s ∈ l, s.level < t) := by
  constructor
  · intro h
    refine ⟨by omega, fun s hs => Nat.lt_of_le_of_lt (maxLevel_ge_mem l s hs) h⟩
  · rintro ⟨h0, h⟩
    rcases maxLevel_attained l with ⟨-, hz⟩ | ⟨s, hs, he⟩
    · omega
    · rw [← he]; exact h s hs

theorem maxLevel_mono (l l' : List Sig) (h : ∀ s ∈ l, s ∈ l') : maxLevel l ≤ maxLevel l' := by
  rcases maxLevel_attained l with ⟨-, hz⟩ | ⟨s, hs, he⟩
  · omega
  · rw [← he]; exact maxLevel_ge_mem l' s (h s hs)

theorem mem_matched (env : Env) (sigs : List Sig) (c : Str) (s : Sig) :
    s ∈ matched env sigs c ↔ s ∈ sigs ∧ s.matches env c = true := by
  simp [matched]

theorem matched_mono (env : Env) (sigs : List Sig) (c c' : Str) (hk : KeepsHits env sigs c c') :
    ∀ s ∈ matched env sigs c, s ∈ matched env sigs c' := by
  intro s hs
  rw [mem_matched] at hs ⊢
  exact ⟨hs.1, hk s hs.1 hs.2⟩

theorem matched_append (env : Env) (a b : List Sig) (c : Str) :
    matched env (a ++ b) c = matched env a c ++ matched env b c := by
  simp [matched]

theorem maxFrom_append (m : Nat) (a b : List Sig) : maxFrom m (a ++ b) = maxFrom (maxFrom m a) b := by
  induction a generalizing m with
  | nil => rfl
  | cons x a ih => simp only [List.cons_append, maxFrom]; exact ih _

/-- the level a scan of `sigs` assigns to `c` -/
def scanLevel (env : Env) (sigs : List Sig) (c : Str) : Nat := maxLevel (matched env sigs c)

theorem scanLevel_mono (env : Env) (sigs : List Sig) (c c' : Str) (hk : KeepsHits env sigs c c') :
    scanLevel env sigs c ≤ scanLevel env sigs c' :=
  maxLevel_mono _ _ (matched_mono env sigs c c' hk)

/-! ### membrane: one call -/

/-- everything later proofs need to know about one `filter` call; `d` is the decision taken -/
theorem filter_spec (env : Env) (m : Membrane) (now : Nat) (c : Str) :
    ∃ d, (m.filter env now c).2.decision = d ∧
      (m.filter env now c).1.audit = m.audit ++ [d] ∧
      (m.filter env now c).1.reqTimes = (rateCheck m now).2 ∧
      (m.filter env now c).1.sigs = m.sigs ∧ (m.filter env now c).1.learned = m.learned ∧
      (m.filter env now c).1.threshold = m.threshold ∧ (m.filter env now c).1.rateLimit = m.rateLimit ∧
      (m.filter env now c).1.window = m.window ∧ (m.filter env now c).1.adaptive = m.adaptive ∧
      d.key = c ∧
      (d.reason = .rate ↔ (rateCheck m now).1 = true) ∧
      (d.reason = .replay ↔ ((rateCheck m now).1 = false ∧ c ∈ m.blocked)) ∧
      (d.reason = .scan ↔ ((rateCheck m now).1 = false ∧ c ∉ m.blocked)) ∧
      (d.reason ≠ .scan → d.allowed = false ∧ d.level = critical ∧ d.matched = [] ∧
        (m.filter env now c).1.blocked = m.blocked) ∧
      (d.reason = .scan → d.matched = matched env m.active c ∧ d.level = maxLevel (matched env m.active c) ∧
        (d.allowed = true ↔ maxLevel (matched env m.active c) < m.threshold) ∧
        (d.allowed = true → (m.filter env now c).1.blocked = m.blocked) ∧
        (d.allowed = false → (m.filter env now c).1.blocked = c :: m.blocked)) ∧
      (m.filter env now c).1.totalFiltered = m.totalFiltered + 1 ∧
      (m.filter env now c).1.totalBlocked = (if d.allowed then m.totalBlocked else m.totalBlocked + 1) ∧
      (m.filter env now c).1.onThreat = m.onThreat ∧
      (m.filter env now c).2.raised =
        (if d.reason = .scan ∧ d.allowed = false then hookRaise m.onThreat (m.filter env now c).1.view d else none) := by
  unfold Membrane.filter Membrane.afterRate
  split
  · rename_i h
    refine ⟨_, rfl, rfl, rfl, rfl, rfl, rfl, rfl, rfl, rfl, rfl, ?_⟩
    simp [h]
  · rename_i h
    split
    · rename_i hb
      refine ⟨_, rfl, rfl, rfl, rfl, rfl, rfl, rfl, rfl, rfl, rfl, ?_⟩
      simp [h, hb]
    · rename_i hb
      simp only [Membrane.decide]
      split
      · rename_i hl
        refine ⟨_, rfl, rfl, rfl, rfl, rfl, rfl, rfl, rfl, rfl, rfl, ?_⟩
        simp [h, hb, hl]
      · rename_i hl
        refine ⟨_, rfl, rfl, rfl, rfl, rfl, rfl, rfl, rfl, rfl, rfl, ?_⟩
        simp [h, hb, hl, Membrane.bookBlock]

theorem filter_blocked_mono (env : Env) (m : Membrane) (now : Nat) (c x : Str) (hx : x ∈ m.blocked) :
    x ∈ (m.filter env now c).1.blocked := by
  obtain ⟨r, -, -, -, -, -, -, -, -, -, -, -, -, -, hns, hs, -⟩ := filter_spec env m now c
  by_cases hr : r.reason = .scan
  · obtain ⟨-, -, -, ha, hb⟩ := hs hr
    cases hal : r.allowed with
    | true => rw [ha hal]; exact hx
    | false => rw [hb hal]; exact List.mem_cons_of_mem _ hx
  · rw [(hns hr).2.2.2]; exact hx

/-! ### membrane: histories -/

theorem mstep_blocked_mono (env : Env) (st : MSt) (op : MOp) (x : Str) (hx : x ∈ st.m.blocked) :
    x ∈ (mstep env st op).1.m.blocked := by
  cases op with
  | filter c => exact filter_blocked_mono env st.m st.now c x hx
  | learn s =>
    simp only [mstep, Membrane.learn]
    split
    · split <;> exact hx
    · exact hx
  | forget p => exact hx
  | importAb abs => exact hx
  | setThr t => exact hx
  | addSig s => exact hx
  | clearAudit => exact hx
  | adv d => exact hx
  | setRate r => exact hx
  | setAdaptive b => exact hx
  | setHook h => exact hx
  | setSigs l => exact hx

theorem mrun_blocked_mono (env : Env) (ops : List MOp) : ∀ (st : MSt) (x : Str), x ∈ st.m.blocked →
    x ∈ (mrun env st ops).1.m.blocked := by
  induction ops with
  | nil => intro st x hx; exact hx
  | cons op ops ih =>
    intro st x hx
    simp only [mrun]
    exact ih _ x (mstep_blocked_mono env st op x hx)

def MOp.isSetRate : MOp → Bool
  | .setRate _ => true
  | _ => false

/-- what a history cannot change: the window; the rate limit changes only by direct assignment; time is monotone -/
theorem mstep_cfg (env : Env) (st : MSt) (op : MOp) :
    (op.isSetRate = false → (mstep env st op).1.m.rateLimit = st.m.rateLimit) ∧
    (mstep env st op).1.m.window = st.m.window ∧
    st.now ≤ (mstep env st op).1.now := by
  cases op with
  | filter c =>
    obtain ⟨r, -, -, -, -, -, -, hrl, hw, -⟩ := filter_spec env st.m st.now c
    exact ⟨fun _ => hrl, hw, Nat.le_refl _⟩
  | learn s =>
    simp only [mstep, Membrane.learn]
    split
    · split <;> exact ⟨fun _ => rfl, rfl, Nat.le_refl _⟩
    · exact ⟨fun _ => rfl, rfl, Nat.le_refl _⟩
  | forget p => exact ⟨fun _ => rfl, rfl, Nat.le_refl _⟩
  | importAb abs => exact ⟨fun _ => rfl, rfl, Nat.le_refl _⟩
  | setThr t => exact ⟨fun _ => rfl, rfl, Nat.le_refl _⟩
  | addSig s => exact ⟨fun _ => rfl, rfl, Nat.le_refl _⟩
  | clearAudit => exact ⟨fun _ => rfl, rfl, Nat.le_refl _⟩
  | adv d => exact ⟨fun _ => rfl, rfl, Nat.le_add_right _ _⟩
  | setRate r => exact ⟨fun h => by simp [MOp.isSetRate] at h, rfl, Nat.le_refl _⟩
  | setAdaptive b => exact ⟨fun _ => rfl, rfl, Nat.le_refl _⟩
  | setHook h => exact ⟨fun _ => rfl, rfl, Nat.le_refl _⟩
  | setSigs l => exact ⟨fun _ => rfl, rfl, Nat.le_refl _⟩

/-! ### rate window -/

/-- `t` lies in the window `(T - W, T]` -/
def inWin (W T t : Nat) : Bool := decide (T < t + W) && decide (t ≤ T)

/-- the event is a call that was made under a finite rate limit and got past the rate check -/
def MEv.admitted (e : MEv) : Bool := e.limit.isSome && decide (e.out.decision.reason ≠ .rate)

/-- the times at which a filter call made under a finite rate limit got past the rate check, in order -/
def admissions (evs : List MEv) : List Nat := (evs.filter MEv.admitted).map (·.t)

/-- the times at which a filter call made under a finite rate limit was allowed, in order -/
def allowedTimes (evs : List MEv) : List Nat :=
  (evs.filter (fun e => e.limit.isSome && e.out.decision.allowed)).map (·.t)

theorem admissions_append (a b : List MEv) : admissions (a ++ b) = admissions a ++ admissions b := by
  simp [admissions]

theorem filter_length_le_of_imp {α : Type} (p q : α → Bool) (l : List α) (h : ∀ x ∈ l, p x = true → q x = true) :
    (l.filter p).length ≤ (l.filter q).length := by
  induction l with
  | nil => simp
  | cons x l ih =>
    have ih' := ih (fun y hy => h y (List.mem_cons_of_mem _ hy))
    simp only [List.filter_cons]
    cases hp : p x with
    | true =>
      have hq := h x (by simp) hp
      simp [hq]; exact ih'
    | false =>
      cases hq : q x with
      | true => simp; omega
      | false => simpa using ih'

theorem prune_prune (W now q : Nat) (hq : now ≤ q) (ts : List Nat) : prune W q (prune W now ts) = prune W q ts := by
  unfold prune
  rw [List.filter_filter]
  apply List.filter_congr
  intro t _
  by_cases h : t + W > q
  · have : t + W > now := by omega
    simp [h, this]
  · simp [h]

/-- invariant tying `_request_times` to the admission log `A`, whatever happens to the rate limit -/
structure RateSync (W : Nat) (st : MSt) (A : List Nat) : Prop where
  cfgW : st.m.window = W
  past : ∀ t ∈ A, t ≤ st.now
  sync : ∀ q, st.now ≤ q → prune W q st.m.reqTimes = prune W q A

/-- a filter event's contribution to the admission log -/
theorem admissions_single (e : MEv) : admissions [e] = if e.admitted then [e.t] else [] := by
  unfold admissions
  cases h : e.admitted <;> simp [h]

theorem rateSync_step (env : Env) (W : Nat) (st : MSt) (A : List Nat) (op : MOp) (h : RateSync W st A) :
    RateSync W (mstep env st op).1 (A ++ admissions (mstep env st op).2.toList) := by
  have hcfg := mstep_cfg env st op
  cases op with
  | filter c =>
    obtain ⟨res, hres, -, hreq, -, -, -, -, hw, -, -, hrate, -⟩ := filter_spec env st.m st.now c
    simp only [mstep, Option.toList_some, admissions_single, MEv.admitted, hres]
    cases hlim : st.m.rateLimit with
    | none =>
      have hrc : rateCheck st.m st.now = (false, st.m.reqTimes) := by simp [rateCheck, hlim]
      simp only [Option.isSome_none, Bool.false_and, Bool.false_eq_true, if_false, List.append_nil]
      refine ⟨by rw [hw]; exact h.cfgW, h.past, ?_⟩
      intro q hq; rw [hreq, hrc]; exact h.sync q hq
    | some r =>
      have hrc : rateCheck st.m st.now =
          (if (prune W st.now st.m.reqTimes).length ≥ r then (true, prune W st.now st.m.reqTimes)
           else (false, prune W st.now st.m.reqTimes ++ [st.now])) := by
        simp [rateCheck, hlim, h.cfgW]
      by_cases hl : (prune W st.now st.m.reqTimes).length ≥ r
      · have h1 : (rateCheck st.m st.now).1 = true := by rw [hrc]; simp [hl]
        have h2 : (rateCheck st.m st.now).2 = prune W st.now st.m.reqTimes := by rw [hrc]; simp [hl]
        have hr : res.reason = .rate := hrate.mpr h1
        simp only [hr, Option.isSome_some, Bool.true_and, ne_eq, not_true_eq_false, decide_false,
          Bool.false_eq_true, if_false, List.append_nil]
        refine ⟨by rw [hw]; exact h.cfgW, h.past, ?_⟩
        intro q hq
        rw [hreq, h2, prune_prune W st.now q hq]
        exact h.sync q hq
      · have h1 : (rateCheck st.m st.now).1 = false := by rw [hrc]; simp [hl]
        have h2 : (rateCheck st.m st.now).2 = prune W st.now st.m.reqTimes ++ [st.now] := by rw [hrc]; simp [hl]
        have hr : res.reason ≠ .rate := by
          intro hh; have := hrate.mp hh; rw [h1] at this; cases this
        simp only [Option.isSome_some, Bool.true_and, ne_eq, hr, not_false_eq_true, decide_true, if_true]
        refine ⟨by rw [hw]; exact h.cfgW, ?_, ?_⟩
        · intro t ht
          rcases List.mem_append.mp ht with ht | ht
          · exact h.past t ht
          · simp at ht; subst ht; exact Nat.le_refl _
        · intro q hq
          rw [hreq, h2]
          unfold prune
          rw [List.filter_append, List.filter_append]
          have := prune_prune W st.now q hq st.m.reqTimes
          unfold prune at this
          rw [this]
          have := h.sync q hq
          unfold prune at this
          rw [this]
  | learn s =>
    have hm : (mstep env st (.learn s)).1.m.reqTimes = st.m.reqTimes := by
      simp only [mstep, Membrane.learn]; split
      · split <;> rfl
      · rfl
    have : (mstep env st (.learn s)).2 = none := rfl
    simp only [this, Option.toList_none, admissions, List.filter_nil, List.map_nil, List.append_nil]
    exact ⟨by rw [hcfg.2.1]; exact h.cfgW, h.past, by intro q hq; rw [hm]; exact h.sync q hq⟩
  | adv d =>
    simp only [mstep, Option.toList_none, admissions, List.filter_nil, List.map_nil, List.append_nil]
    exact ⟨h.cfgW, fun t ht => Nat.le_trans (h.past t ht) (Nat.le_add_right _ _),
      fun q hq => h.sync q (Nat.le_trans (Nat.le_add_right _ _) hq)⟩
  | forget p =>
    simp only [mstep, Option.toList_none, admissions, List.filter_nil, List.map_nil, List.append_nil]
    exact ⟨h.cfgW, h.past, h.sync⟩
  | importAb abs =>
    simp only [mstep, Option.toList_none, admissions, List.filter_nil, List.map_nil, List.append_nil]
    exact ⟨h.cfgW, h.past, h.sync⟩
  | setThr t =>
    simp only [mstep, Option.toList_none, admissions, List.filter_nil, List.map_nil, List.append_nil]
    exact ⟨h.cfgW, h.past, h.sync⟩
  | addSig s =>
    simp only [mstep, Option.toList_none, admissions, List.filter_nil, List.map_nil, List.append_nil]
    exact ⟨h.cfgW, h.past, h.sync⟩
  | clearAudit =>
    simp only [mstep, Option.toList_none, admissions, List.filter_nil, List.map_nil, List.append_nil]
    exact ⟨h.cfgW, h.past, h.sync⟩
  | setRate r =>
    simp only [mstep, Option.toList_none, admissions, List.filter_nil, List.map_nil, List.append_nil]
    exact ⟨h.cfgW, h.past, h.sync⟩
  | setAdaptive b =>
    simp only [mstep, Option.toList_none, admissions, List.filter_nil, List.map_nil, List.append_nil]
    exact ⟨h.cfgW, h.past, h.sync⟩
  | setHook hk =>
    simp only [mstep, Option.toList_none, admissions, List.filter_nil, List.map_nil, List.append_nil]
    exact ⟨h.cfgW, h.past, h.sync⟩
  | setSigs l =>
    simp only [mstep, Option.toList_none, admissions, List.filter_nil, List.map_nil, List.append_nil]
    exact ⟨h.cfgW, h.past, h.sync⟩

theorem rateSync_run (env : Env) (W : Nat) (ops : List MOp) : ∀ (st : MSt) (A : List Nat), RateSync W st A →
    RateSync W (mrun env st ops).1 (A ++ admissions (mrun env st ops).2) := by
  induction ops with
  | nil => intro st A h; simpa [mrun, admissions] using h
  | cons op ops ih =>
    intro st A h
    have h1 := rateSync_step env W st A op h
    have h2 := ih _ _ h1
    simp only [mrun, admissions_append, ← List.append_assoc]
    exact h2

/-- the step that matters: a call that passes the rate check under limit `r` is, counted together with the
    earlier admissions of its window, at most the `r`-th -/
theorem admit_bound (W r : Nat) (st : MSt) (A : List Nat) (h : RateSync W st A) (hr : st.m.rateLimit = some r)
    (hpass : (rateCheck st.m st.now).1 = false) :
    ((A ++ [st.now]).filter (inWin W st.now)).length ≤ r := by
  have hrc : rateCheck st.m st.now =
      (if (prune W st.now st.m.reqTimes).length ≥ r then (true, prune W st.now st.m.reqTimes)
       else (false, prune W st.now st.m.reqTimes ++ [st.now])) := by
    simp [rateCheck, hr, h.cfgW]
  have hl : ¬ (prune W st.now st.m.reqTimes).length ≥ r := by
    intro hl; rw [hrc] at hpass; simp [hl] at hpass
  have hs := h.sync st.now (Nat.le_refl _)
  have hsub : (A.filter (inWin W st.now)).length ≤ (prune W st.now A).length := by
    unfold prune
    apply filter_length_le_of_imp
    intro t _ hw
    simp only [inWin, Bool.and_eq_true, decide_eq_true_eq] at hw ⊢
    omega
  rw [List.filter_append]
  have h1 : ([st.now].filter (inWin W st.now)).length ≤ 1 := by
    simp only [List.filter_cons, List.filter_nil]; split <;> simp
  rw [List.length_append]
  rw [← hs] at hsub
  omega

/-- invariant for histories that never reassign the rate limit: in addition every window holds at most `r` -/
structure RateInv (W r : Nat) (st : MSt) (A : List Nat) : Prop where
  cfgR : st.m.rateLimit = some r
  syn : RateSync W st A
  bound : ∀ T, (A.filter (inWin W T)).length ≤ r

theorem rateInv_step (env : Env) (W r : Nat) (st : MSt) (A : List Nat) (op : MOp) (hop : op.isSetRate = false)
    (h : RateInv W r st A) :
    RateInv W r (mstep env st op).1 (A ++ admissions (mstep env st op).2.toList) := by
  have hcfg := mstep_cfg env st op
  have hsyn := rateSync_step env W st A op h.syn
  refine ⟨by rw [hcfg.1 hop]; exact h.cfgR, hsyn, ?_⟩
  cases op with
  | filter c =>
    obtain ⟨res, hres, -, -, -, -, -, -, -, -, -, hrate, -⟩ := filter_spec env st.m st.now c
    simp only [mstep, Option.toList_some, admissions_single, MEv.admitted, hres, h.cfgR, Option.isSome_some,
      Bool.true_and]
    by_cases hr : res.reason = .rate
    · simp only [hr, ne_eq, not_true_eq_false, decide_false, Bool.false_eq_true, if_false, List.append_nil]
      exact h.bound
    · simp only [ne_eq, hr, not_false_eq_true, decide_true, if_true]
      have hpass : (rateCheck st.m st.now).1 = false := by
        cases hh : (rateCheck st.m st.now).1 with
        | false => rfl
        | true => exact absurd (hrate.mpr hh) hr
      intro T
      by_cases hin : inWin W T st.now = true
      · -- everything of A inside the window ending at T ≥ now is inside the window ending at now
        have hb := admit_bound W r st A h.syn h.cfgR hpass
        refine Nat.le_trans ?_ hb
        apply filter_length_le_of_imp
        intro t ht hw
        have hle : t ≤ st.now := by
          rcases List.mem_append.mp ht with ht | ht
          · exact h.syn.past t ht
          · simp at ht; omega
        simp only [inWin, Bool.and_eq_true, decide_eq_true_eq] at hw hin ⊢
        omega
      · have : inWin W T st.now = false := by simpa using hin
        rw [List.filter_append]
        simp [this]; exact h.bound T
  | setRate r' => simp [MOp.isSetRate] at hop
  | learn s => simpa [mstep, admissions] using h.bound
  | forget p => simpa [mstep, admissions] using h.bound
  | importAb abs => simpa [mstep, admissions] using h.bound
  | setThr t => simpa [mstep, admissions] using h.bound
  | addSig s => simpa [mstep, admissions] using h.bound
  | clearAudit => simpa [mstep, admissions] using h.bound
  | adv d => simpa [mstep, admissions] using h.bound
  | setAdaptive b => simpa [mstep, admissions] using h.bound
  | setHook hk => simpa [mstep, admissions] using h.bound
  | setSigs l => simpa [mstep, admissions] using h.bound

theorem rateInv_run (env : Env) (W r : Nat) (ops : List MOp) (hops : ∀ op ∈ ops, op.isSetRate = false) :
    ∀ (st : MSt) (A : List Nat), RateInv W r st A →
    RateInv W r (mrun env st ops).1 (A ++ admissions (mrun env st ops).2) := by
  induction ops with
  | nil => intro st A h; simpa [mrun, admissions] using h
  | cons op ops ih =>
    intro st A h
    have h1 := rateInv_step env W r st A op (hops op (by simp)) h
    have h2 := ih (fun o ho => hops o (List.mem_cons_of_mem _ ho)) _ _ h1
    simp only [mrun, admissions_append, ← List.append_assoc]
    exact h2

/-- in every event of a history a rate-limit rejection is a rejection -/
theorem mrun_events_wf (env : Env) (ops : List MOp) : ∀ (st : MSt) (e : MEv),
    e ∈ (mrun env st ops).2 → e.out.decision.reason = .rate → e.out.decision.allowed = false := by
  induction ops with
  | nil => intro st e h; simp [mrun] at h
  | cons op ops ih =>
    intro st e h hr
    simp only [mrun] at h
    rcases List.mem_append.mp h with h | h
    · cases op with
      | filter c =>
        obtain ⟨res, hres, -, -, -, -, -, -, -, -, -, -, -, -, hns, -⟩ := filter_spec env st.m st.now c
        simp only [mstep, Option.toList_some, List.mem_singleton] at h
        subst h
        simp only [hres] at hr ⊢
        exact (hns (by rw [hr]; simp)).1
      | _ => simp [mstep] at h
    · exact ih _ e h hr

theorem allowed_sub_admissions (evs : List MEv)
    (hwf : ∀ e ∈ evs, e.out.decision.reason = .rate → e.out.decision.allowed = false) (p : Nat → Bool) :
    ((allowedTimes evs).filter p).length ≤ ((admissions evs).filter p).length := by
  induction evs with
  | nil => simp [allowedTimes, admissions]
  | cons e evs ih =>
    have ih' := ih (fun x hx => hwf x (List.mem_cons_of_mem _ hx))
    have hw := hwf e (by simp)
    unfold allowedTimes admissions at ih' ⊢
    simp only [List.filter_cons]
    by_cases hA : (e.limit.isSome && e.out.decision.allowed) = true
    · have hB : e.admitted = true := by
        simp only [MEv.admitted, Bool.and_eq_true, decide_eq_true_eq] at hA ⊢
        refine ⟨hA.1, fun hr => ?_⟩
        have := hw hr
        rw [this] at hA
        exact absurd hA.2 (by simp)
      simp only [hA, hB, if_true, List.map_cons, List.filter_cons]
      cases p e.t <;> simp <;> omega
    · by_cases hB : e.admitted = true
      · simp only [hA, hB, if_true, List.map_cons, List.filter_cons]
        cases p e.t <;> simp <;> omega
      · simp only [hA, hB]
        exact ih'

/-! ### audit trail -/

/-- the decisions of the filter calls of an event list, in order (also of calls whose hook raised) -/
def results (evs : List MEv) : List FilterRes := evs.map (·.out.decision)

theorem results_append (a b : List MEv) : results (a ++ b) = results a ++ results b := by
  simp [results]

def MOp.isClear : MOp → Bool
  | .clearAudit => true
  | _ => false

theorem mstep_audit (env : Env) (st : MSt) (op : MOp) (hc : op.isClear = false) :
    (mstep env st op).1.m.audit = st.m.audit ++ results (mstep env st op).2.toList := by
  cases op with
  | filter c =>
    obtain ⟨res, hres, haud, -⟩ := filter_spec env st.m st.now c
    simp only [mstep, Option.toList_some, results, List.map_cons, List.map_nil, hres, haud]
  | learn s =>
    simp only [mstep, Membrane.learn, Option.toList_none, results, List.map_nil, List.append_nil]
    split
    · split <;> rfl
    · rfl
  | clearAudit => simp [MOp.isClear] at hc
  | forget p => simp [mstep, results, Membrane.forget]
  | importAb abs => simp [mstep, results, Membrane.importAb]
  | setThr t => simp [mstep, results, Membrane.setThreshold]
  | addSig s => simp [mstep, results, Membrane.addSig]
  | adv d => simp [mstep, results]
  | setRate r => simp [mstep, results, Membrane.setRate]
  | setAdaptive b => simp [mstep, results, Membrane.setAdaptive]
  | setHook h => simp [mstep, results, Membrane.setHook]
  | setSigs l => simp [mstep, results, Membrane.setSigs]

/-! ### JSON depth: the early exit of `_measure_depth` does not change the verdict -/

mutual
/-- nesting depth of a parsed JSON value: scalars 0, a container one more than its deepest child -/
def depth : J → Nat
  | .scalar => 0
  | .node xs => depthMax xs + 1
def depthMax : List J → Nat
  | [] => 0
  | x :: xs => max (depth x) (depthMax xs)
end

theorem depthMax_ge (xs : List J) : ∀ x ∈ xs, depth x ≤ depthMax xs := by
  induction xs with
  | nil => simp
  | cons y ys ih =>
    intro x hx
    simp only [depthMax]
    rcases List.mem_cons.mp hx with rfl | h
    · exact Nat.le_max_left _ _
    · exact Nat.le_trans (ih x h) (Nat.le_max_right _ _)

theorem depthMax_attained (xs : List J) (hne : xs ≠ []) : ∃ x ∈ xs, depth x = depthMax xs := by
  induction xs with
  | nil => exact absurd rfl hne
  | cons y ys ih =>
    simp only [depthMax]
    by_cases hys : ys = []
    · subst hys; exact ⟨y, by simp, by simp [depthMax]⟩
    · obtain ⟨x, hx, he⟩ := ih hys
      by_cases hle : depthMax ys ≤ depth y
      · exact ⟨y, by simp, by rw [Nat.max_eq_left hle]⟩
      · exact ⟨x, by simp [hx], by rw [he, Nat.max_eq_right (by omega)]⟩

mutual
theorem measure_gt (md : Nat) : ∀ (t : J) (cur : Nat), measure md t cur > md ↔ cur + depth t > md
  | .scalar, cur => by simp [measure, depth]
  | .node xs, cur => by
    have ih := measureMax_gt md xs (cur + 1)
    unfold measure
    split
    · rename_i h; simp only [depth]; omega
    · rename_i h
      cases xs with
      | nil => simp only [depth, depthMax]
      | cons y ys =>
        simp only []
        rw [ih]
        simp only [depth]
        constructor
        · rintro ⟨x, hx, hd⟩
          have := depthMax_ge (y :: ys) x hx
          omega
        · intro hd
          obtain ⟨x, hx, he⟩ := depthMax_attained (y :: ys) (by simp)
          exact ⟨x, hx, by omega⟩
theorem measureMax_gt (md : Nat) : ∀ (xs : List J) (cur : Nat),
    measureMax md xs cur > md ↔ ∃ x ∈ xs, cur + depth x > md
  | [], cur => by simp [measureMax]
  | x :: xs, cur => by
    have h1 := measure_gt md x cur
    have h2 := measureMax_gt md xs cur
    simp only [measureMax, List.mem_cons, exists_eq_or_imp]
    rw [← h1, ← h2]
    omega
end

/-! ### which signatures are active after learn / import / forget -/

theorem mem_dictSet_self (d : List Sig) (s : Sig) : s ∈ dictSet d s := by
  unfold dictSet
  split
  · rename_i h
    simp only [List.any_eq_true, decide_eq_true_eq] at h
    obtain ⟨x, hx, hp⟩ := h
    exact List.mem_map.mpr ⟨x, hx, by simp [hp]⟩
  · simp

/-- a key present before `d[s.pat] = s` is present afterwards, carried by the old entry or by `s` -/
theorem dictSet_key_kept (d : List Sig) (s x : Sig) (hx : x ∈ d) :
    ∃ y ∈ dictSet d s, y.pat = x.pat ∧ (y = x ∨ y = s) := by
  unfold dictSet
  split
  · by_cases hp : x.pat = s.pat
    · exact ⟨s, List.mem_map.mpr ⟨x, hx, by simp [hp]⟩, hp.symm, Or.inr rfl⟩
    · exact ⟨x, List.mem_map.mpr ⟨x, hx, by simp [hp]⟩, rfl, Or.inl rfl⟩
  · exact ⟨x, by simp [hx], rfl, Or.inl rfl⟩

theorem foldl_dictSet_key_kept (abs : List Sig) : ∀ (d : List Sig) (x : Sig), x ∈ d →
    ∃ y ∈ abs.foldl dictSet d, y.pat = x.pat ∧ (y = x ∨ y ∈ abs) := by
  induction abs with
  | nil => intro d x hx; exact ⟨x, hx, rfl, Or.inl rfl⟩
  | cons a rest ih =>
    intro d x hx
    obtain ⟨y, hy, hyp, hor⟩ := dictSet_key_kept d a x hx
    obtain ⟨z, hz, hzp, hzor⟩ := ih (dictSet d a) y hy
    refine ⟨z, hz, hzp.trans hyp, ?_⟩
    rcases hzor with rfl | hzr
    · rcases hor with rfl | rfl
      · exact Or.inl rfl
      · exact Or.inr (by simp)
    · exact Or.inr (List.mem_cons_of_mem _ hzr)

/-- after `import_antibodies(abs)` every imported pattern text is the key of an active learned signature, and
    that signature is one of the imported ones (the last with that text) -/
theorem foldl_dictSet_imported (abs : List Sig) : ∀ (d : List Sig) (ab : Sig), ab ∈ abs →
    ∃ y ∈ abs.foldl dictSet d, y.pat = ab.pat ∧ y ∈ abs := by
  induction abs with
  | nil => intro d ab h; simp at h
  | cons a rest ih =>
    intro d ab hab
    rcases List.mem_cons.mp hab with rfl | hr
    · obtain ⟨z, hz, hzp, hzor⟩ := foldl_dictSet_key_kept rest (dictSet d ab) ab (mem_dictSet_self d ab)
      refine ⟨z, hz, hzp, ?_⟩
      rcases hzor with rfl | h
      · simp
      · exact List.mem_cons_of_mem _ h
    · obtain ⟨y, hy, hyp, hym⟩ := ih (dictSet d a) ab hr
      exact ⟨y, hy, hyp, List.mem_cons_of_mem _ hym⟩

/-- the operation re-assigns / edits the public list `m.signatures` directly -/
def MOp.isSetSigs : MOp → Bool
  | .setSigs _ => true
  | _ => false

theorem mstep_sigs_mono (env : Env) (st : MSt) (op : MOp) (hop : op.isSetSigs = false) (s : Sig) (hs : s ∈ st.m.sigs) :
    s ∈ (mstep env st op).1.m.sigs := by
  cases op with
  | setSigs l => simp [MOp.isSetSigs] at hop
  | filter c =>
    obtain ⟨r, -, -, -, hsig, -⟩ := filter_spec env st.m st.now c
    simp only [mstep]; rw [hsig]; exact hs
  | learn x =>
    simp only [mstep, Membrane.learn]
    split
    · split <;> exact hs
    · exact hs
  | addSig x => simp [mstep, Membrane.addSig, hs]
  | forget p => exact hs
  | importAb abs => exact hs
  | setThr t => exact hs
  | clearAudit => exact hs
  | adv d => exact hs
  | setRate r => exact hs
  | setAdaptive b => exact hs
  | setHook h => exact hs

theorem mrun_sigs_mono (env : Env) (ops : List MOp) (hops : ∀ op ∈ ops, op.isSetSigs = false) :
    ∀ (st : MSt) (s : Sig), s ∈ st.m.sigs → s ∈ (mrun env st ops).1.m.sigs := by
  induction ops with
  | nil => intro st s hs; exact hs
  | cons op ops ih =>
    intro st s hs
    simp only [mrun]
    exact ih (fun o ho => hops o (List.mem_cons_of_mem _ ho)) _ s
      (mstep_sigs_mono env st op (hops op (by simp)) s hs)

/-! ### innate immunity -/

/-- the validator rejects `c` (returns `(False, message)`) -/
def Validator.rejects (env : Env) (v : Validator) (c : Str) : Bool :=
  match v.run env c with
  | .ok false => true
  | _ => false

theorem run_total (env : Env) (v : Validator) (c : Str) (hj : env.json c ≠ .other) : ∃ b, v.run env c = .ok b := by
  cases v with
  | length mn mx => exact ⟨_, rfl⟩
  | charset a b =>
    simp only [Validator.run]
    split
    · exact ⟨_, rfl⟩
    · split <;> exact ⟨_, rfl⟩
  | json md ms =>
    simp only [Validator.run]
    split
    · exact ⟨_, rfl⟩
    · cases hjs : env.json c with
      | parsed t => exact ⟨_, rfl⟩
      | decodeError => exact ⟨_, rfl⟩
      | valueError => exact ⟨_, rfl⟩
      | recursionError => exact ⟨_, rfl⟩
      | other => exact absurd hjs hj

theorem runValidators_ok (env : Env) (vs : List Validator) (c : Str) :
    ∀ errs, runValidators env vs c = .ok errs →
      errs = vs.filter (fun v => v.rejects env c) ∧ ∀ v ∈ vs, ∃ b, v.run env c = .ok b := by
  induction vs with
  | nil => intro errs h; simp [runValidators] at h; simp [h]
  | cons v vs ih =>
    intro errs h
    simp only [runValidators] at h
    cases hv : v.run env c with
    | raise k => simp [hv] at h
    | ok valid =>
      simp only [hv] at h
      cases hr : runValidators env vs c with
      | raise k => simp [hr] at h
      | ok es =>
        simp only [hr, Out.ok.injEq] at h
        obtain ⟨he, hall⟩ := ih es hr
        constructor
        · cases valid with
          | true =>
            simp only [if_true] at h
            simp [Validator.rejects, hv, ← h, he]
          | false =>
            simp only [Bool.false_eq_true, if_false] at h
            simp [Validator.rejects, hv, ← h, he]
        · intro w hw
          rcases List.mem_cons.mp hw with rfl | hw
          · exact ⟨_, hv⟩
          · exact hall w hw

theorem runValidators_total (env : Env) (vs : List Validator) (c : Str)
    (h : ∀ v ∈ vs, ∃ b, v.run env c = .ok b) : ∃ errs, runValidators env vs c = .ok errs := by
  induction vs with
  | nil => exact ⟨[], rfl⟩
  | cons v vs ih =>
    obtain ⟨b, hb⟩ := h v (by simp)
    obtain ⟨es, hes⟩ := ih (fun w hw => h w (List.mem_cons_of_mem _ hw))
    simp only [runValidators, hb, hes]
    exact ⟨_, rfl⟩

/-- everything later proofs need to know about one `check` call whose validators all returned -/
theorem check_spec (env : Env) (im : Innate) (now : Nat) (c : Str) (errs : List Validator)
    (h : runValidators env im.validators c = .ok errs) :
    (∀ r, (im.check env now c).2 = .ok r →
      r.matched = matched env im.patterns c ∧ r.errors = errs ∧ r.level = im.levelFor env now c errs ∧
      (r.allowed = true ↔ (maxLevel (matched env im.patterns c) < im.sevThreshold ∧ errs = [] ∧
        im.levelFor env now c errs < lvlAcute))) ∧
    ((∃ r, (im.check env now c).2 = .ok r) ∨
      (∃ k, (im.check env now c).2 = .raise ("hook:" ++ k) ∧ im.levelFor env now c errs > lvlNone ∧
        innHookRaise im.onInflammation (im.inflame now (im.levelFor env now c errs)).view
          (im.levelFor env now c errs) = some k)) ∧
    (im.check env now c).1.patterns = im.patterns ∧ (im.check env now c).1.validators = im.validators ∧
    (im.check env now c).1.sevThreshold = im.sevThreshold ∧
    (im.check env now c).1.checkCount = im.checkCount + 1 := by
  unfold Innate.check Innate.checkWith
  simp only [h]
  unfold Innate.conclude Innate.levelFor
  split
  · rename_i hl
    split
    · rename_i k hk
      refine ⟨fun r hr => (by cases hr), Or.inr ⟨k, rfl, hl, hk⟩, rfl, rfl, rfl, rfl⟩
    · split
      · rename_i hc
        refine ⟨fun r hr => ?_, Or.inl ⟨_, rfl⟩, rfl, rfl, rfl, rfl⟩
        cases hr
        exact ⟨rfl, rfl, rfl, ⟨fun _ => hc, fun _ => rfl⟩⟩
      · rename_i hc
        refine ⟨fun r hr => ?_, Or.inl ⟨_, rfl⟩, rfl, rfl, rfl, rfl⟩
        cases hr
        exact ⟨rfl, rfl, rfl, by simp [hc]⟩
  · split
    · rename_i hc
      refine ⟨fun r hr => ?_, Or.inl ⟨_, rfl⟩, rfl, rfl, rfl, rfl⟩
      cases hr
      exact ⟨rfl, rfl, rfl, ⟨fun _ => hc, fun _ => rfl⟩⟩
    · rename_i hc
      refine ⟨fun r hr => ?_, Or.inl ⟨_, rfl⟩, rfl, rfl, rfl, rfl⟩
      cases hr
      exact ⟨rfl, rfl, rfl, by simp [hc]⟩

theorem check_raise (env : Env) (im : Innate) (now : Nat) (c : Str) (k : String)
    (h : runValidators env im.validators c = .raise k) : (im.check env now c).2 = .raise k := by
  unfold Innate.check Innate.checkWith
  simp only [h]

end Operon.Gates
