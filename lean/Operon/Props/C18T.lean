import Operon.Lemmas.C18Tables
import Operon.Gen.LoopTables
/-!
# C18 — obligations that tie the loop models to the source as evaluated on this run

Kept apart from `Props/C18.lean` so that a change of the evaluated tables is attributed to these obligations only
(and only they are re-checked when the tables change).
-/
namespace Operon.Loops

/-! ## The model agrees with the source as evaluated on this run

`Operon/Gen/LoopTables.lean` is regenerated on every run by `harness/vf/extract/eval_loops.py`, which *runs* the
real `ChaperoneLoop`, `RegenerativeSwarm` and `Nucleus` of the tree under test on finite domains — each point
along several routes the property does not distinguish (limit given to the constructor / assigned to the public
attribute of a live object / on an object that has already served a call; keyword / positional; stub / real
`Mitochondria`); a point whose routes disagree or whose evaluation fails is `none`.  The theorems below are
complete `decide`s over those tables: they fail when the code under test stops behaving like the model. -/
section Evaluated

/-- Against a generator that never validates, the code under test made exactly `max_retries + 1` generator calls
    (none for a negative budget) for every limit −2 … 5 along every route — the bound of
    `c18_heal_calls_le_retries_succ` is attained, and it is what the model does. -/
theorem c18_heal_budget_agrees_with_evaluated_source :
    ∀ e ∈ Gen.healBudgetTable, e.2 = some (e.1 + 1).toNat ∧ healCallsNever e.1 = (e.1 + 1).toNat := by
  decide +kernel

/-- Against workers that never emit a marker and never repeat an output, the code under test spawned exactly
    `max_regenerations + 1` workers and ran exactly `max_steps_per_worker` steps on each, for all budgets −2 … 3
    along every route; the model does the same. -/
theorem c18_swarm_budget_agrees_with_evaluated_source :
    ∀ e ∈ Gen.swarmBudgetTable,
      e.2 = some ((e.1.1 + 1).toNat, if e.1.1 < 0 then 0 else e.1.2.toNat) ∧
      swarmCountsNever e.1.1 e.1.2 = ((e.1.1 + 1).toNat, if e.1.1 < 0 then 0 else e.1.2.toNat) := by
  decide +kernel

/-- Against a provider that asks for a tool on every round, the code under test made exactly `max_iterations`
    tool rounds and one final completion for every budget −2 … 5 along every route (keyword, positional, real
    `Mitochondria`, a nucleus that has served other calls); the model does the same. -/
theorem c18_tool_budget_agrees_with_evaluated_source :
    ∀ e ∈ Gen.toolBudgetTable, e.2 = some (e.1.toNat, 1) ∧ toolCountsForever e.1 = (e.1.toNat, 1) := by
  decide +kernel

/-- Objects built and calls made without naming a limit behave as the declared defaults say: the counts
    observed on the code under test are `default + 1` calls, `default + 1` workers with `default` steps each,
    `default` rounds plus one completion. -/
theorem c18_default_budgets_agree_with_evaluated_source :
    Gen.defaultMaxRetries.isSome = true ∧ Gen.defaultMaxRegenerations.isSome = true ∧
    Gen.defaultMaxSteps.isSome = true ∧ Gen.defaultMaxIterations.isSome = true ∧
    Gen.defaultHealCalls = Gen.defaultMaxRetries.map (fun n => (n + 1).toNat) ∧
    Gen.defaultSwarm = (Gen.defaultMaxRegenerations.bind fun a => Gen.defaultMaxSteps.map fun b => ((a + 1).toNat, b.toNat)) ∧
    Gen.defaultTools = Gen.defaultMaxIterations.map (fun n => (n.toNat, 1)) := by
  decide +kernel

/-- "An output carrying a completion marker": on every probe string (the five words in several casings and
    embeddings, each with a letter missing or a gap, look-alike words) `supervise` of the code under test
    succeeded exactly when the model's `strMarker` holds. -/
theorem c18_marker_agrees_with_evaluated_source :
    ∀ e ∈ Gen.markerTable, e.2 = some (strMarker e.1) := by
  decide +kernel

/-- The entropy-collapse early exit: for every shape of five worker outputs over at most three distinct values
    and every threshold of the grid, the code under test gave the worker up after exactly as many steps as the
    model's `_run_worker` (window of the last three outputs, test only once three are there,
    `distinct / 3 < 1 − threshold`). -/
theorem c18_collapse_agrees_with_evaluated_source :
    ∀ e ∈ Gen.collapseTable, e.2 = some (stepsOn e.1.1 ((e.1.2.1 : Rat) / (e.1.2.2 : Rat))) := by
  decide +kernel

/-- `HealingResult.valid`, the default error text for an empty / missing trace, and the 200-character prefix of
    the previous output shown to a retry, as evaluated on the code under test, are the model's `isValid`,
    `traceOr` and `shownPrefix` (which shows `min 200 n` characters of an `n`-character output). -/
theorem c18_heal_glue_agrees_with_evaluated_source :
    (∀ e ∈ Gen.validTable, e.2 = some (HealResult.isValid (⟨e.1, none, [], (), false⟩ : HealResult Unit Unit))) ∧
    (∀ e ∈ Gen.traceTable, e.2 = some (decide (traceOr e.1 = defaultTrace))) ∧
    (∀ e ∈ Gen.prefixTable, e.2 = some (min 200 e.1)) ∧
    (∀ raw : List Char, (shownPrefix (String.ofList raw)).length = min 200 raw.length) :=
  ⟨by decide +kernel, by decide +kernel, by decide +kernel, shownPrefix_length⟩

/-- "Reports HEALED/VALID only with a schema-valid structure and otherwise tags the result for degradation":
    with a validator that accepts from its `k`-th answer on (`k` = 0 … 5, `max_retries` 3, fresh loop and a
    re-configured used one) the code under test reported VALID_FIRST_TRY / HEALED untagged after `k + 1` calls
    carrying the validator's own last answer, and DEGRADED, tagged, confidence 0, nothing carried, after 4 calls
    when `k > 3` — exactly the model's outcome. -/
theorem c18_outcome_agrees_with_evaluated_source :
    ∀ e ∈ Gen.healedTable, e.2.isSome = true ∧ e.2 = healedAt e.1 := by
  decide +kernel

/-- "Feeds each retry the previous attempt's error": on the code under test the error context shown to retry
    `i` (1 … 4, on a fresh loop and on the second call of a used one) carried the validator trace and the raw
    output of attempt `i − 1` and of no other attempt — and the model shows retry `i` exactly the context built
    from attempt `i − 1` (and attempt 0 none). -/
theorem c18_error_feed_agrees_with_evaluated_source :
    (∀ e ∈ Gen.feedTable, e.2 = some ([e.1 - 1], [e.1 - 1]) ∧
      ctxShownTo e.1 = some (some (mkCtx (some (nthText 't' (e.1 - 1))) (nthText 'r' (e.1 - 1))))) ∧
    Gen.feedTable.map (·.1) = [1, 2, 3, 4] ∧ ctxShownTo 0 = some none := by
  decide +kernel

/-- The prompts of the tool loop: on the code under test (stub and real `Mitochondria`, fresh and reused nucleus)
    every provider call after the first — the later rounds and the final completion — carried the results of
    the tool executions of the round just before it and of no other round, as in the model
    (`c18_tool_loop_prompts_threaded`). -/
theorem c18_tool_prompts_agree_with_evaluated_source :
    Gen.threadTable.map (·.2) = promptsSeen.map some ∧ promptsSeen = [[], [0], [1], [2]] := by
  decide +kernel

/-- The swarm's regeneration bookkeeping: on the code under test (fresh swarm and second call on a used one) worker
    `i` of a never-succeeding call was given exactly the summarizer's answer for worker `i − 1` (the first none),
    and the call added 4 apoptosis events, 3 regeneration events and 4 workers — as the model does
    (`c18_swarm_events_and_hints`). -/
theorem c18_swarm_hints_agree_with_evaluated_source :
    Gen.hintTable.map (·.2) = hintsSeen.1.map some ∧ Gen.swarmBookkeeping = some hintsSeen.2 ∧
    hintsSeen = ([[], [0], [1], [2]], (4, 3, 4)) := by
  decide +kernel

end Evaluated

end Operon.Loops
