import Operon.Lemmas.C08
import Operon.Gen.GateTable
import Operon.Gen.BreakerTranslated
/-!
# C08 — circuit breaker trips at the threshold, isolates while open, recovers half-open

Property theorems only.  Model: `Operon/Model/Cffl.lean` (`run`, `exec`), tied to
`operon_ai/topology/loops.py` by extractor E2 (`Operon/Gen/GateTable.lean`: the breaker classification of
`run` evaluated on the real code) and by the differential correspondence of `harness/vf/props/c08.py`.

All statements quantify over every configuration (gate logic, threshold — any integer —, timeout — any
integer number of microseconds —, cache on/off, TTL, per-call energy cost), every pair of hash functions,
every state or every history (`List Op`: requests with arbitrary agent responses incl. exceptions, clock
advances of any length, manual resets, cache clears), unless a hypothesis says otherwise.

Vocabulary: the *kind* of a request (`Out.kind`) says how it was handled — `circuitOpen` (rejected),
`cacheHit`, `agentExc` (an agent raised), `gated e` (both agents answered; `e` is what the breaker records),
`raised` (un-encodable prompt), `aborted` (an agent's BaseException passed through).  A *failure outcome* is `agentExc` or `gated failure` (`Kind.isFailure`);
`c08_failure_outcomes` / `c08_block_vote_never_failure` say which requests those are in terms of the agents'
verdicts.
-/
namespace Operon.Cffl
open Operon.Gen

/-- E2: the breaker classification of the real `run`, evaluated on every (success, blocked) flag pair × every
    pair of verdict classes, agrees with the model's `classifyRun` on every row, the table is complete
    (2·2·5·5 rows, one per combination) and `action_type` is only ever compared against the class-defining
    literals. -/
theorem c08_run_classification_table :
    GateTable.ok = true ∧ GateTable.shapeOk = true ∧
    (∀ l ∈ GateTable.literals, classify l ≠ .other) ∧
    (∀ r ∈ GateTable.runClass, classifyRun r.1 r.2.1 (classify r.2.2.1) (classify r.2.2.2.1) = r.2.2.2.2) ∧
    (∀ (s b : Bool) (z y : Cls), ∃ r ∈ GateTable.runClass,
        r.1 = s ∧ r.2.1 = b ∧ classify r.2.2.1 = z ∧ classify r.2.2.2.1 = y) := by
  have h : GateTable.ok = true ∧ GateTable.shapeOk = true ∧
      (∀ l ∈ GateTable.literals, classify l ≠ .other) ∧
      (∀ r ∈ GateTable.runClass, classifyRun r.1 r.2.1 (classify r.2.2.1) (classify r.2.2.2.1) = r.2.2.2.2) ∧
      (∀ s ∈ [true, false], ∀ b ∈ [true, false], ∀ z ∈ allCls, ∀ y ∈ allCls, ∃ r ∈ GateTable.runClass,
          r.1 = s ∧ r.2.1 = b ∧ classify r.2.2.1 = z ∧ classify r.2.2.2.1 = y) := by
    decide +kernel
  refine ⟨h.1, h.2.1, h.2.2.1, h.2.2.2.1, ?_⟩
  intro s b z y
  exact h.2.2.2.2 s (by cases s <;> decide) b (by cases b <;> decide) z (mem_allCls z) y (mem_allCls y)

/-! ### which requests are failures -/

/-- How an admitted request that is not answered from the cache is classified, in terms of what the agents
    did: an `Exception` of the executor — or of the assessor once the executor has answered — is a failure
    outcome, whether or not it can be rendered as text (`excU`: the handler counts it first and renders it safely);
    a `BaseException` passes through `run` uncounted (`aborted`); when both answer, the outcome is what
    `classifyRun` makes of the gate's result. -/
theorem c08_failure_outcomes (cfg : Cfg) (H : Hashes) (s : State) (p : Prompt) (zr yr : Resp)
    (hadm : (run cfg H s p zr yr).2.kind ≠ .circuitOpen) (hhit : (run cfg H s p zr yr).2.kind ≠ .cacheHit)
    (hraise : (run cfg H s p zr yr).2.kind ≠ .raised) :
    (run cfg H s p zr yr).2 = consultOut cfg H p zr yr ∧
    ((zr.caught = true ∨ ((∃ z, zr = .ret z) ∧ yr.caught = true)) → (run cfg H s p zr yr).2.kind = .agentExc) ∧
    ((zr = .excB ∨ ((∃ z, zr = .ret z) ∧ yr = .excB)) → (run cfg H s p zr yr).2.kind = .aborted) ∧
    (∀ z y, zr = .ret z → yr = .ret y →
      (run cfg H s p zr yr).2.kind =
        .gated (classifyRun (applyGate cfg.gate z y).success (applyGate cfg.gate z y).blocked z y)) := by
  have hb := run_br cfg H s p zr yr
  rw [run_eq] at hadm hhit hraise ⊢
  cases hr : rejects cfg s.now s.br
  · simp only [hr, Bool.false_eq_true, ↓reduceIte] at hadm hhit hraise ⊢
    rcases afterCircuit_out cfg H { s with br := enter cfg s.now s.br } p zr yr with h | h | h
    · refine ⟨h.1, ?_, ?_, ?_⟩
      · rw [h.1]
        rintro (hz | ⟨⟨z, rfl⟩, hy⟩)
        · cases zr <;> simp [Resp.caught] at hz <;> rfl
        · cases yr <;> simp [Resp.caught] at hy <;> rfl
      · rw [h.1]
        rintro (rfl | ⟨⟨z, rfl⟩, rfl⟩) <;> rfl
      · intro z y hz hy
        subst hz hy
        rw [h.1] at hraise ⊢
        unfold consultOut at hraise ⊢
        cases hp : p.enc <;> simp [hp] at hraise ⊢
        simp [gateResult]
    · obtain ⟨_, _, _, e, _, _, _, he⟩ := h
      rw [he] at hhit; exact absurd rfl hhit
    · rw [h.2.2] at hraise; exact absurd rfl hraise
  · simp [hr] at hadm

/-- The gate's result is a failure for the breaker exactly when it is unsuccessful and neither agent voted
    BLOCK — for every gate logic and every pair of verdict classes. -/
theorem c08_gate_failure_iff (g : Gate) (z y : Cls) :
    classifyRun (applyGate g z y).success (applyGate g z y).blocked z y = .failure ↔
      ((applyGate g z y).success = false ∧ z ≠ .block ∧ y ≠ .block) := by
  cases g <;> cases z <;> cases y <;> decide

/-- An executor FAILURE that is not accompanied by a BLOCK vote and leaves the request blocked is a failure
    outcome, under every gate logic. -/
theorem c08_executor_failure_is_failure (g : Gate) (y : Cls) (hy : y ≠ .block)
    (hb : (applyGate g .failure y).blocked = true) :
    classifyRun (applyGate g .failure y).success (applyGate g .failure y).blocked .failure y = .failure := by
  revert hy hb; cases g <;> cases y <;> decide

/-- What an executor FAILURE is to the breaker, for every gate logic and every assessor verdict — the two
    conditions of `c08_executor_failure_is_failure` made explicit: it is a failure outcome EXCEPT when the assessor
    votes BLOCK (then the request counts as an intentional block, under every gate logic) and EXCEPT under OR logic
    with an assessor PERMIT (then the request is not blocked at all — OR needs only one permission — and is
    recorded as a success). -/
theorem c08_executor_failure_outcome (g : Gate) (y : Cls) :
    classifyRun (applyGate g .failure y).success (applyGate g .failure y).blocked .failure y =
      if y = .block then .neither else if g = .or ∧ y = .permit then .success else .failure := by
  cases g <;> cases y <;> decide

/-- The excluded region of "executor failure" shown on a history (it is how the code and the model behave, and the
    reading is stated in the claim): under OR logic with threshold 1 an agent exception trips the breaker; after
    the recovery timeout a probe whose executor reports FAILURE while the assessor PERMITs comes back un-blocked
    (OR is satisfied by the assessor's permission alone), is recorded as a success and CLOSES the half-open
    breaker; and a stream of such requests never trips a closed breaker. -/
theorem c08_or_executor_failure_with_permit_is_success_witness :
    let cfg : Cfg := { gate := .or, threshold := 1, timeout := 60 }
    let tr := exec cfg idHashes init [.run ⟨1, true⟩ .exc (.ret .permit), .adv 60,
                                     .run ⟨2, true⟩ (.ret .failure) (.ret .permit),
                                     .run ⟨3, true⟩ (.ret .failure) (.ret .permit),
                                     .run ⟨4, true⟩ (.ret .failure) (.ret .permit)]
    (tr.2.map fun o => (o.out.kind, o.out.result.map (·.blocked))) =
      [(.agentExc, some true), (.admin, none), (.gated .success, some false), (.gated .success, some false),
       (.gated .success, some false)] ∧
    tr.1.br.cstate = .closed ∧ tr.1.br.failures = 0 ∧ tr.1.br.trips = 1 := by
  decide

/-- Intentional blocks are never counted as failures: whenever either agent votes BLOCK the request is not a
    failure outcome — for every gate logic, whatever the other agent answers. -/
theorem c08_block_vote_never_failure (g : Gate) (z y : Cls) (h : z = .block ∨ y = .block) :
    classifyRun (applyGate g z y).success (applyGate g z y).blocked z y ≠ .failure := by
  revert h; cases g <;> cases z <;> cases y <;> decide

/-- A request that is not blocked is recorded as a success. -/
theorem c08_unblocked_is_success (g : Gate) (z y : Cls) (h : (applyGate g z y).blocked = false) :
    classifyRun (applyGate g z y).success (applyGate g z y).blocked z y = .success := by
  revert h; cases g <;> cases z <;> cases y <;> decide

/-- A failure outcome increments the failure count and the total error count by exactly one and stamps the
    current time as the last failure; any other request leaves total errors, last failure and trips alone,
    never increases the failure count and never opens a breaker that was not open. -/
theorem c08_failure_recorded (cfg : Cfg) (H : Hashes) (s : State) (p : Prompt) (zr yr : Resp) :
    ((run cfg H s p zr yr).2.kind.isFailure = true →
      (run cfg H s p zr yr).1.br.failures = s.br.failures + 1 ∧
      (run cfg H s p zr yr).1.br.totalErrors = s.br.totalErrors + 1 ∧
      (run cfg H s p zr yr).1.br.lastFailure = some s.now) ∧
    ((run cfg H s p zr yr).2.kind.isFailure = false →
      (run cfg H s p zr yr).1.br.totalErrors = s.br.totalErrors ∧
      (run cfg H s p zr yr).1.br.failures ≤ s.br.failures ∧
      (run cfg H s p zr yr).1.br.lastFailure = s.br.lastFailure ∧
      (run cfg H s p zr yr).1.br.trips = s.br.trips ∧
      ((run cfg H s p zr yr).1.br.cstate = .opened → s.br.cstate = .opened)) := by
  have hb := run_br cfg H s p zr yr
  rw [hb.1]
  refine ⟨?_, brStep_nonfailure cfg s.now s.br _⟩
  intro hk
  have hne : (run cfg H s p zr yr).2.kind ≠ .circuitOpen := by
    intro h; rw [h] at hk; simp [Kind.isFailure] at hk
  have hap : ∀ b, applyKind cfg s.now b (run cfg H s p zr yr).2.kind = recordFailure cfg s.now b := by
    intro b
    generalize (run cfg H s p zr yr).2.kind = k at hk
    cases k with
    | agentExc => rfl
    | gated ev => cases ev <;> simp [Kind.isFailure] at hk; rfl
    | _ => simp [Kind.isFailure] at hk
  unfold brStep
  rw [if_neg hne, hap]
  rcases enter_cases cfg s.now s.br with ha | ⟨_, _, _, ha⟩ <;> rw [ha] <;> unfold recordFailure
  · cases hc : s.br.cstate <;> simp
    split <;> simp
  · simp

/-! ### never before the threshold -/

/-- The breaker never opens before the failure threshold has been reached in total: starting from a closed
    breaker with a cleared count (the initial state, the state after a manual reset, the state after a
    successful probe), if after ANY history the breaker is not closed then at least `threshold` failure outcomes
    occurred in that history — and the failure count itself has reached the threshold. -/
theorem c08_never_open_before_threshold (cfg : Cfg) (H : Hashes) (s : State) (ops : List Op)
    (hc : s.br.cstate = .closed) (h0 : s.br.failures = 0)
    (hopen : (exec cfg H s ops).1.br.cstate ≠ .closed) :
    cfg.threshold ≤ (failureCount (exec cfg H s ops).2 : Int) ∧
    cfg.threshold ≤ ((exec cfg H s ops).1.br.failures : Int) := by
  have h := exec_inv cfg H ops s (by intro hne; exact absurd hc hne)
  have h1 := h.1 hopen
  have h2 := h.2
  rw [h0] at h2
  constructor <;> omega

/-- Same, from the initial state. -/
theorem c08_never_open_before_threshold_init (cfg : Cfg) (H : Hashes) (ops : List Op)
    (hopen : (exec cfg H init ops).1.br.cstate ≠ .closed) :
    cfg.threshold ≤ (failureCount (exec cfg H init ops).2 : Int) :=
  (c08_never_open_before_threshold cfg H init ops rfl rfl hopen).1

/-- Invariant over every history from a state satisfying it (in particular the initial one): whenever the
    breaker is open or half-open, its failure count is at least the threshold. -/
theorem c08_open_implies_count_reached (cfg : Cfg) (H : Hashes) (ops : List Op)
    (hopen : (exec cfg H init ops).1.br.cstate ≠ .closed) :
    cfg.threshold ≤ ((exec cfg H init ops).1.br.failures : Int) :=
  (exec_inv cfg H ops init (by intro h; exact absurd rfl h)).1 hopen

/-! ### open at the latest after `threshold` consecutive failures -/

/-- From ANY state (whatever happened before), after a run of consecutive failure outcomes — interleaved
    with clock advances of any length — whose number is at least the threshold (and at least one), the
    breaker is open. -/
theorem c08_open_after_threshold_consecutive (cfg : Cfg) (H : Hashes) (s : State) (ops : List Op)
    (hall : ∀ o ∈ (exec cfg H s ops).2, o.out.kind.isFailure = true ∨ ∃ d, o.op = .adv d)
    (h1 : 1 ≤ failureCount (exec cfg H s ops).2)
    (hthr : cfg.threshold ≤ (failureCount (exec cfg H s ops).2 : Int)) :
    (exec cfg H s ops).1.br.cstate = .opened := by
  have h := exec_failures cfg H ops s 0 (Or.inl rfl) hall
  simp only [Nat.zero_add] at h
  rcases h with h | h
  · omega
  · rcases h with h | ⟨_, h2, h3⟩
    · exact h
    · omega

/-! ### while open: isolation -/

/-- While the breaker is open and the recovery timeout has not elapsed since the last failure, a request is
    answered CIRCUIT_OPEN (blocked, unsuccessful, no token) and NOTHING changes: no agent is invoked, no
    energy is spent, the cache and the breaker are untouched — for every prompt and whatever the agents
    would have answered. -/
theorem c08_open_isolates (cfg : Cfg) (H : Hashes) (s : State) (p : Prompt) (zr yr : Resp)
    (hon : cfg.breakerOn = true) (ho : s.br.cstate = .opened)
    (ht : ∀ t, s.br.lastFailure = some t → (s.now : Int) - (t : Int) < cfg.timeout) :
    run cfg H s p zr yr = (s, ⟨.circuitOpen, some circuitOpenResult⟩) := by
  rw [run_eq, rejects_of_open cfg s.now s.br hon ho ht]; rfl

/-- History form: from an open breaker whose last failure was at time `t`, every history of requests and
    clock advances that stays within `timeout` of `t` is answered CIRCUIT_OPEN throughout, and at the end
    only the clock has moved (agent-call counters, energy spent, cache and breaker are as before). -/
theorem c08_open_isolates_until_timeout (cfg : Cfg) (H : Hashes) (ops : List Op) : ∀ (s : State) (t : Nat),
    cfg.breakerOn = true → s.br.cstate = .opened → s.br.lastFailure = some t →
    (∀ op ∈ ops, (∃ p zr yr, op = .run p zr yr) ∨ ∃ d, op = .adv d) →
    ((s.now + totalAdv ops : Nat) : Int) - (t : Int) < cfg.timeout →
    (exec cfg H s ops).1 = { s with now := s.now + totalAdv ops } ∧
    ∀ o ∈ (exec cfg H s ops).2, (∃ d, o.op = .adv d) ∨ o.out = ⟨.circuitOpen, some circuitOpenResult⟩ := by
  induction ops with
  | nil => intro s t _ _ _ _ _; simp [exec, totalAdv]
  | cons op ops ih =>
    intro s t hon ho hl hops htime
    rw [exec_cons]
    simp only [List.mem_cons, forall_eq_or_imp] at hops
    rcases hops.1 with ⟨p, zr, yr, rfl⟩ | ⟨d, rfl⟩
    · have hrun : step cfg H s (.run p zr yr) = (s, ⟨.circuitOpen, some circuitOpenResult⟩) := by
        simp only [step]
        apply c08_open_isolates cfg H s p zr yr hon ho
        intro t' ht'
        rw [hl] at ht'; cases ht'
        simp only [totalAdv] at htime
        omega
      rw [hrun]
      have := ih s t hon ho hl hops.2 (by simpa [totalAdv] using htime)
      refine ⟨by simpa [totalAdv] using this.1, ?_⟩
      intro o ho'
      simp only [List.mem_cons] at ho'
      rcases ho' with rfl | ho'
      · right; rfl
      · exact this.2 o ho'
    · have := ih { s with now := s.now + d } t hon ho hl hops.2
        (by simp only [totalAdv] at htime; simp only; omega)
      simp only [step]
      refine ⟨?_, ?_⟩
      · rw [this.1]; simp [totalAdv]; omega
      · intro o ho'
        simp only [List.mem_cons] at ho'
        rcases ho' with rfl | ho'
        · left; exact ⟨d, rfl⟩
        · exact this.2 o ho'

/-- A request is answered CIRCUIT_OPEN only by an enabled breaker that is open with its timeout not yet
    elapsed. -/
theorem c08_circuit_open_only_when_open (cfg : Cfg) (H : Hashes) (s : State) (p : Prompt) (zr yr : Resp)
    (h : (run cfg H s p zr yr).2.kind = .circuitOpen) :
    cfg.breakerOn = true ∧ s.br.cstate = .opened ∧ elapsedOk cfg s.now s.br = false := by
  have := ((run_br cfg H s p zr yr).2.2.1).mp h
  unfold rejects at this
  simp at this
  exact ⟨this.1.1, this.1.2, this.2⟩

/-! ### after the timeout: half-open probe -/

/-- Once the recovery timeout has elapsed since the last failure the next request is admitted as a probe: it
    is not answered CIRCUIT_OPEN and is handled exactly as a request arriving at a half-open breaker; unless the
    cache answers it (or the prompt cannot be encoded) the executor is consulted. -/
theorem c08_probe_allowed_after_timeout (cfg : Cfg) (H : Hashes) (s : State) (p : Prompt) (zr yr : Resp) (t : Nat)
    (hon : cfg.breakerOn = true) (ho : s.br.cstate = .opened) (hl : s.br.lastFailure = some t)
    (ht : cfg.timeout ≤ (s.now : Int) - (t : Int)) :
    (run cfg H s p zr yr).2.kind ≠ .circuitOpen ∧
    run cfg H s p zr yr = run cfg H { s with br := { s.br with cstate := .halfOpen } } p zr yr ∧
    ((run cfg H s p zr yr).2.kind = .cacheHit ∨ (cfg.cacheOn = true ∧ p.enc = false) ∨
      (run cfg H s p zr yr).1.execCalls = s.execCalls + 1) := by
  have hnr := not_rejects_of_elapsed cfg s.now s.br t hl ht
  have hb := run_br cfg H s p zr yr
  refine ⟨?_, ?_, ?_⟩
  · intro h; rw [hb.2.2.1.mp h] at hnr; cases hnr
  · have he : elapsedOk cfg s.now s.br = true := by unfold elapsedOk; simp [hl, ht]
    have hadm : enter cfg s.now s.br = { s.br with cstate := .halfOpen } := by
      unfold enter; simp [hon, ho, he]
    rw [run_eq, run_eq, hnr, hadm]
    have h2 : rejects cfg s.now { s.br with cstate := CState.halfOpen } = false := by
      unfold rejects; simp
    have h3 : enter cfg s.now { s.br with cstate := CState.halfOpen } = { s.br with cstate := CState.halfOpen } := by
      unfold enter; simp
    simp [h2, h3]
  · rw [run_eq, hnr]
    simp only [Bool.false_eq_true, ↓reduceIte]
    rcases afterCircuit_out cfg H { s with br := enter cfg s.now s.br } p zr yr with h | h | h
    · right; right; simpa using h.2
    · obtain ⟨_, _, _, e, _, _, _, he⟩ := h
      left; rw [he]
    · right; left; exact ⟨h.1, h.2.1⟩

/-- A successful probe (a reply that is neither cached nor blocked, arriving while half-open — or, by
    `c08_probe_allowed_after_timeout`, while open past the timeout) closes the breaker and clears the
    failure count. -/
theorem c08_probe_success_closes_and_clears (cfg : Cfg) (H : Hashes) (s : State) (p : Prompt) (zr yr : Resp)
    (r : Result) (hh : s.br.cstate = .halfOpen)
    (hr : (run cfg H s p zr yr).2.result = some r) (hc : r.cached = false) (hb : r.blocked = false) :
    (run cfg H s p zr yr).1.br.cstate = .closed ∧ (run cfg H s p zr yr).1.br.failures = 0 ∧
    (run cfg H s p zr yr).2.kind = .gated .success := by
  have hrej : rejects cfg s.now s.br = false := by unfold rejects; simp [hh]
  have hadm : enter cfg s.now s.br = s.br := by unfold enter; simp [hh]
  have hbr := run_br cfg H s p zr yr
  have hk : (run cfg H s p zr yr).2.kind = .gated .success := by
    rw [run_eq, hrej] at hr ⊢
    simp only [Bool.false_eq_true, ↓reduceIte] at hr ⊢
    rcases afterCircuit_out cfg H { s with br := enter cfg s.now s.br } p zr yr with h | h | h
    · rw [h.1] at hr ⊢
      unfold consultOut at hr ⊢
      cases zr with
      | exc => simp [errorResult] at hr; subst hr; simp at hb
      | excU => simp [errorResult] at hr; subst hr; simp at hb
      | excB => simp at hr
      | ret z =>
        cases yr with
        | exc => simp [errorResult] at hr; subst hr; simp at hb
        | excU => simp [errorResult] at hr; subst hr; simp at hb
        | excB => simp at hr
        | ret y =>
          cases hp : p.enc <;> simp [hp] at hr ⊢
          subst hr
          simp only [gateResult] at hb ⊢
          exact c08_unblocked_is_success cfg.gate z y hb
    · obtain ⟨_, _, _, e, _, _, _, he⟩ := h
      rw [he] at hr; simp at hr; subst hr; simp at hc
    · rw [h.2.2] at hr; simp at hr
  rw [hbr.1, hk]
  unfold brStep
  simp [hadm, applyKind, applyEvent, recordSuccess, hh]

/-- A failed probe (a failure outcome while half-open — or open past the timeout) re-opens the breaker,
    counts a trip and restarts the timeout: the last failure is now, so by `c08_open_isolates` every request
    during the next `timeout` microseconds is turned away. -/
theorem c08_probe_failure_reopens_and_restarts (cfg : Cfg) (H : Hashes) (s : State) (p : Prompt) (zr yr : Resp)
    (hh : s.br.cstate = .halfOpen) (hk : (run cfg H s p zr yr).2.kind.isFailure = true) :
    (run cfg H s p zr yr).1.br.cstate = .opened ∧
    (run cfg H s p zr yr).1.br.lastFailure = some s.now ∧
    (run cfg H s p zr yr).1.br.trips = s.br.trips + 1 ∧
    (cfg.breakerOn = true → ∀ (d : Nat) (p' : Prompt) (zr' yr' : Resp), (d : Int) < cfg.timeout →
      (run cfg H { (run cfg H s p zr yr).1 with now := (run cfg H s p zr yr).1.now + d } p' zr' yr').2
        = ⟨.circuitOpen, some circuitOpenResult⟩) := by
  have hadm : enter cfg s.now s.br = s.br := by unfold enter; simp [hh]
  have hbr := run_br cfg H s p zr yr
  have hne : (run cfg H s p zr yr).2.kind ≠ .circuitOpen := by
    intro h; rw [h] at hk; simp [Kind.isFailure] at hk
  have hap : applyKind cfg s.now s.br (run cfg H s p zr yr).2.kind = recordFailure cfg s.now s.br := by
    generalize (run cfg H s p zr yr).2.kind = k at hk
    cases k with
    | agentExc => rfl
    | gated ev => cases ev <;> simp [Kind.isFailure] at hk; rfl
    | _ => simp [Kind.isFailure] at hk
  have hbr' : (run cfg H s p zr yr).1.br = recordFailure cfg s.now s.br := by
    rw [hbr.1]; unfold brStep; rw [if_neg hne, hadm, hap]
  have h1 : (run cfg H s p zr yr).1.br.cstate = .opened := by rw [hbr']; simp [recordFailure, hh]
  have h2 : (run cfg H s p zr yr).1.br.lastFailure = some s.now := by rw [hbr']; simp [recordFailure, hh]
  refine ⟨h1, h2, by rw [hbr']; simp [recordFailure, hh], ?_⟩
  intro hon d p' zr' yr' hd
  rw [c08_open_isolates cfg H _ p' zr' yr' hon (by simpa using h1)]
  intro t ht'
  simp only at ht'
  rw [h2] at ht'; cases ht'
  rw [hbr.2.1]
  simp only; omega

/-- The two probe theorems for a breaker that is still OPEN when the probe arrives at or after the timeout (the
    usual situation — the half-open state is entered by this very request): a non-cached un-blocked reply closes
    and clears, a failure outcome leaves it open with the timeout restarted and one more trip counted. -/
theorem c08_probe_after_timeout (cfg : Cfg) (H : Hashes) (s : State) (p : Prompt) (zr yr : Resp) (t : Nat)
    (hon : cfg.breakerOn = true) (ho : s.br.cstate = .opened) (hl : s.br.lastFailure = some t)
    (ht : cfg.timeout ≤ (s.now : Int) - (t : Int)) :
    (∀ r, (run cfg H s p zr yr).2.result = some r → r.cached = false → r.blocked = false →
      (run cfg H s p zr yr).1.br.cstate = .closed ∧ (run cfg H s p zr yr).1.br.failures = 0) ∧
    ((run cfg H s p zr yr).2.kind.isFailure = true →
      (run cfg H s p zr yr).1.br.cstate = .opened ∧ (run cfg H s p zr yr).1.br.lastFailure = some s.now ∧
      (run cfg H s p zr yr).1.br.trips = s.br.trips + 1) := by
  have heq := (c08_probe_allowed_after_timeout cfg H s p zr yr t hon ho hl ht).2.1
  rw [heq]
  constructor
  · intro r hr hc hb
    have := c08_probe_success_closes_and_clears cfg H { s with br := { s.br with cstate := .halfOpen } } p zr yr r rfl hr hc hb
    exact ⟨this.1, this.2.1⟩
  · intro hk
    have := c08_probe_failure_reopens_and_restarts cfg H { s with br := { s.br with cstate := .halfOpen } } p zr yr rfl hk
    exact ⟨this.1, this.2.1, this.2.2.1⟩

/-! ### intentional blocks, cache hits, disabled breaker, reset -/

/-- Intentional blocks are never counted as failures: a request on which either agent votes BLOCK (and no
    agent raises) leaves the failure count, the total error count, the last-failure stamp and the trip count
    exactly as they were and cannot open the breaker — in every state, under every gate logic. -/
theorem c08_intentional_block_not_failure (cfg : Cfg) (H : Hashes) (s : State) (p : Prompt) (z y : Cls)
    (h : z = .block ∨ y = .block) :
    (run cfg H s p (.ret z) (.ret y)).2.kind.isFailure = false ∧
    (run cfg H s p (.ret z) (.ret y)).1.br.failures ≤ s.br.failures ∧
    (run cfg H s p (.ret z) (.ret y)).1.br.totalErrors = s.br.totalErrors ∧
    (run cfg H s p (.ret z) (.ret y)).1.br.lastFailure = s.br.lastFailure ∧
    (run cfg H s p (.ret z) (.ret y)).1.br.trips = s.br.trips ∧
    ((run cfg H s p (.ret z) (.ret y)).1.br.cstate = .opened → s.br.cstate = .opened) := by
  have hk : (run cfg H s p (.ret z) (.ret y)).2.kind.isFailure = false := by
    rw [run_eq]
    cases hr : rejects cfg s.now s.br
    · simp only [Bool.false_eq_true, ↓reduceIte]
      rcases afterCircuit_out cfg H { s with br := enter cfg s.now s.br } p (.ret z) (.ret y) with h' | h' | h'
      · rw [h'.1]
        unfold consultOut
        cases hp : p.enc <;> simp [Kind.isFailure]
        have := c08_block_vote_never_failure cfg.gate z y h
        simp only [gateResult]
        generalize classifyRun (applyGate cfg.gate z y).success (applyGate cfg.gate z y).blocked z y = ev at this
        cases ev <;> simp_all
      · obtain ⟨_, _, _, e, _, _, _, he⟩ := h'
        rw [he]; rfl
      · rw [h'.2.2]; rfl
    · simp [Kind.isFailure]
  have := (c08_failure_recorded cfg H s p (.ret z) (.ret y)).2 hk
  exact ⟨hk, this.2.1, this.1, this.2.2.1, this.2.2.2.1, this.2.2.2.2⟩

/-- A history without failure outcomes (successes, intentional blocks, cache hits, clock advances, resets, …)
    never opens a closed breaker. -/
theorem c08_no_failures_never_opens (cfg : Cfg) (H : Hashes) (ops : List Op) : ∀ (s : State),
    s.br.cstate ≠ .opened → (∀ o ∈ (exec cfg H s ops).2, o.out.kind.isFailure = false) →
    (exec cfg H s ops).1.br.cstate ≠ .opened := by
  induction ops with
  | nil => intro s h _; simpa [exec] using h
  | cons op ops ih =>
    intro s h hall
    rw [exec_cons] at hall ⊢
    simp only [List.mem_cons, forall_eq_or_imp] at hall
    apply ih _ _ hall.2
    cases op with
    | run p zr yr =>
      simp only [step] at hall ⊢
      intro ho
      exact h (((c08_failure_recorded cfg H s p zr yr).2 hall.1).2.2.2.2 ho)
    | adv d => simpa [step] using h
    | resetcb => simp [step, resetBreaker]
    | clearcache => simpa [step] using h

/-- A cache hit is neither a success nor a failure: it leaves the breaker as admission left it (an open
    breaker past its timeout becomes half-open and stays so), consults no agent and spends nothing. -/
theorem c08_cache_hit_neutral (cfg : Cfg) (H : Hashes) (s : State) (p : Prompt) (zr yr : Resp)
    (hk : (run cfg H s p zr yr).2.kind = .cacheHit) :
    (run cfg H s p zr yr).1 = { s with br := enter cfg s.now s.br } := by
  rw [run_eq] at hk ⊢
  cases hr : rejects cfg s.now s.br
  · simp only [hr, Bool.false_eq_true, ↓reduceIte] at hk ⊢
    rcases afterCircuit_out cfg H { s with br := enter cfg s.now s.br } p zr yr with h | h | h
    · rw [h.1] at hk
      unfold consultOut at hk
      cases zr <;> cases yr <;> simp at hk
      split at hk <;> simp at hk
    · exact h.2.2.1
    · rw [h.2.2] at hk; simp at hk
  · simp [hr] at hk

/-- With the breaker disabled no request is ever turned away, in any state: the executor is consulted unless
    the cache answers (or the prompt cannot be encoded for the cache key). -/
theorem c08_disabled_agents_consulted (cfg : Cfg) (H : Hashes) (s : State) (p : Prompt) (zr yr : Resp)
    (hoff : cfg.breakerOn = false) :
    (run cfg H s p zr yr).2.kind ≠ .circuitOpen ∧
    ((run cfg H s p zr yr).2.kind = .cacheHit ∨ (cfg.cacheOn = true ∧ p.enc = false) ∨
      (run cfg H s p zr yr).1.execCalls = s.execCalls + 1) := by
  have hnr : rejects cfg s.now s.br = false := by unfold rejects; simp [hoff]
  have hb := run_br cfg H s p zr yr
  refine ⟨?_, ?_⟩
  · intro h; rw [hb.2.2.1.mp h] at hnr; cases hnr
  · rw [run_eq, hnr]
    simp only [Bool.false_eq_true, ↓reduceIte]
    rcases afterCircuit_out cfg H { s with br := enter cfg s.now s.br } p zr yr with h | h | h
    · right; right; simpa using h.2
    · obtain ⟨_, _, _, e, _, _, _, he⟩ := h
      left; rw [he]
    · right; left; exact ⟨h.1, h.2.1⟩

/-- "Agents are always consulted", both of them: with the breaker disabled, a request that is not answered by the
    cache (and whose prompt can be encoded for the cache key) consults the executor, and — unless the executor
    raised — the assessor as well; an executor exception ends the request before the assessor is asked. -/
theorem c08_disabled_both_agents_consulted (cfg : Cfg) (H : Hashes) (s : State) (p : Prompt) (zr yr : Resp)
    (hoff : cfg.breakerOn = false) (hk : (run cfg H s p zr yr).2.kind ≠ .cacheHit)
    (henc : cfg.cacheOn = true → p.enc = true) :
    (run cfg H s p zr yr).1.execCalls = s.execCalls + 1 ∧
    ((∀ z, zr ≠ .ret z) → (run cfg H s p zr yr).1.assessCalls = s.assessCalls) ∧
    (∀ z, zr = .ret z → (run cfg H s p zr yr).1.assessCalls = s.assessCalls + 1) := by
  have hcons : ∀ s1 : State, (consult cfg H s1 p zr yr).1.execCalls = s1.execCalls + 1 ∧
      ((∀ z, zr ≠ .ret z) → (consult cfg H s1 p zr yr).1.assessCalls = s1.assessCalls) ∧
      (∀ z, zr = .ret z → (consult cfg H s1 p zr yr).1.assessCalls = s1.assessCalls + 1) := by
    intro s1
    unfold consult
    cases zr with
    | exc => simp [callExecutor]
    | excU => simp [callExecutor]
    | excB => simp [callExecutor]
    | ret z =>
      cases yr with
      | exc => simp [callExecutor, callAssessor]
      | excU => simp [callExecutor, callAssessor]
      | excB => simp [callExecutor, callAssessor]
      | ret y => cases hp : p.enc <;> cases hc : cfg.cacheOn <;> simp [callExecutor, callAssessor]
  have hrun : run cfg H s p zr yr = afterCircuit cfg H s p zr yr := by unfold run; simp [hoff]
  rw [hrun] at hk ⊢
  revert hk
  unfold afterCircuit
  cases hc : cfg.cacheOn
  · intro _; exact hcons s
  · have hp := henc hc
    simp only [hp, ↓reduceIte]
    have hcf := checkCache_fst cfg H s p
    generalize checkCache cfg H s p = ck at hcf
    obtain ⟨s1, o⟩ := ck
    cases o with
    | some r => intro hk; simp at hk
    | none =>
      intro _
      simp only at hcf ⊢
      have := hcons s1
      rw [hcf.2.2.1, hcf.2.2.2.1] at this
      exact this

/-- Manual reset closes the breaker and clears the failure count (nothing else changes); by
    `c08_never_open_before_threshold` it then takes `threshold` new failures to open it again. -/
theorem c08_reset (cfg : Cfg) (H : Hashes) (s : State) :
    (step cfg H s .resetcb).1.br.cstate = .closed ∧ (step cfg H s .resetcb).1.br.failures = 0 ∧
    (step cfg H s .resetcb).1 = { s with br := { s.br with cstate := .closed, failures := 0 } } := by
  simp [step, resetBreaker]

/-! ### the model is the translated source

`Operon/Gen/BreakerTranslated.lean` is regenerated on every run from the AST of `loops.py` as it is now
(harness/vf/extract/py2lean_breaker.py).  The theorems below prove that every translated method / block equals the
hand-written model function for ALL configurations, clock values and breaker states, so what this file proves about
`checkCircuit` / `recordSuccess` / `recordFailure` / `resetBreaker` / the entry and update blocks is proved about the
translated source.  (The ORDER circuit → cache → executor → assessor → gate → update → cache store and the extent of
the `try` stay hand-written in `consult` / `afterCircuit`; they are tied by the differential correspondence and by
`c08_translation_agrees_run_structure`, which is `decide` over four facts the extractor asserts about `run()` — an
assertion of the extractor, not a translation.)  An edit that changes the behaviour of one of these methods breaks the
agreement theorem of that name, an edit that leaves the translator's subset makes the definition `untranslatable`
(same effect), a rewrite inside the subset that keeps the behaviour leaves them provable. -/

theorem c08_translation_agrees_check_circuit (cfg : Cfg) (now : Nat) (b : Breaker) :
    Tr.check_circuit cfg now b = checkCircuit cfg now b := by
  obtain ⟨cs, f, su, lf, ls, tr, te⟩ := b
  cases cs <;> cases lf <;> simp [Tr.check_circuit, checkCircuit, elapsedOk] <;> (repeat' split) <;> simp_all <;> omega

theorem c08_translation_agrees_record_success (cfg : Cfg) (now : Nat) (b : Breaker) :
    Tr.record_success cfg now b = recordSuccess now b := by
  obtain ⟨cs, f, su, lf, ls, tr, te⟩ := b
  cases cs <;> simp [Tr.record_success, recordSuccess]

theorem c08_translation_agrees_record_failure (cfg : Cfg) (now : Nat) (b : Breaker) :
    Tr.record_failure cfg now b = recordFailure cfg now b := by
  obtain ⟨cs, f, su, lf, ls, tr, te⟩ := b
  cases cs <;> simp [Tr.record_failure, recordFailure] <;> (repeat' split) <;> simp_all <;> omega

theorem c08_translation_agrees_reset_circuit_breaker (cfg : Cfg) (now : Nat) (b : Breaker) :
    Tr.reset_circuit_breaker cfg now b = resetBreaker b := by
  simp [Tr.reset_circuit_breaker, resetBreaker]

/-- `get_circuit_breaker_stats` reports the six breaker fields unchanged (these are the observations the
    correspondence compares). -/
theorem c08_translation_agrees_stats (b : Breaker) :
    Tr.stats b = (b.cstate, b.failures, b.successes, b.lastFailure, b.lastSuccess, b.trips) := by
  simp [Tr.stats]

/-- the entry block of `run()`: the model's `rejects` / `enter` -/
theorem c08_translation_agrees_run_entry (cfg : Cfg) (now : Nat) (b : Breaker) :
    Tr.run_entry cfg now b = (if rejects cfg now b then b else enter cfg now b, !rejects cfg now b) := by
  unfold Tr.run_entry
  rw [c08_translation_agrees_check_circuit, checkCircuit_eq]
  unfold rejects enter
  cases cfg.breakerOn <;> cases hc : b.cstate <;> cases he : elapsedOk cfg now b <;> simp

/-- the breaker-update block of `run()`: the model's `classifyRun` followed by `applyEvent` -/
theorem c08_translation_agrees_run_update (cfg : Cfg) (now : Nat) (b : Breaker) (success blocked : Bool) (z y : Cls) :
    Tr.run_update cfg now b success blocked z y = applyEvent cfg now b (classifyRun success blocked z y) := by
  unfold Tr.run_update
  simp only [c08_translation_agrees_record_success, c08_translation_agrees_record_failure]
  cases success <;> cases blocked <;> cases z <;> cases y <;> simp [classifyRun, applyEvent]

/-- structure of `run()` around the translated blocks: the entry block comes before the cache lookup and the
    agents, the `except` handler of the agent calls records a failure first, nothing else in `run()` calls a
    breaker-writing method or writes a breaker field, and no method outside the call graph of `run` /
    `reset_circuit_breaker` / `get_circuit_breaker_stats` writes a breaker field. -/
theorem c08_translation_agrees_run_structure :
    Tr.run_entry_first = true ∧ Tr.run_exception_records_failure = true ∧ Tr.run_other_breaker_sites = 0 ∧
    Tr.other_breaker_writers = 0 := by
  decide

/-- The `on_block` / `on_permit` callbacks are reached only from statements of `run()` that come after the
    breaker-update block — never from the entry block, the `try` around the agent calls, its handler or a breaker
    method.  This is what the model's `deliver` (callbacks in the tail of `run`, no access to `State`) assumes: a
    callback that raises cannot keep a failure from being counted (asserted by the extractor on the source,
    through the call graph; the seeded change that reports an agent crash to `on_block` before recording it
    breaks this fact and `Tr.run_exception_records_failure`). -/
theorem c08_callbacks_run_after_the_breaker_update : Tr.run_callbacks_after_update = true := by
  decide

/-- "Agent exception" as a failure outcome, whatever the exception: when an agent that is consulted raises an
    `Exception` whose `__str__` raises, the request is answered with the blocked ERROR reply and is a failure outcome
    like any other: the failure count and the total error count grow by one, the time is stamped as the last failure,
    and the breaker moves exactly as `recordFailure` says.  (Tie to the source: `Tr.run_exception_records_failure`,
    the handler STARTS with the failure-recording call — `c08_translation_agrees_run_structure`; the rendering of the
    exception cannot fail — `c07_current_source_renders_safely`.) -/
theorem c08_exception_counted_even_if_unprintable (cfg : Cfg) (H : Hashes) (s : State) (p : Prompt) (zr yr : Resp)
    (hadm : (run cfg H s p zr yr).2.kind ≠ .circuitOpen) (hhit : (run cfg H s p zr yr).2.kind ≠ .cacheHit)
    (hraise : (run cfg H s p zr yr).2.kind ≠ .raised)
    (hexc : zr = .excU ∨ ((∃ z, zr = .ret z) ∧ yr = .excU)) :
    (run cfg H s p zr yr).2 = ⟨.agentExc, some errorResult⟩ ∧ (run cfg H s p zr yr).2.kind.isFailure = true ∧
    (run cfg H s p zr yr).1.br = recordFailure cfg s.now (enter cfg s.now s.br) ∧
    (run cfg H s p zr yr).1.br.failures = s.br.failures + 1 := by
  have h := c08_failure_outcomes cfg H s p zr yr hadm hhit hraise
  have hout : (run cfg H s p zr yr).2 = ⟨.agentExc, some errorResult⟩ := by
    rw [h.1]
    rcases hexc with rfl | ⟨⟨z, rfl⟩, rfl⟩ <;> rfl
  have hb := run_br cfg H s p zr yr
  have hf := (c08_failure_recorded cfg H s p zr yr).1
  rw [hout] at hb hf
  refine ⟨hout, by rw [hout]; rfl, ?_, (hf rfl).1⟩
  rw [hb.1]
  simp [brStep, applyKind]

/-! ### payloads that cannot be rendered (`runP`) — finding C08-unrenderable-payload-failure-uncounted, repaired -/

/-- "Executor failure" as a failure outcome, at full strength, WHATEVER the payloads of the two verdicts (for every
    behaviour of `payloadOk` of either response): an executor FAILURE that nobody vetoes (the assessor does not vote
    BLOCK; not the OR-logic case in which the assessor's PERMIT lets the request pass) on a request that is admitted,
    not answered from the cache and whose prompt can be encoded is a failure outcome — the failure count and the total
    error count grow by exactly one, the time is stamped as the last failure, the breaker moves as `recordFailure`
    says (so `c08_open_after_threshold_consecutive` applies to streams of such requests), and the caller gets the
    gate's blocked result.  (`runP true` is the code as it is: every rendering goes through `_describe` — tie:
    `c08_gate_returns_whatever_the_payloads`, evaluated on the real gate with payloads whose `__str__` raises.) -/
theorem c08_executor_failure_counted_whatever_the_payload (cfg : Cfg) (H : Hashes) (s : State) (p : Prompt)
    (y : Cls) (zOk yOk : Bool) (hy : y ≠ .block) (hor : ¬(cfg.gate = .or ∧ y = .permit))
    (hadm : (run cfg H s p (.ret .failure) (.ret y)).2.kind ≠ .circuitOpen)
    (hhit : (run cfg H s p (.ret .failure) (.ret y)).2.kind ≠ .cacheHit) (hp : p.enc = true) :
    (runP true cfg H s p ⟨.ret .failure, zOk⟩ ⟨.ret y, yOk⟩).2 =
      ⟨.gated .failure, some (gateResult H cfg.gate p .failure y)⟩ ∧
    (gateResult H cfg.gate p .failure y).blocked = true ∧
    (runP true cfg H s p ⟨.ret .failure, zOk⟩ ⟨.ret y, yOk⟩).1.br = recordFailure cfg s.now (enter cfg s.now s.br) ∧
    (runP true cfg H s p ⟨.ret .failure, zOk⟩ ⟨.ret y, yOk⟩).1.br.failures = s.br.failures + 1 ∧
    (runP true cfg H s p ⟨.ret .failure, zOk⟩ ⟨.ret y, yOk⟩).1.br.totalErrors = s.br.totalErrors + 1 ∧
    (runP true cfg H s p ⟨.ret .failure, zOk⟩ ⟨.ret y, yOk⟩).1.br.lastFailure = some s.now := by
  show (run cfg H s p (.ret .failure) (.ret y)).2 = _ ∧ _ ∧ (run cfg H s p (.ret .failure) (.ret y)).1.br = _ ∧
    (run cfg H s p (.ret .failure) (.ret y)).1.br.failures = _ ∧
    (run cfg H s p (.ret .failure) (.ret y)).1.br.totalErrors = _ ∧
    (run cfg H s p (.ret .failure) (.ret y)).1.br.lastFailure = _
  have hev : classifyRun (applyGate cfg.gate .failure y).success (applyGate cfg.gate .failure y).blocked .failure y
      = .failure := by
    rw [c08_executor_failure_outcome, if_neg hy, if_neg hor]
  have hbl : (applyGate cfg.gate .failure y).blocked = true := by
    cases hb : (applyGate cfg.gate .failure y).blocked
    · have := c08_unblocked_is_success cfg.gate .failure y hb
      rw [hev] at this; cases this
    · rfl
  have hout : (run cfg H s p (.ret .failure) (.ret y)).2 =
      ⟨.gated .failure, some (gateResult H cfg.gate p .failure y)⟩ := by
    rw [run_eq] at hadm hhit ⊢
    cases hr : rejects cfg s.now s.br
    · simp only [hr, Bool.false_eq_true, ↓reduceIte] at hadm hhit ⊢
      rcases afterCircuit_out cfg H { s with br := enter cfg s.now s.br } p (.ret .failure) (.ret y) with h | h | h
      · rw [h.1]
        simp only [consultOut, hp, ↓reduceIte, gateResult, hev]
      · obtain ⟨_, _, _, e, _, _, _, he⟩ := h
        rw [he] at hhit; exact absurd rfl hhit
      · rw [hp] at h; cases h.2.1
    · simp [hr] at hadm
  have hb := run_br cfg H s p (.ret .failure) (.ret y)
  have hf := (c08_failure_recorded cfg H s p (.ret .failure) (.ret y)).1
  rw [hout] at hb hf
  have hf' := hf rfl
  refine ⟨hout, by simpa [gateResult] using hbl, ?_, hf'.1, hf'.2.1, hf'.2.2⟩
  rw [hb.1]
  simp [brStep, applyKind, applyEvent]

/-- E2, evaluated on the real code on every run — the tie of `runP true` for the breaker: on every gate logic ×
    verdict × verdict row the real `_apply_gate_logic`, called with payloads whose `__str__` raises (the executor's,
    the assessor's, both), does not raise and returns the decision the model's `applyGate` makes, so `run` always
    reaches its breaker-update block with that decision (complete over gate × class × class; `none` = the gate raised
    or decided differently — what the defect repaired in /repo produces). -/
theorem c08_gate_returns_whatever_the_payloads :
    (∀ r ∈ GateTable.unrenderable, r.2.2.2 = some (applyGate r.1 (classify r.2.1) (classify r.2.2.1))) ∧
    (∀ (g : Gate) (z y : Cls), ∃ r ∈ GateTable.unrenderable, r.1 = g ∧ classify r.2.1 = z ∧ classify r.2.2.1 = y) := by
  have h : (∀ r ∈ GateTable.unrenderable, r.2.2.2 = some (applyGate r.1 (classify r.2.1) (classify r.2.2.1))) ∧
      (∀ g ∈ allGates, ∀ z ∈ allCls, ∀ y ∈ allCls,
        ∃ r ∈ GateTable.unrenderable, r.1 = g ∧ classify r.2.1 = z ∧ classify r.2.2.1 = y) := by
    decide +kernel
  refine ⟨h.1, ?_⟩
  intro g z y
  exact h.2 g (mem_allGates g) z (mem_allCls z) y (mem_allCls y)

/-- the look-up phase never records a failure or a success: at most it moves an open breaker to half-open -/
theorem c08_lookup_records_nothing (cfg : Cfg) (H : Hashes) (s : State) (p : Prompt) :
    (lookup cfg H s p).1.br.failures = s.br.failures ∧ (lookup cfg H s p).1.br.successes = s.br.successes ∧
    (lookup cfg H s p).1.br.totalErrors = s.br.totalErrors ∧ (lookup cfg H s p).1.br.lastFailure = s.br.lastFailure ∧
    (lookup cfg H s p).1.br.trips = s.br.trips := by
  have hlc : ∀ s' : State, (lookupCache cfg H s' p).1.br = s'.br := by
    intro s'
    unfold lookupCache
    cases cfg.cacheOn <;> cases p.enc <;> simp
    have := (checkCache_fst cfg H s' p).1
    generalize checkCache cfg H s' p = ck at this
    obtain ⟨s1, o⟩ := ck
    cases o <;> simpa using this
  unfold lookup
  cases hb : cfg.breakerOn
  · simp [hlc]
  · simp only [↓reduceIte]
    rw [checkCircuit_eq]
    by_cases h1 : s.br.cstate = CState.opened ∧ elapsedOk cfg s.now s.br = false
    · simp [h1]
    · rw [if_neg h1]
      simp only [hlc]
      split <;> simp

/-- Witness for the shape BEFORE the fix (finding C08-unrenderable-payload-failure-uncounted, repaired in /repo):
    threshold 1, the executor reports FAILURE with a payload whose `__str__` raises (`ActionProtein.payload` is `Any`).
    With the block reason formatted by a bare f-string (`runP false`) `_apply_gate_logic` raised — outside the `try` of
    `run` — so nothing was recorded: the breaker stayed closed with failure count 0 and the agents were consulted again
    on every further request.  The code as it is (`runP true`) counts the failure and opens the breaker, exactly as
    for a renderable payload. -/
theorem c08_unrenderable_failure_uncounted_before_fix_witness :
    let cfg : Cfg := { threshold := 1 }
    let bad := runP false cfg idHashes init ⟨1, true⟩ ⟨.ret .failure, false⟩ ⟨.ret .other, true⟩
    let fixed := runP true cfg idHashes init ⟨1, true⟩ ⟨.ret .failure, false⟩ ⟨.ret .other, true⟩
    let good := runP true cfg idHashes init ⟨1, true⟩ ⟨.ret .failure, true⟩ ⟨.ret .other, true⟩
    bad.2 = ⟨.raised, none⟩ ∧ bad.1.br = {} ∧ bad.1.execCalls = 1 ∧ bad.1.assessCalls = 1 ∧
    (runP false cfg idHashes bad.1 ⟨2, true⟩ ⟨.ret .failure, false⟩ ⟨.ret .permit, true⟩).1.execCalls = 2 ∧
    fixed.2.kind = .gated .failure ∧ fixed.1.br.cstate = .opened ∧ fixed = good ∧
    (runP true cfg idHashes fixed.1 ⟨2, true⟩ ⟨.ret .failure, false⟩ ⟨.ret .permit, true⟩).2.kind = .circuitOpen := by
  decide

/-! ### Non-vacuity: concrete histories meeting the hypotheses -/

private def cfg2 : Cfg := { threshold := 2, timeout := 60 }
private def pr (n : Nat) : Prompt := ⟨n, true⟩
private def efail (n : Nat) : Op := .run (pr n) (.ret .failure) (.ret .permit)
private def ok (n : Nat) : Op := .run (pr n) (.ret .execute) (.ret .permit)
private def veto (n : Nat) : Op := .run (pr n) (.ret .execute) (.ret .block)

/-- two executor failures at threshold 2 open the breaker (hypotheses of `c08_open_after_threshold_consecutive`
    and of `c08_never_open_before_threshold` hold on this history) -/
example : (exec cfg2 idHashes init [efail 1, .adv 5, efail 2]).1.br.cstate = .opened ∧
    failureCount (exec cfg2 idHashes init [efail 1, .adv 5, efail 2]).2 = 2 ∧
    (∀ o ∈ (exec cfg2 idHashes init [efail 1, .adv 5, efail 2]).2, o.out.kind.isFailure = true ∨ ∃ d, o.op = .adv d) := by
  refine ⟨by decide, by decide, ?_⟩
  intro o ho
  simp only [exec, step, List.mem_cons, List.not_mem_nil, or_false] at ho
  rcases ho with rfl | rfl | rfl
  · left; decide
  · right; exact ⟨5, rfl⟩
  · left; decide

/-- while open and inside the timeout a request is turned away (hypotheses of `c08_open_isolates`), after the
    timeout a successful probe closes and clears, a failed probe re-opens -/
example :
    let s := (exec cfg2 idHashes init [efail 1, efail 2, .adv 59]).1
    s.br.cstate = .opened ∧ s.br.lastFailure = some 0 ∧
    (run cfg2 idHashes s (pr 3) (.ret .execute) (.ret .permit)).2.kind = .circuitOpen ∧
    (exec cfg2 idHashes s [.adv 1, ok 3]).1.br.cstate = .closed ∧
    (exec cfg2 idHashes s [.adv 1, ok 3]).1.br.failures = 0 ∧
    (exec cfg2 idHashes s [.adv 1, efail 3]).1.br.cstate = .opened ∧
    (exec cfg2 idHashes s [.adv 1, efail 3]).1.br.lastFailure = some 60 := by decide

/-- intentional blocks (assessor veto) any number of times leave a threshold-1 breaker closed, while one
    executor failure opens it -/
example : (exec { threshold := 1 } idHashes init [veto 1, veto 2, veto 3]).1.br.cstate = .closed ∧
    (exec { threshold := 1 } idHashes init [veto 1, efail 2]).1.br.cstate = .opened := by decide

/-- a half-open state reached through a history (hypothesis `s.br.cstate = .halfOpen` of the probe theorems):
    a cache hit admitted as probe leaves the breaker half-open -/
example : (exec cfg2 idHashes init [ok 7, efail 1, efail 2, .adv 60, ok 7]).1.br.cstate = .halfOpen := by decide

/-- two agent exceptions that cannot be rendered open the breaker at threshold 2; both requests got the blocked ERROR
    reply (hypotheses of `c08_exception_counted_even_if_unprintable`; `c08_open_after_threshold_consecutive` applies) -/
example :
    let tr := exec cfg2 idHashes init [.run (pr 1) .excU (.ret .permit), .run (pr 2) (.ret .execute) .excU, ok 3]
    tr.1.br.cstate = .opened ∧ tr.1.br.failures = 2 ∧
    tr.2.map (fun o => (o.out.kind, o.out.result.isSome)) =
      [(.agentExc, true), (.agentExc, true), (.circuitOpen, true)] := by decide

/-- hypotheses of `c08_executor_failure_counted_whatever_the_payload` are met on the initial state under AND logic by
    an assessor that defers (and its conclusion shown on a history: two such requests with unrenderable payloads open
    a threshold-2 breaker) -/
example : (run cfg2 idHashes init (pr 1) (.ret .failure) (.ret .other)).2.kind = .gated .failure ∧
    Cls.other ≠ Cls.block ∧ ¬(cfg2.gate = .or ∧ Cls.other = Cls.permit) ∧
    (runP true cfg2 idHashes (runP true cfg2 idHashes init (pr 1) ⟨.ret .failure, false⟩ ⟨.ret .other, false⟩).1 (pr 2)
      ⟨.ret .failure, false⟩ ⟨.ret .permit, false⟩).1.br.cstate = .opened := by decide

/-- an agent's BaseException passes through `run` uncounted -/
example : (exec cfg2 idHashes init [.run (pr 1) .excB (.ret .permit), .run (pr 2) (.ret .execute) .excB]).1.br = {} := by
  decide

end Operon.Cffl
