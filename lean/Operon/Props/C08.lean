import Operon.Model.Cffl
import Operon.Gen.GateTable
namespace Operon.Cffl
open Operon.Gen

/-- The extracted breaker classification of `run` agrees with the model's `classifyRun` on every row. -/
theorem c08_run_classification_table :
    GateTable.ok = true ∧
    ∀ r ∈ GateTable.runClass, classifyRun r.1 r.2.1 (classify r.2.2.1) (classify r.2.2.2.1) = r.2.2.2.2 := by
  decide +kernel

end Operon.Cffl
