import Operon.Model.Cffl
import Operon.Gen.GateTable
namespace Operon.Cffl
open Operon.Gen

/-- The extracted decision table (the real `_apply_gate_logic` evaluated on every gate logic × verdict ×
    verdict) agrees with the model's `applyGate` on every row. -/
theorem c07_gate_table_agrees :
    GateTable.ok = true ∧ ∀ r ∈ GateTable.rows, applyGate r.1 (classify r.2.1) (classify r.2.2.1) = r.2.2.2 := by
  decide +kernel

end Operon.Cffl
