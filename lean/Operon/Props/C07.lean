import Operon.Lemmas.C07
import Operon.Lemmas.CfflPhase
import Operon.Gen.GateTable
/-!
# C07 — two-key guard: an action passes only with the approvals its gate logic requires

Property theorems only.  Model: `Operon/Model/Cffl.lean` (`applyGate`, `run`, `exec`), tied to
`operon_ai/topology/loops.py` by extractor E2 (`Operon/Gen/GateTable.lean`: the complete decision table of the
real `_apply_gate_logic`, regenerated on every run) and by the differential correspondence of
`harness/vf/props/c07.py`.

Reading of the property text (DESIGN.md C07): "executor permits" = verdict EXECUTE or PERMIT; "assessor
permits" = verdict PERMIT (an assessor answering EXECUTE has not issued an approval); every string other than
the four literals is an unknown verdict and counts as neither permit nor block nor failure (`criterion`).

All statements quantify over every configuration, every pair of hash functions, every state / every history,
every prompt and every behaviour of the two agents (any verdict string, or an exception).
-/
namespace Operon.Cffl
open Operon.Gen

/-! ### the decision table -/

/-- E2: the decision table of the real `_apply_gate_logic` (evaluated on every gate logic × executor verdict ×
    assessor verdict, the verdicts ranging over the four known literals and three representatives of "anything
    else") agrees with the model's `applyGate` on every row; it covers every gate logic and every pair of
    verdict classes; every token the real code attached carried sha256(prompt)[:16] and the assessor's name;
    and `action_type` is compared only against literals that define the classes (so the code cannot tell two
    unknown verdicts apart). -/
theorem c07_gate_table_agrees :
    GateTable.ok = true ∧ GateTable.shapeOk = true ∧ GateTable.tokensWellFormed = true ∧
    (∀ l ∈ GateTable.literals, classify l ≠ .other) ∧
    (∀ r ∈ GateTable.rows, applyGate r.1 (classify r.2.1) (classify r.2.2.1) = r.2.2.2) ∧
    (∀ (g : Gate) (z y : Cls), ∃ r ∈ GateTable.rows, r.1 = g ∧ classify r.2.1 = z ∧ classify r.2.2.1 = y) := by
  have h : GateTable.ok = true ∧ GateTable.shapeOk = true ∧ GateTable.tokensWellFormed = true ∧
      (∀ l ∈ GateTable.literals, classify l ≠ .other) ∧
      (∀ r ∈ GateTable.rows, applyGate r.1 (classify r.2.1) (classify r.2.2.1) = r.2.2.2) ∧
      (∀ g ∈ allGates, ∀ z ∈ allCls, ∀ y ∈ allCls,
        ∃ r ∈ GateTable.rows, r.1 = g ∧ classify r.2.1 = z ∧ classify r.2.2.1 = y) := by
    decide +kernel
  refine ⟨h.1, h.2.1, h.2.2.1, h.2.2.2.1, h.2.2.2.2.1, ?_⟩
  intro g z y
  exact h.2.2.2.2.2 g (mem_allGates g) z (mem_allCls z) y (mem_allCls y)

/-- E2, evaluated on the real code on every run: what `_apply_gate_logic` decides does not depend on whether the
    payloads of the two verdicts can be rendered.  On every gate logic × verdict × verdict row the real gate was
    called again with payloads whose `__str__` raises (the executor's, the assessor's, both): it never raised and
    returned the very decision (`success`, `action`, `blocked`, token attached) the model's `applyGate` makes —
    complete over gate × class × class.  (`unrenderable` holds `none` for a row on which the gate raised or decided
    differently; the defect repaired in /repo — `str(payload)` / an f-string outside any handler — puts `none` there.) -/
theorem c07_gate_decides_whatever_the_payloads :
    (∀ r ∈ GateTable.unrenderable, r.2.2.2 = some (applyGate r.1 (classify r.2.1) (classify r.2.2.1))) ∧
    (∀ (g : Gate) (z y : Cls), ∃ r ∈ GateTable.unrenderable, r.1 = g ∧ classify r.2.1 = z ∧ classify r.2.2.1 = y) := by
  have h : (∀ r ∈ GateTable.unrenderable, r.2.2.2 = some (applyGate r.1 (classify r.2.1) (classify r.2.2.1))) ∧
      (∀ g ∈ allGates, ∀ z ∈ allCls, ∀ y ∈ allCls,
        ∃ r ∈ GateTable.unrenderable, r.1 = g ∧ classify r.2.1 = z ∧ classify r.2.2.1 = y) := by
    decide +kernel
  refine ⟨h.1, ?_⟩
  intro g z y
  exact h.2 g (mem_allGates g) z (mem_allCls z) y (mem_allCls y)

/-- E2, evaluated on the real `run` on every run: an agent `Exception` whose `__str__` raises — raised by the
    executor, or by the assessor — is answered with the blocked, unsuccessful ERROR result and counted once as a
    failure (`handlerRendersSafely`); with the console on (`silent=False`) a SUCCESS whose executor payload cannot be
    rendered is returned to the caller (`printRendersSafely`).  This is why the model's `run` treats `Resp.excU` like
    `Resp.exc` and why the driver runs `runP true` / `deliver … false`. -/
theorem c07_current_source_renders_safely :
    GateTable.handlerRendersSafely = true ∧ GateTable.printRendersSafely = true := by
  decide

/-- Which payloads `_apply_gate_logic` renders (`str()`, f-string — through `_describe` since the fix) is, on every
    gate logic × verdict × verdict row the extractor evaluates on the real code with tracer payloads, what the model's
    `renders` says — complete over gate × class × class.  (`renders` only matters for the pre-fix shape `runP false`,
    where a rendered payload whose `__str__` raises made the gate raise: `renderFails`.) -/
theorem c07_renders_table_agrees :
    (∀ r ∈ GateTable.rendered, renders r.1 (classify r.2.1) (classify r.2.2.1) = (r.2.2.2.1, r.2.2.2.2)) ∧
    (∀ (g : Gate) (z y : Cls), ∃ r ∈ GateTable.rendered, r.1 = g ∧ classify r.2.1 = z ∧ classify r.2.2.1 = y) := by
  have h : (∀ r ∈ GateTable.rendered, renders r.1 (classify r.2.1) (classify r.2.2.1) = (r.2.2.2.1, r.2.2.2.2)) ∧
      (∀ g ∈ allGates, ∀ z ∈ allCls, ∀ y ∈ allCls,
        ∃ r ∈ GateTable.rendered, r.1 = g ∧ classify r.2.1 = z ∧ classify r.2.2.1 = y) := by
    decide +kernel
  refine ⟨h.1, ?_⟩
  intro g z y
  exact h.2 g (mem_allGates g) z (mem_allCls z) y (mem_allCls y)

/-- E2, evaluated on the real `run` under a virtual clock on every run: a cached reply is served — without consulting
    an agent — exactly when the model's `checkCache` serves it: the entry is strictly younger than the TTL AND was
    decided under the gate logic configured at the repeat.  Rows: gate logic at the original × gate logic assigned
    afterwards (`loop.gate_logic = …` on the live loop) × age TTL−1 / TTL / TTL+1 µs, complete. -/
theorem c07_cache_lookup_table_agrees :
    (∀ r ∈ GateTable.cacheLookup,
      (checkCache { gate := r.2.1, ttl := r.2.2.2.1 } idHashes
          { now := r.2.2.1, cache := [⟨1, errorResult, 0, r.1⟩] } ⟨1, true⟩).2.isSome = r.2.2.2.2) ∧
    (∀ (g1 g2 : Gate), ∀ d ∈ [(-1 : Int), 0, 1], ∃ r ∈ GateTable.cacheLookup,
      r.1 = g1 ∧ r.2.1 = g2 ∧ (r.2.2.1 : Int) = r.2.2.2.1 + d) := by
  have h : (∀ r ∈ GateTable.cacheLookup,
      (checkCache { gate := r.2.1, ttl := r.2.2.2.1 } idHashes
          { now := r.2.2.1, cache := [⟨1, errorResult, 0, r.1⟩] } ⟨1, true⟩).2.isSome = r.2.2.2.2) ∧
      (∀ g1 ∈ allGates, ∀ g2 ∈ allGates, ∀ d ∈ [(-1 : Int), 0, 1], ∃ r ∈ GateTable.cacheLookup,
        r.1 = g1 ∧ r.2.1 = g2 ∧ (r.2.2.1 : Int) = r.2.2.2.1 + d) := by
    decide +kernel
  refine ⟨h.1, ?_⟩
  intro g1 g2
  exact h.2 g1 (mem_allGates g1) g2 (mem_allGates g2)

/-- The verdict classes partition all strings: a string is in one of the four named classes exactly when it
    is that literal, and in `other` exactly when it is none of them. -/
theorem c07_classes_partition (s : String) :
    (classify s = .execute ↔ s = "EXECUTE") ∧ (classify s = .permit ↔ s = "PERMIT") ∧
    (classify s = .block ↔ s = "BLOCK") ∧ (classify s = .failure ↔ s = "FAILURE") ∧
    (classify s = .other ↔ (s ≠ "EXECUTE" ∧ s ≠ "PERMIT" ∧ s ≠ "BLOCK" ∧ s ≠ "FAILURE")) := by
  unfold classify
  by_cases h1 : s = "EXECUTE"
  · subst h1; decide
  · by_cases h2 : s = "PERMIT"
    · subst h2; decide
    · by_cases h3 : s = "BLOCK"
      · subst h3; decide
      · by_cases h4 : s = "FAILURE"
        · subst h4; decide
        · simp [h1, h2, h3, h4]

/-- The gate lets a request through exactly when the two verdicts satisfy the configured gate logic as the
    property text defines it — for all six gate logics and all verdict classes (AND/UNANIMOUS: both permit;
    OR: at least one; EXECUTOR_PRIORITY: executor permits and assessor does not block; ASSESSOR_PRIORITY:
    assessor permits and executor did not fail; MAJORITY: never).  The "only if" direction is the property;
    the "if" direction says the guard does not over-block either. -/
theorem c07_gate_sound (g : Gate) (z y : Cls) :
    (applyGate g z y).blocked = false ↔ criterion g z y = true := by
  cases g <;> cases z <;> cases y <;> decide

/-- Every result of the gate that is not blocked is marked successful and is a SUCCESS; every other result is
    blocked and carries no token. -/
theorem c07_gate_result_shape (g : Gate) (z y : Cls) :
    ((applyGate g z y).blocked = false → (applyGate g z y).success = true ∧ (applyGate g z y).action = .success) ∧
    ((applyGate g z y).blocked = true → (applyGate g z y).token = false ∧ (applyGate g z y).action ≠ .success) ∧
    (applyGate g z y).action ≠ .circuitOpen := by
  cases g <;> cases z <;> cases y <;> decide

/-- MAJORITY (which this two-agent loop does not implement) blocks every combination. -/
theorem c07_majority_blocks (z y : Cls) : (applyGate .majority z y).blocked = true := by
  cases z <;> cases y <;> decide

/-- An unknown verdict is never taken for a permission: with an unknown executor verdict a request passes only
    on the assessor's PERMIT under OR / ASSESSOR_PRIORITY; with an unknown assessor verdict only on the
    executor's permission under OR / EXECUTOR_PRIORITY; with both unknown it is always blocked. -/
theorem c07_unknown_verdict_is_no_permit (g : Gate) (z y : Cls) (h : (applyGate g z y).blocked = false) :
    (z = .other → y = .permit ∧ (g = .or ∨ g = .assessPrio)) ∧
    (y = .other → zPermits z = true ∧ (g = .or ∨ g = .execPrio)) := by
  revert h; cases g <;> cases z <;> cases y <;> decide

/-! ### one request -/

/-- A reply that does not come from the cache and is not blocked was produced by consulting both agents, both
    answered (no exception), and their verdicts satisfy the configured gate logic; it is a SUCCESS. -/
theorem c07_unblocked_only_if_gate_satisfied (cfg : Cfg) (H : Hashes) (s : State) (p : Prompt) (zr yr : Resp)
    (r : Result) (hr : (run cfg H s p zr yr).2.result = some r) (hc : r.cached = false) (hb : r.blocked = false) :
    ∃ z y, zr = .ret z ∧ yr = .ret y ∧ criterion cfg.gate z y = true ∧ r = gateResult H cfg.gate p z y ∧
      r.success = true ∧ r.action = .success := by
  rcases run_out cfg H s p zr yr with h | h | ⟨_, e, _, _, h⟩ | ⟨_, h⟩
  · rw [h] at hr; simp [circuitOpenResult] at hr; subst hr; simp at hb
  · rw [h] at hr
    unfold consultOut at hr
    cases zr with
    | exc => simp [errorResult] at hr; subst hr; simp at hb
    | excU => simp [errorResult] at hr; subst hr; simp at hb
    | excB => simp at hr
    | ret z =>
      cases yr with
      | exc => simp [errorResult] at hr; subst hr; simp at hb
      | excU => simp [errorResult] at hr; subst hr; simp at hb
      | excB => simp at hr
      | ret y =>
        cases hp : p.enc <;> simp [hp] at hr
        subst hr
        have hb' : (applyGate cfg.gate z y).blocked = false := by simpa [gateResult] using hb
        have hs := (c07_gate_result_shape cfg.gate z y).1 hb'
        exact ⟨z, y, rfl, rfl, (c07_gate_sound cfg.gate z y).mp hb', rfl, by simpa [gateResult] using hs.1,
          by simpa [gateResult] using hs.2⟩
  · rw [h] at hr; simp at hr; subst hr; simp at hc
  · rw [h] at hr; simp at hr

/-- Any agent exception — of whatever kind: an ordinary `Exception`, one that cannot even be rendered as text, a
    `BaseException` — never lets anything pass (unless an earlier reply for the same prompt is served from the
    cache, in which case no agent is asked): a reply that comes back and is not cached is blocked, unsuccessful
    and carries no token. -/
theorem c07_exception_blocks (cfg : Cfg) (H : Hashes) (s : State) (p : Prompt) (zr yr : Resp)
    (hexc : (∀ z, zr ≠ .ret z) ∨ (∀ y, yr ≠ .ret y)) (r : Result) (hr : (run cfg H s p zr yr).2.result = some r)
    (hc : r.cached = false) : r.blocked = true ∧ r.success = false ∧ r.token = none := by
  rcases run_out cfg H s p zr yr with h | h | ⟨_, e, _, _, h⟩ | ⟨_, h⟩
  · rw [h] at hr; simp [circuitOpenResult] at hr; subst hr; simp
  · rw [h] at hr
    unfold consultOut at hr
    cases zr <;> cases yr <;> simp [errorResult] at hr hexc <;> (try subst hr) <;> simp
  · rw [h] at hr; simp at hr; subst hr; simp at hc
  · rw [h] at hr; simp at hr

/-- "Any agent exception yields blocked", at full strength: whenever an agent that is actually consulted raises an
    `Exception` — the executor, or the assessor after the executor answered; whether or not the exception can be
    rendered as text (`exc`, `excU`) — the request is answered, and the answer is the blocked, unsuccessful ERROR
    reply without a token, whatever the other agent would have said, under every gate logic and in every state.
    (The hypotheses only say that the agents ARE consulted: the breaker does not turn the request away, the cache
    does not answer it, the prompt can be encoded for the cache key.  Tie to the source for the unrenderable case:
    `c07_current_source_renders_safely`; a `BaseException` that is no `Exception` is not caught by `run` — listed
    assumption, `c07_exception_blocks` still applies.) -/
theorem c07_exception_yields_blocked (cfg : Cfg) (H : Hashes) (s : State) (p : Prompt) (zr yr : Resp)
    (hexc : zr.caught = true ∨ ((∃ z, zr = .ret z) ∧ yr.caught = true))
    (hk : (run cfg H s p zr yr).2.kind ≠ .circuitOpen) (hh : (run cfg H s p zr yr).2.kind ≠ .cacheHit)
    (hp : p.enc = true) :
    (run cfg H s p zr yr).2 = ⟨.agentExc, some errorResult⟩ ∧
    errorResult.blocked = true ∧ errorResult.success = false ∧ errorResult.token = none := by
  refine ⟨?_, rfl, rfl, rfl⟩
  rcases run_out cfg H s p zr yr with h | h | ⟨_, e, _, _, h⟩ | ⟨hp', h⟩
  · rw [h] at hk; simp at hk
  · rw [h]
    unfold consultOut
    rcases hexc with hz | ⟨⟨z, rfl⟩, hy⟩
    · cases zr <;> simp [Resp.caught] at hz <;> rfl
    · cases yr <;> simp [Resp.caught] at hy <;> rfl
  · rw [h] at hh; simp at hh
  · rw [hp] at hp'; cases hp'

/-- Every request with an encodable prompt gets a reply unless an agent that is consulted raises a `BaseException`
    (which `run` does not catch) — in particular when an agent raises an `Exception` that cannot be rendered; a
    prompt that cannot be encoded (lone surrogate: `run` raises UnicodeEncodeError) never gets a reply that is not
    blocked. -/
theorem c07_reply_or_nothing_passes (cfg : Cfg) (H : Hashes) (s : State) (p : Prompt) (zr yr : Resp) :
    (p.enc = true → zr ≠ .excB → yr ≠ .excB → (run cfg H s p zr yr).2.result.isSome = true) ∧
    (p.enc = false → ∀ r, (run cfg H s p zr yr).2.result = some r → r.blocked = true ∧ r.token = none) := by
  rcases run_out cfg H s p zr yr with h | h | ⟨hp, e, _, _, h⟩ | ⟨hp, h⟩
  · rw [h]; simp [circuitOpenResult]
  · rw [h]
    unfold consultOut
    cases zr <;> cases yr <;> simp [errorResult]
    cases hp : p.enc <;> simp
  · rw [h]; simp [hp]
  · rw [h]; simp [hp]

/-- Witness for the shape BEFORE the fix (finding C07-unprintable-agent-exception, repaired in /repo): with the
    exception formatted by a bare f-string (`runP false`) an executor — or assessor — `Exception` whose `__str__`
    raises made the handler of `run` fail after recording the failure: `run` raised instead of answering; the code as
    it is (`runP true`) answers the blocked ERROR reply.  A `BaseException` passes through either way. -/
theorem c07_unprintable_exception_escaped_before_fix_witness :
    (runP false {} idHashes init ⟨1, true⟩ ⟨.excU, true⟩ ⟨.ret .permit, true⟩).2 = ⟨.agentExc, none⟩ ∧
    (runP false {} idHashes init ⟨1, true⟩ ⟨.ret .execute, true⟩ ⟨.excU, true⟩).2 = ⟨.agentExc, none⟩ ∧
    (runP true {} idHashes init ⟨1, true⟩ ⟨.excU, true⟩ ⟨.ret .permit, true⟩).2 = ⟨.agentExc, some errorResult⟩ ∧
    (runP true {} idHashes init ⟨1, true⟩ ⟨.ret .execute, true⟩ ⟨.excU, true⟩).2 = ⟨.agentExc, some errorResult⟩ ∧
    (runP true {} idHashes init ⟨1, true⟩ ⟨.excB, true⟩ ⟨.ret .permit, true⟩).2 = ⟨.aborted, none⟩ := by decide

/-- An approval token is attached only when the assessor permitted: a non-cached reply carries a token exactly
    when both agents answered, the assessor's verdict is PERMIT and the request is not blocked; the token is
    then bound to the hash of exactly this prompt and names the assessor as issuer. -/
theorem c07_token_iff_assessor_permits_and_unblocked (cfg : Cfg) (H : Hashes) (s : State) (p : Prompt)
    (zr yr : Resp) (r : Result) (hr : (run cfg H s p zr yr).2.result = some r) (hc : r.cached = false) :
    (∀ t, r.token = some t → yr = .ret .permit ∧ r.blocked = false ∧ t = ⟨H.sha p.id, .assessor⟩) ∧
    (yr = .ret .permit → r.blocked = false → r.token = some ⟨H.sha p.id, .assessor⟩) := by
  rcases run_out cfg H s p zr yr with h | h | ⟨_, e, _, _, h⟩ | ⟨_, h⟩
  · rw [h] at hr; simp [circuitOpenResult] at hr; subst hr; simp
  · rw [h] at hr
    unfold consultOut at hr
    cases zr with
    | exc => simp [errorResult] at hr; subst hr; simp
    | excU => simp [errorResult] at hr; subst hr; simp
    | excB => simp at hr
    | ret z =>
      cases yr with
      | exc => simp [errorResult] at hr; subst hr; simp
      | excU => simp [errorResult] at hr; subst hr; simp
      | excB => simp at hr
      | ret y =>
        cases hp : p.enc <;> simp [hp] at hr
        subst hr
        simp only [gateResult]
        generalize cfg.gate = g
        cases g <;> cases z <;> cases y <;> simp [applyGate, errorOut]
  · rw [h] at hr; simp at hr; subst hr; simp at hc
  · rw [h] at hr; simp at hr

/-! ### histories: repeated prompts and the cache -/

/-- For every history from the initial state and every reply in it — cached or not —: a reply that is not
    blocked is the gate's SUCCESS result for verdicts that satisfy the configured gate logic, and if it carries a
    token the assessor's verdict was PERMIT and the issuer is the assessor. -/
theorem c07_history_sound (cfg : Cfg) (H : Hashes) (ops : List Op) :
    ∀ o ∈ (exec cfg H init ops).2, ∀ r, o.out.result = some r → r.blocked = false →
      ∃ z y, criterion cfg.gate z y = true ∧ r.success = true ∧ r.action = .success ∧
        (∀ t, r.token = some t → y = .permit ∧ t.issuer = .assessor) := by
  have key := exec_forall cfg H (fun s => CacheOK cfg H s.cache)
    (fun o => ∀ r, o.out.result = some r → r.blocked = false →
      ∃ z y, criterion cfg.gate z y = true ∧ r.success = true ∧ r.action = .success ∧
        (∀ t, r.token = some t → y = .permit ∧ t.issuer = .assessor)) ?_ ops init (by intro e he; simp [init] at he)
  · exact key.2
  · intro s op hinv
    refine ⟨step_cacheOK cfg H s op hinv, ?_⟩
    have gate_case : ∀ (q : Prompt) (z y : Cls) (c : Bool),
        ({ gateResult H cfg.gate q z y with cached := c }).blocked = false →
        ∃ z' y', criterion cfg.gate z' y' = true ∧ ({ gateResult H cfg.gate q z y with cached := c }).success = true ∧
          ({ gateResult H cfg.gate q z y with cached := c }).action = .success ∧
          (∀ t, ({ gateResult H cfg.gate q z y with cached := c }).token = some t → y' = .permit ∧ t.issuer = .assessor) := by
      intro q z y c hb
      have hb' : (applyGate cfg.gate z y).blocked = false := by simpa [gateResult] using hb
      have hs := (c07_gate_result_shape cfg.gate z y).1 hb'
      refine ⟨z, y, (c07_gate_sound cfg.gate z y).mp hb', by simpa [gateResult] using hs.1,
        by simpa [gateResult] using hs.2, ?_⟩
      intro t ht
      simp only [gateResult] at ht
      revert ht hb'
      generalize cfg.gate = g
      cases g <;> cases z <;> cases y <;> simp [applyGate, errorOut] <;> intro h <;> subst h <;> rfl
    cases op with
    | run p zr yr =>
      simp only [step]
      intro r hr hb
      rcases run_out cfg H s p zr yr with h | h | ⟨_, e, he, _, h⟩ | ⟨_, h⟩
      · rw [h] at hr; simp [circuitOpenResult] at hr; subst hr; simp at hb
      · rw [h] at hr
        unfold consultOut at hr
        cases zr with
        | exc => simp [errorResult] at hr; subst hr; simp at hb
        | excU => simp [errorResult] at hr; subst hr; simp at hb
        | excB => simp at hr
        | ret z =>
          cases yr with
          | exc => simp [errorResult] at hr; subst hr; simp at hb
          | excU => simp [errorResult] at hr; subst hr; simp at hb
          | excB => simp at hr
          | ret y =>
            cases hp : p.enc <;> simp [hp] at hr
            subst hr
            exact gate_case p z y false hb
      · rw [h] at hr; simp at hr; subst hr
        obtain ⟨q, z, y, _, hres⟩ := hinv e he
        rw [hres] at hb ⊢
        exact gate_case q z y true hb
      · rw [h] at hr; simp at hr
    | adv d => intro r hr; simp [step] at hr
    | resetcb => intro r hr; simp [step] at hr
    | clearcache => intro r hr; simp [step] at hr

/-- Token binding over histories, cache hits included: if the cache key (truncated md5) is injective on
    prompts, then in every history from the initial state every token that comes back with a reply is bound to
    the hash of exactly the prompt of THAT request and names the assessor as issuer. -/
theorem c07_token_binds_request (cfg : Cfg) (H : Hashes) (hinj : ∀ a b, H.md5 a = H.md5 b → a = b) (ops : List Op) :
    ∀ o ∈ (exec cfg H init ops).2, ∀ p zr yr r t, o.op = .run p zr yr → o.out.result = some r →
      r.token = some t → t.hash = H.sha p.id ∧ t.issuer = .assessor := by
  have key := exec_forall cfg H (fun s => CacheOK cfg H s.cache)
    (fun o => ∀ p zr yr r t, o.op = .run p zr yr → o.out.result = some r →
      r.token = some t → t.hash = H.sha p.id ∧ t.issuer = .assessor) ?_ ops init (by intro e he; simp [init] at he)
  · exact key.2
  · intro s op hinv
    refine ⟨step_cacheOK cfg H s op hinv, ?_⟩
    have gate_tok : ∀ (q : Prompt) (z y : Cls) (t : Token), (gateResult H cfg.gate q z y).token = some t →
        t.hash = H.sha q.id ∧ t.issuer = .assessor := by
      intro q z y t ht
      simp only [gateResult] at ht
      split at ht
      · cases ht; exact ⟨rfl, rfl⟩
      · cases ht
    intro p zr yr r t hop hr ht
    cases op with
    | run p' zr' yr' =>
      cases hop
      simp only [step] at hr
      rcases run_out cfg H s p zr yr with h | h | ⟨_, e, he, hk, h⟩ | ⟨_, h⟩
      · rw [h] at hr; simp [circuitOpenResult] at hr; subst hr; simp at ht
      · rw [h] at hr
        unfold consultOut at hr
        cases zr with
        | exc => simp [errorResult] at hr; subst hr; simp at ht
        | excU => simp [errorResult] at hr; subst hr; simp at ht
        | excB => simp at hr
        | ret z =>
          cases yr with
          | exc => simp [errorResult] at hr; subst hr; simp at ht
          | excU => simp [errorResult] at hr; subst hr; simp at ht
          | excB => simp at hr
          | ret y =>
            cases hp : p.enc <;> simp [hp] at hr
            subst hr
            exact gate_tok p z y t ht
      · rw [h] at hr; simp at hr; subst hr
        obtain ⟨q, z, y, hkey, hres⟩ := hinv e he
        have hq : q.id = p.id := hinj _ _ (by rw [← hkey, hk])
        rw [hres] at ht
        have := gate_tok q z y t (by simpa using ht)
        rw [hq] at this
        exact this
      · rw [h] at hr; simp at hr
    | adv d => cases hop
    | resetcb => cases hop
    | clearcache => cases hop

/-- Cached replies are identical in verdict to the original: in every history from the initial state, every
    reply that comes back with `cached = true` has an original strictly earlier in the history — a request
    whose prompt has the same cache key, answered by consulting the agents (not itself from the cache) — and
    repeats that reply's success, action, blocked flag and token exactly (only the `cached` flag differs). -/
theorem c07_cached_verdict_identical (cfg : Cfg) (H : Hashes) (ops : List Op) (tr1 tr2 : List Obs) (o : Obs)
    (r : Result) (hsplit : (exec cfg H init ops).2 = tr1 ++ o :: tr2)
    (hr : o.out.result = some r) (hc : r.cached = true) :
    ∃ o' ∈ tr1, ∃ (p p' : Prompt) (zr yr zr' yr' : Resp) (r' : Result),
      o.op = .run p zr yr ∧ o'.op = .run p' zr' yr' ∧ H.md5 p'.id = H.md5 p.id ∧
      o'.out.result = some r' ∧ r'.cached = false ∧
      r.success = r'.success ∧ r.action = r'.action ∧ r.blocked = r'.blocked ∧ r.token = r'.token := by
  have hkind : o.out.kind = .cacheHit :=
    exec_cached_is_hit cfg H ops init o (by rw [hsplit]; simp) r hr hc
  obtain ⟨o', ho', p, p', zr, yr, zr', yr', r', ev, hop, hop', hmd, hout', hc', hres⟩ :=
    exec_originals cfg H ops init [] (by intro e he; simp [init] at he) tr1 tr2 o hsplit hkind
  refine ⟨o', by simpa using ho', p, p', zr, yr, zr', yr', r', hop, hop', hmd, by rw [hout'], hc', ?_⟩
  rw [hr] at hres
  cases hres
  exact ⟨rfl, rfl, rfl, rfl⟩

/-- The statement over histories in full: every reply that is not blocked — fresh or served from the cache —
    traces back to a request of the history (the request itself, or a strictly earlier one whose prompt has the
    same cache key) at which both agents actually answered, with verdicts that satisfy the configured gate logic;
    the reply is a SUCCESS and its token is the one the gate built for those verdicts. -/
theorem c07_unblocked_reply_traces_to_verdicts (cfg : Cfg) (H : Hashes) (ops : List Op) (tr1 tr2 : List Obs)
    (o : Obs) (r : Result) (hsplit : (exec cfg H init ops).2 = tr1 ++ o :: tr2)
    (hr : o.out.result = some r) (hb : r.blocked = false) :
    ∃ o' ∈ tr1 ++ [o], ∃ (p : Prompt) (zr yr : Resp) (p' : Prompt) (z y : Cls),
      o.op = .run p zr yr ∧ o'.op = .run p' (.ret z) (.ret y) ∧ H.md5 p'.id = H.md5 p.id ∧
      criterion cfg.gate z y = true ∧ r.success = true ∧ r.action = .success ∧
      r.token = (gateResult H cfg.gate p' z y).token := by
  have hmem : ∀ x ∈ tr1 ++ [o], x ∈ (exec cfg H init ops).2 := by
    intro x hx; rw [hsplit]
    rcases List.mem_append.mp hx with h | h
    · exact List.mem_append_left _ h
    · simp at h; subst h; simp
  have fromGate : ∀ (q : Prompt) (z y : Cls), (gateResult H cfg.gate q z y).blocked = false →
      criterion cfg.gate z y = true ∧ (gateResult H cfg.gate q z y).success = true ∧
      (gateResult H cfg.gate q z y).action = .success := by
    intro q z y h
    have hb' : (applyGate cfg.gate z y).blocked = false := by simpa [gateResult] using h
    have hs := (c07_gate_result_shape cfg.gate z y).1 hb'
    exact ⟨(c07_gate_sound cfg.gate z y).mp hb', by simpa [gateResult] using hs.1, by simpa [gateResult] using hs.2⟩
  cases hc : r.cached
  · -- answered by the agents on this very request
    have ho := exec_gated cfg H ops init o (hmem o (by simp))
    obtain ⟨ev, hout⟩ := ho.2 r hr hc hb
    obtain ⟨p, z, y, hop, hres⟩ := ho.1 ev r hout
    subst hres
    have := fromGate p z y hb
    exact ⟨o, by simp, p, .ret z, .ret y, p, z, y, hop, hop, rfl, this.1, this.2.1, this.2.2, rfl⟩
  · -- served from the cache: go to the original
    have hkind : o.out.kind = .cacheHit :=
      exec_cached_is_hit cfg H ops init o (hmem o (by simp)) r hr hc
    obtain ⟨o', ho', p, p', zr, yr, zr', yr', r', ev, hop, hop', hmd, hout', _, hres⟩ :=
      exec_originals cfg H ops init [] (by intro e he; simp [init] at he) tr1 tr2 o hsplit hkind
    have ho'1 : o' ∈ tr1 := by simpa using ho'
    obtain ⟨p'', z, y, hop'', hres'⟩ := (exec_gated cfg H ops init o' (hmem o' (List.mem_append_left _ ho'1))).1 ev r' hout'
    rw [hop'] at hop''
    cases hop''
    rw [hr] at hres
    cases hres
    subst hres'
    have := fromGate p' z y (by simpa using hb)
    exact ⟨o', List.mem_append_left _ ho'1, p, zr, yr, p', z, y, hop, hop', hmd, this.1, this.2.1, this.2.2, rfl⟩

/-! ### overlapping requests (re-entrant agents, a second thread while an agent is busy)

The statements above are about sequential histories (`exec`: one request is handled completely before the next
starts).  The code's `run` is not atomic: while an agent of request A is busy, a request B can be handled on the
same loop.  `execPhases` runs ANY interleaving of the phases of any number of requests (look-up · executor
consulted · assessor consulted · finish / agent raised), with clock advances, resets and cache clears anywhere in
between; no well-formedness of the interleaving is assumed.  The clauses of the property hold for every reply of
every such history, each request being judged by ITS OWN prompt and verdicts. -/

/-- E2, observed on the real code on every run: the only attributes of the loop object through which one phase
    of `run` (look-up | executor consulted | assessor consulted | finish) hands anything to a later phase of the
    same request are modelled state (the breaker fields and the cache, `stateAttrs`).  Everything else a request
    needs later — its prompt, its cache key, the agents' outputs — stays in locals, which is why the model's
    `finish` is a function of the current state and the request's own `(p, z, y)` only, and why an overlapping
    request cannot change what a pending request files or returns beyond what `execPhases` describes. -/
theorem c07_request_state_is_local :
    ∃ attrs, GateTable.carried = some attrs ∧ ∀ a ∈ attrs, a ∈ stateAttrs := by
  refine ⟨_, rfl, ?_⟩
  decide

/-- Sequential histories are phase histories: for every history there is a phase history (each request's phases
    consecutive) with the same final state and the same replies in the same order.  So the theorems about
    `execPhases` below subsume their sequential counterparts. -/
theorem c07_overlap_model_contains_sequential (cfg : Cfg) (H : Hashes) (ops : List Op) (s : State) :
    (execPhases cfg H s (phasesOf cfg H s ops)).1 = (exec cfg H s ops).1 ∧
    phaseReplies (execPhases cfg H s (phasesOf cfg H s ops)).2 = replies (exec cfg H s ops).2 :=
  exec_is_execPhases cfg H ops s

/-- In every history of overlapping requests, a reply that is not served from the cache and is not blocked is the
    reply of the finish phase of a request whose OWN two verdicts satisfy the configured gate logic (whatever other
    requests were handled in between); it is the gate's SUCCESS result for this prompt and these verdicts, and it
    carries a token exactly when this request's assessor verdict is PERMIT — bound to the hash of this prompt,
    issued by the assessor. -/
theorem c07_overlap_unblocked_only_if_own_verdicts (cfg : Cfg) (H : Hashes) (ops : List PhaseOp) (s : State) :
    ∀ o ∈ (execPhases cfg H s ops).2, ∀ k r, o.out = some ⟨k, some r⟩ → r.cached = false → r.blocked = false →
      ∃ p z y, o.op = .finish p z y ∧ criterion cfg.gate z y = true ∧ r = gateResult H cfg.gate p z y ∧
        r.success = true ∧ r.action = .success ∧
        (r.token = if y = .permit then some ⟨H.sha p.id, .assessor⟩ else none) := by
  have key := execPhases_forall cfg H (fun _ => True)
    (fun o => ∀ k r, o.out = some ⟨k, some r⟩ → r.cached = false → r.blocked = false →
      ∃ p z y, o.op = .finish p z y ∧ criterion cfg.gate z y = true ∧ r = gateResult H cfg.gate p z y ∧
        r.success = true ∧ r.action = .success ∧
        (r.token = if y = .permit then some ⟨H.sha p.id, .assessor⟩ else none)) ?_ ops s trivial
  · exact key.2
  · intro s op _
    refine ⟨trivial, ?_⟩
    intro k r hout hc hb
    rcases phaseStep_out cfg H s op _ hout with h | h | h | ⟨p, z, y, hop, _, h⟩ | ⟨p, _, e, _, _, h⟩
    · cases h; simp [circuitOpenResult] at hb
    · simp at h
    · cases h; simp [errorResult] at hb
    · simp only [Out.mk.injEq, Option.some.injEq] at h
      obtain ⟨_, hr⟩ := h
      subst hr
      have hb' : (applyGate cfg.gate z y).blocked = false := by simpa [gateResult] using hb
      have hs := (c07_gate_result_shape cfg.gate z y).1 hb'
      refine ⟨p, z, y, hop, (c07_gate_sound cfg.gate z y).mp hb', rfl, by simpa [gateResult] using hs.1,
        by simpa [gateResult] using hs.2, ?_⟩
      simp only [gateResult]
      revert hb'
      generalize cfg.gate = g
      cases g <;> cases z <;> cases y <;> simp [applyGate, errorOut]
    · simp only [Out.mk.injEq, Option.some.injEq] at h
      obtain ⟨_, hr⟩ := h
      subst hr
      simp at hc

/-- In every history of overlapping requests from the initial state, every reply that is not blocked — fresh or
    served from the cache — is a SUCCESS built by the gate for verdicts that satisfy the configured gate logic,
    and a token on it means an assessor verdict PERMIT and names the assessor. -/
theorem c07_overlap_history_sound (cfg : Cfg) (H : Hashes) (ops : List PhaseOp) :
    ∀ o ∈ (execPhases cfg H init ops).2, ∀ k r, o.out = some ⟨k, some r⟩ → r.blocked = false →
      ∃ z y, criterion cfg.gate z y = true ∧ r.success = true ∧ r.action = .success ∧
        (∀ t, r.token = some t → y = .permit ∧ t.issuer = .assessor) := by
  have gate_case : ∀ (q : Prompt) (z y : Cls) (c : Bool),
      ({ gateResult H cfg.gate q z y with cached := c }).blocked = false →
      ∃ z' y', criterion cfg.gate z' y' = true ∧ ({ gateResult H cfg.gate q z y with cached := c }).success = true ∧
        ({ gateResult H cfg.gate q z y with cached := c }).action = .success ∧
        (∀ t, ({ gateResult H cfg.gate q z y with cached := c }).token = some t → y' = .permit ∧ t.issuer = .assessor) := by
    intro q z y c hb
    have hb' : (applyGate cfg.gate z y).blocked = false := by simpa [gateResult] using hb
    have hs := (c07_gate_result_shape cfg.gate z y).1 hb'
    refine ⟨z, y, (c07_gate_sound cfg.gate z y).mp hb', by simpa [gateResult] using hs.1,
      by simpa [gateResult] using hs.2, ?_⟩
    intro t ht
    simp only [gateResult] at ht
    revert ht hb'
    generalize cfg.gate = g
    cases g <;> cases z <;> cases y <;> simp [applyGate, errorOut] <;> intro h <;> subst h <;> rfl
  have key := execPhases_forall cfg H (fun s => CacheOK cfg H s.cache)
    (fun o => ∀ k r, o.out = some ⟨k, some r⟩ → r.blocked = false →
      ∃ z y, criterion cfg.gate z y = true ∧ r.success = true ∧ r.action = .success ∧
        (∀ t, r.token = some t → y = .permit ∧ t.issuer = .assessor)) ?_ ops init (by intro e he; simp [init] at he)
  · exact key.2
  · intro s op hinv
    refine ⟨phaseStep_cacheOK cfg H s op hinv, ?_⟩
    intro k r hout hb
    rcases phaseStep_out cfg H s op _ hout with h | h | h | ⟨p, z, y, _, _, h⟩ | ⟨p, _, e, he, _, h⟩
    · cases h; simp [circuitOpenResult] at hb
    · simp at h
    · cases h; simp [errorResult] at hb
    · simp only [Out.mk.injEq, Option.some.injEq] at h
      obtain ⟨_, hr⟩ := h
      subst hr
      exact gate_case p z y false hb
    · simp only [Out.mk.injEq, Option.some.injEq] at h
      obtain ⟨_, hr⟩ := h
      subst hr
      obtain ⟨q, z, y, _, hres⟩ := hinv e he
      rw [hres] at hb ⊢
      exact gate_case q z y true hb

/-- Token binding under overlap: if the cache key is injective on prompts, then in every history of overlapping
    requests from the initial state a token that comes back — at the finish phase of the request for `p`, or from
    the cache at the look-up of `p` — is bound to the hash of exactly `p` and names the assessor.  (The finish
    phase files its result under its OWN prompt's key; a request that filed it under the key of whichever look-up
    came last would break this.) -/
theorem c07_overlap_token_binds_request (cfg : Cfg) (H : Hashes) (hinj : ∀ a b, H.md5 a = H.md5 b → a = b)
    (ops : List PhaseOp) :
    ∀ o ∈ (execPhases cfg H init ops).2, ∀ p k r t,
      (o.op = .lookup p ∨ ∃ z y, o.op = .finish p z y) → o.out = some ⟨k, some r⟩ → r.token = some t →
      t.hash = H.sha p.id ∧ t.issuer = .assessor := by
  have gate_tok : ∀ (q : Prompt) (z y : Cls) (t : Token), (gateResult H cfg.gate q z y).token = some t →
      t.hash = H.sha q.id ∧ t.issuer = .assessor := by
    intro q z y t ht
    simp only [gateResult] at ht
    split at ht
    · cases ht; exact ⟨rfl, rfl⟩
    · cases ht
  have key := execPhases_forall cfg H (fun s => CacheOK cfg H s.cache)
    (fun o => ∀ p k r t, (o.op = .lookup p ∨ ∃ z y, o.op = .finish p z y) → o.out = some ⟨k, some r⟩ →
      r.token = some t → t.hash = H.sha p.id ∧ t.issuer = .assessor) ?_ ops init (by intro e he; simp [init] at he)
  · exact key.2
  · intro s op hinv
    refine ⟨phaseStep_cacheOK cfg H s op hinv, ?_⟩
    intro p k r t hop hout ht
    rcases phaseStep_out cfg H s op _ hout with h | h | h | ⟨p', z, y, hop', _, h⟩ | ⟨p', hop', e, he, hk, h⟩
    · cases h; simp [circuitOpenResult] at ht
    · simp at h
    · cases h; simp [errorResult] at ht
    · simp only [Out.mk.injEq, Option.some.injEq] at h
      obtain ⟨_, hr⟩ := h
      subst hr
      have hp : p' = p := by
        simp only at hop
        rcases hop with hop | ⟨z', y', hop⟩ <;> rw [hop'] at hop <;> cases hop
        rfl
      rw [← hp]
      exact gate_tok p' z y t ht
    · simp only [Out.mk.injEq, Option.some.injEq] at h
      obtain ⟨_, hr⟩ := h
      subst hr
      have hp : p' = p := by
        simp only at hop
        rcases hop with hop | ⟨z', y', hop⟩ <;> rw [hop'] at hop <;> cases hop
        rfl
      obtain ⟨q, z, y, hkey, hres⟩ := hinv e he
      have hq : q.id = p'.id := hinj _ _ (by rw [← hkey, hk])
      rw [hres] at ht
      have := gate_tok q z y t (by simpa using ht)
      rw [hq, hp] at this
      exact this

/-- Cached replies are identical in verdict to the original, under overlap: in every history of overlapping
    requests from the initial state, a reply that comes back with `cached = true` is given at the look-up of some
    prompt `p`, and strictly earlier in the history the finish phase of a request whose prompt has the same cache
    key produced — from that request's own verdicts — a reply with the same success, action, blocked flag and
    token (only the `cached` flag differs). -/
theorem c07_overlap_cached_verdict_identical (cfg : Cfg) (H : Hashes) (ops : List PhaseOp)
    (tr1 tr2 : List PhaseObs) (o : PhaseObs) (k : Kind) (r : Result)
    (hsplit : (execPhases cfg H init ops).2 = tr1 ++ o :: tr2)
    (hr : o.out = some ⟨k, some r⟩) (hc : r.cached = true) :
    ∃ p, o.op = .lookup p ∧ ∃ o' ∈ tr1, ∃ (p' : Prompt) (z y : Cls) (ev : BEvent) (r' : Result),
      o'.op = .finish p' z y ∧ H.md5 p'.id = H.md5 p.id ∧ o'.out = some ⟨.gated ev, some r'⟩ ∧
      r' = gateResult H cfg.gate p' z y ∧ r'.cached = false ∧
      r.success = r'.success ∧ r.action = r'.action ∧ r.blocked = r'.blocked ∧ r.token = r'.token := by
  -- a reply flagged `cached` is a cache hit
  have hmem : o ∈ (execPhases cfg H init ops).2 := by rw [hsplit]; simp
  have hkind : k = .cacheHit := by
    have key := execPhases_forall cfg H (fun _ => True)
      (fun o => ∀ k r, o.out = some ⟨k, some r⟩ → r.cached = true → k = .cacheHit) ?_ ops init trivial
    · exact key.2 o hmem k r hr hc
    · intro s op _
      refine ⟨trivial, ?_⟩
      intro k r hout hc
      rcases phaseStep_out cfg H s op _ hout with h | h | h | ⟨p, z, y, _, _, h⟩ | ⟨p, _, e, _, _, h⟩
      · cases h; simp [circuitOpenResult] at hc
      · simp at h
      · cases h; simp [errorResult] at hc
      · simp only [Out.mk.injEq, Option.some.injEq] at h
        obtain ⟨_, hr⟩ := h
        subst hr
        simp [gateResult] at hc
      · simp only [Out.mk.injEq] at h
        exact h.1
  subst hkind
  obtain ⟨p, hop, o', ho', p', z, y, ev, r', hop', hmd, hout', hc', hres⟩ :=
    execPhases_originals cfg H ops init [] (by intro e he; simp [init] at he) tr1 tr2 o r hsplit hr
  have ho'1 : o' ∈ tr1 := by simpa using ho'
  -- the original is the gate's result for its own prompt and verdicts
  have hgate : r' = gateResult H cfg.gate p' z y := by
    have hmem' : o' ∈ (execPhases cfg H init ops).2 := by rw [hsplit]; exact List.mem_append_left _ ho'1
    have key := execPhases_forall cfg H (fun _ => True)
      (fun o => ∀ p z y ev r, o.op = .finish p z y → o.out = some ⟨.gated ev, some r⟩ → r = gateResult H cfg.gate p z y)
      ?_ ops init trivial
    · exact key.2 o' hmem' p' z y ev r' hop' hout'
    · intro s op _
      refine ⟨trivial, ?_⟩
      intro p z y ev r hop hout
      simp only at hop
      subst hop
      simp only [phaseStep, Option.some.injEq] at hout
      rcases (finish_spec cfg H s p z y).1 with ⟨_, h⟩ | ⟨_, h⟩
      · rw [h] at hout
        simp only [Out.mk.injEq, Option.some.injEq] at hout
        exact hout.2.symm
      · rw [h] at hout; simp at hout
  refine ⟨p, hop, o', ho'1, p', z, y, ev, r', hop', hmd, hout', hgate, hc', ?_⟩
  subst hres
  exact ⟨rfl, rfl, rfl, rfl⟩

/-! ### re-assigned configuration (finding C07-gate-reassigned-cache, repaired)

`gate_logic`, `enable_cache`, `cache_ttl`, … are public attributes; `execR` runs histories in which they are
re-assigned on the live loop (`ROp.assign`: configuration replaced, state kept).  A cache entry records the gate
logic it was decided under (`LoopResult.gate_logic`) and is served only while that is the logic configured. -/

/-- Histories with re-assigned configuration, in full: every reply that is not blocked — fresh or cached — traces
    back to a request of the history (itself when fresh, else a strictly earlier one with the same cache key) at
    which both agents actually answered (that request's own reply came from the gate, not from the cache), with
    verdicts that satisfy the gate logic IN FORCE AT THAT REQUEST — which is the gate logic in force NOW, also for a
    cached reply (`o'.cfg.gate = o.cfg.gate`); the reply is a SUCCESS carrying the token the gate built then. -/
theorem c07_reconfigured_unblocked_reply_traces_to_verdicts (H : Hashes) (cfg0 : Cfg) (ops : List ROp)
    (tr1 tr2 : List RObs) (o : RObs) (r : Result) (hsplit : (execR H cfg0 init ops).2 = tr1 ++ o :: tr2)
    (hr : o.out.result = some r) (hb : r.blocked = false) :
    ∃ o' ∈ tr1 ++ [o], ∃ (p : Prompt) (zr yr : Resp) (p' : Prompt) (z y : Cls) (ev : BEvent),
      o.op = .run p zr yr ∧ o'.op = .run p' (.ret z) (.ret y) ∧ H.md5 p'.id = H.md5 p.id ∧
      o'.out = ⟨.gated ev, some (gateResult H o'.cfg.gate p' z y)⟩ ∧
      criterion o'.cfg.gate z y = true ∧ r.success = true ∧ r.action = .success ∧
      r.token = (gateResult H o'.cfg.gate p' z y).token ∧ (r.cached = false → o' = o) ∧ o'.cfg.gate = o.cfg.gate := by
  have hmem : ∀ x ∈ tr1 ++ [o], x ∈ (execR H cfg0 init ops).2 := by
    intro x hx; rw [hsplit]
    rcases List.mem_append.mp hx with h | h
    · exact List.mem_append_left _ h
    · simp at h; subst h; simp
  have fromGate : ∀ (g : Gate) (q : Prompt) (z y : Cls), (gateResult H g q z y).blocked = false →
      criterion g z y = true ∧ (gateResult H g q z y).success = true ∧ (gateResult H g q z y).action = .success := by
    intro g q z y h
    have hb' : (applyGate g z y).blocked = false := by simpa [gateResult] using h
    have hs := (c07_gate_result_shape g z y).1 hb'
    exact ⟨(c07_gate_sound g z y).mp hb', by simpa [gateResult] using hs.1, by simpa [gateResult] using hs.2⟩
  cases hc : r.cached
  · have ho := execR_obs H ops cfg0 init o (hmem o (by simp))
    obtain ⟨ev, hout⟩ := ho.2.1 r hr hc hb
    obtain ⟨p, z, y, hop, hres⟩ := ho.1 ev r hout
    subst hres
    have := fromGate o.cfg.gate p z y hb
    exact ⟨o, by simp, p, .ret z, .ret y, p, z, y, ev, hop, hop, rfl, hout, this.1, this.2.1, this.2.2, rfl, fun _ => rfl, rfl⟩
  · have hkind : o.out.kind = .cacheHit := (execR_obs H ops cfg0 init o (hmem o (by simp))).2.2 r hr hc
    obtain ⟨o', ho', ⟨p, p', zr, yr, zr', yr', r', ev, hop, hop', hmd, hout', _, hres⟩, hgeq⟩ :=
      execR_originals H ops cfg0 init [] (by intro e he; simp [init] at he) tr1 tr2 o hsplit hkind
    have ho'1 : o' ∈ tr1 := by simpa using ho'
    obtain ⟨p'', z, y, hop'', hres'⟩ :=
      (execR_obs H ops cfg0 init o' (hmem o' (List.mem_append_left _ ho'1))).1 ev r' hout'
    simp only [RObs.toObs] at hop hop' hout' hres
    rw [hop'] at hop''
    cases hop''
    rw [hr] at hres
    cases hres
    subst hres'
    have := fromGate o'.cfg.gate p' z y (by simpa using hb)
    exact ⟨o', List.mem_append_left _ ho'1, p, zr, yr, p', z, y, ev, hop, hop', hmd, hout', this.1, this.2.1,
      this.2.2, rfl, fun h => by simp at h, hgeq⟩

/-- Clause 1 at full strength for histories in which public attributes — the gate logic included — are re-assigned
    on the live loop, "the configured gate logic" read at the time of the request: every un-blocked reply — fresh or
    served from the cache — goes back to a request of the history (itself, or a strictly earlier one with the same cache
    key) at which both agents actually answered with verdicts that satisfy the gate logic configured NOW, and its
    token is the one the gate builds for those verdicts under the logic configured now.  (No hypothesis on the
    re-assignments: a reply cached under another gate logic is not served — `checkCache` — which is the repair of
    finding C07-gate-reassigned-cache; before it the statement needed "the gate logic was not re-assigned".) -/
theorem c07_configured_gate (H : Hashes) (cfg0 : Cfg) (ops : List ROp)
    (tr1 tr2 : List RObs) (o : RObs) (r : Result) (hsplit : (execR H cfg0 init ops).2 = tr1 ++ o :: tr2)
    (hr : o.out.result = some r) (hb : r.blocked = false) :
    ∃ o' ∈ tr1 ++ [o], ∃ (p : Prompt) (zr yr : Resp) (p' : Prompt) (z y : Cls),
      o.op = .run p zr yr ∧ o'.op = .run p' (.ret z) (.ret y) ∧ H.md5 p'.id = H.md5 p.id ∧
      criterion o.cfg.gate z y = true ∧ r.success = true ∧ r.action = .success ∧
      r.token = (gateResult H o.cfg.gate p' z y).token := by
  obtain ⟨o', ho', p, zr, yr, p', z, y, ev, hop, hop', hmd, _, hcrit, hsucc, hact, htok, _, hg⟩ :=
    c07_reconfigured_unblocked_reply_traces_to_verdicts H cfg0 ops tr1 tr2 o r hsplit hr hb
  rw [hg] at hcrit htok
  exact ⟨o', ho', p, zr, yr, p', z, y, hop, hop', hmd, hcrit, hsucc, hact, htok⟩

/-- The scenario of the repaired finding C07-gate-reassigned-cache (corpus/C07/gate_reassigned.json): a loop
    configured OR answers `p` with executor EXECUTE / assessor BLOCK: SUCCESS, cached.  `loop.gate_logic = AND` is
    assigned.  The same prompt is NOT served from the cache: the agents are consulted again and the request is
    judged — BLOCKED — under AND; after `gate_logic = OR` is assigned back, the entry decided under AND is not served
    either. -/
theorem c07_gate_reassigned_cache_not_served :
    ((execR idHashes { gate := .or } init
        [.op (.run ⟨1, true⟩ (.ret .execute) (.ret .block)), .assign { gate := .and },
         .op (.run ⟨1, true⟩ (.ret .execute) (.ret .block)), .op (.run ⟨1, true⟩ (.ret .execute) (.ret .permit)),
         .assign { gate := .or }, .op (.run ⟨1, true⟩ (.ret .execute) (.ret .block))]).2.map
      fun o => (o.cfg.gate, o.out.result.map (·.blocked), o.out.result.map (·.cached),
                criterion o.cfg.gate .execute .block)) =
    [(.or, some false, some false, true), (.and, some true, some false, false), (.and, some true, some true, false),
     (.or, some false, some false, true)] := by
  decide

/-- The injectivity hypothesis of `c07_token_binds_request` is needed (and is the modelled assumption about the
    truncated md5 cache key): with a colliding key a reply for prompt 2 is served from prompt 1's entry and
    carries a token bound to prompt 1. -/
theorem c07_binding_needs_injective_key_witness :
    let H : Hashes := ⟨fun _ => 0, id⟩
    let tr := (exec {} H init [.run ⟨1, true⟩ (.ret .execute) (.ret .permit),
                               .run ⟨2, true⟩ (.ret .execute) (.ret .permit)]).2
    (tr.map fun o => o.out.result.bind (·.token)) = [some ⟨1, .assessor⟩, some ⟨1, .assessor⟩] := by
  decide

/-- The same hypothesis is needed for clause 1 when "the verdicts" are read as the verdicts on THIS prompt: with a
    colliding cache key, prompt 2 — which both agents would BLOCK — comes back un-blocked from prompt 1's entry
    without either agent having seen it.  (`c07_unblocked_reply_traces_to_verdicts` is unconditional because it
    speaks of a request "with the same cache key"; 64-bit truncated md5 keys of chosen prompts can collide.) -/
theorem c07_unblocked_needs_injective_key_witness :
    let H : Hashes := ⟨fun _ => 0, id⟩
    let tr := (exec {} H init [.run ⟨1, true⟩ (.ret .execute) (.ret .permit),
                               .run ⟨2, true⟩ (.ret .block) (.ret .block)]).2
    (tr.map fun o => o.out.result.map fun r => (r.blocked, r.cached)) = [some (false, false), some (false, true)] ∧
    criterion .and .block .block = false := by
  decide

/-- What holds without any assumption on the cache key: a token that comes back with a reply is the token the gate
    built for the ORIGINAL request — bound to the hash of the original's prompt `p'`.  So whoever checks the token
    against the prompt at hand detects a cache-key collision: if the token's hash is the hash of this request's
    prompt and the binding hash is injective, the original's prompt IS this prompt. -/
theorem c07_token_bound_to_original_prompt (cfg : Cfg) (H : Hashes) (ops : List Op) (tr1 tr2 : List Obs)
    (o : Obs) (r : Result) (t : Token) (hsplit : (exec cfg H init ops).2 = tr1 ++ o :: tr2)
    (hr : o.out.result = some r) (hb : r.blocked = false) (ht : r.token = some t) :
    ∃ o' ∈ tr1 ++ [o], ∃ (p : Prompt) (zr yr : Resp) (p' : Prompt) (z y : Cls),
      o.op = .run p zr yr ∧ o'.op = .run p' (.ret z) (.ret y) ∧ H.md5 p'.id = H.md5 p.id ∧
      t = ⟨H.sha p'.id, .assessor⟩ ∧ y = .permit ∧
      ((∀ a b, H.sha a = H.sha b → a = b) → t.hash = H.sha p.id → p'.id = p.id) := by
  obtain ⟨o', ho', p, zr, yr, p', z, y, hop, hop', hmd, _, _, _, htok⟩ :=
    c07_unblocked_reply_traces_to_verdicts cfg H ops tr1 tr2 o r hsplit hr hb
  rw [ht] at htok
  have hty : t = ⟨H.sha p'.id, .assessor⟩ ∧ y = .permit := by
    simp only [gateResult] at htok
    revert htok
    generalize cfg.gate = g
    cases g <;> cases z <;> cases y <;> simp [applyGate, errorOut] <;> intro h <;> exact h
  refine ⟨o', ho', p, zr, yr, p', z, y, hop, hop', hmd, hty.1, hty.2, ?_⟩
  intro hsha hh
  rw [hty.1] at hh
  exact hsha _ _ hh

/-! ### callbacks: the tail of `run` -/

/-- What the caller of `run` — or, when it raises, the callback — gets to see is exactly the result the request
    produced (`Out.result`): every statement above about `result` is a statement about what is delivered. -/
theorem c07_delivery_is_the_result (hk : Hooks) (t : Tally) (o : Out) (pf : Bool) (h : o.kind ≠ .admin) :
    (deliver hk t o pf).2.seen = o.result := by
  obtain ⟨k, r⟩ := o
  obtain ⟨hb, hp⟩ := hk
  cases k <;> cases r <;> simp [deliver, Delivery.seen] at h ⊢
  rename_i ev r
  cases hbl : r.blocked <;> cases hb <;> cases hp <;> cases pf <;> simp

/-- The `on_permit` callback — the other way the guard announces that a request passes — is invoked only for a
    request that was decided just now (never for a cache hit, a CIRCUIT_OPEN reply or an agent exception) by
    verdicts of both agents that satisfy the configured gate logic; `on_block` is invoked only with a blocked
    result. -/
theorem c07_callbacks_only_for_decided_requests (hk : Hooks) (t : Tally) (pf : Bool) (cfg : Cfg) (H : Hashes) (s : State)
    (p : Prompt) (zr yr : Resp) :
    ((deliver hk t (run cfg H s p zr yr).2 pf).1.permitHookCalls ≠ t.permitHookCalls →
      ∃ z y, zr = .ret z ∧ yr = .ret y ∧ criterion cfg.gate z y = true ∧
        (run cfg H s p zr yr).2.result = some (gateResult H cfg.gate p z y) ∧
        (gateResult H cfg.gate p z y).blocked = false) ∧
    ((deliver hk t (run cfg H s p zr yr).2 pf).1.blockHookCalls ≠ t.blockHookCalls →
      ∃ z y, zr = .ret z ∧ yr = .ret y ∧
        (run cfg H s p zr yr).2.result = some (gateResult H cfg.gate p z y) ∧
        (gateResult H cfg.gate p z y).blocked = true) := by
  have key : ∀ o : Out,
      (((deliver hk t o pf).1.permitHookCalls ≠ t.permitHookCalls ∨ (deliver hk t o pf).1.blockHookCalls ≠ t.blockHookCalls) →
        ∃ ev r, o = ⟨.gated ev, some r⟩ ∧
          ((deliver hk t o pf).1.permitHookCalls ≠ t.permitHookCalls → r.blocked = false) ∧
          ((deliver hk t o pf).1.blockHookCalls ≠ t.blockHookCalls → r.blocked = true)) := by
    intro o hne
    obtain ⟨k, r⟩ := o
    obtain ⟨hb, hp⟩ := hk
    cases k <;> cases r <;> simp [deliver, logOne] at hne ⊢
    rename_i ev r
    cases hbl : r.blocked <;> cases hb <;> cases hp <;> simp [hbl] at hne ⊢ <;> exact ⟨ev, r, ⟨rfl, rfl⟩, hbl⟩
  have gated : ∀ ev r, (run cfg H s p zr yr).2 = ⟨.gated ev, some r⟩ →
      ∃ z y, zr = .ret z ∧ yr = .ret y ∧ r = gateResult H cfg.gate p z y := by
    intro ev r h
    have hmem : (⟨.run p zr yr, (run cfg H s p zr yr).2⟩ : Obs) ∈ (exec cfg H s [.run p zr yr]).2 := by simp [exec, step]
    obtain ⟨p', z, y, hop, hr⟩ := (exec_gated cfg H [.run p zr yr] s _ hmem).1 ev r h
    simp only [Op.run.injEq] at hop
    obtain ⟨rfl, rfl, rfl⟩ := hop
    exact ⟨z, y, rfl, rfl, hr⟩
  constructor
  · intro hne
    obtain ⟨ev, r, ho, hp, _⟩ := key _ (Or.inl hne)
    obtain ⟨z, y, hz, hy, hr⟩ := gated ev r ho
    have hb : r.blocked = false := hp hne
    subst hr
    have hb' : (applyGate cfg.gate z y).blocked = false := by simpa [gateResult] using hb
    exact ⟨z, y, hz, hy, (c07_gate_sound cfg.gate z y).mp hb', by rw [ho], hb⟩
  · intro hne
    obtain ⟨ev, r, ho, _, hq⟩ := key _ (Or.inr hne)
    obtain ⟨z, y, hz, hy, hr⟩ := gated ev r ho
    have hb : r.blocked = true := hq hne
    subst hr
    exact ⟨z, y, hz, hy, by rw [ho], hb⟩

/-! ### payloads that cannot be rendered (`runP`) -/

/-- "Any other combination yields blocked" — and a permitted one passes — WHATEVER the payloads of the two verdicts:
    for every behaviour of the payloads (`payloadOk` of either response true or false), a request whose agents both
    answer is decided by the gate on the two verdicts alone — the reply is `gateResult` for this prompt and these
    verdicts (so every clause above applies to it), it is un-blocked exactly when the verdicts satisfy the configured
    gate logic, and the state is the one `run` reaches on the same verdicts (result cached, breaker updated).
    (`runP true` is the code as it is — tie: `c07_gate_decides_whatever_the_payloads`, evaluated on the real gate.) -/
theorem c07_payloads_do_not_matter (cfg : Cfg) (H : Hashes) (s : State) (p : Prompt) (z y : Cls) (zOk yOk : Bool)
    (hk : (run cfg H s p (.ret z) (.ret y)).2.kind ≠ .circuitOpen)
    (hh : (run cfg H s p (.ret z) (.ret y)).2.kind ≠ .cacheHit) (hp : p.enc = true) :
    runP true cfg H s p ⟨.ret z, zOk⟩ ⟨.ret y, yOk⟩ = run cfg H s p (.ret z) (.ret y) ∧
    (runP true cfg H s p ⟨.ret z, zOk⟩ ⟨.ret y, yOk⟩).2.result = some (gateResult H cfg.gate p z y) ∧
    ((gateResult H cfg.gate p z y).blocked = false ↔ criterion cfg.gate z y = true) := by
  refine ⟨rfl, ?_, ?_⟩
  · show (run cfg H s p (.ret z) (.ret y)).2.result = _
    rcases run_out cfg H s p (.ret z) (.ret y) with h | h | ⟨_, e, _, _, h⟩ | ⟨hp', h⟩
    · rw [h] at hk; simp at hk
    · rw [h]; simp [consultOut, hp]
    · rw [h] at hh; simp at hh
    · rw [hp] at hp'; cases hp'
  · simpa [gateResult] using c07_gate_sound cfg.gate z y

/-- Witness for the shape BEFORE the fix (payload half of finding C07-unprintable-agent-exception, repaired in
    /repo): with payloads rendered by bare `str()` / f-strings (`runP false`), under AND logic an assessor BLOCK whose
    payload cannot be rendered — the gate would answer BLOCKED — made `run` raise instead (no reply); the code as it
    is (`runP true`) answers BLOCKED, as it does for a renderable payload. -/
theorem c07_unrenderable_payload_escaped_before_fix_witness :
    (runP false {} idHashes init ⟨1, true⟩ ⟨.ret .execute, true⟩ ⟨.ret .block, false⟩).2 = ⟨.raised, none⟩ ∧
    (runP true {} idHashes init ⟨1, true⟩ ⟨.ret .execute, true⟩ ⟨.ret .block, false⟩).2.result =
      some ⟨true, .blocked, true, none, false⟩ ∧
    (runP false {} idHashes init ⟨1, true⟩ ⟨.ret .execute, true⟩ ⟨.ret .block, true⟩).2.result =
      some ⟨true, .blocked, true, none, false⟩ := by decide

/-! ### Non-vacuity: concrete requests and histories meeting the hypotheses -/

private def pr (n : Nat) : Prompt := ⟨n, true⟩

/-- an un-blocked fresh reply with a token (hypotheses of `c07_unblocked_only_if_gate_satisfied` and
    `c07_token_iff_assessor_permits_and_unblocked`), and an un-blocked reply WITHOUT token under
    EXECUTOR_PRIORITY (assessor answered DEFER) -/
example : (run {} idHashes init (pr 5) (.ret .execute) (.ret .permit)).2.result
      = some ⟨true, .success, false, some ⟨5, .assessor⟩, false⟩ ∧
    (run { gate := .execPrio } idHashes init (pr 5) (.ret .execute) (.ret .other)).2.result
      = some ⟨true, .success, false, none, false⟩ := by decide

/-- an exception of the assessor after the executor permitted (hypothesis of `c07_exception_blocks`; hypotheses
    of `c07_exception_yields_blocked` for an exception that cannot be rendered, raised by the executor) -/
example : (run { gate := .or } idHashes init (pr 5) (.ret .permit) .exc).2.result = some errorResult ∧
    (run { gate := .or } idHashes init (pr 5) .excU (.ret .permit)).2.kind = .agentExc ∧
    Resp.excU.caught = true := by decide

/-- hypotheses of `c07_payloads_do_not_matter`: a fresh request on the initial state is neither turned away nor
    answered by the cache -/
example : (run {} idHashes init (pr 5) (.ret .failure) (.ret .permit)).2.kind = .gated .failure := by decide

/-- a history with a cache hit whose verdict repeats the original although the agents would now answer
    differently (hypotheses of `c07_cached_verdict_identical` / `c07_token_binds_request` are met by `tr[2]`) -/
example : ((exec {} idHashes init [.run (pr 1) (.ret .execute) (.ret .permit), .run (pr 2) (.ret .block) (.ret .block),
      .run (pr 1) (.ret .failure) .exc]).2.map fun o => o.out.result) =
    [some ⟨true, .success, false, some ⟨1, .assessor⟩, false⟩, some ⟨true, .blocked, true, none, false⟩,
     some ⟨true, .success, false, some ⟨1, .assessor⟩, true⟩] := by decide

/-- an un-encodable prompt: no reply with the cache on, a blocked ERROR when an agent raises with the cache off -/
example : (run {} idHashes init ⟨9, false⟩ (.ret .execute) (.ret .permit)).2.result = none ∧
    (run { cacheOn := false } idHashes init ⟨9, false⟩ .exc (.ret .permit)).2.result = some errorResult := by decide

/-- overlapping requests: A (prompt 1, executor BLOCK) looks up, B (prompt 2, EXECUTE / PERMIT) is handled
    completely while A's executor is busy, A finishes last; then both prompts are asked again: each cached reply
    repeats the reply of ITS OWN original (hypotheses of `c07_overlap_cached_verdict_identical` met by the last two
    observations; `c07_overlap_unblocked_only_if_own_verdicts` by the finish of B) -/
example : phaseReplies (execPhases {} idHashes init [.lookup (pr 1), .execCall, .lookup (pr 2), .execCall, .assessCall,
      .finish (pr 2) .execute .permit, .assessCall, .finish (pr 1) .block .permit, .lookup (pr 2), .lookup (pr 1)]).2 =
    [⟨.gated .success, some ⟨true, .success, false, some ⟨2, .assessor⟩, false⟩⟩,
     ⟨.gated .neither, some ⟨true, .skipped, true, none, false⟩⟩,
     ⟨.cacheHit, some ⟨true, .success, false, some ⟨2, .assessor⟩, true⟩⟩,
     ⟨.cacheHit, some ⟨true, .skipped, true, none, true⟩⟩] := by decide

/-- a history with re-assignments (TTL, then gate logic) in which the hypotheses of
    `c07_reconfigured_unblocked_reply_traces_to_verdicts` and `c07_configured_gate` are met: the cached SUCCESS of
    request 2 goes back to request 1 -/
example : ((execR idHashes { gate := .or } init
      [.op (.run (pr 1) (.ret .execute) (.ret .block)), .assign { gate := .or, ttl := 5 },
       .op (.run (pr 1) .exc .exc), .assign { gate := .and, ttl := 5 }, .op (.run (pr 2) (.ret .execute) (.ret .block))]).2.map
      fun o => o.out.result.map fun r => (r.blocked, r.cached)) =
    [some (false, false), some (false, true), some (true, false)] := by decide

/-- a raising `on_permit` callback: the SUCCESS result is produced, counted, handed to the callback — and the
    caller gets the callback's exception (hypothesis of `c07_callbacks_only_for_decided_requests` holds) -/
example :
    deliver { onPermit := .raises } {} (run {} idHashes init (pr 1) (.ret .execute) (.ret .permit)).2 =
      ({ requests := 1, permitted := 1, logged := 1, permitHookCalls := 1 },
       .hookRaised (gateResult idHashes .and (pr 1) .execute .permit)) := by decide

end Operon.Cffl
