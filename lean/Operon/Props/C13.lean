import Operon.Lemmas.C13
import Operon.Lemmas.C13Lines
import Operon.Lemmas.C13Tr
import Operon.Lemmas.C13Clients
import Operon.Gen.LysosomeLocks
import Operon.Gen.LysosomeClients
import Operon.Gen.LysosomeTranslated
/-!
# C13 — waste handling never hangs, stays bounded and accounts for every item

Property theorems only.  Model: `Operon/Model/Lysosome.lean` (hand-written; tied to
`operon_ai/organelles/lysosome.py` by the differential correspondence of `harness/vf/props/c13.py` AND by the
agreement theorems `c13_translation_agrees_*` with `Operon/Gen/LysosomeTranslated.lean`, the methods translated from
the Python source on every run) and the lock shapes `Operon/Gen/LysosomeLocks.lean` regenerated from the source by
extractor E3 on every run.

Every statement quantifies over every configuration (`max_queue_size`, `auto_digest_threshold`, retention, the
digester table and the `on_toxic` callback as arbitrary functions that return or raise) and every history
(`List Op`, any length); the thread statement over any number of threads, any calls, any finite paths, any schedule.
-/
namespace Operon.Lysosome
open Operon.Gen.LysosomeLocks

/-- The five places an ingested item can be, as one list. -/
def State.fates (s : State) : List Item :=
  s.queue ++ s.gDigested ++ s.gErrored ++ s.gEmDropped ++ s.gExpired

/-! ### every call returns -/

/-- (table; complete, by evaluation of the decidable check on the extracted shapes) The extractor recognised the
    source, the lock kind is known, every method stored in the digester table is lock-free and every method of
    `Lysosome` is disciplined: it never re-acquires a non-reentrant lock it holds, never releases a lock it does not
    hold, and returns without the lock. -/
theorem c13_shapes_disciplined_table :
    recognised = true ∧ shapesOk lockKind methods tableMethods = true := by decide

/-- Every ingest, digest and autophagy call returns, from any number of threads: threads that each perform any
    sequence of calls of `Lysosome` methods (public or not), each along any finite path (any branch taken or not,
    callbacks run any number of times), under any schedule, never reach a configuration where somebody still has
    work and nobody can move — and `n` steps use up exactly `n` of the finitely many lock events, so no schedule
    runs forever.  Stated for whatever lock kind the source has (`reentOf lockKind = some reent`).  A call that
    leaves a method by an exception (autophagy's TypeError, a raising callback inside `ingest`'s `with`) performs the
    `with`-balanced closure of a prefix of a path; E3 accepts only `with self._lock:` (no explicit acquire/release),
    and in the extracted table no method has a second `with` block after a point where an exception can arise, so
    every such sequence is itself a `Path` (the remaining calls not taken, callbacks done).  This last fact is read off
    the table, not proved for arbitrary shapes. -/
theorem c13_every_call_returns_threads (reent : Bool) (hk : reentOf lockKind = some reent) (threads : List Thr)
    (h : ∀ t ∈ threads, t.depth = 0 ∧ CallsProg methods tableMethods t.prog) (n : Nat) (c : List Thr)
    (hs : StepsN reent n threads c) :
    (Final c ∨ ∃ c', Step reent c c') ∧ measure threads = measure c + n :=
  threads_return c13_shapes_disciplined_table.2 hk threads h hs

/-- (corollary / sanity check — in the model the only way not to return is `ingest` re-acquiring a non-reentrant
    lock, so this restates "the extracted lock kind is re-entrant"; what carries the clause is
    `c13_every_call_returns_threads` + E3 for lock-induced hangs, and `c13_translated_loops_bounded_table` + the
    agreement theorems for loops: the methods as translated from the source are total functions equal to the model's
    steps.)  Sequentially, for any configuration and history (including items whose `created_at` is far in the past or the
    future, or timezone-aware): every call gives control back to its caller — with a result, or (only `autophagy`
    meeting a timezone-aware `created_at`) with an exception after which the lock is free and nothing has changed —
    never `hang`, never the abandoned-object marker; including the ingest that reaches the auto-digest threshold or
    capacity.  The model's lock flag is the extracted lock kind. -/
theorem c13_every_call_returns (cfg : Cfg) (hre : cfg.reent = (reentOf lockKind == some true)) (ops : List Op) :
    (∀ o ∈ runObs cfg init ops, o.returned = true) ∧ (run cfg init ops).dead = false := by
  have : (reentOf lockKind == some true) = true := by decide
  rw [this] at hre
  exact run_returns cfg hre ops init rfl

/-- (table) In every public method (helpers followed transitively): `_queue`, `_total_ingested` and `_by_type` are
    written only while the lock is held, and the only shared fields ever written without the lock are the recycling
    bin and the two counters of `digest`'s loop (single-line updates).  This is what the thread-level accounting
    argument rests on.  (Stated as an inclusion: moving one of these writes under the lock, splitting methods into
    helpers, adding read-only methods or parameters does not disturb it; a new write outside the lock does.) -/
theorem c13_unlocked_writes_table :
    ∀ mw ∈ unlockedWrites, ∀ f ∈ mw.2, f = "_recycling_bin" ∨ f = "_total_digested" ∨ f = "_total_recycled" := by
  decide

/-! ### the pinned tree: the self-deadlock, kernel-checked -/

/-- the shapes E3 extracts from the pinned tree (commit 8129259), kept as a constant -/
def pinnedMethods : Table := [
  ("__init__", false, []), ("digest", true, [.acq, .rel, .cb]), ("_auto_digest", false, [.call 1]),
  ("_digest_default", false, []), ("_digest_expired", false, []), ("_digest_failed_op", false, []),
  ("_digest_misfolded", false, []), ("_digest_orphaned", false, [.cb]), ("_digest_toxic", false, [.cb]),
  ("_emergency_digest", false, [.cb]), ("autophagy", true, [.acq, .rel]), ("clear_recycling_bin", true, []),
  ("get_queue_status", true, [.acq, .rel]), ("get_recycled", true, []), ("get_statistics", true, []),
  ("ingest", true, [.acq, .call 9, .call 2, .rel]), ("ingest_error", true, [.call 15]),
  ("ingest_sensitive", true, [.call 15])]

/-- On the pinned tree (`threading.Lock`): the check fails; `ingest` has the path acquire, acquire (inside
    `_auto_digest → digest`), release, release; and a thread on that path, once it has taken the lock, never moves
    again whatever the other threads do — the configuration is never finished, i.e. the call never returns. -/
theorem c13_pinned_shape_stuck_witness :
    shapesOk .lock pinnedMethods [3, 4, 5, 6, 7, 8] = false ∧
    Path pinnedMethods [3, 4, 5, 6, 7, 8] (Table.body pinnedMethods 15) [.acq, .acq, .rel, .rel] ∧
    ∀ (others : List Thr) (n : Nat) (c : List Thr), (∀ u ∈ others, u.depth = 0) →
      StepsN false n (⟨1, [.acq, .rel, .rel]⟩ :: others) c → ¬ Final c := by
  refine ⟨by decide, ?_, ?_⟩
  · have hdig : Path pinnedMethods [3, 4, 5, 6, 7, 8] (Table.body pinnedMethods 1) [.acq, .rel] :=
      Path.acq (Path.rel (Path.cbDone Path.nil))
    have hauto : Path pinnedMethods [3, 4, 5, 6, 7, 8] (Table.body pinnedMethods 2) ([.acq, .rel] ++ []) :=
      Path.callTake hdig Path.nil
    exact Path.acq (Path.callSkip (Path.callTake hauto (Path.rel Path.nil)))
  · intro others n c hz hs hf
    have hh : holders (⟨1, [.acq, .rel, .rel]⟩ :: others) ≤ 1 := by
      have := holders_mid [] others ⟨1, [.acq, .rel, .rel]⟩
      simp only [List.nil_append] at this
      rw [this, holders_zero_of_all hz]
      simp [holders]
    have := (stuck_forever (d := 1) (r := [.rel, .rel]) (by omega) (by simp) hh hs).1
    have := hf _ this
    simp at this

/-- The same in the sequential model: with a non-reentrant lock the second ingest of the corpus history
    `cfg 2 2 … / ingest / ingest` hangs. -/
theorem c13_pinned_ingest_hangs_witness :
    (runObs ⟨2, 2, 3515625, false, fun _ => .ret [], none, none⟩ init
      [.ingest 1 .expired 2 .now, .ingest 2 .expired 2 .now]).map Obs.returned = [true, false] := by decide

/-! ### bounded queue -/

/-- After every call the queue holds at most `max_queue_size` items, for `max_queue_size ≥ 2`, any threshold, any
    digesters, any history. -/
theorem c13_queue_bounded (cfg : Cfg) (h2 : 2 ≤ cfg.maxQ) (ops : List Op) :
    (run cfg init ops).queue.length ≤ cfg.maxQ :=
  run_queue_bound cfg h2 ops init (by simp [init])

/-- (witness that the side condition is needed) with `max_queue_size = 1` the emergency digest processes
    `1 // 2 = 0` items and the queue grows past the bound. -/
theorem c13_queue_bound_needs_two_witness :
    (run ⟨1, 1000, 0, true, fun _ => .ret [], none, none⟩ init
      [.ingest 1 .expired 0 .now, .ingest 2 .expired 0 .now]).queue.length = 2 := by decide

/-! ### every item has exactly one fate -/

/-- After any history, under any configuration and any digester behaviour: the queue and the four ghost lists
    (digested, errored — the digester raised, or handed back a value `recycled.update` could not merge —,
    emergency-dropped, expired) together are a rearrangement of the list of all ingested items,
    without repetition — every ingested item is in exactly one of the five places, exactly once — and the observable
    numbers are the sizes of those places: `_total_ingested` items were ingested (distinct, numbered 0,1,2,…),
    `_total_digested` counts the digested ones, the errors returned in `DigestResult`s plus the errors logged by
    `_auto_digest` count the errored ones, the warnings of `_emergency_digest` the emergency-dropped ones, and the
    sum of `autophagy()`'s return values the expired ones. -/
theorem c13_fate_partition (cfg : Cfg) (ops : List Op) :
    let s := run cfg init ops
    s.fates.Perm s.items ∧ s.fates.Nodup ∧ s.items.map (·.seq) = List.range s.ingested ∧
    s.digested = s.gDigested.length ∧ s.reported + s.autoLogged = s.gErrored.length ∧
    s.emLogged = s.gEmDropped.length ∧ s.expiredRet = s.gExpired.length := by
  intro s
  have h : Acct s := run_acct cfg ops init init_acct
  have hpend : s.gPending = [] := run_pending cfg ops init
  have hperm : s.fates.Perm s.items := by
    rw [List.perm_iff_count]
    intro it
    have := h.occ_eq it
    simp only [State.fates, List.count_append, occ, hpend, List.map_nil, List.count_nil] at this ⊢
    omega
  have hnd : s.items.Nodup := by
    have : (s.items.map (·.seq)).Nodup := by rw [h.seqs]; exact List.nodup_range
    exact List.Pairwise.of_map (·.seq) (fun a b hab e => hab (by rw [e])) this
  exact ⟨hperm, hperm.nodup_iff.mpr hnd, h.seqs, h.dig, h.err, h.em, h.exp⟩

/-- The conservation equation in numbers (what the harness oracle evaluates on the real object). -/
theorem c13_conservation (cfg : Cfg) (ops : List Op) :
    let s := run cfg init ops
    s.ingested = s.queue.length + s.digested + (s.reported + s.autoLogged) + s.emLogged + s.expiredRet := by
  intro s
  have hs : s = run cfg init ops := rfl
  clear_value s
  subst hs
  obtain ⟨hp, _, _, h1, h2, h3, h4⟩ := c13_fate_partition cfg ops
  have := hp.length_eq
  simp only [State.fates, List.length_append] at this
  simp only [State.ingested]
  omega

/-- The same when the public settings are re-assigned between calls (`max_queue_size`, `auto_digest_threshold`,
    `retention_period`, `on_toxic`, the digester table: every call of the history runs under its own configuration):
    the five places still partition the ingested items and the counters are their sizes. -/
theorem c13_fate_partition_changing_config (hist : List (Cfg × Op)) :
    let s := runC init hist
    s.fates.Perm s.items ∧ s.fates.Nodup ∧ s.items.map (·.seq) = List.range s.ingested ∧
    s.digested = s.gDigested.length ∧ s.reported + s.autoLogged = s.gErrored.length ∧
    s.emLogged = s.gEmDropped.length ∧ s.expiredRet = s.gExpired.length := by
  intro s
  have h : Acct s := runC_acct hist init init_acct
  have hpend : s.gPending = [] := runC_pending hist init
  have hperm : s.fates.Perm s.items := by
    rw [List.perm_iff_count]
    intro it
    have := h.occ_eq it
    simp only [State.fates, List.count_append, occ, hpend, List.map_nil, List.count_nil] at this ⊢
    omega
  have hnd : s.items.Nodup := by
    have : (s.items.map (·.seq)).Nodup := by rw [h.seqs]; exact List.nodup_range
    exact List.Pairwise.of_map (·.seq) (fun a b hab e => hab (by rw [e])) this
  exact ⟨hperm, hperm.nodup_iff.mpr hnd, h.seqs, h.dig, h.err, h.em, h.exp⟩

/-- … and the queue bound, as long as `max_queue_size` itself keeps one value `m ≥ 2` (threshold, retention,
    digesters, callback may change at will).  (Lowering `max_queue_size` on a live object leaves the queue above the new
    bound until enough ingests have run: the bound is an invariant only for a constant capacity.) -/
theorem c13_queue_bounded_changing_config (m : Nat) (h2 : 2 ≤ m) (hist : List (Cfg × Op))
    (hm : ∀ co ∈ hist, co.1.maxQ = m) : (runC init hist).queue.length ≤ m :=
  runC_queue_bound m h2 hist init hm (by simp [init])

/-- The same for several threads at the level of atomic actions (whole `ingest`/`autophagy` calls under the lock,
    `digest` split into its locked pop and one loop iteration per popped item, interleaved arbitrarily among any
    number of threads): at every moment each ingested item is in exactly one of the five places or pending in
    exactly one running digest call, the counters are the sizes of the places — and whenever no digest call is in
    flight (quiescence) the sequential statement holds verbatim. -/
theorem c13_fate_partition_concurrent (cfg : Cfg) (acts : List Act) :
    let s := runActs cfg init acts
    (s.fates ++ s.gPending.map (·.2)).Perm s.items ∧ (s.fates ++ s.gPending.map (·.2)).Nodup ∧
    s.digested = s.gDigested.length ∧ s.reported + s.autoLogged = s.gErrored.length ∧
    s.emLogged = s.gEmDropped.length ∧ s.expiredRet = s.gExpired.length ∧
    (s.gPending = [] → s.fates.Perm s.items ∧ s.fates.Nodup ∧
      s.ingested = s.queue.length + s.digested + (s.reported + s.autoLogged) + s.emLogged + s.expiredRet) := by
  intro s
  have h : Acct s := runActs_acct cfg acts init init_acct
  have hperm : (s.fates ++ s.gPending.map (·.2)).Perm s.items := by
    rw [List.perm_iff_count]
    intro it
    have := h.occ_eq it
    simp only [State.fates, List.count_append, occ] at this ⊢
    omega
  have hnd : s.items.Nodup := by
    have : (s.items.map (·.seq)).Nodup := by rw [h.seqs]; exact List.nodup_range
    exact List.Pairwise.of_map (·.seq) (fun a b hab e => hab (by rw [e])) this
  refine ⟨hperm, hperm.nodup_iff.mpr hnd, h.dig, h.err, h.em, h.exp, ?_⟩
  intro hq
  have hperm' : s.fates.Perm s.items := by simpa [hq] using hperm
  refine ⟨hperm', hperm'.nodup_iff.mpr hnd, ?_⟩
  have := hperm'.length_eq
  have := h.dig; have := h.err; have := h.em; have := h.exp
  simp only [State.fates, List.length_append] at *
  simp only [State.ingested]
  omega

/-- … the queue bound, … -/
theorem c13_queue_bounded_concurrent (cfg : Cfg) (h2 : 2 ≤ cfg.maxQ) (acts : List Act) :
    (runActs cfg init acts).queue.length ≤ cfg.maxQ :=
  runActs_queue_bound cfg h2 acts init (by simp [init])

/-- **Line level.**  The lysosome's client threads presented in the generic lock semantics shared with C05
    (`Operon.Lock`): each call is one region on the queue lock (the outermost `with self._lock`, re-entrant inner
    acquisitions erased) — `ingest…`, `autophagy`, the pop of `digest` — or the loop of `digest`, which only adds to the
    calling thread's own account (single-line commuting counter increments) and is a region on a lock private to the
    thread.  Every region may be cut into source lines in ANY way.  Then, for any number of threads on a fresh
    lysosome and ANY interleaving of their lines: every quiescent configuration reached (in particular the final one) is
    exactly what running whole regions one after the other (in an order that keeps each thread's own) produces, and in
    it every ingested item is in the queue or in exactly one thread's account (pending / digested / errored /
    emergency-dropped / expired), exactly once; items are numbered 0,1,2,…; the queue bound holds. -/
theorem c13_lines_reduce_to_atomic_regions (cfg : Cfg) (ts : List (Operon.Lock.RThread Loc QS))
    (hreg : ∀ t ∈ ts, ∀ r ∈ t.todo, LysRegion cfg r) (hloc : ∀ t ∈ ts, t.loc = ⟨[], [], [], [], []⟩)
    (c : Operon.Lock.Cfg Loc QS)
    (hs : Operon.Lock.Star Operon.Lock.Step (Operon.Lock.RCfg.toCfg ⟨fun _ => ⟨[], [], 0⟩, ts⟩) c)
    (hq : c.quiescent) :
    ∃ rc : Operon.Lock.RCfg Loc QS, c = rc.toCfg ∧
      Operon.Lock.Star Operon.Lock.RStep ⟨fun _ => ⟨[], [], 0⟩, ts⟩ rc ∧
      (∀ it, (rc.st 0).queue.count it + tot rc.threads it = if it ∈ (rc.st 0).items then 1 else 0) ∧
      (rc.st 0).items.map (·.seq) = List.range (rc.st 0).items.length ∧
      (2 ≤ cfg.maxQ → (rc.st 0).queue.length ≤ cfg.maxQ) := by
  obtain ⟨rc, hc, hr, hinv⟩ := lines_reduce cfg _ (linv_fresh cfg ts hreg hloc) c hs hq
  refine ⟨rc, hc, hr, ?_, hinv.seqs, hinv.bound⟩
  intro it
  have hnd : (rc.st 0).items.Nodup := by
    have : ((rc.st 0).items.map (·.seq)).Nodup := by rw [hinv.seqs]; exact List.nodup_range
    exact List.Pairwise.of_map (·.seq) (fun a b hab e => hab (by rw [e])) this
  rw [hinv.occ_eq it, hnd.count]

/-! ### sensitive items -/

/-- With the built-in toxic digester (no custom digester registered for TOXIC_BYPRODUCT): nothing in the recycling
    bin was extracted from a sensitive item, after any history. -/
theorem c13_toxic_never_recycled (cfg : Cfg) (htd : cfg.toxDig = none) (ops : List Op) :
    ∀ kv ∈ (run cfg init ops).bin, kv.2.ty ≠ .toxic :=
  run_bin htd ops init (by intro kv h; simp [init] at h)

/-- … and no `DigestResult.recycled` handed back by a `digest` call contains anything from a sensitive item. -/
theorem c13_toxic_never_in_digest_result (cfg : Cfg) (htd : cfg.toxDig = none) (ops : List Op) (k : Option Int)
    (r : DigestRes) (h : (step cfg (run cfg init ops) (.digest k)).2 = .digest r) :
    ∀ kv ∈ r.recycledKeys, kv.2.ty ≠ .toxic := by
  unfold step at h
  split at h
  · cases h
  · simp only [digest] at h
    cases h
    exact (digestCore_bin htd _ _ false (run_bin htd ops init (by intro kv h; simp [init] at h))).2

/-- With the built-in toxic digester and an `on_toxic` callback (returning or raising): after any history every
    ingested item has reached the callback exactly once if it is sensitive and has been processed (digested,
    errored or emergency-dropped), and never otherwise (not sensitive, still queued, or expired). -/
theorem c13_toxic_callback_exactly_once_when_processed (cfg : Cfg) (f : Item → Bool) (htd : cfg.toxDig = none)
    (hot : cfg.onToxic = some f) (ops : List Op) :
    let s := run cfg init ops
    ∀ it, s.toxicLog.count it =
      if it.ty = .toxic ∧ it ∈ s.gDigested ++ s.gErrored ++ s.gEmDropped then 1 else 0 := by
  intro s it
  have hs : s = run cfg init ops := rfl
  clear_value s
  subst hs
  have ht : ToxInv (run cfg init ops) := run_tox htd hot ops init (by intro it; simp [init])
  obtain ⟨_, hnd, _⟩ := c13_fate_partition cfg ops
  have hle := (List.nodup_iff_count.mp hnd) it
  simp only [State.fates, List.count_append] at hle
  have h0 := ht it
  by_cases hty : it.ty = .toxic
  · by_cases hm : it ∈ (run cfg init ops).gDigested ++ (run cfg init ops).gErrored ++ (run cfg init ops).gEmDropped
    · have hpos := List.count_pos_iff.mpr hm
      simp only [List.count_append] at hpos
      simp only [hty, hm, and_self, if_true] at h0 ⊢
      omega
    · have hz := List.count_eq_zero.mpr hm
      simp only [List.count_append] at hz
      simp only [hty, hm, and_false, if_false, if_true] at h0 ⊢
      omega
  · simpa [hty] using h0

/-- For ANY configuration — a custom digester registered for TOXIC_BYPRODUCT, no callback at all, any callback — and
    any history: no item is handed to `on_toxic` twice; whatever was handed to it is a sensitive item that was
    processed (digested, errored or emergency-dropped) by the built-in toxic digester with a callback installed (so
    with `on_toxic = None` or a custom toxic digester the callback log stays empty); and an item that is still queued
    or was removed by autophagy has not been handed to it. -/
theorem c13_toxic_callback_at_most_once_any_config (cfg : Cfg) (ops : List Op) :
    let s := run cfg init ops
    ∀ it, s.toxicLog.count it ≤ 1 ∧
      (it ∈ s.toxicLog → it.ty = .toxic ∧ cfg.toxDig = none ∧ cfg.onToxic.isSome = true ∧
        it ∈ s.gDigested ++ s.gErrored ++ s.gEmDropped) ∧
      (it ∈ s.queue ++ s.gExpired → it ∉ s.toxicLog) := by
  intro s it
  have hs : s = run cfg init ops := rfl
  clear_value s
  subst hs
  have ht := run_toxG cfg ops init (by intro it; simp [init]) it
  obtain ⟨_, hnd, _⟩ := c13_fate_partition cfg ops
  have hle := (List.nodup_iff_count.mp hnd) it
  simp only [State.fates, List.count_append] at hle
  cases hc : callsToxic cfg it
  case true =>
    simp only [hc, if_true] at ht
    refine ⟨by omega, fun _ => ?_, fun hm => ?_⟩
    · obtain ⟨a, b, c⟩ := callsToxic_true hc
      refine ⟨a, b, c, ?_⟩
      rename_i hm
      have := List.count_pos_iff.mpr hm
      have h2 : 0 < (List.count it (run cfg init ops).gDigested + List.count it (run cfg init ops).gErrored +
          List.count it (run cfg init ops).gEmDropped) := by omega
      rw [← List.count_pos_iff]
      simp only [List.count_append]
      omega
    · intro hin
      have h1 := List.count_pos_iff.mpr hin
      have h2 := List.count_pos_iff.mpr hm
      simp only [List.count_append] at h2
      omega
  case false =>
    simp [hc] at ht
    have hz : it ∉ (run cfg init ops).toxicLog := List.count_eq_zero.mp ht
    exact ⟨by omega, fun hm => absurd hm hz, fun _ => hz⟩


/-- (the reading of "reach the toxic callback exactly once" that holds on the code) A sensitive item removed by
    `autophagy` is discarded WITHOUT the callback ever running: here one sensitive item is ingested with a callback
    installed, the retention period passes, autophagy removes it — expired, callback log empty.  "Exactly once" is
    proved for the sensitive items that were processed (`c13_toxic_callback_exactly_once_when_processed`); for
    every other item, expired ones included, the count is zero (`c13_toxic_callback_at_most_once_any_config`). -/
theorem c13_toxic_expired_never_reaches_callback_witness :
    let s := run ⟨8, 8, 10, true, fun _ => .ret [], none, some fun _ => true⟩ init
      [.ingest 1 .toxic 1 .now, .advance 10, .autophagy]
    s.gExpired.map (·.id) = [1] ∧ s.toxicLog = [] ∧ s.queue = [] ∧ s.gDigested = [] := by decide

/-- Both toxic clauses for several threads (atomic actions as in `c13_fate_partition_concurrent`): no bin entry
    from a sensitive item; the callback has run exactly once for every sensitive item that has been processed and
    never for any other (queued, expired, pending, or not sensitive). -/
theorem c13_toxic_concurrent (cfg : Cfg) (f : Item → Bool) (htd : cfg.toxDig = none) (hot : cfg.onToxic = some f)
    (acts : List Act) :
    (∀ kv ∈ (runActs cfg init acts).bin, kv.2.ty ≠ .toxic) ∧
    ∀ it, (runActs cfg init acts).toxicLog.count it =
      if it.ty = .toxic ∧ it ∈ (runActs cfg init acts).gDigested ++ (runActs cfg init acts).gErrored ++
        (runActs cfg init acts).gEmDropped then 1 else 0 := by
  refine ⟨runActs_bin htd acts init (by intro kv h; simp [init] at h), ?_⟩
  intro it
  have ht : ToxInv (runActs cfg init acts) := runActs_tox htd hot acts init (by intro it; simp [init])
  obtain ⟨_, hnd, _⟩ := c13_fate_partition_concurrent cfg acts
  have hle := (List.nodup_iff_count.mp hnd) it
  simp only [State.fates, List.count_append] at hle
  have h0 := ht it
  by_cases hty : it.ty = .toxic
  · by_cases hm : it ∈ (runActs cfg init acts).gDigested ++ (runActs cfg init acts).gErrored ++
        (runActs cfg init acts).gEmDropped
    · have hpos := List.count_pos_iff.mpr hm
      simp only [List.count_append] at hpos
      simp only [hty, hm, and_self, if_true] at h0 ⊢
      omega
    · have hz := List.count_eq_zero.mpr hm
      simp only [List.count_append] at hz
      simp only [hty, hm, and_false, if_false, if_true] at h0 ⊢
      omega
  · simpa [hty] using h0

/-! ### the translated source

`Operon/Gen/LysosomeTranslated.lean` is regenerated from `lysosome.py` on every run by
`harness/vf/extract/py2lean_lysosome.py` (a fail-closed translator of the Python AST into Lean definitions over the
concrete state `PyS`).  The theorems below prove every translated entry point equal to the hand-written model
(`conc` forgets the model's ghost bookkeeping), then that a whole history through the translated methods is the
concrete part of the model's run, and finally restate the property about the translated source itself. -/
section Translated
set_option linter.unusedSimpArgs false

/-- closes `∀ acc it, <generated loop body> acc it = <canonical loop body> acc it` (the side condition of `foldl_em`,
    `foldl_dig`, `foldl_log`) whatever the generated body looks like, by cases on what the digester did -/
local macro "loop_body" c:term : tactic => `(tactic| first
  | (intro s e; rfl)
  | (intro s it
     simp only [emIter, succeedsEm, pyCall_fst, pyCall_snd]
     rcases out_cases $c it with ⟨ks, h⟩ | h | ⟨ks, h⟩ <;> simp_all; done)
  | (intro acc it
     simp only [digIter, succeeds, keysOf, pyCall_fst, pyCall_snd]
     rcases out_cases $c it with ⟨ks, h⟩ | h | ⟨ks, h⟩
     · cases ks <;> simp_all [dictUpdate, PyVal.truthy, pyDictUpdateM]
     · simp_all [dictUpdate]
     · simp_all [dictUpdate, PyVal.truthy, pyDictUpdateM]
     done))

/-- (table) Every entry point (`ingest`, `ingest_error`, `ingest_sensitive`, `digest`, `autophagy`,
    `clear_recycling_bin`, the toxic digester) and every helper it reaches was accepted by the translator: the source
    has no `while`, no recursion among these methods, no generator; every `for` runs over a finite list that is fixed
    when the loop starts and that the loop body was checked not to mutate in place (`Tr.loops`).  Each translated
    method is therefore a total Lean function by structural recursion (`List.foldl` / `List.filter`), and the
    agreement theorems below prove these functions equal to the model's steps: this — not the model's `hang` flag — is
    what says that a call cannot spin (a change like "loop while the queue is at the threshold" makes `ingest`
    untranslatable: this table theorem and `c13_translation_agrees_ingest` fail).  Foreign code (digesters,
    callbacks) is assumed to return. -/
theorem c13_translated_loops_bounded_table : Tr.allLoopsBounded = true := by decide

/-- (table) Evaluated on the real class: a freshly constructed `Lysosome` stores one of its own methods in the
    digester table for TOXIC_BYPRODUCT — the method translated as `Tr.toxic_digester` — and the table has an entry
    for every waste type. -/
theorem c13_translation_table_evaluated : Tr.tableEvaluated = true := by decide

/-- a source that returns early (`return DigestResult(success=True)`) when the batch it took is empty: what is left of
    the goal is "batch empty → the loop's closed form on the empty batch changes nothing" -/
local macro "early_return_branch" : tactic =>
  `(tactic| (intro hE; first | (rcases hE with hE | hE <;> simp_all [digClosed, dictUpdate]) | simp_all [digClosed, dictUpdate]))

/-- `Lysosome.digest` as translated from the source, run on the concrete part of any model state, gives exactly the
    concrete part of the model's `digest` and the same `DigestResult` (success flag, recycled dict, disposed count,
    number of errors), for every `max_items` (None, 0, positive, negative). -/
theorem c13_translation_agrees_digest (cfg : Cfg) (s : State) (k : Option Int) :
    Tr.digest cfg (conc s) k = (conc (digest cfg s k).1, (digest cfg s k).2.toDigest) := by
  have h : ∀ p : PyS, Tr.digest cfg p k = pyDigestCore cfg p (sliceCount p.queue.length k) false := by
    intro p
    cases h : pyTruthyOInt k <;>
      simp only [Tr.digest, lysTr, h, pySliceTo_truthy, drop_length_take, Bool.false_eq_true, if_false, if_true]
    all_goals simp (disch := loop_body cfg) only [foldl_dig cfg]
    · simp [pyDigestCore, sliceCount_falsy _ _ h, decide_nil_unit, decide_len0_unit] <;> early_return_branch
    · simp [pyDigestCore, decide_nil_unit, decide_len0_unit] <;> early_return_branch
  rw [h, pyDigestCore_conc]
  rfl

/-- The translated `ingest` (with whatever helpers it calls: emergency digest at capacity, append, counters,
    auto-digest of half the queue at the threshold with its errors logged), for a re-entrant lock, on the `Waste`
    object the model numbers `mkItem …`: exactly the concrete part of the model's `ingest`. -/
theorem c13_translation_agrees_ingest (cfg : Cfg) (hre : cfg.reent = true) (s : State) (id : Nat) (ty : WType)
    (c : Nat) (st : Stamp) :
    Tr.ingest cfg (conc s) (mkItem s id ty c st) = (conc (ingest cfg s id ty c st).1, ()) := by
  have hd : ∀ (p : PyS) k, Tr.digest cfg p k = pyDigestCore cfg p (sliceCount p.queue.length k) false := by
    intro p k
    cases h : pyTruthyOInt k <;>
      simp only [Tr.digest, lysTr, h, pySliceTo_truthy, drop_length_take, Bool.false_eq_true, if_false, if_true]
    all_goals simp (disch := loop_body cfg) only [foldl_dig cfg]
    · simp [pyDigestCore, sliceCount_falsy _ _ h, decide_nil_unit, decide_len0_unit] <;> early_return_branch
    · simp [pyDigestCore, decide_nil_unit, decide_len0_unit] <;> early_return_branch
  have h : ∀ (p : PyS) (it : Item), Tr.ingest cfg p it = (pyIngest cfg p it, ()) := by
    intro p it
    simp only [Tr.ingest, lysTr, hd]
    simp (disch := loop_body cfg) only [foldl_em cfg, foldl_log, foldl_dig cfg]
    simp only [pyDigestCore_auto]
    by_cases h1 : p.queue.length ≥ cfg.maxQ <;> rcases Nat.lt_or_ge p.queue.length 2 with h2 | h2
    all_goals first
      | (have h2a : p.queue.length / 2 = 0 := by omega
         have h2b : ¬ 2 ≤ p.queue.length := by omega
         simp [h1, h2a, h2b, pyIngest, pyEnqueue, pyEmergency]
         try (split <;> rfl))
      | (have h2a : ¬ p.queue.length / 2 = 0 := by omega
         have h2b : 0 < p.queue.length / 2 := by omega
         simp [h1, h2, h2a, h2b, pyIngest, pyEnqueue, pyEmergency]
         try (split <;> rfl))
  rw [h, pyIngest_conc cfg hre]

/-- `ingest_error` / `ingest_sensitive` as translated: they build a `Waste` of type FAILED_OPERATION resp.
    TOXIC_BYPRODUCT (whatever the caller-visible rest of the object is) and `ingest` it. -/
theorem c13_translation_agrees_ingest_error (cfg : Cfg) (p : PyS) (w : Item) :
    Tr.ingest_error cfg p w = Tr.ingest cfg p { w with ty := .failedOp } := by
  simp only [Tr.ingest_error, lysTr]

theorem c13_translation_agrees_ingest_sensitive (cfg : Cfg) (p : PyS) (w : Item) :
    Tr.ingest_sensitive cfg p w = Tr.ingest cfg p { w with ty := .toxic } := by
  simp only [Tr.ingest_sensitive, lysTr]

/-- The translated `autophagy`: the expiry filter `now - created_at < retention_period` on exact microseconds, the
    TypeError on a timezone-aware timestamp (nothing changed, `none`), and the returned count. -/
theorem c13_translation_agrees_autophagy (cfg : Cfg) (s : State) :
    Tr.autophagy cfg (conc s) = (conc (autophagy cfg s).1, (autophagy cfg s).2.toRemoved) := by
  have h : ∀ p : PyS, Tr.autophagy cfg p = pyAutophagy cfg p := by
    intro p
    have hk : keeps cfg p.clock = fun w => decide (((p.clock : Int) - w.created) < cfg.retention) := rfl
    simp only [Tr.autophagy, lysTr, Option.map_map, pyFilterM_timeSub]
    unfold pyAutophagy
    by_cases h : p.queue.any (·.tz)
    · simp [h]
    · simp [h, length_sub_filter, hk, not_decide_le, not_decide_lt]
  rw [h, pyAutophagy_conc]
  rfl

theorem c13_translation_agrees_clear_recycling_bin (cfg : Cfg) (s : State) :
    Tr.clear_recycling_bin cfg (conc s) = (conc { s with bin := [] }, ()) := by
  simp only [Tr.clear_recycling_bin, lysTr]
  rfl

/-- The method the object stores for TOXIC_BYPRODUCT, as translated (`on_toxic` called iff it is set, once, before
    anything else; its exception propagates; the result is the empty dict — a real dict, so always mergeable):
    exactly what the model's `digestOne` says the table entry does for a sensitive item when no custom toxic digester
    is registered. -/
theorem c13_translation_agrees_toxic_digester (cfg : Cfg) (htd : cfg.toxDig = none) (p : PyS) (it : Item)
    (hty : it.ty = .toxic) :
    ((Tr.toxic_digester cfg p it).1, (Tr.toxic_digester cfg p it).2.map PyVal.dict) =
      ({ p with toxicLog := p.toxicLog ++ (pyCallDigester cfg it).2 }, (pyCallDigester cfg it).1) := by
  obtain ⟨maxQ, thr, ret, reent, dig, toxDig, onToxic⟩ := cfg
  simp only at htd
  subst htd
  cases onToxic with
  | none => simp [Tr.toxic_digester, lysTr, pyCallDigester, digestOne, hty, pyCallback]
  | some f => cases hf : f it <;> simp [Tr.toxic_digester, lysTr, pyCallDigester, digestOne, hty, pyCallback, hf]


/-- **"digested (counted)" and "reported as a digestion error" never overlap, call by call** — about the `digest`
    method as translated from the source on this run, on the concrete part of ANY model state, for every `max_items`
    and any digesters (raising, returning dicts / falsy values, or returning truthy values that `recycled.update`
    cannot merge): `_total_digested` grows by exactly `DigestResult.disposed`; every item the call took out of the
    queue is either disposed or reported in `DigestResult.errors`, never both and never neither; and the disposed ones
    are exactly those whose digester returned a mergeable result. -/
theorem c13_translated_digest_counts_what_it_reports (cfg : Cfg) (s : State) (k : Option Int) :
    let r := Tr.digest cfg (conc s) k
    let batch := s.queue.take (sliceCount s.queue.length k)
    r.1.digested = s.digested + r.2.disposed ∧
    r.2.disposed + r.2.errors.length = batch.length ∧
    r.1.queue = s.queue.drop (sliceCount s.queue.length k) ∧
    r.2.disposed = (batch.filter (succeeds cfg)).length ∧
    r.2.success = decide (∀ it ∈ batch, succeeds cfg it = true) := by
  intro r batch
  have hr : r = (conc (digest cfg s k).1, (digest cfg s k).2.toDigest) := c13_translation_agrees_digest cfg s k
  have hl := length_filter_split (succeeds cfg) batch
  rw [hr]
  refine ⟨rfl, ?_, rfl, rfl, ?_⟩
  · simp only [digest, digestCore, Obs.toDigest, PyDigestResult.ofModel, List.length_replicate]
    exact hl
  · simp only [digest, digestCore, Obs.toDigest, PyDigestResult.ofModel]
    simp [List.filter_eq_nil_iff]
    rfl


/-- a configuration whose custom digesters hand back foreign data: content 0 raises, 4 returns a truthy value that
    cannot be merged at all, 5 one whose merge fails after one key went in, anything else a dict with one key -/
def foreignCfg (maxQ thr : Nat) : Cfg :=
  ⟨maxQ, thr, 10, true, fun it => if it.content = 0 then .raise else if it.content = 4 then .bad []
    else if it.content = 5 then .bad [100 + it.id] else .ret [100 + it.id], none, none⟩

example :
    let s := run (foreignCfg 8 100) init [.ingest 1 .expired 2 .now, .ingest 2 .misfolded 5 .now, .ingest 3 .expired 4 .now,
      .ingest 4 .orphaned 0 .now]
    let r := Tr.digest (foreignCfg 8 100) (conc s) none
    s.queue.length = 4 ∧ r.2.disposed = 1 ∧ r.2.errors.length = 3 ∧ r.1.digested = 1 ∧ r.2.success = false := by
  decide

/-- (observation on the code, not a violation: the item has exactly one fate) An item whose digester hands back a value
    that `recycled.update` merges only part of is reported as a digestion error and not counted — but the keys that
    went in before the merge failed stay in the call's `recycled` dict and reach the recycling bin with it: here item 2
    (content 5) is errored, `disposed = 1` counts only item 1, and the bin holds a key extracted from item 2. -/
theorem c13_unmergeable_result_partial_keys_reach_bin_witness :
    let s := run (foreignCfg 8 100) init [.ingest 1 .expired 2 .now, .ingest 2 .misfolded 5 .now, .digest none]
    s.gDigested.map (·.id) = [1] ∧ s.gErrored.map (·.id) = [2] ∧ s.digested = 1 ∧ s.reported = 1 ∧
    s.bin.map (fun kv => (kv.1, kv.2.id)) = [(101, 1), (102, 2)] := by decide

/-- (observation on the code) The emergency digest discards what the digesters return without merging it, so there an
    item whose digester handed back an unmergeable value IS counted as digested (nothing could fail): capacity 2, two
    such items queued, the third ingest emergency-digests the older one — digested 1, nothing logged, nothing
    reported.  Either way the item has exactly one fate (`c13_fate_partition`). -/
theorem c13_emergency_counts_unmergeable_result_witness :
    let s := run (foreignCfg 2 100) init [.ingest 1 .expired 4 .now, .ingest 2 .expired 4 .now, .ingest 3 .expired 2 .now]
    s.gDigested.map (·.id) = [1] ∧ s.gEmDropped = [] ∧ s.gErrored = [] ∧ s.emLogged = 0 ∧
    s.queue.map (·.id) = [2, 3] := by decide

/-- one protocol operation executed by the TRANSLATED methods -/
def trStep (cfg : Cfg) (r : PyRun) : Op → PyRun
  | .ingest id ty c st => ⟨(Tr.ingest cfg r.obj (mkItemPy r.obj id ty c st)).1, r.reported, r.expired⟩
  | .digest k => ⟨(Tr.digest cfg r.obj k).1, r.reported + (Tr.digest cfg r.obj k).2.errors.length, r.expired⟩
  | .autophagy => ⟨(Tr.autophagy cfg r.obj).1, r.reported, r.expired + (Tr.autophagy cfg r.obj).2.getD 0⟩
  | .advance us => ⟨{ r.obj with clock := r.obj.clock + us }, r.reported, r.expired⟩
  | .clearBin => ⟨(Tr.clear_recycling_bin cfg r.obj).1, r.reported, r.expired⟩

def trRun (cfg : Cfg) : PyRun → List Op → PyRun
  | r, [] => r
  | r, op :: ops => trRun cfg (trStep cfg r op) ops

/-- A whole history executed by the translated methods, from a fresh object, is the concrete part of the model's run
    (for any configuration with a re-entrant lock, any digesters, any history): same queue, counters, bin, callback
    log, log records, same sum of reported errors and of `autophagy()` results. -/
theorem c13_translated_history_agrees (cfg : Cfg) (hre : cfg.reent = true) (ops : List Op) :
    trRun cfg ⟨conc init, 0, 0⟩ ops =
      ⟨conc (run cfg init ops), (run cfg init ops).reported, ((run cfg init ops).expiredRet : Int)⟩ := by
  have key : ∀ (ops : List Op) (s : State), s.dead = false →
      trRun cfg ⟨conc s, s.reported, (s.expiredRet : Int)⟩ ops =
        ⟨conc (run cfg s ops), (run cfg s ops).reported, ((run cfg s ops).expiredRet : Int)⟩ := by
    intro ops
    induction ops with
    | nil => intro s _; rfl
    | cons op ops ih =>
      intro s hd
      have hstep : trStep cfg ⟨conc s, s.reported, (s.expiredRet : Int)⟩ op =
          ⟨conc (step cfg s op).1, (step cfg s op).1.reported, ((step cfg s op).1.expiredRet : Int)⟩ := by
        cases op with
        | ingest id ty c st =>
          have hs : step cfg s (.ingest id ty c st) = ingest cfg s id ty c st := by simp [step, hd]
          simp only [hs, trStep, mkItemPy_conc, c13_translation_agrees_ingest cfg hre,
            (ingest_reported cfg hre s id ty c st).1, (ingest_reported cfg hre s id ty c st).2]
        | digest k =>
          have hs : step cfg s (.digest k) = digest cfg s k := by simp [step, hd]
          simp only [hs, trStep, c13_translation_agrees_digest]
          simp [digest, digestCore, Obs.toDigest, PyDigestResult.ofModel]
        | autophagy =>
          have hs : step cfg s .autophagy = autophagy cfg s := by simp [step, hd]
          have h1 := c13_translation_agrees_autophagy cfg s
          have h2 := autophagy_expired cfg s
          rw [pyAutophagy_conc] at h2
          simp only [hs, trStep, h1, autophagy_reported, h2]
          congr 1
        | advance us =>
          have hs : step cfg s (.advance us) = ({ s with clock := s.clock + us }, .ok) := by simp [step, hd]
          rw [hs]; rfl
        | clearBin =>
          have hs : step cfg s .clearBin = ({ s with bin := [] }, .ok) := by simp [step, hd]
          simp only [hs, trStep, c13_translation_agrees_clear_recycling_bin]
      show trRun cfg (trStep cfg _ op) ops = _
      rw [hstep]
      exact ih _ (step_returns cfg hre s op hd).2
  exact key ops init rfl

/-- **The property about the translated source.**  For the methods as translated from `lysosome.py` on this run, any
    configuration (re-entrant lock), any digesters and callback, any history from a fresh object: the queue bound
    (for `max_queue_size ≥ 2`); the conservation equation over the object's own counters, the returned error counts,
    the log records and the `autophagy()` results; nothing extracted from a sensitive item in the recycling bin; and
    no item handed to `on_toxic` twice (built-in toxic digester). -/
theorem c13_translated_source_satisfies_property (cfg : Cfg) (hre : cfg.reent = true) (ops : List Op) :
    let r := trRun cfg ⟨conc init, 0, 0⟩ ops
    (2 ≤ cfg.maxQ → r.obj.queue.length ≤ cfg.maxQ) ∧
    (r.obj.ingested : Int) =
      r.obj.queue.length + r.obj.digested + (r.reported + r.obj.autoLogged) + r.obj.emLogged + r.expired ∧
    (cfg.toxDig = none → ∀ kv ∈ r.obj.bin, kv.2.ty ≠ .toxic) ∧
    (cfg.toxDig = none → ∀ f, cfg.onToxic = some f → ∀ it, r.obj.toxicLog.count it ≤ 1) := by
  intro r
  have hr : r = ⟨conc (run cfg init ops), (run cfg init ops).reported, ((run cfg init ops).expiredRet : Int)⟩ :=
    c13_translated_history_agrees cfg hre ops
  rw [hr]
  refine ⟨fun h2 => c13_queue_bounded cfg h2 ops, ?_, fun htd => c13_toxic_never_recycled cfg htd ops, ?_⟩
  · have := c13_conservation cfg ops
    simp only [State.ingested] at this
    simp only [conc]
    omega
  · intro htd f hot it
    have := c13_toxic_callback_exactly_once_when_processed cfg f htd hot ops it
    simp only [conc]
    rw [this]
    split <;> omega

end Translated

/-! ### callers that never hand over a timezone-aware `created_at`; the library's own client -/

/-- Every call returns WITH A RESULT — no exception, no hang — for any configuration and any history in which no
    `ingest` hands over a `Waste` whose `created_at` is timezone-aware (explicit naive datetimes of any value, far past
    or future, are allowed): `ingest` returns, `digest` returns its `DigestResult`, `autophagy` its count.  (The model's
    only exception is `autophagy`'s TypeError on a timezone-aware `created_at`; `c13_every_call_returns` counts that
    as a return, this statement shows when it cannot happen.) -/
theorem c13_calls_return_results_without_aware_stamp (cfg : Cfg) (hre : cfg.reent = (reentOf lockKind == some true))
    (ops : List Op) (hp : ∀ op ∈ ops, op.plain = true) :
    ∀ o ∈ runObs cfg init ops, o.normal = true := by
  have : (reentOf lockKind == some true) = true := by decide
  rw [this] at hre
  exact run_normal cfg hre ops init rfl init_noTz hp

/-- (witness that the side condition is needed) one timezone-aware item in the queue and `autophagy()` ends in an
    exception — every time, until the item has been digested; nothing expires meanwhile. -/
theorem c13_aware_stamp_makes_autophagy_raise_witness :
    (runObs ⟨8, 8, 10, true, fun _ => .ret [], none, none⟩ init
      [.ingest 1 .expired 1 .now, .ingest 2 .expired 1 .aware, .advance 100, .autophagy, .autophagy, .digest none,
       .autophagy]).map Obs.normal = [true, true, true, false, false, true, true] := by decide

/-- (table: the library's own clients, regenerated on every run by `harness/vf/extract/e3_lysosome_clients.py`) The
    only place in `operon_ai/` outside `lysosome.py` that calls into a lysosome is the context-pruning daemon
    (`healing/autophagy_daemon.py`), and only its `ingest` (and read-only statistics); and in every probed situation
    (forced or not × tiny / large / critical / noisy context) `AutophagyDaemon.check_and_prune`, run on the real code
    against a recording proxy around a real `Lysosome`, did not raise and touched the shared lysosome by exactly one
    `ingest` of an EXPIRED_CACHE item whose `created_at` is the (naive) clock reading at creation when it pruned, and
    not at all when it did not; at least one probed situation prunes. -/
theorem c13_daemon_feeds_one_plain_item_table :
    Gen.LysosomeClients.recognised = true ∧
    (∀ s ∈ Gen.LysosomeClients.sites, s.1 = "operon_ai/healing/autophagy_daemon.py" ∧
      (s.2.2 = "ingest" ∨ s.2.2 = "get_statistics" ∨ s.2.2 = "get_queue_status" ∨ s.2.2 = "get_recycled")) ∧
    (∀ r ∈ Gen.LysosomeClients.probeRuns, r.ok = true) ∧
    Gen.LysosomeClients.probeRuns.any (·.pruned) = true := by decide

/-- (table, MEASURED on the real class on every run) What the library itself puts into the wastes it builds: a `Waste`
    created without `created_at` carries the naive clock reading of its creation, and one `ingest_error(…)` / one
    `ingest_sensitive(…)` call queues exactly one FAILED_OPERATION / TOXIC_BYPRODUCT item stamped that way — this is what
    the model's convenience operations (`Stamp.now`) and the translator's `fresh` item take for granted. -/
theorem c13_library_made_wastes_are_plain_table :
    Gen.LysosomeClients.wasteDefaultStamp = some .now ∧
    Gen.LysosomeClients.ingestErrorMakes = [.ingest .failedOp .now] ∧
    Gen.LysosomeClients.ingestSensitiveMakes = [.ingest .toxic .now] := by decide

/-- An application that shares its lysosome with the daemon: for any configuration and any interleaving of the
    application's own calls (none of which hands over a timezone-aware `created_at`) with daemon cycles — each behaving
    like one of the runs probed on the real `check_and_prune` — every call on the lysosome returns with a result:
    in particular `autophagy()` never meets an item it cannot compare with its `now()`.  The history is an ordinary
    history of the model, so the queue bound, the fate partition and the toxic clauses (`c13_queue_bounded`,
    `c13_fate_partition`, …) hold for it as they stand: the daemon's item is one more ingested item with exactly one
    fate. -/
theorem c13_shared_with_daemon_calls_return_results (cfg : Cfg)
    (hre : cfg.reent = (reentOf lockKind == some true)) (calls : List Call)
    (happ : ∀ op, Call.app op ∈ calls → op.plain = true) :
    ∀ o ∈ runObs cfg init (calls.flatMap (Call.ops Gen.LysosomeClients.probeRuns)), o.normal = true := by
  apply c13_calls_return_results_without_aware_stamp cfg hre
  intro op hop
  obtain ⟨call, hcall, hop⟩ := List.mem_flatMap.mp hop
  exact callOps_plain _ c13_daemon_feeds_one_plain_item_table.2.2.1 call
    (fun o ho => happ o (ho ▸ hcall)) op hop

/-- The same from any number of threads, at the level of atomic actions (whole `ingest` / `autophagy` calls under the
    lock, `digest` as its locked pop and one loop iteration per popped item, every interleaving, daemon cycles being
    `ingest` actions like any other): as long as no `ingest` hands over a timezone-aware `created_at`, at EVERY reachable
    point no queued item is timezone-aware, so an `autophagy()` call made at that point — by whichever thread — returns
    its count and never raises. -/
theorem c13_autophagy_returns_result_concurrent (cfg : Cfg) (hre : cfg.reent = (reentOf lockKind == some true))
    (as : List Act) (hp : ∀ o, Act.op o ∈ as → o.plain = true) :
    (∀ it ∈ (runActs cfg init as).queue, it.tz = false) ∧
    (autophagy cfg (runActs cfg init as)).2.normal = true := by
  have : (reentOf lockKind == some true) = true := by decide
  rw [this] at hre
  have h := (runActs_noTz cfg hre as init rfl init_noTz hp).1
  exact ⟨h, autophagy_normal_of_noTz cfg _ h⟩

/-! ### Non-vacuity: concrete configurations and histories meeting the hypotheses, exercising every fate -/

/-- digester raises on content 0, returns a key otherwise; `on_toxic` raises on content 0 -/
private def cfgEx : Cfg :=
  ⟨2, 3, 10, true, fun it => if it.content = 0 then .raise else .ret [100 + it.id], none, some fun it => it.content != 0⟩

private def histEx : List Op :=
  [.ingest 1 .expired 0 .now, .ingest 2 .toxic 1 .now, .ingest 3 .expired 1 .now,    -- capacity: emergency digest drops item 1
   .digest (some 1), .ingest 4 .toxic 0 .now, .advance 10, .autophagy,     -- toxic item 2 digested; items 3, 4 expire
   .ingest 5 .expired 0 .now, .ingest 6 .misfolded 1 .now, .digest none]        -- item 5 errors, item 6 digested

/-- all five fates occur, the toxic callback ran once for the processed toxic item and not for the expired one, the
    bin holds a key — the hypotheses of the theorems above (`2 ≤ maxQ`, built-in toxic digester, callback set,
    re-entrant lock) are met by a history that exercises them -/
example :
    let s := run cfgEx init histEx
    s.queue.map (·.id) = [] ∧ s.gEmDropped.map (·.id) = [1] ∧ s.gDigested.map (·.id) = [2, 6] ∧
    s.gExpired.map (·.id) = [3, 4] ∧ s.gErrored.map (·.id) = [5] ∧ s.toxicLog.map (·.id) = [2] ∧
    s.bin.map (·.1) = [106] ∧ s.ingested = 6 ∧ 2 ≤ cfgEx.maxQ ∧ cfgEx.toxDig = none := by decide

/-- a history with settings re-assigned between calls (threshold lowered, then a raising digester installed) meeting
    the hypothesis of `c13_queue_bounded_changing_config` (capacity constant 4) -/
example :
    let c1 : Cfg := ⟨4, 8, 10, true, fun _ => .ret [], none, none⟩
    let c2 : Cfg := ⟨4, 2, 10, true, fun _ => .raise, none, none⟩
    let hist := [(c1, Op.ingest 1 .expired 1 .now), (c1, .ingest 2 .expired 1 .now), (c2, .ingest 3 .expired 1 .now)]
    (∀ co ∈ hist, co.1.maxQ = 4) ∧ (runC init hist).queue.map (·.id) = [2, 3] ∧ (runC init hist).autoLogged = 1 := by
  decide

/-- the auto-digest path with a failing item: the error is logged, the item is accounted for -/
example :
    let s := run ⟨8, 2, 10, true, fun it => if it.content = 0 then .raise else .ret [], none, none⟩ init
      [.ingest 1 .expired 0 .now, .ingest 2 .expired 1 .now]
    s.autoLogged = 1 ∧ s.gErrored.map (·.id) = [1] ∧ s.queue.map (·.id) = [2] := by decide

/-- a thread program meeting the hypothesis of `c13_every_call_returns_threads`: one `ingest` call along a path that
    takes and releases the lock — found in the extracted table by name (`hasPath`, proved sound), whatever helpers the
    methods are split into and in whatever order they come -/
example : CallsProg methods tableMethods [.acq, .rel] := by
  refine ⟨[(Table.idx methods "ingest", [.acq, .rel])], ?_, by simp⟩
  intro c hc
  simp only [List.mem_singleton] at hc
  subst hc
  have hp : hasPath methods "ingest" [.acq, .rel] = true := by decide
  exact ⟨by decide, hasPath_sound hp⟩

example : reentOf lockKind = some true := by decide

/-- regions meeting `LysRegion` (hypothesis of `c13_lines_reduce_to_atomic_regions`): an ingest as a single-line
    region, the pop of `digest(1)`, and digest's loop cut into two lines on a private lock -/
example : LysRegion cfgEx ⟨0, [opEff cfgEx (.ingest 1 .expired 2 .now)]⟩ ∧ LysRegion cfgEx ⟨0, [popEff (some 1)]⟩ ∧
    LysRegion cfgEx ⟨7, [fun l x => (l, x), fun l x => (iterEff cfgEx l, x)]⟩ := by
  refine ⟨Or.inl ⟨rfl, Or.inl ⟨1, .expired, 2, .now, fun _ _ => rfl⟩⟩,
    Or.inl ⟨rfl, Or.inr (Or.inr ⟨some 1, fun _ _ => rfl⟩)⟩, Or.inr ⟨by decide, fun _ _ => rfl⟩⟩

/-- two digest calls in flight at once (threads 1 and 2 popped one item each, thread 2's iteration runs first, an
    ingest with emergency digest happens in between): not quiescent in the middle, quiescent and balanced at the end -/
example :
    let mid := runActs cfgEx init [.op (.ingest 1 .expired 1 .now), .op (.ingest 2 .toxic 1 .now), .pop 1 (some 1), .pop 2 (some 1)]
    let fin := runActs cfgEx mid [.iter 2, .op (.ingest 3 .expired 0 .now), .iter 1]
    mid.gPending.map (fun p => (p.1, p.2.id)) = [(1, 1), (2, 2)] ∧ mid.queue = [] ∧
    fin.gPending = [] ∧ fin.gDigested.map (·.id) = [2, 1] ∧ fin.toxicLog.map (·.id) = [2] ∧
    fin.queue.map (·.id) = [3] := by decide

private def callsEx : List Call :=
  [.app (.ingest 1 .misfolded 1 .now), .client 2 3, .app (.advance 20), .app .autophagy, .app (.digest none)]

/-- a shared history meeting the hypotheses of `c13_shared_with_daemon_calls_return_results`: application items, a
    daemon cycle that prunes (probed run 3: forced, large context), time passing, `autophagy` expiring the daemon's
    item together with the application's — four calls on the lysosome, four results -/
example :
    (∀ op, Call.app op ∈ callsEx → op.plain = true) ∧
    callsEx.flatMap (Call.ops Gen.LysosomeClients.probeRuns) =
      [.ingest 1 .misfolded 1 .now, .ingest 2 .expired 1 .now, .advance 20, .autophagy, .digest none] ∧
    (run cfgEx init (callsEx.flatMap (Call.ops Gen.LysosomeClients.probeRuns))).gExpired.map (·.id) = [1, 2] := by
  refine ⟨?_, by decide, by decide⟩
  intro op h
  simp only [callsEx, List.mem_cons, Call.app.injEq, List.not_mem_nil, or_false, reduceCtorEq, false_or] at h
  rcases h with h | h | h | h <;> subst h <;> rfl

private def actsEx : List Act :=
  [.op (.ingest 1 .expired 1 .now), .pop 1 (some 1), .op (.ingest 2 .toxic 1 (.at (-5))), .iter 1, .op (.advance 20)]

/-- an interleaving meeting the hypothesis of `c13_autophagy_returns_result_concurrent` (a digest call of thread 1 in
    flight around an ingest with an explicit naive timestamp in the past): the `autophagy()` made there removes the
    remaining item and returns 1 -/
example :
    (∀ o, Act.op o ∈ actsEx → o.plain = true) ∧
    (match (autophagy cfgEx (runActs cfgEx init actsEx)).2 with | .removed n => n | _ => 99) = 1 := by
  refine ⟨?_, by decide⟩
  intro o h
  simp only [actsEx, List.mem_cons, Act.op.injEq, List.not_mem_nil, or_false, reduceCtorEq, false_or] at h
  rcases h with h | h | h <;> subst h <;> rfl

end Operon.Lysosome
