import Operon.Model.Lysosome
import Operon.Gen.LysosomeLocks
namespace Operon.Lysosome
theorem c13_stub : (run ⟨2, 2, 0, true, fun _ => .ret [], none, none⟩ init []).queue = [] := rfl
end Operon.Lysosome
