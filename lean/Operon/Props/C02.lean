import Operon.Lemmas.C02
import Operon.Gen.MitoFacts
/-!
# C02 — the safe evaluator computes the value Python computes on the allowed subset

Property theorems only.  `walk` mirrors `Mitochondria._compute_node`; `pyEval` is the specification: Python's own
evaluation of the same tree (language reference: operand order, short-circuit `and`/`or` returning the deciding
operand, chained comparisons with single evaluation, conditional expressions, callee – positional – keyword
order), over the SAME environment of primitives.  Both are validated on every run: `walk` against the real walker
and `pyEval` against the real `eval`, over tracer objects that script the environment
(`harness/vf/props/c02.py`); the operator tables are regenerated from the source by E1.

`pyEval` answers "outside the specified subset" on node classes Python evaluates but the engine must not
(attribute access etc.); this only makes the statements below harder (refinement) or is backed by the walker
failing there anyway (`c01_refused_node_fails`).
-/
set_option linter.unusedSimpArgs false
namespace Operon.Mito
open R

/-- Every entry of the operator tables of the CURRENT source is the `operator.*` function Python itself uses for
    that AST class (`ast.Div ↦ truediv`, `ast.FloorDiv ↦ floordiv`, `ast.LtE ↦ le`, …); `Not` has no table entry.
    By `decide` over the tables regenerated from the source by reflection. -/
theorem c02_tables_match_python : TablesSound Gen.tables :=
  tablesSound_of_check _ (by decide)

/-- Refinement.  Whenever the walker succeeds, Python's evaluation of the same tree — in a namespace binding exactly
    the allow-listed names — succeeds with the SAME value.  For every tree, every environment whose comparisons
    return booleans, every table content that matches Python's operators. -/
theorem c02_refines (T : Tables) (env : Env) (hT : TablesSound T) (hc : CmpReturnsBool env) (e : Expr) (v : Val)
    (h : (walk T env e).2 = .ok v) : (pyEval T.names env e).2 = .ok v := by
  rcases walk_sim T env hT hc e with ⟨er, he⟩ | heq
  · rw [h] at he; cases he
  · rw [← heq]; exact h

/-- Whenever Python's evaluation raises, the engine reports failure. -/
theorem c02_python_raises_engine_fails (T : Tables) (env : Env) (hT : TablesSound T) (hc : CmpReturnsBool env)
    (e : Expr) (h : (pyEval T.names env e).failed) : (walk T env e).failed := by
  rcases walk_sim T env hT hc e with hf | heq
  · exact hf
  · rw [heq]; exact h

/-- Nothing is dropped or added: on success the walker made exactly the primitive applications, calls (with all
    positional AND keyword arguments), name lookups and truth tests that Python makes, in the same order. -/
theorem c02_nothing_dropped (T : Tables) (env : Env) (hT : TablesSound T) (hc : CmpReturnsBool env) (e : Expr)
    (v : Val) (h : (walk T env e).2 = .ok v) : (walk T env e).1 = (pyEval T.names env e).1 := by
  rcases walk_sim T env hT hc e with ⟨er, he⟩ | heq
  · rw [h] at he; cases he
  · rw [← heq]

/-- The three statements for the engine as it stands (tables of the current source). -/
theorem c02_current_source_refines (env : Env) (hc : CmpReturnsBool env) (e : Expr) (v : Val)
    (h : (walk Gen.tables env e).2 = .ok v) :
    (pyEval Gen.tables.names env e).2 = .ok v ∧ (walk Gen.tables env e).1 = (pyEval Gen.tables.names env e).1 :=
  ⟨c02_refines _ env c02_tables_match_python hc e v h, c02_nothing_dropped _ env c02_tables_match_python hc e v h⟩

/-- Pathway level (what `_glycolysis` runs after parsing vs. "compile, then evaluate"): the refinement, the failure
    direction and the trace equality hold for the math pathway against `pyRun`, which refuses a repeated keyword
    anywhere in the text — evaluated or not — as CPython's compiler does. -/
theorem c02_math_pathway_refines (T : Tables) (env : Env) (hT : TablesSound T) (hc : CmpReturnsBool env) (e : Expr) :
    (∀ v, (glycolysis T env e).2 = .ok v →
        (pyRun T.names env e).2 = .ok v ∧ (glycolysis T env e).1 = (pyRun T.names env e).1) ∧
    ((pyRun T.names env e).failed → (glycolysis T env e).failed) := by
  unfold glycolysis pyRun
  split
  · exact ⟨fun v h => by simp [R.fail] at h, fun _ => failed_fail _⟩
  · exact ⟨fun v h => ⟨c02_refines T env hT hc e v h, c02_nothing_dropped T env hT hc e v h⟩,
           c02_python_raises_engine_fails T env hT hc e⟩

/-- Keyword arguments reach the callee: a successful call passes every keyword value, by name, in order. -/
theorem c02_keywords_passed (T : Tables) (env : Env) (fn : String) (args kv : List Expr) (kn : List (Option String))
    (v : Val) (h : (walk T env (.call (.name fn) args kn kv)).2 = .ok v) :
    ∃ as ks, (walkList T env args).2 = .ok as ∧ (walkKws T env kn kv).2 = .ok ks ∧
      env.apply (env.lookup fn) as ks = .ok v ∧
      Act.apply (env.lookup fn) as ks ∈ (walk T env (.call (.name fn) args kn kv)).1 := by
  unfold walk at h ⊢
  simp only at h ⊢
  split at h
  · rename_i hm
    split at h
    · simp [R.fail] at h
    · rename_i hdup
      rw [if_pos hm, if_neg hdup]
      rcases h1 : walkList T env args with ⟨t1, r1⟩
      rcases h2 : walkKws T env kn kv with ⟨t2, r2⟩
      cases r1 with
      | error er => simp [R.bind, R.act, h1] at h
      | ok as =>
        cases r2 with
        | error er => simp [R.bind, R.act, h1, h2] at h
        | ok ks =>
          refine ⟨as, ks, rfl, rfl, ?_, ?_⟩
          · simpa [R.bind, R.act, h1, h2] using h
          · simp [R.bind, R.act]
  · simp [R.fail] at h

/-- A call that repeats a keyword name (`round(x, ndigits=1, ndigits=2)`: CPython's parser lets it through, its
    compiler refuses the expression) fails without evaluating anything — in the walker and in the specification. -/
theorem c02_repeated_keyword_fails (T : Tables) (env : Env) (fn : String) (args kv : List Expr)
    (kn : List (Option String)) (hd : hasDupKw kn = true) :
    (walk T env (.call (.name fn) args kn kv)).failed ∧ (walk T env (.call (.name fn) args kn kv)).1 = [] ∧
    (pyEval T.names env (.call (.name fn) args kn kv)).failed := by
  unfold walk pyEval
  simp only [hd, if_true]
  refine ⟨?_, ?_, failed_fail _⟩
  · split <;> exact failed_fail _
  · split <;> rfl

/-- On every pathway that parses an expression — math, logic and tool — a text in which some call repeats a keyword
    (anywhere, evaluated or not, for any callee) fails with nothing executed. -/
theorem c02_repeated_keyword_refused_on_every_pathway (T : Tables) (env : Env) (tools : List ToolReg)
    (allowed : Option (List String)) (e : Expr) (hd : dupAnywhere e = true) :
    glycolysis T env e = R.fail "SyntaxError: keyword argument repeated" ∧
    krebs T env e = R.fail "SyntaxError: keyword argument repeated" ∧
    toolPathway T env tools allowed e = R.fail "SyntaxError: keyword argument repeated" := by
  simp [glycolysis, krebs, toolPathway, hd]

/-- The logic pathway is `bool(...)` of the walk of the tree in which only the NAMES `true` / `false` were turned
    into constants. -/
theorem c02_logic_is_bool_of_walk (T : Tables) (env : Env) (e : Expr) (b : Val)
    (h : (krebs T env e).2 = .ok b) :
    ∃ v t, (walk T env (normalise e)).2 = .ok v ∧ (truthyR env v).2 = .ok t ∧ b = .bool t := by
  unfold krebs at h
  split at h
  · simp [R.fail] at h
  rcases h1 : walk T env (normalise e) with ⟨t1, r1⟩
  cases r1 with
  | error er => simp [R.bind, h1] at h
  | ok v =>
    rcases h2 : truthyR env v with ⟨t2, r2⟩
    cases r2 with
    | error er => simp [R.bind, h1, h2] at h
    | ok t => exact ⟨v, t, by simp [h1], by simp [h2], by simpa [R.bind, R.pure, h1, h2] using h.symm⟩

/-- Literal contents are never rewritten: constants (strings included) are untouched by the normalisation, and so
    is every name other than `true` / `false`. -/
theorem c02_literals_untouched (v : Val) (n : String) (h1 : n ≠ "true") (h2 : n ≠ "false") :
    normalise (.const v) = .const v ∧ normalise (.name n) = .name n := by
  simp [normalise, h1, h2]

/-! ### Non-vacuity -/

private def envInt : Env :=
  ⟨fun _ => .h 1, fun p _ => if p = .lt then .ok (.bool true) else .ok (.h 2), fun _ => .ok true,
   fun _ _ kws => .ok (.h (10 + kws.length)), fun _ _ _ => .ok (.h 4)⟩

/-- hypotheses of `c02_refines` are satisfiable: the extracted tables are sound, and a walk succeeds -/
example : (walk Gen.tables envInt (.binop .add (.name "pi") (.const (.h 5)))).2 = .ok (.h 2) := by rfl

/-- `CmpReturnsBool` holds of an environment that also does something else -/
example : CmpReturnsBool ⟨fun _ => .h 1, fun p _ => if p = .add then .ok (.h 2) else .ok (.bool true),
    fun _ => .ok true, fun _ _ _ => .ok (.h 3), fun _ _ _ => .ok (.h 4)⟩ := by
  intro k a b v h
  cases k <;> simp [specCmp] at h <;> exact ⟨true, h.symm⟩

/-- `c02_keywords_passed`: `round(pi, ndigits=e)` succeeds and the callee sees one keyword -/
example : (walk Gen.tables envInt (.call (.name "round") [.name "pi"] [some "ndigits"] [.name "e"])).2 = .ok (.h 11) := by
  rfl

/-- `c02_repeated_keyword_refused_on_every_pathway`: `tool(k=…, k=…)` -/
example : dupAnywhere (.call (.name "tool") [] [some "k", some "k"] [.const (.h 1), .const (.h 2)]) = true := by decide

/-- `c02_repeated_keyword_fails`: `ndigits` twice -/
example : hasDupKw [some "ndigits", some "ndigits"] = true := by decide

/-- `c02_python_raises_engine_fails`: Python raises NameError on an unbound name -/
example : (pyEval Gen.tables.names envInt (.name "zz")).failed := ⟨_, rfl⟩

/-- `c02_logic_is_bool_of_walk`: `true` on the logic pathway -/
example : (krebs Gen.tables envInt (.name "true")).2 = .ok (.bool true) := by rfl

end Operon.Mito
