import Operon.Lemmas.C02
import Operon.Lemmas.C02Logic
import Operon.Lemmas.C02Tool
import Operon.Lemmas.MitoBox
import Operon.Model.MitoText
import Operon.Gen.MitoFacts
/-!
# C02 — the safe evaluator computes the value Python computes on the allowed subset

Property theorems only.  `walk` mirrors `Mitochondria._compute_node`; `pyEval` is the specification: Python's own
evaluation of the same tree (language reference: operand order, short-circuit `and`/`or` returning the deciding
operand, chained comparisons with single evaluation, conditional expressions, callee – positional – keyword
order), over the SAME environment of primitives.  Both are validated on every run: `walk` against the real walker
and `pyEval` against the real `eval`, over tracer objects that script the environment
(`harness/vf/props/c02.py`); the operator tables are regenerated from the source by E1.

`pyEval` answers "outside the specified subset" on node classes Python evaluates but the engine must not
(attribute access etc.); this only makes the statements below harder (refinement) or is backed by the walker
failing there anyway (`c01_refused_node_fails`).
-/
set_option linter.unusedSimpArgs false
namespace Operon.Mito
open R

/-- Every entry of the operator tables of the CURRENT source is the `operator.*` function Python itself uses for
    that AST class (`ast.Div ↦ truediv`, `ast.FloorDiv ↦ floordiv`, `ast.LtE ↦ le`, …); `Not` has no table entry.
    By `decide` over the tables regenerated from the source by reflection. -/
theorem c02_tables_match_python : TablesSound Gen.tables :=
  tablesSound_of_check _ (by decide)

/-- Refinement.  Whenever the walker succeeds, Python's evaluation of the same tree — in a namespace binding exactly
    the allow-listed names — succeeds with the SAME value.  For every tree, every environment whose comparisons
    return booleans, every table content that matches Python's operators. -/
theorem c02_refines (T : Tables) (env : Env) (hT : TablesSound T) (hc : CmpReturnsBool env) (e : Expr) (v : Val)
    (h : (walk T env e).2 = .ok v) : (pyEval T.names env e).2 = .ok v := by
  rcases walk_sim T env hT hc e with ⟨er, he⟩ | heq
  · rw [h] at he; cases he
  · rw [← heq]; exact h

/-- Whenever Python's evaluation raises, the engine reports failure. -/
theorem c02_python_raises_engine_fails (T : Tables) (env : Env) (hT : TablesSound T) (hc : CmpReturnsBool env)
    (e : Expr) (h : (pyEval T.names env e).failed) : (walk T env e).failed := by
  rcases walk_sim T env hT hc e with hf | heq
  · exact hf
  · rw [heq]; exact h

/-- Nothing is dropped or added: on success the walker made exactly the primitive applications, calls (with all
    positional AND keyword arguments), name lookups and truth tests that Python makes, in the same order. -/
theorem c02_nothing_dropped (T : Tables) (env : Env) (hT : TablesSound T) (hc : CmpReturnsBool env) (e : Expr)
    (v : Val) (h : (walk T env e).2 = .ok v) : (walk T env e).1 = (pyEval T.names env e).1 := by
  rcases walk_sim T env hT hc e with ⟨er, he⟩ | heq
  · rw [h] at he; cases he
  · rw [← heq]

/-- The three statements for the engine as it stands (tables of the current source). -/
theorem c02_current_source_refines (env : Env) (hc : CmpReturnsBool env) (e : Expr) (v : Val)
    (h : (walk Gen.tables env e).2 = .ok v) :
    (pyEval Gen.tables.names env e).2 = .ok v ∧ (walk Gen.tables env e).1 = (pyEval Gen.tables.names env e).1 :=
  ⟨c02_refines _ env c02_tables_match_python hc e v h, c02_nothing_dropped _ env c02_tables_match_python hc e v h⟩

/-- Pathway level (what `_glycolysis` runs after parsing vs. "compile, then evaluate"): the refinement, the failure
    direction and the trace equality hold for the math pathway against `pyRun`, which refuses a repeated keyword
    anywhere in the text — evaluated or not — as CPython's compiler does. -/
theorem c02_math_pathway_refines (T : Tables) (env : Env) (hT : TablesSound T) (hc : CmpReturnsBool env) (e : Expr) :
    (∀ v, (glycolysis T env e).2 = .ok v →
        (pyRun T.names env e).2 = .ok v ∧ (glycolysis T env e).1 = (pyRun T.names env e).1) ∧
    ((pyRun T.names env e).failed → (glycolysis T env e).failed) := by
  unfold glycolysis pyRun
  split
  · exact ⟨fun v h => by simp [R.fail] at h, fun _ => failed_fail _⟩
  · exact ⟨fun v h => ⟨c02_refines T env hT hc e v h, c02_nothing_dropped T env hT hc e v h⟩,
           c02_python_raises_engine_fails T env hT hc e⟩

/-- Keyword arguments reach the callee: a successful call passes every keyword value, by name, in order. -/
theorem c02_keywords_passed (T : Tables) (env : Env) (fn : String) (args kv : List Expr) (kn : List (Option String))
    (v : Val) (h : (walk T env (.call (.name fn) args kn kv)).2 = .ok v) :
    ∃ as ks, (walkList T env args).2 = .ok as ∧ (walkKws T env kn kv).2 = .ok ks ∧
      env.apply (env.lookup fn) as ks = .ok v ∧
      Act.apply (env.lookup fn) as ks ∈ (walk T env (.call (.name fn) args kn kv)).1 := by
  unfold walk at h ⊢
  simp only at h ⊢
  split at h
  · rename_i hm
    split at h
    · simp [R.fail] at h
    · rename_i hdup
      rw [if_pos hm, if_neg hdup]
      rcases h1 : walkList T env args with ⟨t1, r1⟩
      rcases h2 : walkKws T env kn kv with ⟨t2, r2⟩
      cases r1 with
      | error er => simp [R.bind, R.act, h1] at h
      | ok as =>
        cases r2 with
        | error er => simp [R.bind, R.act, h1, h2] at h
        | ok ks =>
          refine ⟨as, ks, rfl, rfl, ?_, ?_⟩
          · simpa [R.bind, R.act, h1, h2] using h
          · simp [R.bind, R.act]
  · simp [R.fail] at h

/-- A call that repeats a keyword name (`round(x, ndigits=1, ndigits=2)`: CPython's parser lets it through, its
    compiler refuses the expression) fails without evaluating anything — in the walker and in the specification. -/
theorem c02_repeated_keyword_fails (T : Tables) (env : Env) (fn : String) (args kv : List Expr)
    (kn : List (Option String)) (hd : hasDupKw kn = true) :
    (walk T env (.call (.name fn) args kn kv)).failed ∧ (walk T env (.call (.name fn) args kn kv)).1 = [] ∧
    (pyEval T.names env (.call (.name fn) args kn kv)).failed := by
  unfold walk pyEval
  simp only [hd, if_true]
  refine ⟨?_, ?_, failed_fail _⟩
  · split <;> exact failed_fail _
  · split <;> rfl

/-- On every pathway that parses an expression — math, logic and tool — a text in which some call repeats a keyword
    (anywhere, evaluated or not, for any callee) fails with nothing executed. -/
theorem c02_repeated_keyword_refused_on_every_pathway (T : Tables) (env : Env) (tools : List ToolReg)
    (allowed : Option (List String)) (e : Expr) (hd : dupAnywhere e = true) :
    glycolysis T env e = R.fail "SyntaxError: keyword argument repeated" ∧
    krebs T env e = R.fail "SyntaxError: keyword argument repeated" ∧
    toolPathway T env tools allowed e = R.fail "SyntaxError: keyword argument repeated" := by
  simp [glycolysis, krebs, toolPathway, hd]

/-- The logic pathway is `bool(...)` of the walk of the tree in which only the NAMES `true` / `false` were turned
    into constants. -/
theorem c02_logic_is_bool_of_walk (T : Tables) (env : Env) (e : Expr) (b : Val)
    (h : (krebs T env e).2 = .ok b) :
    ∃ v t, (walk T env (normalise e)).2 = .ok v ∧ (truthyR env v).2 = .ok t ∧ b = .bool t := by
  unfold krebs at h
  split at h
  · simp [R.fail] at h
  rcases h1 : walk T env (normalise e) with ⟨t1, r1⟩
  cases r1 with
  | error er => simp [R.bind, h1] at h
  | ok v =>
    rcases h2 : truthyR env v with ⟨t2, r2⟩
    cases r2 with
    | error er => simp [R.bind, h1, h2] at h
    | ok t => exact ⟨v, t, by simp [h1], by simp [h2], by simpa [R.bind, R.pure, h1, h2] using h.symm⟩

/-- The logic pathway against PYTHON (not against its own definition).  `krebs` evaluates the tree in which the names
    `true` / `false` were replaced by constants; Python's reading of the ORIGINAL text on that pathway is `pyRun` in the
    namespace `namesB T.names` = allow-listed names plus `true`, `false`, bound by `envB env` to the booleans.  For every
    tree, every environment whose comparisons return booleans, every table content matching Python's operators:
    (1) success ⇒ the value is `bool(w)` for Python's value `w` of the original tree;
    (2) Python raises (at compile time — repeated keyword — or while evaluating) ⇒ the engine reports failure;
    (3) `bool()` of Python's value raises ⇒ the engine reports failure;
    (4) nothing dropped: on success the engine's interactions are exactly Python's, in order, except that Python looks
        `true` / `false` up in its namespace and the engine does not (then one final `bool()`). -/
theorem c02_logic_pathway_refines (T : Tables) (env : Env) (hT : TablesSound T) (hc : CmpReturnsBool env) (e : Expr) :
    (∀ b, (krebs T env e).2 = .ok b →
        ∃ w t, (pyRun (namesB T.names) (envB env) e).2 = .ok w ∧ (truthyR env w).2 = .ok t ∧ b = .bool t ∧
          (krebs T env e).1 =
            (pyRun (namesB T.names) (envB env) e).1.filter (fun a => !isBoolLookup a) ++ (truthyR env w).1) ∧
    ((pyRun (namesB T.names) (envB env) e).failed → (krebs T env e).failed) ∧
    (∀ w, (pyRun (namesB T.names) (envB env) e).2 = .ok w → (truthyR env w).failed → (krebs T env e).failed) := by
  obtain ⟨hr2, hr1⟩ := pyEval_relB T.names env e
  unfold krebs pyRun
  split
  · exact ⟨fun b h => by simp [R.fail] at h, fun _ => failed_fail _, fun w h => by simp [R.fail] at h⟩
  · rcases walk_sim T env hT hc (normalise e) with hf | heq
    · -- the walker fails on the rewritten tree: no success to explain, and the engine does report failure
      refine ⟨fun b h => ?_, fun _ => bind_failed_left _ _ hf, fun _ _ _ => bind_failed_left _ _ hf⟩
      obtain ⟨er, he⟩ := hf
      rcases hw : walk T env (normalise e) with ⟨t1, r1⟩
      rw [hw] at he h; simp only at he; subst he
      simp [R.bind] at h
    · rw [heq]
      rcases hp : pyEval T.names env (normalise e) with ⟨t1, r1⟩
      rw [hp] at hr1 hr2
      simp only at hr1 hr2
      cases r1 with
      | error er =>
        refine ⟨fun b h => by simp [R.bind] at h, fun _ => ⟨er, rfl⟩, fun w hw _ => ?_⟩
        rw [← hr2] at hw; cases hw
      | ok v =>
        refine ⟨fun b h => ?_, fun hfail => ?_, fun w hw hfw => ?_⟩
        · rcases ht : truthyR env v with ⟨t2, r2⟩
          cases r2 with
          | error er => simp [R.bind, ht] at h
          | ok t =>
            refine ⟨v, t, hr2.symm, by simp [ht], ?_, ?_⟩
            · simpa [R.bind, R.pure, ht] using h.symm
            · simp [R.bind, R.pure, ht, hr1]
        · obtain ⟨er, he⟩ := hfail
          rw [← hr2] at he; cases he
        · rw [← hr2] at hw
          cases hw
          obtain ⟨er, he⟩ := bind_failed_left (truthyR env v) (fun b => R.pure (Val.bool b)) hfw
          exact ⟨er, he⟩

/-- At the ENTRY POINT (`Mitochondria.metabolize`, pathway forced or auto-detected — `d` is arbitrary): a success
    result on the math pathway carries Python's value of the parsed text (compile, then evaluate, with exactly the
    allow-listed names) and made exactly Python's interactions; a success result on the logic pathway carries `bool(w)`
    of Python's value `w` in the namespace that additionally binds `true` / `false`. -/
theorem c02_entry_point_refines (T : Tables) (env : Env) (hT : TablesSound T) (hc : CmpReturnsBool env) (cfg : Cfg)
    (latched : Bool) (d : Pathway) (inp : Inp) (forced : Option Pathway) (tr : List Act) (v : Val) (r : Bool)
    (p : Pathway) (h : metabolize T env cfg latched d inp forced = (tr, .result true (some v) r (some p))) :
    (p = .glycolysis → ∃ e, inp.parsed = some e ∧ (pyRun T.names env e).2 = .ok v ∧ tr = (pyRun T.names env e).1) ∧
    (p = .krebs → ∃ e w t, inp.parsed = some e ∧ (pyRun (namesB T.names) (envB env) e).2 = .ok w ∧
        (truthyR env w).2 = .ok t ∧ v = .bool t) := by
  obtain ⟨_, hb⟩ := metabolize_success T env cfg latched d inp forced tr v r p h
  constructor
  · intro hp; subst hp
    unfold pathwayBody at hb
    simp only at hb
    split at hb
    · simp [R.fail] at hb
    · rename_i e he
      have h2 : (glycolysis T env e).2 = .ok v := by rw [hb]
      obtain ⟨g1, g2⟩ := (c02_math_pathway_refines T env hT hc e).1 v h2
      exact ⟨e, he, g1, by rw [← g2, hb]⟩
  · intro hp; subst hp
    unfold pathwayBody at hb
    simp only at hb
    split at hb
    · simp [R.fail] at hb
    · rename_i e he
      have h2 : (krebs T env e).2 = .ok v := by rw [hb]
      obtain ⟨w, t, g1, g2, g3, _⟩ := (c02_logic_pathway_refines T env hT hc e).1 v h2
      exact ⟨e, w, t, he, g1, g2, g3⟩

/-! ### The tool pathway: argument expressions are in the allowed grammar -/

/-- The tool pathway against PYTHON.  For every tree, registry, capability setting, environment whose comparisons
    return booleans and table content matching Python's operators: when the tool pathway succeeds, the text is a call of
    a registered, permitted tool by its plain name, and the pathway did exactly what Python does with that text when the
    names of the registered tools stand for them — compile (a repeated keyword anywhere refuses the text), evaluate the positional arguments
    and the keyword values left to right with exactly the allow-listed names, run the tool body ONCE with exactly those
    values: same value, same interactions in the same order (nothing dropped, nothing evaluated differently); and
    whenever that evaluation raises — in an argument expression or in the tool — the engine reports failure. -/
theorem c02_tool_pathway_refines (T : Tables) (env : Env) (hT : TablesSound T) (hc : CmpReturnsBool env)
    (tools : List ToolReg) (allowed : Option (List String)) (e : Expr) :
    (∀ v, (toolPathway T env tools allowed e).2 = .ok v →
        (∃ tn args kn kv t, e = .call (.name tn) args kn kv ∧ findTool tools tn = some t ∧ capsOk allowed t = true) ∧
        toolPathway T env tools allowed e = pyToolRun T.names env tools e) ∧
    ((pyToolRun T.names env tools e).failed → (toolPathway T env tools allowed e).failed) := by
  refine ⟨fun v h => ⟨?_, ?_⟩, fun hf => ?_⟩
  · unfold toolPathway at h
    split at h
    · simp [R.fail] at h
    · exact toolPath_success_shape T env tools allowed e v h
  · rcases toolPathway_sim T env hT hc tools allowed e with ⟨er, he⟩ | heq
    · rw [h] at he; cases he
    · exact heq
  · rcases toolPathway_sim T env hT hc tools allowed e with hfail | heq
    · exact hfail
    · rw [heq]; exact hf

/-- Nothing of a tool call is dropped or merged: when the tool pathway succeeds, the registered tool ran with exactly
    the values of the positional arguments, in order, and with exactly one keyword argument per keyword written, under
    the name written, in the order written (`dictOf`, the `kwargs[kw.arg] = …` loop, is the identity here because a text
    repeating a keyword never gets this far), and the result of that one call is the value reported. -/
theorem c02_tool_receives_arguments_as_written (T : Tables) (env : Env) (tools : List ToolReg)
    (allowed : Option (List String)) (e : Expr) (v : Val) (h : (toolPathway T env tools allowed e).2 = .ok v) :
    ∃ tn args kn kv as ks, e = .call (.name tn) args kn kv ∧ (walkList T env args).2 = .ok as ∧
      (walkKws T env kn kv).2 = .ok ks ∧ dictOf ks = ks ∧ env.tool tn as ks = .ok v ∧
      Act.tool tn as ks ∈ (toolPathway T env tools allowed e).1 := by
  unfold toolPathway at h ⊢
  split at h
  · simp [R.fail] at h
  · rename_i hdup
    rw [if_neg hdup]
    unfold toolPath at h ⊢
    split at h
    · rename_i tn args kn kv
      have hk : hasDupKw kn = false := by
        simp only [dupAnywhere, Bool.or_eq_true, not_or, Bool.not_eq_true] at hdup
        exact hdup.1.1.1
      split at h
      · simp [R.fail] at h
      · rename_i t ht
        split at h
        · rename_i hcaps
          rcases h1 : walkList T env args with ⟨t1, r1⟩
          cases r1 with
          | error er => simp [R.bind, h1] at h
          | ok as =>
            rcases h2 : walkKws T env kn kv with ⟨t2, r2⟩
            cases r2 with
            | error er => simp [R.bind, h1, h2] at h
            | ok ks =>
              have hd : dictOf ks = ks := dictOf_nodup ks (walkKws_nodup T env kv kn t2 ks h2 hk)
              simp only [R.bind, R.act, h1, h2, hd] at h
              refine ⟨tn, args, kn, kv, as, ks, rfl, by rw [h1], by rw [h2], hd, h, ?_⟩
              simp [ht, hcaps, R.bind, R.act, h1, h2, hd]
        · simp [R.fail] at h
    · simp [R.fail] at h
    · simp [R.fail] at h

/-- … at the entry point: a success result of `metabolize` on the tool pathway (forced or auto-detected by the tool-name
    prefix) carries the value of Python's evaluation of the tool call, with exactly its interactions. -/
theorem c02_entry_point_tool_refines (T : Tables) (env : Env) (hT : TablesSound T) (hc : CmpReturnsBool env) (cfg : Cfg)
    (latched : Bool) (d : Pathway) (inp : Inp) (forced : Option Pathway) (tr : List Act) (v : Val) (r : Bool)
    (h : metabolize T env cfg latched d inp forced = (tr, .result true (some v) r (some .oxidative))) :
    ∃ e, inp.parsed = some e ∧ pyToolRun T.names env cfg.tools e = (tr, .ok v) := by
  obtain ⟨_, hb⟩ := metabolize_success T env cfg latched d inp forced tr v r .oxidative h
  unfold pathwayBody at hb
  simp only at hb
  split at hb
  · simp [R.fail] at hb
  · rename_i e he
    have h2 : (toolPathway T env cfg.tools cfg.allowed e).2 = .ok v := by rw [hb]
    obtain ⟨_, g⟩ := (c02_tool_pathway_refines T env hT hc cfg.tools cfg.allowed e).1 v h2
    exact ⟨e, he, by rw [← g, hb]⟩

/-! ### What the CALLER receives (`result.atp.value`, the text of `digest_glucose`): through the result containers

`metabolizeD` / `digestGlucoseD` (`Model/MitoBox.lean`) put the containers `ATP` / `MetabolicResult` and the `str()` of the
legacy entry point between the pathway's value and the caller, governed by the facts `Box` that E1 re-establishes on every
run by driving the real entry points with sentinel values (long strings, long lists, huge ints, nan, …). -/

/-- Whenever the model vouches for a value DELIVERED to the caller — for any behaviour of the containers — that value is
    Python's: on the math pathway the value (and the interactions) of compile-then-evaluate with exactly the allow-listed
    names, on the logic pathway `bool(w)` of Python's value `w`. -/
theorem c02_delivered_value_is_pythons (T : Tables) (env : Env) (hT : TablesSound T) (hc : CmpReturnsBool env) (cfg : Cfg)
    (box : Box) (latched : Bool) (d : Pathway) (inp : Inp) (forced : Option Pathway) (tr : List Act) (v : Val) (r : Bool)
    (p : Pathway) (h : metabolizeD T env cfg box latched d inp forced = (tr, .result true (some v) r (some p))) :
    (p = .glycolysis → ∃ e, inp.parsed = some e ∧ (pyRun T.names env e).2 = .ok v ∧ tr = (pyRun T.names env e).1) ∧
    (p = .krebs → ∃ e w t, inp.parsed = some e ∧ (pyRun (namesB T.names) (envB env) e).2 = .ok w ∧
        (truthyR env w).2 = .ok t ∧ v = .bool t) := by
  unfold metabolizeD at h
  obtain ⟨h1, h2⟩ := Prod.mk.inj h
  obtain ⟨ho, _, _⟩ := deliver_success box _ v r (some p) h2
  exact c02_entry_point_refines T env hT hc cfg latched d inp forced tr v r p (Prod.ext h1 ho)

/-- Containers that keep the value and always build are invisible: every success of the engine reaches the caller as a
    success with the SAME value, pathway and interactions (nothing cut, clamped or converted on the way). -/
theorem c02_success_is_delivered_with_its_value (T : Tables) (env : Env) (cfg : Cfg) (box : Box)
    (hv : box.valueKept = true) (hb : box.builds = true) (latched : Bool) (d : Pathway) (inp : Inp)
    (forced : Option Pathway) :
    metabolizeD T env cfg box latched d inp forced = metabolize T env cfg latched d inp forced := by
  unfold metabolizeD
  rw [deliver_kept box hv hb]

/-- The containers of the CURRENT source keep the value, render the legacy text as `str(value)` and always build (E1:
    the real `metabolize` / `digest_glucose` driven with sentinel values on every pathway; by `decide` over the fact). -/
theorem c02_containers_keep_value_current_source :
    Gen.box.valueKept = true ∧ Gen.box.textKept = true ∧ Gen.box.builds = true := by decide

/-- … so on the engine as it stands every success result the caller receives carries Python's value (math) / `bool` of
    Python's value (logic) — the statement of `c02_entry_point_refines` about `result.atp.value` itself. -/
theorem c02_current_source_delivers_pythons_value (env : Env) (hc : CmpReturnsBool env) (cfg : Cfg) (latched : Bool)
    (d : Pathway) (inp : Inp) (forced : Option Pathway) (tr : List Act) (v : Val) (r : Bool) (p : Pathway)
    (h : metabolize Gen.tables env cfg latched d inp forced = (tr, .result true (some v) r (some p))) :
    metabolizeD Gen.tables env cfg Gen.box latched d inp forced = (tr, .result true (some v) r (some p)) ∧
    (p = .glycolysis → ∃ e, inp.parsed = some e ∧ (pyRun Gen.tables.names env e).2 = .ok v) ∧
    (p = .krebs → ∃ e w t, inp.parsed = some e ∧ (pyRun (namesB Gen.tables.names) (envB env) e).2 = .ok w ∧
        (truthyR env w).2 = .ok t ∧ v = .bool t) := by
  obtain ⟨hv, _, hb⟩ := c02_containers_keep_value_current_source
  have hD := c02_success_is_delivered_with_its_value Gen.tables env cfg Gen.box hv hb latched d inp forced
  obtain ⟨g1, g2⟩ := c02_entry_point_refines Gen.tables env c02_tables_match_python hc cfg latched d inp forced tr v r p h
  refine ⟨by rw [hD, h], fun hp => ?_, g2⟩
  obtain ⟨e, he, hv', _⟩ := g1 hp
  exact ⟨e, he, hv'⟩

/-- A container that does NOT keep the value (a `__post_init__` that cuts a long text, clamps a number, …): the engine's
    success is still reported as a success, but the model no longer vouches for the delivered value — the shape of the
    seeded change "ATP cuts string results to 4096 characters" is expressible, and `Gen.box` is what rules it out. -/
theorem c02_container_that_alters_delivers_unknown_witness :
    ∃ (box : Box) (cfg : Cfg) (inp : Inp), box.builds = true ∧
      (metabolize Gen.tables (⟨fun _ => .h 1, fun _ _ => .ok (.h 2), fun _ => .ok true, fun _ _ _ => .ok (.h 3),
          fun _ _ _ => .ok (.h 4)⟩) cfg false .glycolysis inp none).2 = .result true (some (.h 1)) false (some .glycolysis) ∧
      (metabolizeD Gen.tables (⟨fun _ => .h 1, fun _ _ => .ok (.h 2), fun _ => .ok true, fun _ _ _ => .ok (.h 3),
          fun _ _ _ => .ok (.h 4)⟩) cfg box false .glycolysis inp none).2 = .result true none false (some .glycolysis) :=
  ⟨⟨false, true, true⟩, ⟨10000, true, false, [], none, true, true, true⟩, ⟨2, some (.name "pi"), none, false⟩, rfl, rfl, rfl⟩

/-- The legacy entry point (`digest_glucose`, also what `BioAgent` answers a "calculate …" prompt with): whenever the
    model says the returned text is `str(v)`, `v` is Python's value of the text on the math pathway (compile, then
    evaluate, with exactly the allow-listed names), with exactly Python's interactions. -/
theorem c02_legacy_text_is_str_of_pythons_value (T : Tables) (env : Env) (hT : TablesSound T) (hc : CmpReturnsBool env)
    (cfg : Cfg) (box : Box) (latched : Bool) (inp : Inp) (strRaises : Bool) (tr : List Act) (v : Val)
    (h : digestGlucoseD T env cfg box latched inp strRaises = (tr, .rendered v)) :
    ∃ e, inp.parsed = some e ∧ (pyRun T.names env e).2 = .ok v ∧ tr = (pyRun T.names env e).1 := by
  unfold digestGlucoseD at h
  rcases hm : metabolizeD T env cfg box latched .glycolysis inp (some .glycolysis) with ⟨t, o⟩
  rw [hm] at h
  cases o with
  | raised => simp at h
  | result s w r p =>
    cases s with
    | false => simp at h
    | true =>
      cases w with
      | none => simp at h
      | some w =>
        simp only at h
        split at h
        · split at h <;> simp at h
        · split at h
          · simp only [Prod.mk.injEq, LegacyText.rendered.injEq] at h
            obtain ⟨rfl, rfl⟩ := h
            -- the pathway of a forced call is the forced one
            have hp : p = some .glycolysis := by
              have hm' := hm
              unfold metabolizeD at hm'
              obtain ⟨h1, h2⟩ := Prod.mk.inj hm'
              obtain ⟨ho, _, _⟩ := deliver_success box _ w r p h2
              exact metabolize_success_path T env cfg latched .glycolysis inp (some .glycolysis) t w r p (Prod.ext h1 ho)
            subst hp
            exact (c02_delivered_value_is_pythons T env hT hc cfg box latched .glycolysis inp (some .glycolysis) t w r
              .glycolysis hm).1 rfl
          · simp at h

/-- … and on the engine as it stands a successful evaluation whose value renders is answered with `str(value)`. -/
theorem c02_legacy_current_source_renders (env : Env) (cfg : Cfg) (latched : Bool) (inp : Inp) (tr : List Act) (v : Val)
    (r : Bool) (p : Option Pathway)
    (h : metabolize Gen.tables env cfg latched .glycolysis inp (some .glycolysis) = (tr, .result true (some v) r p)) :
    digestGlucoseD Gen.tables env cfg Gen.box latched inp false = (tr, .rendered v) := by
  obtain ⟨hv, ht, hb⟩ := c02_containers_keep_value_current_source
  unfold digestGlucoseD
  rw [c02_success_is_delivered_with_its_value Gen.tables env cfg Gen.box hv hb, h]
  simp [ht]

/-- The transform pathway (auto-detected for every text that starts with `[` or `{`), literal route: when the parsed
    text is a display of literals — constants, lists, tuples, nested — and the pathway returns what `ast.literal_eval`
    returns on such a tree (the structural value `litEval`; the driver computes exactly this, so the real pathway is
    compared with it on every run), a success result carries Python's value of the text, and nothing was executed. -/
theorem c02_transform_literal_refines (T : Tables) (env : Env) (cfg : Cfg) (latched : Bool) (d : Pathway) (inp : Inp)
    (forced : Option Pathway) (tr : List Act) (v w : Val) (r : Bool) (e : Expr)
    (h : metabolize T env cfg latched d inp forced = (tr, .result true (some v) r (some .beta)))
    (_he : inp.parsed = some e) (hl : litEval e = some w) (hb : inp.beta = litEval e) :
    v = w ∧ pyRun T.names env e = ([], .ok v) ∧ tr = [] := by
  obtain ⟨_, hbody⟩ := metabolize_success T env cfg latched d inp forced tr v r .beta h
  unfold pathwayBody at hbody
  simp only [hb, hl, R.pure, Prod.mk.injEq, Except.ok.injEq] at hbody
  obtain ⟨rfl, rfl⟩ := hbody
  refine ⟨rfl, ?_, rfl⟩
  unfold pyRun
  rw [dup_lit e _ hl]
  exact pyEval_lit T.names env e _ hl

/-- … and on the tool and transform pathways: a delivered tool-pathway value is the value of Python's evaluation of the
    tool call (`pyToolRun`, with exactly its interactions); a delivered transform-pathway value of a display of literals
    is Python's value of the text, nothing executed. -/
theorem c02_delivered_tool_and_literal_values_are_pythons (T : Tables) (env : Env) (hT : TablesSound T)
    (hc : CmpReturnsBool env) (cfg : Cfg) (box : Box) (latched : Bool) (d : Pathway) (inp : Inp)
    (forced : Option Pathway) (tr : List Act) (v : Val) (r : Bool) (p : Pathway)
    (h : metabolizeD T env cfg box latched d inp forced = (tr, .result true (some v) r (some p))) :
    (p = .oxidative → ∃ e, inp.parsed = some e ∧ pyToolRun T.names env cfg.tools e = (tr, .ok v)) ∧
    (p = .beta → ∀ e w, inp.parsed = some e → litEval e = some w → inp.beta = litEval e →
        v = w ∧ pyRun T.names env e = ([], .ok v) ∧ tr = []) := by
  unfold metabolizeD at h
  obtain ⟨h1, h2⟩ := Prod.mk.inj h
  obtain ⟨ho, _, _⟩ := deliver_success box _ v r (some p) h2
  have hm : metabolize T env cfg latched d inp forced = (tr, .result true (some v) r (some p)) := Prod.ext h1 ho
  constructor
  · intro hp; subst hp
    exact c02_entry_point_tool_refines T env hT hc cfg latched d inp forced tr v r hm
  · intro hp e w he hl hb; subst hp
    exact c02_transform_literal_refines T env cfg latched d inp forced tr v w r e hm he hl hb

/-- Literal contents are never rewritten: constants (strings included) are untouched by the normalisation, and so
    is every name other than `true` / `false`. -/
theorem c02_literals_untouched (v : Val) (n : String) (h1 : n ≠ "true") (h2 : n ≠ "false") :
    normalise (.const v) = .const v ∧ normalise (.name n) = .name n := by
  simp [normalise, h1, h2]

/-- … at any depth: a tree in which the names `true` / `false` do not occur (whatever its string constants say — e.g.
    `'true' == '1'`, `len('False')`) is left exactly as it is by the logic pathway's rewriting. -/
theorem c02_literals_untouched_at_any_depth (e : Expr) (h : "true" ∉ namesOf e ∧ "false" ∉ namesOf e) :
    normalise e = e :=
  normalise_eq_self e h.1 h.2

/-! ### Non-vacuity -/

private def envInt : Env :=
  ⟨fun _ => .h 1, fun p _ => if p = .lt then .ok (.bool true) else .ok (.h 2), fun _ => .ok true,
   fun _ _ kws => .ok (.h (10 + kws.length)), fun _ _ _ => .ok (.h 4)⟩

/-- hypotheses of `c02_refines` are satisfiable: the extracted tables are sound, and a walk succeeds -/
example : (walk Gen.tables envInt (.binop .add (.name "pi") (.const (.h 5)))).2 = .ok (.h 2) := by rfl

/-- `CmpReturnsBool` holds of an environment that also does something else -/
example : CmpReturnsBool ⟨fun _ => .h 1, fun p _ => if p = .add then .ok (.h 2) else .ok (.bool true),
    fun _ => .ok true, fun _ _ _ => .ok (.h 3), fun _ _ _ => .ok (.h 4)⟩ := by
  intro k a b v h
  cases k <;> simp [specCmp] at h <;> exact ⟨true, h.symm⟩

/-- `c02_keywords_passed`: `round(pi, ndigits=e)` succeeds and the callee sees one keyword -/
example : (walk Gen.tables envInt (.call (.name "round") [.name "pi"] [some "ndigits"] [.name "e"])).2 = .ok (.h 11) := by
  rfl

/-- `c02_repeated_keyword_refused_on_every_pathway`: `tool(k=…, k=…)` -/
example : dupAnywhere (.call (.name "tool") [] [some "k", some "k"] [.const (.h 1), .const (.h 2)]) = true := by decide

/-- `c02_repeated_keyword_fails`: `ndigits` twice -/
example : hasDupKw [some "ndigits", some "ndigits"] = true := by decide

/-- `c02_python_raises_engine_fails`: Python raises NameError on an unbound name -/
example : (pyEval Gen.tables.names envInt (.name "zz")).failed := ⟨_, rfl⟩

/-- `c02_logic_pathway_refines`: `true and pi` on the logic pathway succeeds; Python looks `true` up, the engine does not -/
example : (krebs Gen.tables envInt (.boolop .and [.name "true", .name "pi"])).2 = .ok (.bool true) ∧
    (pyRun (namesB Gen.tables.names) (envB envInt) (.boolop .and [.name "true", .name "pi"])).1
      = [.lookup "true", .lookup "pi"] ∧
    (krebs Gen.tables envInt (.boolop .and [.name "true", .name "pi"])).1 = [.lookup "pi", .truthy 1] := by
  refine ⟨rfl, rfl, rfl⟩

/-- `c02_entry_point_refines`: a success result on the auto-detected logic pathway -/
example : metabolize Gen.tables envInt ⟨10000, true, false, [], none, true, true, true⟩ false .krebs
    ⟨4, some (.name "true"), none, false⟩ none = ([], .result true (some (.bool true)) false (some .krebs)) := by rfl

/-! ### The value of the expression the CALLER wrote (`Model/MitoText.lean`)

Everything above speaks about `inp.parsed` — CPython's reading of the string the engine's readers were handed.  The
property speaks about the expression the caller wrote.  `metabolizeText` puts the step between the two into the model
(`PreKind`: the readers see the caller's text, or `f` of it, for an arbitrary `f`). -/

/-- An entry point that hands its readers the caller's text: whenever the caller receives a success, its value is
    Python's value of the text THE CALLER WROTE (math: compile-then-evaluate of the parser's reading `rd text` with exactly
    the allow-listed names, same interactions; logic: `bool` of it; tool: Python's evaluation of the tool call; transform: a
    display of literals is itself) — for every set of texts, every reader, every pathway heuristic, every container
    behaviour the model vouches for. -/
theorem c02_value_is_pythons_value_of_the_given_text {Text : Type} (rd : Text → Inp) (detect : Text → Pathway)
    (f : Text → Text) (T : Tables) (env : Env) (hT : TablesSound T) (hc : CmpReturnsBool env) (cfg : Cfg) (box : Box)
    (latched : Bool) (text : Text) (forced : Option Pathway) (tr : List Act) (v : Val) (r : Bool) (p : Pathway)
    (h : metabolizeText rd detect .identity f T env cfg box latched text forced = (tr, .result true (some v) r (some p))) :
    (p = .glycolysis → ∃ e, (rd text).parsed = some e ∧ (pyRun T.names env e).2 = .ok v ∧ tr = (pyRun T.names env e).1) ∧
    (p = .krebs → ∃ e w t, (rd text).parsed = some e ∧ (pyRun (namesB T.names) (envB env) e).2 = .ok w ∧
        (truthyR env w).2 = .ok t ∧ v = .bool t) ∧
    (p = .oxidative → ∃ e, (rd text).parsed = some e ∧ pyToolRun T.names env cfg.tools e = (tr, .ok v)) ∧
    (p = .beta → ∀ e w, (rd text).parsed = some e → litEval e = some w → (rd text).beta = litEval e →
        v = w ∧ pyRun T.names env e = ([], .ok v) ∧ tr = []) := by
  have h' : metabolizeD T env cfg box latched (detect text) (rd text) forced = (tr, .result true (some v) r (some p)) := h
  obtain ⟨g1, g2⟩ := c02_delivered_value_is_pythons T env hT hc cfg box latched (detect text) (rd text) forced tr v r p h'
  obtain ⟨g3, g4⟩ := c02_delivered_tool_and_literal_values_are_pythons T env hT hc cfg box latched (detect text) (rd text)
    forced tr v r p h'
  exact ⟨g1, g2, g3, g4⟩

/-- The entry points of the CURRENT source hand their readers the caller's text (E1: the real `metabolize` /
    `digest_glucose` driven with string literals containing every code point, the fragments a text preprocessor would
    rewrite and spellings Python refuses, a spy on the parser entry points; by `decide` over the fact). -/
theorem c02_current_source_reads_the_given_text : Gen.preKind = .identity := by decide

/-- … so on the engine as it stands, whatever rewriting `f` one may think of is not applied: the caller's success carries
    Python's value of the text the caller wrote (math / logic), with the tables, containers and reader of the current
    source. -/
theorem c02_current_source_value_is_pythons_value_of_the_given_text {Text : Type} (rd : Text → Inp)
    (detect : Text → Pathway) (f : Text → Text) (env : Env) (hc : CmpReturnsBool env) (cfg : Cfg) (latched : Bool)
    (text : Text) (forced : Option Pathway) (tr : List Act) (v : Val) (r : Bool) (p : Pathway)
    (h : metabolizeText rd detect Gen.preKind f Gen.tables env cfg Gen.box latched text forced
          = (tr, .result true (some v) r (some p))) :
    (p = .glycolysis → ∃ e, (rd text).parsed = some e ∧ (pyRun Gen.tables.names env e).2 = .ok v) ∧
    (p = .krebs → ∃ e w t, (rd text).parsed = some e ∧ (pyRun (namesB Gen.tables.names) (envB env) e).2 = .ok w ∧
        (truthyR env w).2 = .ok t ∧ v = .bool t) := by
  rw [c02_current_source_reads_the_given_text] at h
  obtain ⟨g1, g2, _, _⟩ := c02_value_is_pythons_value_of_the_given_text rd detect f Gen.tables env c02_tables_match_python
    hc cfg Gen.box latched text forced tr v r p h
  refine ⟨fun hp => ?_, g2⟩
  obtain ⟨e, he, hv, _⟩ := g1 hp
  exact ⟨e, he, hv⟩

/-- Literal contents reach the caller as written: when the caller's text reads as ONE constant `c` (a string literal, a
    number), an entry point that reads the given text answers the math pathway with exactly `c`, nothing executed. -/
theorem c02_given_literal_is_returned_as_written {Text : Type} (rd : Text → Inp) (detect : Text → Pathway)
    (f : Text → Text) (T : Tables) (env : Env) (hT : TablesSound T) (hc : CmpReturnsBool env) (cfg : Cfg) (box : Box)
    (latched : Bool) (text : Text) (forced : Option Pathway) (tr : List Act) (v c : Val) (r : Bool)
    (hlit : (rd text).parsed = some (.const c))
    (h : metabolizeText rd detect .identity f T env cfg box latched text forced
          = (tr, .result true (some v) r (some .glycolysis))) :
    v = c ∧ tr = [] := by
  obtain ⟨g1, _, _, _⟩ := c02_value_is_pythons_value_of_the_given_text rd detect f T env hT hc cfg box latched text forced
    tr v r .glycolysis h
  obtain ⟨e, he, hv, ht⟩ := g1 rfl
  rw [hlit] at he
  cases he
  simp [pyRun, dupAnywhere, pyEval, R.pure] at hv ht
  exact ⟨hv.symm, ht⟩

/-- The shape of the seeded change "typographic operators are translated to ASCII before parsing" is expressible, and
    `Gen.preKind` is what rules it out: two texts (`'×'` and `'*'`, read as two different constants), a rewriting that
    maps the first to the second — the caller who wrote the first receives a success carrying the value of the second,
    which is NOT Python's value of what was written. -/
theorem c02_rewritten_text_delivers_another_value_witness :
    ∃ (rd : Bool → Inp) (f : Bool → Bool) (cfg : Cfg),
      (metabolizeText rd (fun _ => .glycolysis) .rewrites f Gen.tables envInt cfg Gen.box false false none).2
        = .result true (some (.h 2)) false (some .glycolysis) ∧
      (pyRun Gen.tables.names envInt (.const (.h 1))).2 = .ok (.h 1) ∧
      (rd false).parsed = some (.const (.h 1)) ∧
      (metabolizeText rd (fun _ => .glycolysis) .identity f Gen.tables envInt cfg Gen.box false false none).2
        = .result true (some (.h 1)) false (some .glycolysis) :=
  ⟨fun b => ⟨3, some (.const (.h (if b then 2 else 1))), none, false⟩, fun _ => true,
   ⟨10000, true, false, [], none, true, true, true⟩, rfl, rfl, rfl, rfl⟩

/-- `c02_value_is_pythons_value_of_the_given_text`: texts = strings, the reader reads `pi` -/
example : metabolizeText (fun (_ : String) => (⟨2, some (.name "pi"), none, false⟩ : Inp)) (fun _ => .glycolysis) Gen.preKind
    (fun s => s ++ "!") Gen.tables envInt ⟨10000, true, false, [], none, true, true, true⟩ Gen.box false "pi" none
    = ([.lookup "pi"], .result true (some (.h 1)) false (some .glycolysis)) := by rfl

/-- `c02_transform_literal_refines`: `["a", (1, 2)]` is a display of literals and the transform pathway returns it -/
example : litEval (.list [.const (.h 7), .tuple [.const (.h 1), .const (.h 2)]]) = some (.list [.h 7, .tuple [.h 1, .h 2]]) ∧
    metabolize Gen.tables envInt ⟨10000, true, false, [], none, true, true, true⟩ false .beta
      ⟨13, some (.list [.const (.h 7), .tuple [.const (.h 1), .const (.h 2)]]), some (.list [.h 7, .tuple [.h 1, .h 2]]), false⟩
      none = ([], .result true (some (.list [.h 7, .tuple [.h 1, .h 2]])) false (some .beta)) := by
  exact ⟨rfl, rfl⟩

/-- `c02_tool_pathway_refines`: `echo(pi, k=e)` with `echo` registered: one tool body, after the two lookups -/
example : toolPathway Gen.tables envInt [⟨"echo", []⟩] none
    (.call (.name "echo") [.name "pi"] [some "k"] [.name "e"]) =
    ([.lookup "pi", .lookup "e", .tool "echo" [.h 1] [("k", .h 1)]], .ok (.h 4)) := by rfl

/-- `c02_delivered_value_is_pythons`: with the containers of the current source the caller of `metabolize("true")`
    (auto-detected logic pathway) receives a success carrying `True` -/
example : metabolizeD Gen.tables envInt ⟨10000, true, false, [], none, true, true, true⟩ Gen.box false .krebs
    ⟨4, some (.name "true"), none, false⟩ none = ([], .result true (some (.bool true)) false (some .krebs)) := by rfl

/-- `c02_legacy_text_is_str_of_pythons_value` / `c02_legacy_current_source_renders`: `digest_glucose("pi")` answers with
    `str()` of the value bound to `pi`, after exactly one lookup -/
example : digestGlucoseD Gen.tables envInt ⟨10000, true, false, [], none, true, true, true⟩ Gen.box false
    ⟨2, some (.name "pi"), none, false⟩ false = ([.lookup "pi"], .rendered (.h 1)) := by rfl

/-- … and a value that does not render (`10**5000`) is answered with the failure text, not with a raise -/
example : (digestGlucoseD Gen.tables envInt ⟨10000, true, false, [], none, true, true, true⟩ Gen.box false
    ⟨2, some (.name "pi"), none, false⟩ true).2 matches .failure := by rfl

/-- `c02_literals_untouched_at_any_depth`: `'true' == '1'` (two string constants, no name) -/
example : "true" ∉ namesOf (.compare (.const (.h 1)) [.eq] [.const (.h 2)]) ∧
    "false" ∉ namesOf (.compare (.const (.h 1)) [.eq] [.const (.h 2)]) := by
  simp [namesOf, namesOfList]

/-- `c02_logic_is_bool_of_walk`: `true` on the logic pathway -/
example : (krebs Gen.tables envInt (.name "true")).2 = .ok (.bool true) := by rfl

end Operon.Mito
