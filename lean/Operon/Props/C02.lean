import Operon.Lemmas.C02
import Operon.Gen.MitoFacts
namespace Operon.Mito
theorem c02_placeholder : True := trivial
end Operon.Mito
