import Operon.Model.Telomere
namespace Operon.Telomere

/-- placeholder while the harness is brought up -/
theorem c09_placeholder (cfg : Cfg) : (init cfg).phase = .nascent := rfl

end Operon.Telomere
