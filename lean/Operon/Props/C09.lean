import Operon.Lemmas.C09
/-!
# C09 — lifecycle: legal transitions only, Hayflick bound, absorbing end states, no hang

Property theorems only.  Model: `Operon/Model/Telomere.lean` (hand-written automaton tied to
`operon_ai/state/telomere.py` by the differential correspondence of `harness/vf/props/c09.py`; lock shapes and
thresholds regenerated from the source by `harness/vf/extract/e3_telomere.py` into `Operon/Gen/Telomere*.lean`).

Statements about one call quantify over every configuration, every state (reachable or not) and every
operation; statements about histories quantify over every list of operations — no bound on `max_operations`,
thresholds, limits, costs, amounts or the length of the history.  `reset` starts a new epoch; "TERMINATED is
absorbing" is judged within an epoch.  Tick costs and renewal amounts are natural numbers.
-/
namespace Operon.Telomere

/-! ## Legal transitions -/

/-- Every phase change a call announces (`on_phase_change(a, b)`) is one of
    NASCENT→ACTIVE (by `start` or an auto-starting `tick`), ACTIVE→SENESCENT (by `tick`, `record_error`,
    `check_timeouts`), SENESCENT→ACTIVE (by `renew` only), anything-but-TERMINATED→APOPTOTIC (by
    `trigger_apoptosis` only), anything→TERMINATED (by `terminate` only); the announced changes chain from the
    phase before the call to the phase after it, so no phase change is silent.  The only exception is `reset`,
    which announces nothing and starts a new NASCENT epoch. -/
theorem c09_legal_transitions (cfg : Cfg) (s : State) (op : Op) :
    (∀ a b, Ev.change a b ∈ (step cfg s op).evs → Legal op a b) ∧
    (op ≠ .reset → follow s.phase (step cfg s op).evs = some (step cfg s op).st.phase) ∧
    (op = .reset → (step cfg s op).st.phase = .nascent ∧ (step cfg s op).evs = []) := by
  refine ⟨(legal_step cfg s op).1, (legal_step cfg s op).2, ?_⟩
  rintro rfl
  simp [step, reset]

/-- History form: over any history without `reset`, from any state, the whole stream of announced phase changes
    chains from the initial phase to the final phase — the callback stream is a complete account of the phases the
    lifecycle went through (and each element of it is legal by `c09_legal_transitions`). -/
theorem c09_phase_history_is_announced (cfg : Cfg) (s : State) (ops : List Op) (hr : ∀ op ∈ ops, op ≠ .reset) :
    follow s.phase (historyEvs cfg s ops) = some (run cfg s ops).phase := by
  induction ops generalizing s with
  | nil => simp [historyEvs, follow, run]
  | cons op ops ih =>
    simp only [historyEvs, run, follow_append]
    rw [(legal_step cfg s op).2 (hr op (by simp))]
    exact ih _ (fun o ho => hr o (by simp [ho]))

/-- The transitions do happen: `start` takes a NASCENT lifecycle to ACTIVE, `trigger_apoptosis` takes every
    non-terminated lifecycle to APOPTOTIC, `terminate` takes every lifecycle to TERMINATED. -/
theorem c09_end_states_reached (cfg : Cfg) (s : State) :
    (s.phase = .nascent → (step cfg s .start).st.phase = .active) ∧
    (s.phase ≠ .terminated → (step cfg s .apo).st.phase = .apoptotic) ∧
    (step cfg s .term).st.phase = .terminated := by
  refine ⟨?_, ?_, ?_⟩
  · intro h; simp [step, start, started, h]
  · intro h; simp [step, apoptosis, h]
  · simp [step, terminate]

/-- TERMINATED is absorbing: from a terminated lifecycle no history without `reset` leads anywhere else. -/
theorem c09_terminated_absorbing (cfg : Cfg) (s : State) (h : s.phase = .terminated) (ops : List Op)
    (hr : ∀ op ∈ ops, op ≠ .reset) : (run cfg s ops).phase = .terminated := by
  induction ops generalizing s with
  | nil => exact h
  | cons op ops ih =>
    exact ih _ (terminated_step cfg s op h (hr op (by simp))) (fun o ho => hr o (by simp [ho]))

/-- APOPTOTIC can only be left by `terminate` (and then to TERMINATED). -/
theorem c09_apoptotic_only_terminates (cfg : Cfg) (s : State) (op : Op) (h : s.phase = .apoptotic)
    (hr : op ≠ .reset) :
    (step cfg s op).st.phase = .apoptotic ∨ ((step cfg s op).st.phase = .terminated ∧ op = .term) :=
  apoptotic_step cfg s op h hr

/-- APOPTOTIC and TERMINATED never tick: the call reports False, announces nothing and leaves the whole state
    (length, counters, timestamps) untouched. -/
theorem c09_dead_never_ticks (cfg : Cfg) (s : State) (c : Nat)
    (h : s.phase = .apoptotic ∨ s.phase = .terminated) :
    (step cfg s (.tick c)).st = s ∧ (step cfg s (.tick c)).ret = .bool false ∧ (step cfg s (.tick c)).evs = [] := by
  simp [step, tick, h]

/-- A tick reports True exactly when the lifecycle is ACTIVE afterwards. -/
theorem c09_tick_true_iff_active_after (cfg : Cfg) (s : State) (c : Nat) :
    ∃ b, (step cfg s (.tick c)).ret = .bool b ∧ (b = true ↔ (step cfg s (.tick c)).st.phase = .active) := by
  obtain ⟨ph, len, errs, ops, ren, rsn, st0, la, now, evn⟩ := s
  cases ph <;> simp [step, tick, started, enterSenescence] <;> (repeat' split) <;> simp_all

/-! ## The whole alphabet: what holds across `reset`

`reset` is an operation of the property's alphabet.  It is the one operation that leaves TERMINATED (and every other
phase) for NASCENT, and it announces nothing: `c09_reset_leaves_terminated_witness`.  What holds instead, for EVERY
history with no exception: the history splits at its last `reset` (`splitEpoch`) into a prefix and a reset-free last
epoch; the last epoch starts NASCENT and behaves exactly — states, return values, callbacks — like a lifecycle
constructed at the moment of that reset (`c09_reset_starts_fresh_lifecycle`), so every clause applies to it as if
from `init`; TERMINATED is left by `reset` only. -/

/-- `terminate(); reset()` yields NASCENT and no callback reports a change out of TERMINATED: TERMINATED is absorbing
    only up to `reset` (the reading of the property: `reset` starts a new lifecycle on the same object). -/
theorem c09_reset_leaves_terminated_witness :
    (run ⟨3, 2, true, none, none⟩ (init ⟨3, 2, true, none, none⟩) [.start, .term]).phase = .terminated ∧
    (run ⟨3, 2, true, none, none⟩ (init ⟨3, 2, true, none, none⟩) [.start, .term, .reset]).phase = .nascent ∧
    historyEvs ⟨3, 2, true, none, none⟩ (init ⟨3, 2, true, none, none⟩) [.start, .term, .reset]
      = [.change .nascent .active, .change .active .terminated] := by decide

/-- TERMINATED is left by `reset` and by nothing else: a call that finds the lifecycle TERMINATED and leaves it in
    another phase is `reset`, it leaves it NASCENT and announces nothing. -/
theorem c09_terminated_left_only_by_reset (cfg : Cfg) (s : State) (op : Op) (h : s.phase = .terminated)
    (hl : (step cfg s op).st.phase ≠ .terminated) :
    op = .reset ∧ (step cfg s op).st.phase = .nascent ∧ (step cfg s op).evs = [] := by
  have : op = .reset := Classical.byContradiction fun hr => hl (terminated_step cfg s op h hr)
  subst this
  simp [step, reset]

/-- A reset starts a fresh lifecycle.  For every history `pre` and every continuation `post` (resets allowed in
    both): the lifecycle after `pre, reset, post` is — in every field except the renewal counter, which keeps
    counting — the lifecycle constructed at the moment of the reset and taken through `post`; and the callbacks
    emitted after the reset are exactly those of that fresh lifecycle.  Hence every history theorem above
    (`c09_length_in_bounds`, `c09_hayflick`, `c09_time_limits_force_senescence`, `c09_terminated_absorbing`, …), which
    speak about `run cfg (init cfg) …`, applies verbatim to what follows a reset. -/
theorem c09_reset_starts_fresh_lifecycle (cfg : Cfg) (pre post : List Op) :
    run cfg (init cfg) (pre ++ .reset :: post)
      = addRenewals (run cfg (init cfg) pre).renewals (run cfg (init cfg) (.adv (run cfg (init cfg) pre).now :: post)) ∧
    historyEvs cfg (init cfg) (pre ++ .reset :: post)
      = historyEvs cfg (init cfg) pre ++ historyEvs cfg (init cfg) (.adv (run cfg (init cfg) pre).now :: post) := by
  have hr := reset_state cfg (run cfg (init cfg) pre)
  constructor
  · rw [run_append]
    simp only [run]
    rw [hr.1]
    exact (run_addRenewals cfg _ post _).1
  · rw [historyEvs_append]
    simp only [historyEvs, hr.2, List.nil_append]
    rw [hr.1, (run_addRenewals cfg _ post _).2]
    simp [step, run]

/-- Legal transitions only, over ANY history (no hypothesis): split the history at its last `reset`; the last epoch
    starts NASCENT, contains no `reset`, and the callbacks announced during it chain from NASCENT to the final
    phase — each of them legal by `c09_legal_transitions`.  (History without `reset`: the prefix is empty and this is
    `c09_phase_history_is_announced` from `init`.) -/
theorem c09_phase_history_is_announced_across_resets (cfg : Cfg) (ops : List Op) :
    (splitEpoch ops).1 ++ (splitEpoch ops).2 = ops ∧
    (∀ op ∈ (splitEpoch ops).2, op ≠ .reset) ∧
    ((splitEpoch ops).1 = [] ∨ ∃ pre, (splitEpoch ops).1 = pre ++ [.reset]) ∧
    (run cfg (init cfg) (splitEpoch ops).1).phase = .nascent ∧
    follow .nascent (historyEvs cfg (run cfg (init cfg) (splitEpoch ops).1) (splitEpoch ops).2)
      = some (run cfg (init cfg) ops).phase := by
  have hnas : (run cfg (init cfg) (splitEpoch ops).1).phase = .nascent := by
    rcases splitEpoch_ends_with_reset ops with h | ⟨pre, h⟩
    · rw [h]; rfl
    · rw [h, run_append]; simp [run, step, reset]
  refine ⟨splitEpoch_append ops, splitEpoch_no_reset ops, splitEpoch_ends_with_reset ops, hnas, ?_⟩
  have h := c09_phase_history_is_announced cfg (run cfg (init cfg) (splitEpoch ops).1) (splitEpoch ops).2
    (splitEpoch_no_reset ops)
  rw [hnas, ← run_append, splitEpoch_append] at h
  exact h

/-- TERMINATED is absorbing, over ANY history: once the lifecycle is TERMINATED at some point of the last epoch (the
    part after the last `reset`), it is TERMINATED at the end of the history. -/
theorem c09_terminated_absorbing_in_last_epoch (cfg : Cfg) (ops a b : List Op) (hab : (splitEpoch ops).2 = a ++ b)
    (ht : (run cfg (init cfg) ((splitEpoch ops).1 ++ a)).phase = .terminated) :
    (run cfg (init cfg) ops).phase = .terminated := by
  have hb : ∀ op ∈ b, op ≠ .reset := fun op h => splitEpoch_no_reset ops op (by rw [hab]; simp [h])
  have := c09_terminated_absorbing cfg _ ht b hb
  rwa [← run_append, List.append_assoc, ← hab, splitEpoch_append] at this

/-- a history with two resets: the split is at the last one, and the lifecycle terminated after it stays terminated -/
example : splitEpoch [.start, .term, .reset, .tick 1, .reset, .start, .term, .tick 1, .renew none true]
      = ([.start, .term, .reset, .tick 1, .reset], [.start, .term, .tick 1, .renew none true]) ∧
    (run ⟨3, 2, true, none, none⟩ (init ⟨3, 2, true, none, none⟩)
      [.start, .term, .reset, .tick 1, .reset, .start, .term, .tick 1, .renew none true]).phase = .terminated := by decide

/-! ## Bounds -/

/-- The remaining length stays within `[0, max_operations]` after every history. -/
theorem c09_length_in_bounds (cfg : Cfg) (ops : List Op) :
    0 ≤ (run cfg (init cfg) ops).length ∧ (run cfg (init cfg) ops).length ≤ cfg.maxOps :=
  wf_run cfg ops _ (wf_init cfg)

/-- …and every single call preserves the bound from any state that satisfies it. -/
theorem c09_length_in_bounds_step (cfg : Cfg) (s : State) (op : Op) (h : WF cfg s) : WF cfg (step cfg s op).st :=
  wf_step cfg s op h

/-- Hayflick bound.  Take any history `pre`, then any stretch `seg` between renewals (no `reset`, every `renew`
    in it refused).  The number of unit ticks in `seg` that report True, plus the length remaining at the end,
    is at most the length remaining at the start of the stretch — hence at most `max_operations`. -/
theorem c09_hayflick (cfg : Cfg) (pre seg : List Op)
    (hseg : BetweenRenewals cfg (run cfg (init cfg) pre) seg) :
    (trueUnitTicks cfg (run cfg (init cfg) pre) seg : Int) + (run cfg (run cfg (init cfg) pre) seg).length
        ≤ (run cfg (init cfg) pre).length ∧
    trueUnitTicks cfg (run cfg (init cfg) pre) seg ≤ cfg.maxOps := by
  have hwf := wf_run cfg pre _ (wf_init cfg)
  have h := hayflick_segment cfg seg _ hwf.1 hseg
  refine ⟨h.1, ?_⟩
  have := hwf.2
  omega

/-- Each True unit tick costs exactly one unit of remaining length. -/
theorem c09_true_unit_tick_costs_one (cfg : Cfg) (s : State) (h0 : 0 ≤ s.length)
    (ht : (step cfg s (.tick 1)).ret = .bool true) : (step cfg s (.tick 1)).st.length + 1 = s.length :=
  tick_unit_decrements cfg s h0 ht

/-! ## Renewal -/

/-- Renewal is refused — reports False, changes nothing, announces nothing — when it is disallowed or the
    lifecycle is terminated; in every other case it is granted. -/
theorem c09_renew_refused_when_disallowed_or_terminated (cfg : Cfg) (s : State) (n : Option Nat) (r : Bool) :
    ((cfg.allowRenew = false ∨ s.phase = .terminated) →
      (step cfg s (.renew n r)).ret = .bool false ∧ (step cfg s (.renew n r)).st = s ∧
      (step cfg s (.renew n r)).evs = []) ∧
    (¬ (cfg.allowRenew = false ∨ s.phase = .terminated) → (step cfg s (.renew n r)).ret = .bool true) := by
  simp only [step, renew]
  (repeat' split) <;> simp_all

/-- SENESCENT → (renewal) ACTIVE: a renewal that is not refused brings a SENESCENT lifecycle back to ACTIVE — whatever
    the reason for its senescence and however much length it has left —, reports True, announces exactly
    SENESCENT→ACTIVE and clears the senescence reason. -/
theorem c09_renewal_recovers (cfg : Cfg) (s : State) (n : Option Nat) (r : Bool)
    (hs : s.phase = .senescent) (ha : cfg.allowRenew = true) :
    (step cfg s (.renew n r)).st.phase = .active ∧ (step cfg s (.renew n r)).ret = .bool true ∧
    (step cfg s (.renew n r)).evs = [.change .senescent .active] ∧ (step cfg s (.renew n r)).st.reason = none := by
  simp [step, renew, hs, ha]

/-! ## Limits force senescence -/

/-- Error limit: an ACTIVE lifecycle whose error count reaches the threshold, or whose error rate reaches the
    extracted ERROR_SENESCENCE_RATE, is SENESCENT after that `record_error`, which reports False and announces
    ACTIVE→SENESCENT. -/
theorem c09_error_limit_forces_senescence (cfg : Cfg) (s : State) (ha : s.phase = .active)
    (hlim : cfg.errThr ≤ s.errors + 1 ∨ errorRateHit (s.errors + 1) s.ops = true) :
    (step cfg s .err).st.phase = .senescent ∧ (step cfg s .err).ret = .bool false ∧
    (step cfg s .err).evs = [.change .active .senescent, .senescence .errors] := by
  obtain ⟨ph, len, errs, ops, ren, rsn, st0, la, now, evn⟩ := s
  simp only at ha hlim; subst ha
  simp only [step, recordError, enterSenescence]
  (repeat' split) <;> simp_all

/-- Depletion: a tick that leaves an ACTIVE (or auto-started) lifecycle with no remaining length, or with at
    most the extracted SENESCENCE_THRESHOLD share of it, leaves it SENESCENT and reports False. -/
theorem c09_depletion_forces_senescence (cfg : Cfg) (s : State) (c : Nat)
    (ha : s.phase = .active ∨ s.phase = .nascent) (hd : depleted cfg (max 0 (s.length - c)) = true) :
    (step cfg s (.tick c)).st.phase = .senescent ∧ (step cfg s (.tick c)).ret = .bool false ∧
    Ev.change .active .senescent ∈ (step cfg s (.tick c)).evs := by
  obtain ⟨ph, len, errs, ops, ren, rsn, st0, la, now, evn⟩ := s
  simp only at ha hd
  rcases ha with rfl | rfl <;> simp [step, tick, started, enterSenescence, hd]

/-- Time limits.  After ANY history, an ACTIVE lifecycle has a start time `t0` and a last-activity time `t1`
    (neither in the future), and `check_timeouts`
    * makes it SENESCENT (reporting False) as soon as the lifetime limit is reached, `now - t0 ≥ max_lifetime`;
    * makes it SENESCENT (reporting False) as soon as the idle limit is reached, `now - t1 ≥ idle_timeout`;
    * and otherwise leaves it ACTIVE and reports True. -/
theorem c09_time_limits_force_senescence (cfg : Cfg) (ops : List Op)
    (ha : (run cfg (init cfg) ops).phase = .active) :
    ∃ t0 t1, (run cfg (init cfg) ops).started = some t0 ∧ (run cfg (init cfg) ops).lastAct = some t1 ∧
      t0 ≤ (run cfg (init cfg) ops).now ∧ t1 ≤ (run cfg (init cfg) ops).now ∧
      let s := run cfg (init cfg) ops
      let o := step cfg s .timeouts
      (∀ L, cfg.life = some L → L ≠ 0 → L ≤ s.now - t0 →
        o.st.phase = .senescent ∧ o.ret = .bool false ∧ o.evs = [.change .active .senescent, .senescence .timeout]) ∧
      (∀ I, cfg.idle = some I → I ≠ 0 → I ≤ s.now - t1 →
        o.st.phase = .senescent ∧ o.ret = .bool false ∧ Ev.change .active .senescent ∈ o.evs) ∧
      (limitHit cfg.life (some t0) s.now = false → limitHit cfg.idle (some t1) s.now = false →
        o.st.phase = .active ∧ o.ret = .bool true ∧ o.evs = []) := by
  have ht := timed_run cfg ops _ (timed_init cfg)
  generalize run cfg (init cfg) ops = s at ha ht
  obtain ⟨ph, len, errs, nops, ren, rsn, st0, la, now, evn⟩ := s
  simp only at ha; subst ha
  unfold Timed at ht
  cases st0 <;> cases la <;> simp at ht
  rename_i t0 t1
  refine ⟨t0, t1, rfl, rfl, ht.1, ht.2, ?_, ?_, ?_⟩
  · intro L hL hne hle
    simp [step, checkTimeouts, limitHit, enterSenescence, hL, hne, hle]
  · intro I hI hne hle
    simp only [step, checkTimeouts, limitHit, enterSenescence, hI]
    (repeat' split) <;> simp_all
  · intro h1 h2
    simp [step, checkTimeouts, h1, h2]

/-- The limits are edge-triggered: they force senescence AT the call that tests them (`record_error` for the error
    limits, `check_timeouts` for the time limits, `tick` for depletion), not in between.  An ACTIVE lifecycle above its
    error threshold exists (errors recorded while NASCENT do not senesce it; the next `record_error` does), and a
    lifecycle past its lifetime keeps ticking True until `check_timeouts` is called. -/
theorem c09_limits_are_edge_triggered_witness :
    (run ⟨5, 2, true, none, none⟩ (init ⟨5, 2, true, none, none⟩) [.err, .err, .err, .tick 1]).phase = .active ∧
    (run ⟨5, 2, true, none, none⟩ (init ⟨5, 2, true, none, none⟩) [.err, .err, .err, .tick 1]).errors = 3 ∧
    (run ⟨5, 2, true, none, none⟩ (init ⟨5, 2, true, none, none⟩) [.err, .err, .err, .tick 1, .err]).phase = .senescent ∧
    (step ⟨5, 2, true, some 900000000, none⟩
      (run ⟨5, 2, true, some 900000000, none⟩ (init ⟨5, 2, true, some 900000000, none⟩) [.start, .adv 1800000000])
      (.tick 1)).ret = .bool true ∧
    (run ⟨5, 2, true, some 900000000, none⟩ (init ⟨5, 2, true, some 900000000, none⟩)
      [.start, .adv 1800000000, .tick 1, .timeouts]).phase = .senescent := by decide

/-- The thresholds used by the model were recognised in the source by extractor E5 (numeric class attributes). -/
theorem c09_thresholds_known : Gen.TelomereConsts.known = true ∧ 0 < Gen.TelomereConsts.senescenceDen ∧
    0 < Gen.TelomereConsts.errorRateDen := by decide

/-! ## Every lifecycle call returns -/

/-- Lock discipline on the shapes extracted from the CURRENT source (E3): the analysis recognised every use of
    the lock, no method contains a `while` loop, and every public method of `Telomere`, called from outside
    (nothing held), returns whichever of its branches, regions and self-calls are taken or skipped — it never
    waits for the lock it holds itself and never recurses without end.
    Proof: the decidable check that the all-branches-taken execution of each public method returns, lifted to all
    branch choices by `execM_mono`. -/
theorem c09_every_call_returns :
    Gen.TelomereLocks.recognised = true ∧
    (∀ x ∈ genTable, x.whileLoops = 0) ∧
    ∀ m x, genTable[m]? = some x → x.pub = true → ∀ ch, ∃ ch', callPublic genTable genKind m ch = .ret ch' :=
  ⟨by decide, by decide, fun m x hx hp => returns_of_allTake genTable genKind (by decide) m x hx hp⟩

/-- The same for the automaton: every operation of the model calls a public method that exists in the extracted
    table and returns; the lock events the model attributes to the call (its path) run to completion under the
    extracted lock kind and are one of the complete lock traces of that method's extracted shape. -/
theorem c09_lifecycle_calls_return (cfg : Cfg) (s : State) (op : Op) :
    lockRun genKind 0 (step cfg s op).lock = true ∧
    match op.method with
    | none => (step cfg s op).lock = []
    | some name => ∃ m x, genTable.indexOf name = some m ∧ genTable[m]? = some x ∧ x.pub = true ∧
        (∀ ch, ∃ ch', callPublic genTable genKind m ch = .ret ch') ∧
        (step cfg s op).lock ∈ tracesM genTable genTable.length m := by
  have hok : pathsOk genTable genKind op.method (lockPaths op) = true := by
    cases op <;> simp only [Op.method, lockPaths] <;> decide
  have hmem := lock_mem_lockPaths cfg s op
  refine ⟨pathsOk_run _ _ _ _ hok _ hmem, ?_⟩
  cases hm : op.method with
  | none =>
    rw [hm] at hok
    exact pathsOk_none _ _ _ hok _ hmem
  | some name =>
    rw [hm] at hok
    obtain ⟨m, x, hi, hx, hp, hl⟩ := pathsOk_some _ _ _ _ hok _ hmem
    exact ⟨m, x, hi, hx, hp, c09_every_call_returns.2.2 m x hx hp, hl⟩

/-- A re-entrant lock never blocks its holder: for every table of shapes, every depth budget, hold count, method
    and branch choice the execution is not `blocked`. -/
theorem c09_rlock_never_blocks (T : Table) (fuel held m : Nat) (ch : List Bool) :
    execM T .rlock fuel held m ch ≠ .blocked :=
  execM_rlock_ne_blocked T fuel held m ch

/-- General lemma of the lock discipline: a shape that never re-acquires the lock while holding it (no region
    calls, directly or transitively, a method that takes the lock) returns under EVERY lock kind — in particular
    under a non-reentrant `threading.Lock` — whichever branches are taken.  (The current `tick` is not of this
    form: it calls `start` inside its region, which is why the lock has to be re-entrant.) -/
theorem c09_flat_shape_returns (T : Table) (k : LockKind) (fuel m : Nat) (h : flatM T fuel m = true)
    (ch : List Bool) : ∃ ch', execM T k fuel 0 m ch = .ret ch' :=
  flat_returns T k fuel m h ch

/-- a flat shape under a non-reentrant lock: `a` takes the lock and calls a lock-free helper, `b` calls `a` outside
    any region -/
private def flatTable : Table :=
  [⟨"_h", false, 0, []⟩, ⟨"a", true, 0, [.region [0]]⟩, ⟨"b", true, 0, [.call 1, .region []]⟩]

/-- the hypothesis of `c09_flat_shape_returns` is satisfiable (and the pinned `tick` shape does not satisfy it) -/
example : flatM flatTable 3 2 = true ∧ flatM pinnedTable 2 1 = false ∧
    callPublic flatTable .lock 2 [] = .ret [] := by decide

/-- The shape the pinned tree had — `threading.Lock()` and `tick` calling `start` inside its own region — is
    stuck: the first tick of a never-started lifecycle waits forever for the lock it holds; the lock-event path
    `acq acq rel rel` of that call does not run under a non-reentrant lock.  With a re-entrant lock the same
    shape returns. -/
theorem c09_pinned_tick_self_deadlock_witness :
    callPublic pinnedTable .lock 1 [] = .blocked ∧
    lockRun .lock 0 (step ⟨10, 3, true, none, none⟩ (init ⟨10, 3, true, none, none⟩) (.tick 1)).lock = false ∧
    callPublic pinnedTable .rlock 1 [] = .ret [] := by decide

/-! ## Read-only accessors and the call interface -/

/-- `is_active()` says ACTIVE exactly when the phase is ACTIVE; `is_operational()` says no exactly in the two dead
    phases APOPTOTIC and TERMINATED. -/
theorem c09_accessors_agree_with_phase (s : State) :
    (isActive s = true ↔ s.phase = .active) ∧
    (isOperational s = false ↔ (s.phase = .apoptotic ∨ s.phase = .terminated)) := by
  obtain ⟨ph, len, errs, ops, ren, rsn, st0, la, now, evn⟩ := s
  cases ph <;> simp [isActive, isOperational]

/-- A tick returns exactly what `is_active()` says afterwards, and a lifecycle that `is_operational()` denies never
    ticks (False, nothing changes). -/
theorem c09_tick_reports_is_active (cfg : Cfg) (s : State) (c : Nat) :
    (step cfg s (.tick c)).ret = .bool (isActive (step cfg s (.tick c)).st) ∧
    (isOperational s = false → (step cfg s (.tick c)).ret = .bool false ∧ (step cfg s (.tick c)).st = s) := by
  obtain ⟨ph, len, errs, ops, ren, rsn, st0, la, now, evn⟩ := s
  cases ph <;> simp [step, tick, started, enterSenescence, isActive, isOperational] <;> (repeat' split) <;> simp_all

/-- When `get_status().time_remaining` of an ACTIVE lifecycle has run down to zero, `check_timeouts` makes it SENESCENT
    and reports False; and no time remaining is reported (None) exactly when no lifetime limit applies or the
    lifecycle has no start time. -/
theorem c09_time_remaining_zero_forces_senescence (cfg : Cfg) (s : State) (ha : s.phase = .active)
    (h : timeRemaining cfg s = some 0) :
    (step cfg s .timeouts).st.phase = .senescent ∧ (step cfg s .timeouts).ret = .bool false ∧
    (step cfg s .timeouts).evs = [.change .active .senescent, .senescence .timeout] := by
  obtain ⟨ph, len, errs, ops, ren, rsn, st0, la, now, evn⟩ := s
  obtain ⟨mo, et, ar, life, idle⟩ := cfg
  simp only at ha; subst ha
  cases life <;> cases st0 <;> simp [timeRemaining] at h
  rename_i l t0
  have hl : l ≤ now - t0 := by omega
  simp [step, checkTimeouts, limitHit, enterSenescence, h.1, hl]

/-- The call interface read from the signatures on this run: a bare `tick()` is a unit tick (cost 1), a bare `renew()`
    restores the full length and resets the errors (amount None, reset_errors True), and the keyword names are
    `cost`, `amount`, `reset_errors`, `reason`. -/
theorem c09_call_defaults :
    Gen.TelomereConsts.tickDefaultCost = some 1 ∧ Gen.TelomereConsts.renewDefaultAmount = some none ∧
    Gen.TelomereConsts.renewDefaultReset = some true ∧
    Gen.TelomereConsts.paramNames =
      [("tick", ["cost"]), ("renew", ["amount", "reset_errors"]), ("trigger_apoptosis", ["reason"])] := by decide

/-- the hypothesis of the time-remaining theorem is met: ACTIVE, lifetime of a quarter hour used up -/
example : (run ⟨3, 2, true, some 900000000, none⟩ (init ⟨3, 2, true, some 900000000, none⟩) [.start, .adv 900000000]).phase = .active ∧
    timeRemaining ⟨3, 2, true, some 900000000, none⟩
      (run ⟨3, 2, true, some 900000000, none⟩ (init ⟨3, 2, true, some 900000000, none⟩) [.start, .adv 900000000]) = some 0 := by
  decide

/-! ## The event log

`State.events` is `len(self._events)`.  What `_log_event` does — one entry per call, the last `logCap` kept — and how
many entries a new lifecycle has are MEASURED on the real class on every run (E5 probe); the nine translated methods
carry the counter, so the agreement theorems below cover it. -/

/-- the measured facts: the log keeps the last 1000 entries; a new lifecycle has one entry ("created") -/
theorem c09_log_facts : Gen.TelomereConsts.logCap = 1000 ∧ Gen.TelomereConsts.logInit = 1 := by decide

/-- The log is bounded and never empty: after every history (resets included) it holds between 1 and `logCap`
    entries. -/
theorem c09_event_log_bounded (cfg : Cfg) (ops : List Op) :
    1 ≤ (run cfg (init cfg) ops).events ∧ (run cfg (init cfg) ops).events ≤ logCap := by
  have hc : 1 ≤ logCap := by decide
  have step_inv : ∀ (s : State) (op : Op), (1 ≤ s.events ∧ s.events ≤ logCap) →
      (1 ≤ (step cfg s op).st.events ∧ (step cfg s op).st.events ≤ logCap) := by
    intro s op h
    obtain ⟨ph, len, errs, nops, ren, rsn, st0, la, now, evn⟩ := s
    simp only at h
    cases op <;>
      simp only [step, start, tick, recordError, heartbeat, checkTimeouts, renew, apoptosis, terminate, reset, started,
        enterSenescence, logged] <;> (repeat' split) <;> (try simp_all) <;> omega
  have : ∀ (l : List Op) (s : State), (1 ≤ s.events ∧ s.events ≤ logCap) →
      (1 ≤ (run cfg s l).events ∧ (run cfg s l).events ≤ logCap) := by
    intro l
    induction l with
    | nil => intro s h; exact h
    | cons op l ih => intro s h; exact ih _ (step_inv s op h)
  exact this ops (init cfg) (by simp only [init, logged]; omega)

/-- Every announced change is on the log: a call other than `reset` leaves at least as many new entries as it made
    `on_phase_change` calls (up to the capacity) — `_transition_to` logs "phase_change" before it calls back. -/
theorem c09_every_change_is_logged (cfg : Cfg) (s : State) (op : Op) (hr : op ≠ .reset) :
    min logCap (s.events + countChanges (step cfg s op).evs) ≤ (step cfg s op).st.events := by
  obtain ⟨ph, len, errs, nops, ren, rsn, st0, la, now, evn⟩ := s
  cases op <;> cases ph <;>
    simp [step, start, tick, recordError, heartbeat, checkTimeouts, renew, apoptosis, terminate, started,
      enterSenescence, logged, countChanges, Ev.isChange, List.filter] at hr ⊢ <;> (repeat' split) <;>
    (try simp_all [countChanges, Ev.isChange, List.filter]) <;> (try omega)

/-! ## Several lifecycles alive at once, resets in between

Lifecycles share nothing but the clock.  `World` holds any number of them (slot → configuration, state); a world
history interleaves constructions, method calls addressed to a slot and clock advances in any order. -/

/-- Non-interference.  Over ANY world history during which slot `k` is not re-constructed, the lifecycle in slot `k`
    ends exactly where its own calls and the clock advances — `proj k ws`, every call on any other lifecycle
    erased — take it from where it was: calls on other lifecycles (their ticks, errors, renewals, resets,
    constructions) never change its phase, length, error or operation counts, and so never move its limits. -/
theorem c09_instances_independent (w : World) (k : Nat) (i : Inst) (ws : List WOp)
    (h : w.get k = some i) (hn : ∀ c, WOp.new k c ∉ ws) :
    (runW w ws).get k = some ⟨i.cfg, run i.cfg i.st (proj k ws)⟩ :=
  independent_runW k ws w i h hn

/-- A lifecycle constructed at any moment of any world — whatever the others did before — starts from the pristine
    initial state (zero counters, full length, NASCENT) and afterwards is what its own history makes of it. -/
theorem c09_instance_from_construction (w : World) (k : Nat) (cfg : Cfg) (ws : List WOp)
    (hn : ∀ c, WOp.new k c ∉ ws) :
    (runW w (.new k cfg :: ws)).get k = some ⟨cfg, run cfg (init cfg) (.adv w.now :: proj k ws)⟩ := by
  have h := independent_runW k ws (stepW w (.new k cfg)).1 ⟨cfg, initAt cfg w.now⟩ (by simp [stepW]) hn
  simp only [World.get, runW, h, initAt_eq, run]

/-- Every lifecycle of every world reachable from the empty world is a lifecycle in the sense of all theorems
    above: its state is `run cfg (init cfg) ops` for some history `ops` of its own, so the history theorems
    (`c09_length_in_bounds`, `c09_hayflick`, `c09_time_limits_force_senescence`, …) hold for it; in particular its
    length is within bounds and its timestamps are consistent. -/
theorem c09_every_instance_is_a_lifecycle (ws : List WOp) (k : Nat) (i : Inst)
    (h : (runW World.empty ws).get k = some i) :
    (∃ ops, i.st = run i.cfg (init i.cfg) ops) ∧ WF i.cfg i.st ∧ Timed i.st := by
  have hm : (k, i) ∈ (runW World.empty ws).insts := by
    have := List.lookup_eq_some_iff.mp h
    grind
  obtain ⟨ops, ho⟩ := reach_runW ws World.empty (by simp [World.empty]) (k, i) hm
  refine ⟨⟨ops, ho⟩, ?_, ?_⟩
  · rw [ho]; exact wf_run _ ops _ (wf_init _)
  · rw [ho]; exact timed_run _ ops _ (timed_init _)

/-- `reset` restores the pristine state of THIS lifecycle (renewal count and clock kept): whatever happened before
    the reset — on this lifecycle or on any other — the error and operation counts the error limits are judged on
    start from zero again, as often as it is repeated. -/
theorem c09_reset_is_pristine (cfg : Cfg) (s : State) :
    (step cfg s .reset).st = { init cfg with renewals := s.renewals, now := s.now } := by
  simp [step, reset, init]

/-- two lifecycles interleaved, a reset in between: slot 0 reaches its error limit on its own two errors although
    slot 1 was renewed (errors reset) in between, and a lifecycle constructed afterwards starts from zero -/
example :
    let c : Cfg := ⟨12, 2, true, none, none⟩
    let w := runW World.empty [.new 0 c, .new 1 c, .on 0 .reset, .on 1 .reset, .on 0 .start, .on 1 .start,
      .on 0 .err, .on 1 (.renew none true), .on 0 .err, .on 1 (.tick 1), .new 2 c]
    (w.get 0).map (fun i => (i.st.phase, i.st.errors)) = some (.senescent, 2) ∧
    (w.get 1).map (fun i => (i.st.phase, i.st.ops)) = some (.active, 1) ∧
    (w.get 2).map (fun i => (i.st.phase, i.st.errors, i.st.ops)) = some (.nascent, 0, 0) := by decide

/-! ## Callbacks that raise

Outside the property's assumption "callbacks return".  `stepCb` models the nine methods under an `on_phase_change` /
`on_senescence` that raises (the exception leaves the method, the lock is released by the `with` block, the rest of the
method is skipped).  What still holds for such a call: -/

/-- A call cut short by a raising callback is still a legal, fully announced move that keeps every invariant: the
    changes delivered to the callback are legal for the operation and chain from the phase before to the phase the
    lifecycle is left in; the length stays within bounds; an ACTIVE/SENESCENT lifecycle still has its timestamps; the
    lock events are those of the normal path (acquired and released, so the next call does not hang); and when no
    callback raised the call is the normal one. -/
theorem c09_raising_callback_call_is_consistent (m : CbMode) (cfg : Cfg) (s : State) (op : Op) :
    (∀ a b, Ev.change a b ∈ (stepCb m cfg s op).1.evs → Legal op a b) ∧
    (op ≠ .reset → follow s.phase (stepCb m cfg s op).1.evs = some (stepCb m cfg s op).1.st.phase) ∧
    (WF cfg s → WF cfg (stepCb m cfg s op).1.st) ∧
    (Timed s → Timed (stepCb m cfg s op).1.st) ∧
    (stepCb m cfg s op).1.lock = (step cfg s op).lock ∧
    lockRun genKind 0 (stepCb m cfg s op).1.lock = true ∧
    ((stepCb m cfg s op).2 = false → (stepCb m cfg s op).1.st = (step cfg s op).st ∧
      (stepCb m cfg s op).1.evs = (step cfg s op).evs) := by
  have h := stepCb_consistent m cfg s op
  refine ⟨h.1, h.2.1, stepCb_wf m cfg s op, stepCb_timed m cfg s op, h.2.2, ?_, ?_⟩
  · rw [h.2.2]; exact (c09_lifecycle_calls_return cfg s op).1
  · cases m with
    | ok => intro _; exact ⟨rfl, rfl⟩
    | senescenceRaises => intro _; exact ⟨rfl, rfl⟩
    | changeRaises =>
      simp only [stepCb]
      split <;> simp

/-- What a raising `on_phase_change` does leave behind: a renewal of a SENESCENT lifecycle ends ACTIVE with the stale
    senescence reason still set (the reason is cleared after the transition), and an auto-starting tick ends ACTIVE
    with nothing consumed. -/
theorem c09_raising_callback_stale_reason_witness :
    let c : Cfg := ⟨5, 1, true, none, none⟩
    let s := run c (init c) [.start, .err]
    s.phase = .senescent ∧ (stepCb .changeRaises c s (.renew none true)).2 = true ∧
    (stepCb .changeRaises c s (.renew none true)).1.st.phase = .active ∧
    (stepCb .changeRaises c s (.renew none true)).1.st.reason = some .errors ∧
    (stepCb .changeRaises c (init c) (.tick 1)).1.st.phase = .active ∧
    (stepCb .changeRaises c (init c) (.tick 1)).1.st.length = 5 ∧
    (stepCb .changeRaises c (init c) (.tick 1)).1.st.ops = 0 := by decide

/-- Bounds and timestamps survive everything explored beyond the quantifier: over ANY history in which each call runs
    under whatever callbacks are installed at that moment (returning, `on_phase_change` raising, `on_senescence`
    raising) and under whatever configuration is in force at that moment (error threshold, renewal permission,
    lifetime and idle limits re-assigned at will; `max_operations` kept), the remaining length stays within
    `[0, max_operations]` and an ACTIVE/SENESCENT lifecycle keeps its start and last-activity times. -/
theorem c09_bounds_hold_under_raising_callbacks_and_reconfiguration (cfg0 : Cfg)
    (h : List (CbMode × Cfg × Op)) (hm : ∀ x ∈ h, x.2.1.maxOps = cfg0.maxOps) :
    WF cfg0 (runCb (init cfg0) h) ∧ Timed (runCb (init cfg0) h) := by
  have key : ∀ (l : List (CbMode × Cfg × Op)) (s : State), (∀ x ∈ l, x.2.1.maxOps = cfg0.maxOps) →
      WF cfg0 s → Timed s → WF cfg0 (runCb s l) ∧ Timed (runCb s l) := by
    intro l
    induction l with
    | nil => intro s _ hw ht; exact ⟨hw, ht⟩
    | cons x xs ih =>
      obtain ⟨m, cfg, op⟩ := x
      intro s hx hw ht
      have hc : cfg.maxOps = cfg0.maxOps := hx (m, cfg, op) (by simp)
      have hw' : WF cfg s := by unfold WF at *; rw [hc]; exact hw
      have h1 := stepCb_wf m cfg s op hw'
      have h2 : WF cfg0 (stepCb m cfg s op).1.st := by unfold WF at *; rw [← hc]; exact h1
      exact ih _ (fun y hy => hx y (by simp [hy])) h2 (stepCb_timed m cfg s op ht)
  exact key h (init cfg0) hm (wf_init cfg0) (timed_init cfg0)

/-- such a history: the threshold is lowered on the live lifecycle, a callback raises in between -/
example :
    let c : Cfg := ⟨5, 3, true, none, none⟩
    let c' : Cfg := ⟨5, 1, false, none, none⟩
    (runCb (init c) [(.changeRaises, c, .tick 1), (.ok, c, .tick 1), (.ok, c', .err), (.ok, c', .renew none true)]).phase
      = .senescent := by decide

/-! ## Agreement of the hand-written automaton with the source translated on this run

`Operon/Gen/TelomereTranslated.lean` is regenerated from `operon_ai/state/telomere.py` by
`harness/vf/extract/py2lean_telomere.py` on every run (fail closed: a construct outside the supported subset yields
`untranslatable …`, which no proof below survives).  Each theorem: for every configuration, every state and every
list of callbacks already emitted, the translated Python method computes exactly the state, the callback stream and
the return value of `step` for that operation.  Hence every theorem above about the nine mutators is a theorem about
the translated source.  Of the read-only accessors the two predicates `is_active` / `is_operational` are translated as well
(`c09_translation_agrees_is_active`, `…_is_operational`) and so is `get_age` (`c09_translation_agrees_get_age`);
`get_status`, `get_statistics` are NOT:
`timeRemaining`/`opsRemaining` are hand-written and tied to the code by the differential correspondence only (their lock
shape is extracted by E3).
All translated definitions (the nine methods and whatever helpers they call, under whatever name) are `@[simp]`; the
proofs name none of them except the method in the statement, and normalise both sides to decision trees over the same
atoms (`cases` on the phase / the optionals, `simp`, `split`, `omega`), so behaviour-preserving refactorings inside the
translator's subset — extracted or inlined helpers, flag variable vs. direct return, guard clause vs. nested `if`,
named constant sets, logging — leave them green. -/

theorem c09_translation_agrees_start (cfg : Cfg) (s : State) (evs : List Ev) : Tr.start cfg s evs = stepOut cfg s evs .start := by
  obtain ⟨ph, len, errs, ops, ren, rsn, st0, la, now, evn⟩ := s
  cases ph <;> simp [stepOut, step, start, started] <;> (repeat' split) <;> (try simp_all) <;> (try omega)

theorem c09_translation_agrees_tick (cfg : Cfg) (s : State) (evs : List Ev) (c : Nat) : Tr.tick cfg s evs c = stepOut cfg s evs (.tick c) := by
  obtain ⟨ph, len, errs, ops, ren, rsn, st0, la, now, evn⟩ := s
  cases ph <;>
    simp [stepOut, step, tick, started, enterSenescence, depleted, Int.max_def] <;> (repeat' split) <;> (try simp_all) <;>
    (try omega)

theorem c09_translation_agrees_record_error (cfg : Cfg) (s : State) (evs : List Ev) : Tr.record_error cfg s evs = stepOut cfg s evs .err := by
  obtain ⟨ph, len, errs, ops, ren, rsn, st0, la, now, evn⟩ := s
  cases ph <;>
    simp [stepOut, step, recordError, enterSenescence, errorRateHit, Gen.TelomereConsts.errorRateNum,
      Gen.TelomereConsts.errorRateDen] <;>
    (repeat' split) <;> (try simp_all) <;> (try omega)

theorem c09_translation_agrees_heartbeat (cfg : Cfg) (s : State) (evs : List Ev) : Tr.heartbeat cfg s evs = stepOut cfg s evs .hb := by
  simp [stepOut, step, heartbeat]

theorem c09_translation_agrees_check_timeouts (cfg : Cfg) (s : State) (evs : List Ev) : Tr.check_timeouts cfg s evs = stepOut cfg s evs .timeouts := by
  obtain ⟨ph, len, errs, ops, ren, rsn, st0, la, now, evn⟩ := s
  obtain ⟨mo, et, ar, life, idle⟩ := cfg
  cases ph <;> cases life <;> cases idle <;> cases st0 <;> cases la <;>
    simp [stepOut, step, checkTimeouts, enterSenescence, limitHit] <;> (repeat' split) <;> (try simp_all) <;> (try omega)

theorem c09_translation_agrees_renew (cfg : Cfg) (s : State) (evs : List Ev) (n : Option Nat) (r : Bool) :
    Tr.renew cfg s evs n r = stepOut cfg s evs (.renew n r) := by
  obtain ⟨ph, len, errs, ops, ren, rsn, st0, la, now, evn⟩ := s
  rcases n with _ | _ | a <;> cases ph <;> cases r <;>
    simp [stepOut, step, renew, pyOr, renewAmount, Int.min_def] <;> (repeat' split) <;> (try simp_all) <;> (try omega)

theorem c09_translation_agrees_trigger_apoptosis (cfg : Cfg) (s : State) (evs : List Ev) : Tr.trigger_apoptosis cfg s evs () = stepOut cfg s evs .apo := by
  obtain ⟨ph, len, errs, ops, ren, rsn, st0, la, now, evn⟩ := s
  cases ph <;> simp [stepOut, step, apoptosis] <;> (repeat' split) <;> (try simp_all) <;> (try omega)

theorem c09_translation_agrees_terminate (cfg : Cfg) (s : State) (evs : List Ev) : Tr.terminate cfg s evs = stepOut cfg s evs .term := by
  obtain ⟨ph, len, errs, ops, ren, rsn, st0, la, now, evn⟩ := s
  cases ph <;> simp [stepOut, step, terminate] <;> (repeat' split) <;> (try simp_all) <;> (try omega)

theorem c09_translation_agrees_reset (cfg : Cfg) (s : State) (evs : List Ev) : Tr.reset cfg s evs = stepOut cfg s evs .reset := by
  obtain ⟨ph, len, errs, ops, ren, rsn, st0, la, now, evn⟩ := s
  cases ph <;> simp [stepOut, step, reset] <;> (repeat' split) <;> (try simp_all) <;> (try omega)

/-- the two predicate accessors are translated too: `is_active()` / `is_operational()` change nothing, call nothing back
    and return exactly `isActive` / `isOperational` of the model -/
theorem c09_translation_agrees_is_active (cfg : Cfg) (s : State) (evs : List Ev) :
    Tr.is_active cfg s evs = (s, evs, isActive s) := by
  obtain ⟨ph, len, errs, ops, ren, rsn, st0, la, now, evn⟩ := s
  cases ph <;> simp [isActive] <;> (repeat' split) <;> (try simp_all)

theorem c09_translation_agrees_is_operational (cfg : Cfg) (s : State) (evs : List Ev) :
    Tr.is_operational cfg s evs = (s, evs, isOperational s) := by
  obtain ⟨ph, len, errs, ops, ren, rsn, st0, la, now, evn⟩ := s
  cases ph <;> simp [isOperational] <;> (repeat' split) <;> (try simp_all)

theorem c09_translation_agrees_get_age (cfg : Cfg) (s : State) (evs : List Ev) :
    Tr.get_age cfg s evs = (s, evs, age s) := by
  obtain ⟨ph, len, errs, ops, ren, rsn, st0, la, now, evn⟩ := s
  cases st0 <;> simp [age] <;> (repeat' split) <;> (try simp_all)

/-- The time remaining never exceeds the lifetime limit, and it is what is left of the limit after the age:
    `time_remaining + min(age, limit) = limit`. -/
theorem c09_time_remaining_bounded (cfg : Cfg) (s : State) (t : Nat) (h : timeRemaining cfg s = some t) :
    ∃ l a, cfg.life = some l ∧ age s = some a ∧ t ≤ l ∧ t + min a l = l := by
  obtain ⟨ph, len, errs, ops, ren, rsn, st0, la, now, evn⟩ := s
  obtain ⟨mo, et, ar, life, idle⟩ := cfg
  cases life <;> cases st0 <;> simp [timeRemaining, age] at h ⊢
  omega

/-! ## Non-vacuity: concrete histories meeting the hypotheses -/

private def c1 : Cfg := ⟨3, 2, true, some 900000000, some 15000000⟩

/-- a terminated lifecycle exists and stays terminated under renew / start / tick -/
example : (run c1 (init c1) [.start, .term]).phase = .terminated ∧
    (run c1 (run c1 (init c1) [.start, .term]) [.renew none true, .start, .tick 1, .apo]).phase = .terminated := by
  decide

/-- `max_operations` re-assigned on a live lifecycle (outside the quantifier: configurations are fixed at construction):
    RAISING it keeps the length within the bounds of the new configuration, at the re-assignment and after every later
    call. -/
theorem c09_raising_max_operations_keeps_bounds (cfg cfg' : Cfg) (s : State) (h : WF cfg s)
    (hm : cfg.maxOps ≤ cfg'.maxOps) : WF cfg' s ∧ ∀ ops, WF cfg' (run cfg' s ops) := by
  have h' : WF cfg' s := ⟨h.1, Int.le_trans h.2 (Int.ofNat_le.mpr hm)⟩
  exact ⟨h', fun ops => wf_run cfg' ops s h'⟩

/-- …and LOWERING it below the remaining length is what breaks "length ≤ max" by construction (no method was called) -/
theorem c09_lowering_max_operations_witness :
    WF ⟨5, 3, true, none, none⟩ (init ⟨5, 3, true, none, none⟩) ∧
    ¬ WF ⟨2, 3, true, none, none⟩ (init ⟨5, 3, true, none, none⟩) := by
  constructor
  · exact wf_init _
  · intro h; exact absurd h.2 (by decide)

/-! ## A callback that calls back into the lifecycle (auto-renewal)

Outside the property's assumption "callbacks do not call back".  `stepRe` models the nine methods under an
`on_senescence` that calls `renew(None, True)` on the lifecycle. -/

/-- A call under an auto-renewing `on_senescence`: a tick still reports True exactly when the lifecycle is ACTIVE
    afterwards; the length stays within bounds; the lock events run to completion under a re-entrant lock; when the
    call announces no senescence it is the normal call; and when it does and renewal is allowed, the lifecycle is ACTIVE
    again afterwards (the senescence and the recovery both announced, in this order). -/
theorem c09_auto_renewing_callback_call_is_consistent (cfg : Cfg) (s : State) (op : Op) :
    (∀ c, op = .tick c → ∃ b, (stepRe cfg s op).ret = .bool b ∧ (b = true ↔ (stepRe cfg s op).st.phase = .active)) ∧
    (WF cfg s → WF cfg (stepRe cfg s op).st) ∧
    lockRun .rlock 0 (stepRe cfg s op).lock = true ∧
    ((step cfg s op).evs.any Ev.isSenescence = false → (stepRe cfg s op).st = (step cfg s op).st ∧
      (stepRe cfg s op).evs = (step cfg s op).evs ∧ (stepRe cfg s op).ret = (step cfg s op).ret) ∧
    ((step cfg s op).evs.any Ev.isSenescence = true → cfg.allowRenew = true →
      (stepRe cfg s op).st.phase = .active ∧
      (stepRe cfg s op).evs = (step cfg s op).evs ++ [.change .senescent .active]) := by
  by_cases h : (step cfg s op).evs.any Ev.isSenescence = true
  · have hs := sen_step cfg s op h
    have hr := renew_of_senescent cfg (step cfg s op).st hs.1
    refine ⟨?_, ?_, ?_, ?_, ?_⟩
    · intro c hc
      subst hc
      refine ⟨decide ((step cfg (step cfg s (.tick c)).st (.renew none true)).st.phase = .active), ?_, ?_⟩
      · simp only [stepRe, h, if_true]
      · simp only [stepRe, h, if_true]; simp
    · intro hw
      simp only [stepRe, h, if_true]
      exact wf_step cfg _ _ (wf_step cfg s op hw)
    · simp only [stepRe, h, if_true]
      cases ha : cfg.allowRenew
      · rw [hr.2 ha]
        rcases hs.2 with hl | hl <;> rw [hl] <;> decide
      · rw [(hr.1 ha).2.2]
        rcases hs.2 with hl | hl <;> rw [hl] <;> decide
    · intro h'; rw [h] at h'; cases h'
    · intro _ ha
      simp only [stepRe, h, if_true]
      exact ⟨(hr.1 ha).1, by rw [(hr.1 ha).2.1]⟩
  · have h0 : (step cfg s op).evs.any Ev.isSenescence = false := by simpa using h
    have he : stepRe cfg s op = step cfg s op := by simp [stepRe, h0]
    refine ⟨?_, ?_, ?_, ?_, ?_⟩
    · intro c hc
      subst hc
      rw [he]
      exact c09_tick_true_iff_active_after cfg s c
    · intro hw; rw [he]; exact wf_step cfg s op hw
    · rw [he]
      obtain ⟨ph, len, errs, ops, ren, rsn, st0, la, now, evn⟩ := s
      cases op <;> simp [step, start, tick, recordError, heartbeat, checkTimeouts, renew, apoptosis, terminate, reset] <;>
        (repeat' split) <;> simp [lockRun, canAcq, lkOnce, lkNested, lkNone]
    · intro _; rw [he]; exact ⟨rfl, rfl, rfl⟩
    · intro h'; rw [h0] at h'; cases h'

/-- auto-renewal happens: the tick that depletes the lifecycle announces A>S, the callback renews, the tick reports
    True and the lifecycle is ACTIVE at full length with one renewal; under a non-reentrant lock the nested renewal would be
    stuck -/
example :
    let c : Cfg := ⟨3, 2, true, none, none⟩
    let o := stepRe c (run c (init c) [.start]) (.tick 3)
    o.ret = .bool true ∧ o.st.phase = .active ∧ o.st.length = 3 ∧ o.st.renewals = 1 ∧
    o.evs = [.change .active .senescent, .senescence .depletion, .change .senescent .active] ∧
    o.lock = [.acq, .acq, .rel, .rel] ∧ lockRun .lock 0 o.lock = false := by decide

/-! ## Overlapping calls (two threads on one lifecycle)

OS threads are outside the property's quantifier (sequential histories); what can be said from the source is the
discipline that MAKES overlapping calls sequential: every mutator does all its work on the state inside one
`with self._lock` region.  The facts are regenerated from the source by E3 on every run. -/

/-- On the CURRENT source: the nine mutators are public and take the lock, and every public method that takes the lock
    has exactly one top-level region and touches no private state outside it - neither directly nor through a
    self-method called outside the region (no unlocked fast path, no check-then-act window before the lock is taken). -/
theorem c09_mutators_work_on_the_state_only_under_the_lock :
    Gen.TelomereLocks.recognised = true ∧ mutatorsTakeLock genTable = true ∧
    lockedMethodsAtomic genTable genUnlocked = true := by decide

/-- the discipline is not vacuous: a `tick` that reads the phase through `is_operational()` BEFORE queueing on the lock
    (seeded change s2) is rejected, and so is a method split into two regions -/
example :
    lockedMethodsAtomic [⟨"is_operational", true, 0, []⟩, ⟨"tick", true, 0, [.call 0, .region []]⟩]
      [("is_operational", ["_phase"]), ("tick", [])] = false ∧
    lockedMethodsAtomic [⟨"renew", true, 0, [.region [], .region []]⟩] [("renew", [])] = false ∧
    lockedMethodsAtomic [⟨"is_operational", true, 0, []⟩, ⟨"tick", true, 0, [.region [0]]⟩]
      [("is_operational", ["_phase"]), ("tick", [])] = true := by decide

/-- soundness of `exposed` (every table): a method whose exposed state is empty mentions no state outside its own
    regions, and every self-method it calls outside a region has no exposed state either -/
theorem c09_exposed_empty_is_hereditary (T : Table) (U : List (String × List String)) (fuel m : Nat) (x : Method)
    (hx : T[m]? = some x) (h : exposed T U (fuel + 1) m = []) :
    (U.lookup x.name).getD ["<no fact>"] = [] ∧ ∀ c, Item.call c ∈ x.body → exposed T U fuel c = [] := by
  simp only [exposed, hx, List.append_eq_nil_iff] at h
  refine ⟨h.1, ?_⟩
  have key : ∀ (items : List Item), exposedItems (exposed T U fuel) items = [] →
      ∀ c, Item.call c ∈ items → exposed T U fuel c = [] := by
    intro items
    induction items with
    | nil => intro _ c hc; cases hc
    | cons it rest ih =>
      intro hn c hc
      cases it with
      | call c' =>
        simp only [exposedItems, List.append_eq_nil_iff] at hn
        rcases List.mem_cons.mp hc with hc | hc
        · cases hc; exact hn.1
        · exact ih hn.2 c hc
      | region cs =>
        simp only [exposedItems] at hn
        rcases List.mem_cons.mp hc with hc | hc
        · cases hc
        · exact ih hn c hc
  exact key x.body h.2

/-- Two overlapping calls (thread A held back before its `j`-th acquisition of the lock while thread B makes its call)
    amount to a sequential history of the same two calls: all history theorems above apply to it. -/
theorem c09_overlapping_calls_are_a_sequential_history (cfg : Cfg) (s : State) (j : Nat) (a b : Op) :
    raceOps cfg s j a b = [a, b] ∨ raceOps cfg s j a b = [b, a] := by
  unfold raceOps; split <;> simp

/-- APOPTOTIC / TERMINATED never tick, also when the tick overlaps the call that ends the lifecycle: if `terminate()` /
    `trigger_apoptosis()` (on a lifecycle that is not TERMINATED) takes effect first, the tick reports False and leaves
    the ended lifecycle - length, counters, timestamps - exactly as the end call left it; TERMINATED / APOPTOTIC it stays. -/
theorem c09_tick_overlapping_an_end_call_never_ticks_the_dead (cfg : Cfg) (s : State) (j c : Nat) (b : Op)
    (hb : b = .term ∨ (b = .apo ∧ s.phase ≠ .terminated))
    (hord : raceOps cfg s j (.tick c) b = [b, .tick c]) :
    run cfg s (raceOps cfg s j (.tick c) b) = (step cfg s b).st ∧
    (step cfg (step cfg s b).st (.tick c)).ret = .bool false ∧
    ((step cfg s b).st.phase = .terminated ∨ (step cfg s b).st.phase = .apoptotic) := by
  have hdead : (step cfg s b).st.phase = .apoptotic ∨ (step cfg s b).st.phase = .terminated := by
    rcases hb with hb | ⟨hb, hT⟩
    · subst hb; right; simp [step, terminate]
    · subst hb; left; simp [step, apoptosis, hT]
  have h := c09_dead_never_ticks cfg (step cfg s b).st c hdead
  refine ⟨?_, h.2.1, hdead.symm⟩
  rw [hord]
  simp [run, h.1]

/-- the order hypothesis is met: a tick held back before it takes the lock lets the end call go first -/
example : raceOps c1 (run c1 (init c1) [.start, .tick 1]) 0 (.tick 1) .term = [.term, .tick 1] ∧
    raceOps c1 (init c1) 1 (.tick 1) .apo = [.tick 1, .apo] := by decide

/-- Hayflick is tight: with max_operations = 30 exactly 26 unit ticks report True before senescence (the 27th
    reaches the 10 % threshold), and the segment is a `BetweenRenewals` stretch -/
example : trueUnitTicks ⟨30, 5, true, none, none⟩ (init ⟨30, 5, true, none, none⟩) (List.replicate 30 (.tick 1)) = 26 := by
  decide

example : BetweenRenewals ⟨30, 5, false, none, none⟩ (init ⟨30, 5, false, none, none⟩)
    [.tick 1, .renew none true, .tick 1] := by
  simp [BetweenRenewals, step, renew]

/-- the first tick of a never-started lifecycle auto-starts and reports True -/
example : (step c1 (init c1) (.tick 1)).ret = .bool true ∧ (step c1 (init c1) (.tick 1)).st.phase = .active ∧
    (step c1 (init c1) (.tick 1)).lock = lkNested := by decide

/-- hypotheses of the error-limit theorem are satisfiable: ACTIVE, one error short of the threshold -/
example : (run c1 (init c1) [.start, .tick 0, .tick 0, .tick 0, .err]).phase = .active ∧
    c1.errThr ≤ (run c1 (init c1) [.start, .tick 0, .tick 0, .tick 0, .err]).errors + 1 := by decide

/-- hypotheses of the time-limit theorem are satisfiable: ACTIVE after renewal, lifetime reached -/
example : (run c1 (init c1) [.start, .tick 1, .tick 1, .renew none true, .hb, .adv 900000000]).phase = .active ∧
    (step c1 (run c1 (init c1) [.start, .tick 1, .tick 1, .renew none true, .hb, .adv 900000000]) .timeouts).st.reason
      = some .timeout := by decide

/-- the time limits also fire after LONG gaps: one day, a week and a month plus one second with a 15-minute lifetime
    limit; two days and 20 minutes of idleness with a 15-second idle limit -/
example : (step c1 (run c1 (init c1) [.start, .adv 86400000000]) .timeouts).st.reason = some .timeout ∧
    (step c1 (run c1 (init c1) [.start, .adv 604800000000]) .timeouts).st.phase = .senescent ∧
    (step c1 (run c1 (init c1) [.start, .adv 2592001000000]) .timeouts).ret = .bool false ∧
    (step ⟨3, 2, true, none, some 15000000⟩ (run ⟨3, 2, true, none, some 15000000⟩ (init ⟨3, 2, true, none, some 15000000⟩)
      [.start, .adv 174000000000]) .timeouts).st.reason = some .idle := by decide

/-- record_error before start leaves the lifecycle NASCENT (the repaired behaviour), renewal of a senescent
    lifecycle is the only way back to ACTIVE -/
example : (run ⟨5, 1, true, none, none⟩ (init ⟨5, 1, true, none, none⟩) [.err]).phase = .nascent ∧
    (run ⟨5, 1, true, none, none⟩ (init ⟨5, 1, true, none, none⟩) [.start, .err]).phase = .senescent ∧
    (run ⟨5, 1, true, none, none⟩ (init ⟨5, 1, true, none, none⟩) [.start, .err, .renew (some 0) true]).phase = .active := by
  decide

end Operon.Telomere
