import Operon.Lemmas.C06TabW
/-!
# C06 (second module) - the weight-sensitive strategies' decision table

Property theorem only.  Kept apart from `Props/C06.lean` so that lake checks the two kernel evaluations in parallel
and a table that no longer agrees is attributed to this obligation alone.  `Operon.Gen.QuorumTables.weightTable` is
regenerated on every run by EVALUATING the real `run_vote` (harness/vf/extract/quorum_tables.py).
-/
namespace Operon.Quorum
open Operon.Gen.Quorum

/-- Weight tables: for every evaluated configuration of WEIGHTED / CONFIDENCE / BAYESIAN (default and custom
    thresholds, min_voters 0 / 1 / 2) and every multiset of at most 3 voters over the 13-voter alphabet (dyadic
    weights, reliabilities and confidences incl. 0, absent confidence, a clamping weight, idle and failing voters),
    the digit the real code produced is the model's outcome - except the ballots marked 7, whose exact Bayesian
    posterior lies within 1e-6 of the threshold (IEEE rounding decides those; they are not compared). -/
theorem c06_weight_tables_agree :
    weightTableComplete = true ∧
    ∀ row ∈ weightTable, ∃ cfg, cfgOfCode row.1 = some cfg ∧
      ∀ (i : Nat) (ballot : List Voter) (d : Nat), weightBallots[i]? = some ballot →
        (unpack weightBallots.length row.2)[i]? = some d → d = 7 ∨ d = outcomeCode cfg ballot := by
  have hok : WeightTableOk := by unfold WeightTableOk; decide +kernel
  refine ⟨by decide, fun row hrow => ?_⟩
  have h := List.all_eq_true.mp hok row hrow
  unfold weightRowOk at h
  cases hc : cfgOfCode row.1 with
  | none => simp [hc] at h
  | some cfg =>
    simp only [hc] at h
    refine ⟨cfg, rfl, fun i ballot d hb hd => ?_⟩
    exact (agreeB_get h).2 i d (outcomeCode cfg ballot) hd (by simp [List.getElem?_map, hb])

/-- the table is not empty: 18 configurations x 560 ballots on the current tree; e.g. the second ballot is the lone
    full-weight, fully confident PERMIT voter, PERMIT (digit 1) under WEIGHTED with the default threshold -/
example : 10 ≤ weightTable.length ∧ weightBallots.length = 560 ∧
    (unpack weightBallots.length (weightTable.head!).2)[1]? = some 1 := by decide +kernel

end Operon.Quorum
