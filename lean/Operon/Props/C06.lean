import Operon.Model.Quorum
/-! placeholder while the model of the pinned behaviour is validated -/
namespace Operon.Quorum
theorem c06_placeholder : True := trivial
end Operon.Quorum
