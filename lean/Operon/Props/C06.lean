import Operon.Lemmas.C06
import Operon.Lemmas.C06Tab
/-!
# C06 — quorum decisions follow the votes: no PERMIT without sufficient permit support

Property theorems only.  Model: `Operon/Model/Quorum.lean` (hand-written; constants regenerated from the source
into `Operon/Gen/QuorumConsts.lean` on every run; tied to `operon_ai/topology/quorum.py` by the differential
correspondence of `harness/vf/props/c06.py`).

Every statement quantifies over every configuration (strategy, custom threshold, `min_voters`), every electorate
of any size and every behaviour of every voter (PERMIT / EXECUTE / BLOCK / DEFER / any other action / raising;
numeric, absent or non-numeric confidence; rational weights and reliabilities).  The only hypotheses are the
property's own domain (`NonNegThreshold`: a custom threshold is not negative; `Voter.Valid`: weights, reliabilities
and confidences are not negative) and, for the unanimity clause, the reading `Attainable` / `Supported` explained
there.  Each hypothesis comes with an `example` that meets it and a `…_witness` showing it cannot be dropped.
-/
namespace Operon.Quorum
open Operon.Gen.Quorum

/-! ### Soundness: PERMIT only on the strategy's criterion, never without a permit vote -/

/-- The decision is PERMIT exactly when the quorum is reported reached — for every strategy, every ballot. -/
theorem c06_permit_iff_reached (cfg : Cfg) (voters : List Voter) :
    (runVote cfg voters).decision = .permit ↔ (runVote cfg voters).reached = true := by
  unfold runVote
  rw [decision_eq]
  by_cases hg : nP (collect voters) + nB (collect voters) < cfg.minVoters
  · simp only [hg, if_true]
    have : (aggregate cfg voters.length (collect voters)).reached = false := by
      cases h : (aggregate cfg voters.length (collect voters)).reached
      · rfl
      · have := (reached_iff cfg _ _).mp h; omega
    simp [this]
  · simp only [hg, if_false, decisionOf]
    cases (aggregate cfg voters.length (collect voters)).reached <;> simp

/-- A ballot in which no voter casts a permit vote is never reached and never PERMIT — all seven strategies,
    default and custom (non-negative) thresholds, any `min_voters`, any weights and confidences. -/
theorem c06_no_permit_without_permit_vote (cfg : Cfg) (voters : List Voter) (ht : NonNegThreshold cfg)
    (h : ∀ v ∈ voters, (toVote v).kind ≠ .permit) :
    (runVote cfg voters).reached = false ∧ (runVote cfg voters).decision ≠ .permit := by
  have hr : (runVote cfg voters).reached = false := by
    cases hrr : (runVote cfg voters).reached
    · rfl
    · have hp := stratReached_needs_permit cfg ht _ _ ((run_reached_iff cfg voters).mp hrr).2
      obtain ⟨x, hx, hk⟩ := (nP_pos_iff _).mp hp
      unfold collect at hx
      rw [List.mem_map] at hx
      obtain ⟨v, hv, rfl⟩ := hx
      exact absurd hk (h v hv)
  refine ⟨hr, ?_⟩
  intro hd
  rw [(c06_permit_iff_reached cfg voters).mp hd] at hr
  cases hr

/-- The same for `EmergencyQuorum` with any non-negative `emergency_threshold` … -/
theorem c06_emergency_no_permit_without_permit_vote (t : Rat) (ht : 0 ≤ t) (cfg : Cfg)
    (hc : emergencyCfg (some t) = some cfg) (voters : List Voter)
    (h : ∀ v ∈ voters, (toVote v).kind ≠ .permit) :
    (runVote cfg voters).reached = false ∧ (runVote cfg voters).decision ≠ .permit := by
  apply c06_no_permit_without_permit_vote cfg voters _ h
  have : cfg.custom = some t := by
    unfold emergencyCfg at hc
    split at hc <;> simp at hc
    rw [← hc]
  intro t' ht'
  rw [this] at ht'
  cases ht'
  exact ht

/-- … in particular with its default threshold (0.3 on the current tree): the configuration exists, is the count
    strategy with `min_voters = 1`, and never permits without a permit vote. -/
theorem c06_emergency_default_sound :
    ∃ cfg, emergencyDefaultCfg = some cfg ∧ cfg.strategy = .threshold ∧
      ∀ voters : List Voter, (∀ v ∈ voters, (toVote v).kind ≠ .permit) →
        (runVote cfg voters).reached = false ∧ (runVote cfg voters).decision ≠ .permit := by
  have h0 : 0 ≤ emergencyDefaultThreshold := by decide +kernel
  have hc : emergencyDefaultCfg = some ⟨.threshold, some emergencyDefaultThreshold, emergencyMinVoters⟩ := by
    decide +kernel
  exact ⟨_, hc, rfl, fun voters h =>
    c06_emergency_no_permit_without_permit_vote _ h0 _ hc voters h⟩

/-- Reached exactly when the strategy's stated criterion is met by the votes cast (`Criterion`, written without
    division, rounding or filtered lists): `t·(permit+block) < permit` on counts / effective weights / confident
    effective weights; no block and a permit for UNANIMOUS; a permit vote and posterior above `t` for BAYESIAN;
    the count — or the share of the colony, at least one — for THRESHOLD; and `min_voters` active votes. -/
theorem c06_reached_iff_criterion (cfg : Cfg) (voters : List Voter) (ht : NonNegThreshold cfg)
    (hv : ∀ v ∈ voters, v.Valid) :
    (runVote cfg voters).reached = true ↔ Criterion cfg voters.length (collect voters) := by
  rw [run_reached_iff]
  exact stratReached_iff_criterion cfg ht _ (collect_valid hv)

/-- … and that criterion cannot be met without a permit vote. -/
theorem c06_criterion_needs_permit_vote (cfg : Cfg) (voters : List Voter) (ht : NonNegThreshold cfg)
    (hv : ∀ v ∈ voters, v.Valid) (hc : Criterion cfg voters.length (collect voters)) :
    ∃ v ∈ voters, (toVote v).kind = .permit := by
  have hr := (c06_reached_iff_criterion cfg voters ht hv).mpr hc
  have hp := stratReached_needs_permit cfg ht _ _ ((run_reached_iff cfg voters).mp hr).2
  obtain ⟨x, hx, hk⟩ := (nP_pos_iff _).mp hp
  unfold collect at hx
  rw [List.mem_map] at hx
  obtain ⟨v, hv', rfl⟩ := hx
  exact ⟨v, hv', hk⟩

/-- Fewer than `min_voters` permit+block votes: not reached, decision ABSTAIN, whatever the strategy. -/
theorem c06_below_min_voters_abstains (cfg : Cfg) (voters : List Voter)
    (h : nP (collect voters) + nB (collect voters) < cfg.minVoters) :
    (runVote cfg voters).reached = false ∧ (runVote cfg voters).decision = .abstain := by
  constructor
  · cases hr : (runVote cfg voters).reached
    · rfl
    · have := ((run_reached_iff cfg voters).mp hr).1; omega
  · unfold runVote; rw [decision_eq]; simp [h]

/-- Any block vote defeats UNANIMOUS (custom threshold and weights are irrelevant). -/
theorem c06_block_defeats_unanimous (cfg : Cfg) (voters : List Voter) (hs : cfg.strategy = .unanimous)
    (hb : ∃ v ∈ voters, (toVote v).kind = .block) :
    (runVote cfg voters).reached = false ∧ (runVote cfg voters).decision ≠ .permit := by
  have hr : (runVote cfg voters).reached = false := by
    cases hrr : (runVote cfg voters).reached
    · rfl
    · have h2 := ((run_reached_iff cfg voters).mp hrr).2
      unfold StratReached at h2
      simp only [hs] at h2
      obtain ⟨v, hv, hk⟩ := hb
      have : 0 < nB (collect voters) :=
        (nB_pos_iff _).mpr ⟨toVote v, by unfold collect; exact List.mem_map.mpr ⟨v, hv, rfl⟩, hk⟩
      omega
  refine ⟨hr, fun hd => ?_⟩
  rw [(c06_permit_iff_reached cfg voters).mp hd] at hr
  cases hr

/-! ### Unanimous permit -/

/-- A non-empty electorate of at least `min_voters` voters who all cast a permit vote is PERMIT, whenever the
    configured criterion is attainable by that electorate (`Attainable`: share threshold below 1, Bayesian
    threshold at most the ½ prior, custom count at most the number of voters) and — for the weighted strategies —
    some permit carries positive effective weight (`Supported`; with confidence ≥ CONFIDENCE_MIN for CONFIDENCE). -/
theorem c06_unanimous_permit_is_permit (cfg : Cfg) (voters : List Voter) (hne : voters ≠ [])
    (hall : ∀ v ∈ voters, (toVote v).kind = .permit) (hn : cfg.minVoters ≤ voters.length)
    (hv : ∀ v ∈ voters, v.Valid) (ha : Attainable cfg voters.length) (hs : Supported cfg (collect voters)) :
    (runVote cfg voters).reached = true ∧ (runVote cfg voters).decision = .permit := by
  have hall' : ∀ x ∈ collect voters, x.kind = .permit := by
    intro x hx; unfold collect at hx; rw [List.mem_map] at hx
    obtain ⟨v, h1, rfl⟩ := hx; exact hall v h1
  have hne' : collect voters ≠ [] := by
    intro h; apply hne; unfold collect at h; simpa using h
  have hlen := collect_length voters
  have hr : (runVote cfg voters).reached = true := by
    rw [run_reached_iff]
    constructor
    · rw [nP_of_all_permit hall', hlen]; omega
    · have := stratReached_of_unanimous cfg hne' hall' (collect_valid hv) (by rw [hlen]; exact ha) hs
      rw [hlen] at this; exact this
  exact ⟨hr, (c06_permit_iff_reached cfg voters).mpr hr⟩

/-- The same with idle voters present: nobody blocks - every voter permits, abstains, defers or fails - at least
    one permit and at least `min_voters` permits.  For every strategy but the count strategy (where idle members
    enlarge the colony the count is a share of; see the next theorem) the ballot is PERMIT under the same reading
    (`Attainable`, `Supported`). -/
theorem c06_unanimous_permit_with_idle_voters (cfg : Cfg) (voters : List Voter) (hs : cfg.strategy ≠ .threshold)
    (hnb : ∀ v ∈ voters, (toVote v).kind ≠ .block) (hp : 0 < nP (collect voters))
    (hn : cfg.minVoters ≤ nP (collect voters)) (hv : ∀ v ∈ voters, v.Valid)
    (ha : Attainable cfg voters.length) (hsup : Supported cfg (collect voters)) :
    (runVote cfg voters).reached = true ∧ (runVote cfg voters).decision = .permit := by
  -- the voters who cast a permit or block vote: all of them permit
  have hc : collect (voters.filter fun v => (toVote v).active) = (collect voters).filter Vote.active := by
    unfold collect; rw [List.filter_map]; rfl
  have c1 : nP ((collect voters).filter Vote.active) = nP (collect voters) := by
    unfold nP; rw [ofKind_filter_active _ (Or.inl rfl)]
  have hallA : ∀ v ∈ voters.filter (fun v => (toVote v).active), (toVote v).kind = .permit := by
    intro v hm
    obtain ⟨h1, h2⟩ := List.mem_filter.mp hm
    have h3 := hnb v h1
    simp only [Vote.active, Bool.or_eq_true, decide_eq_true_eq] at h2
    rcases h2 with h2 | h2
    · exact h2
    · exact absurd h2 h3
  have hlenA : (voters.filter fun v => (toVote v).active).length = nP (collect voters) := by
    rw [← collect_length, hc, ← c1]
    exact (nP_of_all_permit (vs := (collect voters).filter Vote.active) (by
      intro x hx
      rw [← hc] at hx
      unfold collect at hx
      obtain ⟨v, hv', rfl⟩ := List.mem_map.mp hx
      exact hallA v hv')).symm
  have hneA : (voters.filter fun v => (toVote v).active) ≠ [] := by
    intro h; rw [h] at hlenA; simp at hlenA; omega
  have hresA := c06_unanimous_permit_is_permit cfg _ hneA hallA (by rw [hlenA]; exact hn)
    (fun v hm => hv v (List.mem_filter.mp hm).1) (attainable_indep cfg hs _ _ ha)
    (by rw [hc]; exact supported_filter cfg _ hsup)
  have hsr := ((run_reached_iff cfg _).mp hresA.1).2
  have hl : (voters.filter fun v => (toVote v).active).length = ((collect voters).filter Vote.active).length := by
    rw [← hc, collect_length]
  rw [hc, hl] at hsr
  have hfull : StratReached cfg voters.length (collect voters) := stratReached_add_idle cfg hs _ _ hsr
  have hr : (runVote cfg voters).reached = true := by
    rw [run_reached_iff]; exact ⟨by omega, hfull⟩
  exact ⟨hr, (c06_permit_iff_reached cfg voters).mpr hr⟩

/-- … and for the count strategy, where the criterion is a number of permits out of the whole colony: whenever the
    permits meet it (`CountMet`: the custom count, or the share of the colony - idle members included - or by default
    more than half of the colony) and `min_voters` voters were active, the ballot is PERMIT, whoever else is idle. -/
theorem c06_count_strategy_permits_when_count_met (cfg : Cfg) (voters : List Voter) (hs : cfg.strategy = .threshold)
    (ht : NonNegThreshold cfg) (hn : cfg.minVoters ≤ nP (collect voters) + nB (collect voters))
    (hc : CountMet cfg voters.length (nP (collect voters))) :
    (runVote cfg voters).reached = true ∧ (runVote cfg voters).decision = .permit := by
  have hr : (runVote cfg voters).reached = true := by
    rw [run_reached_iff]
    refine ⟨hn, ?_⟩
    unfold StratReached; simp only [hs]
    exact (thresholdCount_le_iff cfg ht _ _).mpr hc
  exact ⟨hr, (c06_permit_iff_reached cfg voters).mpr hr⟩

/-- BAYESIAN beyond the ½ prior: when nobody blocks and one permit vote carries evidence
    `likGain · confidence · weight ≥ x` for some `x ∈ (0, ½]` (a unit-weight, fully confident permit: x = 0.4), every
    threshold below `½ + x` is exceeded - so e.g. any number of confident unit-weight permits (and any idle voters)
    is PERMIT for every threshold below 0.9, not only for thresholds up to the ½ that `Attainable` admits. -/
theorem c06_bayesian_confident_unanimity (cfg : Cfg) (voters : List Voter) (hs : cfg.strategy = .bayesian)
    (hnb : ∀ v ∈ voters, (toVote v).kind ≠ .block) (hv : ∀ v ∈ voters, v.Valid)
    (x : Rat) (hx0 : 0 < x) (hx : x ≤ 1 / 2)
    (hstrong : ∃ v ∈ voters, (toVote v).kind = .permit ∧ x ≤ likGain * ((toVote v).conf * (toVote v).weight))
    (ht : effThreshold cfg.custom majorityThreshold < 1 / 2 + x)
    (hn : cfg.minVoters ≤ nP (collect voters)) :
    (runVote cfg voters).reached = true ∧ (runVote cfg voters).decision = .permit := by
  have hnb' : ∀ x ∈ collect voters, x.kind ≠ .block := by
    intro y hy; unfold collect at hy
    obtain ⟨v, h1, rfl⟩ := List.mem_map.mp hy; exact hnb v h1
  have hs' : ∃ y ∈ collect voters, y.kind = .permit ∧ x ≤ likGain * (y.conf * y.weight) := by
    obtain ⟨v, h1, h2, h3⟩ := hstrong
    exact ⟨toVote v, by unfold collect; exact List.mem_map.mpr ⟨v, h1, rfl⟩, h2, h3⟩
  have hsr := bayes_reached_of_strong cfg hs voters.length hnb' (collect_valid hv) hx0 hx hs' ht
  have hr : (runVote cfg voters).reached = true := by
    rw [run_reached_iff]; exact ⟨by omega, hsr⟩
  exact ⟨hr, (c06_permit_iff_reached cfg voters).mpr hr⟩

/-- the three theorems apply: three permits and a failed voter under SUPERMAJORITY with `min_voters = 3`; two
    confident permits and an abstainer under BAYESIAN with threshold ¾ (beyond `Attainable`); two permits, two idle
    members under the default count strategy are NOT enough (2 of 4 is no strict majority of the colony) while three
    permits are -/
example : (runVote ⟨.supermajority, none, 3⟩ [voterOf .permit 1 1, voterOf .execute 1 1, voterOf .raises 2 1, voterOf .permit 1 1]).decision = .permit ∧
    (runVote ⟨.bayesian, some (3 / 4), 1⟩ [voterOf .permit 1 1, voterOf .other 1 1, voterOf .permit 1 1]).decision = .permit ∧
    (runVote ⟨.threshold, none, 1⟩ [voterOf .permit 1 1, voterOf .permit 1 1, voterOf .other 1 1, voterOf .defer 1 1]).decision = .block ∧
    (runVote ⟨.threshold, none, 1⟩ [voterOf .permit 1 1, voterOf .permit 1 1, voterOf .permit 1 1, voterOf .defer 1 1]).decision = .permit := by
  decide +kernel

example : (runVote ⟨.bayesian, some (3 / 4), 1⟩ [voterOf .permit 1 1, voterOf .other 1 1, voterOf .permit 1 1]).decision = .permit :=
  (c06_bayesian_confident_unanimity ⟨.bayesian, some (3 / 4), 1⟩ _ rfl (by decide +kernel)
    (by intro v hv; simp at hv; rcases hv with rfl | rfl | rfl <;> exact voterOf_valid (by decide +kernel) (by decide +kernel))
    (2 / 5) (by decide +kernel) (by decide +kernel)
    ⟨voterOf .permit 1 1, by simp, by decide +kernel, by decide +kernel⟩ (by decide +kernel) (by decide +kernel)).2

/-! ### Monotonicity -/

/-- General form: make any number of voters more favourable at once (each one unchanged, or its block turned into
    a permit, or its permit's weight / confidence raised) — a PERMIT stays a PERMIT. -/
theorem c06_improvement_monotone (cfg : Cfg) (voters voters' : List Voter)
    (h : Pointwise (fun v v' => Improves (toVote v) (toVote v')) voters voters')
    (hv : ∀ v ∈ voters, v.Valid) (hr : (runVote cfg voters).decision = .permit) :
    (runVote cfg voters').decision = .permit ∧ (runVote cfg voters').reached = true := by
  have hr1 := (c06_permit_iff_reached cfg voters).mp hr
  have hp : Pointwise Improves (collect voters) (collect voters') := h.map (fun _ _ r => r)
  obtain ⟨-, -, c3, -⟩ := improves_counts hp
  obtain ⟨g, s⟩ := (run_reached_iff cfg voters).mp hr1
  have hr2 : (runVote cfg voters').reached = true := by
    rw [run_reached_iff]
    refine ⟨by omega, ?_⟩
    rw [← h.length_eq]
    exact stratReached_mono cfg _ hp (collect_valid hv) s
  exact ⟨(c06_permit_iff_reached cfg voters').mpr hr2, hr2⟩

/-- Turning one block voter into a permit voter (same weight, reliability, confidence) never turns PERMIT into
    anything else. -/
theorem c06_flip_block_to_permit_monotone (cfg : Cfg) (before after : List Voter) (v : Voter)
    (hk : v.kind = .block) (hv : ∀ x ∈ before ++ v :: after, x.Valid)
    (hr : (runVote cfg (before ++ v :: after)).decision = .permit) :
    (runVote cfg (before ++ { v with kind := .permit } :: after)).decision = .permit :=
  (c06_improvement_monotone cfg _ _
    (Pointwise.single (R := fun v v' => Improves (toVote v) (toVote v')) (fun _ => Or.inl rfl)
      (improves_of_flip v hk) before after) hv hr).1

/-- Raising the weight and/or the reported confidence of one voter who casts a permit never turns PERMIT into
    anything else - whatever numbers are reported (negative, above 1, beyond any bound: `_protein_to_vote` clamps a
    reported confidence into [0, 1], so a larger report is never a smaller confidence). -/
theorem c06_raise_permit_weight_or_confidence_monotone (cfg : Cfg) (before after : List Voter) (v : Voter)
    (w' : Rat) (hw : v.weight ≤ w') (conf' : Conf)
    (hc : conf' = v.conf ∨ ∃ c c', v.conf = .num c ∧ conf' = .num c' ∧ c ≤ c')
    (hp : (toVote v).kind = .permit) (hv : ∀ x ∈ before ++ v :: after, x.Valid)
    (hr : (runVote cfg (before ++ v :: after)).decision = .permit) :
    (runVote cfg (before ++ { v with weight := w', conf := conf' } :: after)).decision = .permit := by
  refine (c06_improvement_monotone cfg _ _ (Pointwise.single
    (R := fun v v' => Improves (toVote v) (toVote v')) (fun x => Or.inl rfl) ?_ before after) hv hr).1
  have hvv : v.Valid := hv v (by simp)
  obtain ⟨hk, hnb⟩ := (casts_permit_iff v).mp hp
  have hrel : v.weight * v.rel ≤ w' * v.rel := mul_le_mul_of_nonneg_right hw hvv.2
  right; right
  rcases hc with rfl | ⟨c, c', h1, rfl, hcc⟩
  · unfold toVote
    rcases hk with hk | hk <;> cases hcf : v.conf <;> simp_all [voteTypeOf]
  · unfold toVote
    rcases hk with hk | hk <;> simp [hk, h1, voteTypeOf, hrel, clamp01_mono hcc]

/-! ### Counts and idle voters -/

/-- The reported counts are the ballots cast: one vote per colony member, in order; permit / block / abstain
    counts are the numbers of such votes; together with the deferring voters they add up to the total. -/
theorem c06_counts_equal_ballots (cfg : Cfg) (voters : List Voter) :
    (runVote cfg voters).votes = voters.map toVote ∧
    (runVote cfg voters).total = voters.length ∧
    (runVote cfg voters).permit = (voters.filter fun v => (toVote v).kind = .permit).length ∧
    (runVote cfg voters).block = (voters.filter fun v => (toVote v).kind = .block).length ∧
    (runVote cfg voters).abstain = (voters.filter fun v => (toVote v).kind = .abstain).length ∧
    (runVote cfg voters).permit + (runVote cfg voters).block + (runVote cfg voters).abstain
      + (voters.filter fun v => (toVote v).kind = .defer).length = (runVote cfg voters).total := by
  obtain ⟨h1, h2, h3, h4, h5⟩ := counts_eq cfg voters.length (collect voters)
  have hf : ∀ k, (ofKind k (collect voters)).length = (voters.filter fun v => (toVote v).kind = k).length := by
    intro k
    unfold ofKind collect
    rw [List.filter_map, List.length_map]
    rfl
  have hp := length_partition (collect voters)
  have hd := hf .defer
  unfold runVote
  rw [h1, h2, h3, h4, h5]
  refine ⟨rfl, collect_length voters, hf .permit, hf .block, hf .abstain, ?_⟩
  unfold nD at hp
  omega

/-- Which vote a voter casts: PERMIT/EXECUTE ↦ permit, BLOCK ↦ block (with a usable confidence); a voter that
    raises or reports a non-numeric confidence is a zero-confidence ABSTAIN. -/
theorem c06_vote_cast_by_each_voter (v : Voter) :
    ((toVote v).kind = .permit ↔ (v.kind = .permit ∨ v.kind = .execute) ∧ v.conf ≠ .bad) ∧
    ((toVote v).kind = .block ↔ v.kind = .block ∧ v.conf ≠ .bad) ∧
    ((v.kind = .raises ∨ v.conf = .bad) → toVote v = ⟨.abstain, 0, v.weight⟩) :=
  ⟨casts_permit_iff v, casts_block_iff v, failed_is_abstain v⟩

/-- Abstaining, deferring and failed voters never count as support (1): replace any of them by any other idle
    voters — whatever weight, reliability, confidence — and reached, decision and the permit/block counts are
    unchanged. -/
theorem c06_abstain_failed_never_support (cfg : Cfg) (voters voters' : List Voter)
    (h : Pointwise (fun v v' => SameUpToIdle (toVote v) (toVote v')) voters voters') :
    (runVote cfg voters').reached = (runVote cfg voters).reached ∧
    (runVote cfg voters').decision = (runVote cfg voters).decision ∧
    (runVote cfg voters').permit = (runVote cfg voters).permit ∧
    (runVote cfg voters').block = (runVote cfg voters).block := by
  have hp : Pointwise SameUpToIdle (collect voters) (collect voters') := h.map (fun _ _ r => r)
  obtain ⟨c1, c2, hs⟩ := stratReached_idle_irrelevant cfg voters.length hp
  have hlen := h.length_eq
  have hreach : (runVote cfg voters').reached = (runVote cfg voters).reached := by
    have e : (runVote cfg voters').reached = true ↔ (runVote cfg voters).reached = true := by
      rw [run_reached_iff, run_reached_iff, ← c1, ← c2, ← hlen, hs]
    cases h1 : (runVote cfg voters').reached <;> cases h2 : (runVote cfg voters).reached <;> simp_all
  refine ⟨hreach, ?_, ?_, ?_⟩
  · unfold runVote at *
    rw [decision_eq, decision_eq, hreach, c1, c2]
  · unfold runVote; rw [(counts_eq _ _ _).2.1, (counts_eq _ _ _).2.1, c1]
  · unfold runVote; rw [(counts_eq _ _ _).2.2.1, (counts_eq _ _ _).2.2.1, c2]

/-- … (2): strike the idle voters from the colony altogether and a PERMIT is still a PERMIT — they contributed
    nothing to it (for the count strategy a smaller colony can only need fewer permits). -/
theorem c06_permit_survives_without_idle_voters (cfg : Cfg) (voters : List Voter)
    (hr : (runVote cfg voters).decision = .permit) :
    (runVote cfg (voters.filter fun v => (toVote v).active)).decision = .permit := by
  have hr1 := (c06_permit_iff_reached cfg voters).mp hr
  obtain ⟨g, s⟩ := (run_reached_iff cfg voters).mp hr1
  have hc : collect (voters.filter fun v => (toVote v).active) = (collect voters).filter Vote.active := by
    unfold collect; rw [List.filter_map]; rfl
  apply (c06_permit_iff_reached cfg _).mpr
  rw [run_reached_iff, hc]
  have c1 : nP ((collect voters).filter Vote.active) = nP (collect voters) := by
    unfold nP; rw [ofKind_filter_active _ (Or.inl rfl)]
  have c2 : nB ((collect voters).filter Vote.active) = nB (collect voters) := by
    unfold nB; rw [ofKind_filter_active _ (Or.inr rfl)]
  refine ⟨by omega, ?_⟩
  have := stratReached_drop_idle cfg (collect voters) (by rw [collect_length]; exact s)
  rw [← hc, collect_length] at this
  rw [← hc]; exact this

/-- "Reported as reached" includes the callbacks: the result of a vote is handed to `on_quorum_reached` exactly when
    the decision is PERMIT (to `on_quorum_failed` otherwise) - hence, for a non-negative threshold, never for a ballot
    without a permit vote. -/
theorem c06_reached_callback_only_on_permit (cfg : Cfg) (voters : List Voter) :
    (callbackFor (runVote cfg voters) = .onReached ↔ (runVote cfg voters).decision = .permit) ∧
    (callbackFor (runVote cfg voters) = .onFailed ↔ (runVote cfg voters).decision ≠ .permit) ∧
    (NonNegThreshold cfg → callbackFor (runVote cfg voters) = .onReached →
      ∃ v ∈ voters, (toVote v).kind = .permit) := by
  have hiff := c06_permit_iff_reached cfg voters
  have h1 : callbackFor (runVote cfg voters) = .onReached ↔ (runVote cfg voters).decision = .permit := by
    rw [hiff]; unfold callbackFor
    cases (runVote cfg voters).reached <;> simp
  have h2 : callbackFor (runVote cfg voters) = .onFailed ↔ (runVote cfg voters).decision ≠ .permit := by
    rw [Ne, hiff]; unfold callbackFor
    cases (runVote cfg voters).reached <;> simp
  refine ⟨h1, h2, fun ht hcb => ?_⟩
  by_contra hnone
  have hno : ∀ v ∈ voters, (toVote v).kind ≠ .permit := fun v hv hk => hnone ⟨v, hv, hk⟩
  exact (c06_no_permit_without_permit_vote cfg voters ht hno).2 (h1.mp hcb)

/-- both callbacks occur: two permits against one block is handed to `on_quorum_reached`, a lone block to
    `on_quorum_failed` -/
example : callbackFor (runVote ⟨.majority, none, 1⟩ [voterOf .permit 1 1, voterOf .permit 1 1, voterOf .block 1 1]) = .onReached ∧
    callbackFor (runVote ⟨.majority, none, 1⟩ [voterOf .block 1 1]) = .onFailed := by decide +kernel

/-- The order in which the colony is polled does not matter: any permutation of the electorate gives the same
    reached flag, decision and counts (and the same votes, permuted) - for every strategy, incl. the two loops of the
    Bayesian aggregator.  (This is what lets the weight table enumerate multisets of voters only.) -/
theorem c06_voter_order_is_irrelevant (cfg : Cfg) (voters voters' : List Voter) (h : voters.Perm voters') :
    (runVote cfg voters').reached = (runVote cfg voters).reached ∧
    (runVote cfg voters').decision = (runVote cfg voters).decision ∧
    (runVote cfg voters').permit = (runVote cfg voters).permit ∧
    (runVote cfg voters').block = (runVote cfg voters).block ∧
    (runVote cfg voters').abstain = (runVote cfg voters).abstain ∧
    (runVote cfg voters').total = (runVote cfg voters).total ∧
    (runVote cfg voters).votes.Perm (runVote cfg voters').votes := by
  have hc : (collect voters).Perm (collect voters') := by unfold collect; exact h.map toVote
  have hk : ∀ k, (ofKind k (collect voters)).length = (ofKind k (collect voters')).length := fun k => by
    unfold ofKind; exact (hc.filter _).length_eq
  have c1 : nP (collect voters) = nP (collect voters') := hk .permit
  have c2 : nB (collect voters) = nB (collect voters') := hk .block
  have c3 : nA (collect voters) = nA (collect voters') := hk .abstain
  have hlen : voters.length = voters'.length := h.length_eq
  have hreach : (runVote cfg voters').reached = (runVote cfg voters).reached := by
    have e : (runVote cfg voters').reached = true ↔ (runVote cfg voters).reached = true := by
      rw [run_reached_iff, run_reached_iff, ← c1, ← c2, ← hlen, stratReached_perm cfg voters.length hc]
    cases h1 : (runVote cfg voters').reached <;> cases h2 : (runVote cfg voters).reached <;> simp_all
  obtain ⟨a1, a2, a3, a4, a5⟩ := counts_eq cfg voters.length (collect voters)
  obtain ⟨b1, b2, b3, b4, b5⟩ := counts_eq cfg voters'.length (collect voters')
  refine ⟨hreach, ?_, ?_, ?_, ?_, ?_, ?_⟩
  · unfold runVote at *
    rw [decision_eq, decision_eq, hreach, c1, c2]
  · unfold runVote; rw [a2, b2, c1]
  · unfold runVote; rw [a3, b3, c2]
  · unfold runVote; rw [a4, b4, c3]
  · unfold runVote; rw [a1, b1, collect_length, collect_length, hlen]
  · unfold runVote; rw [a5, b5]; exact hc

/-- e.g. the Bayesian aggregator, which walks the permits first and the blocks second, on a ballot given in two orders -/
example : (runVote ⟨.bayesian, some (3 / 5), 1⟩ [voterOf .block (1 / 2) (1 / 2), voterOf .permit 1 1, voterOf .raises 2 1, voterOf .permit 1 (1 / 4)]).decision
    = (runVote ⟨.bayesian, some (3 / 5), 1⟩ [voterOf .permit 1 (1 / 4), voterOf .raises 2 1, voterOf .permit 1 1, voterOf .block (1 / 2) (1 / 2)]).decision := by
  decide +kernel

/-! ### Totality and the extracted constants -/

/-- `run_vote` returns a result for every non-empty colony (the only raise of the model is the count strategy's
    division by an empty colony). -/
theorem c06_run_vote_returns (cfg : Cfg) (voters : List Voter) (hne : voters ≠ []) :
    runVoteRaises cfg voters = false := by
  unfold runVoteRaises
  have : voters.length ≠ 0 := by
    intro h; exact hne (List.length_eq_zero_iff.mp h)
  simp [this]

/-- The same about `run_vote` AS THE CODE RUNS IT (`runVoteE`: `_aggregate_votes` with the `ZeroDivisionError` of
    `threshold / len(self.colony)` in `_threshold_vote`): it returns for every non-empty colony, and what it returns
    is the total `runVote` every other theorem speaks about; it raises exactly for the empty colony under the count
    strategy with `min_voters = 0` (the gate returns before the strategy runs otherwise). -/
theorem c06_run_vote_total_on_nonempty_colonies (cfg : Cfg) (voters : List Voter) :
    (voters ≠ [] → runVoteE cfg voters = some (runVote cfg voters)) ∧
    (runVoteE cfg voters = none ↔ voters = [] ∧ cfg.strategy = .threshold ∧ cfg.minVoters = 0) ∧
    (∀ r, runVoteE cfg voters = some r → r = runVote cfg voters) := by
  rw [runVoteE_eq]
  refine ⟨fun hne => by simp [c06_run_vote_returns cfg voters hne], ?_, ?_⟩
  · unfold runVoteRaises
    constructor
    · intro h
      split_ifs at h with hr
      simp only [Bool.and_eq_true, decide_eq_true_eq, Bool.not_eq_true', decide_eq_false_iff_not] at hr
      obtain ⟨⟨h0, hs⟩, hg⟩ := hr
      have hv : voters = [] := List.length_eq_zero_iff.mp h0
      subst hv
      refine ⟨rfl, hs, ?_⟩
      simp [collect, activeCount, ofKind] at hg
      exact hg
    · rintro ⟨rfl, hs, hm⟩
      simp [hs, hm, collect, activeCount, ofKind]
  · intro r h
    split_ifs at h
    exact (Option.some.inj h).symm

/-- both cases occur: the empty colony under the count strategy raises unless the gate catches it; a lone voter never does -/
example : runVoteE ⟨.threshold, none, 0⟩ [] = none ∧ (runVoteE ⟨.threshold, none, 1⟩ []).isSome = true ∧
    (runVoteE ⟨.threshold, some (3 / 10), 0⟩ [voterOf .block 1 1]).isSome = true := by decide +kernel

/-- Every constant was established from the current code (`extractionComplete`: by evaluation, by reading the
    expression that feeds the likelihood and evaluating its leaves, by measuring the Bayesian aggregator on probes),
    and the constants are in the range the theorems above rely on: default thresholds
    in [0,1) and at least the documented shares (">50%", ">66%"), uniform positive priors, likelihood centred at ½
    with positive gain, fallback posterior in [0,1]; and the default criteria are attainable (so unanimity applies
    to every default configuration). -/
theorem c06_constants_table :
    0 ≤ majorityThreshold ∧ majorityThreshold < 1 ∧ 0 ≤ supermajorityThreshold ∧ supermajorityThreshold < 1 ∧
    adjBase = 1 / 2 ∧ likBase = 1 / 2 ∧ adjCentre = 1 / 2 ∧ 0 < likGain ∧
    priorPermit = priorBlock ∧ 0 < priorPermit ∧ 0 ≤ posteriorFallback ∧ posteriorFallback ≤ 1 ∧
    majorityThreshold ≤ 1 / 2 ∧ 0 ≤ confidenceMin ∧ confidenceMin ≤ 1 ∧
    1 / 2 ≤ majorityThreshold ∧ 66 / 100 ≤ supermajorityThreshold ∧
    (∀ s n, Attainable ⟨s, none, 1⟩ n) ∧ extractionComplete = true := by
  refine ⟨const_facts.1, const_facts.2.1, const_facts.2.2.1, const_facts.2.2.2.1, const_facts.2.2.2.2.1,
    const_facts.2.2.2.2.2.1, const_facts.2.2.2.2.2.2.1, const_facts.2.2.2.2.2.2.2.1,
    const_facts.2.2.2.2.2.2.2.2.1, const_facts.2.2.2.2.2.2.2.2.2.1, const_facts.2.2.2.2.2.2.2.2.2.2.1,
    const_facts.2.2.2.2.2.2.2.2.2.2.2, const_more.1, by decide +kernel, const_more.2.2, const_more.2.1,
    by decide +kernel, default_attainable, by decide +kernel⟩

/-- Readable instances of the criterion for the default configurations: MAJORITY is reached exactly when there are
    enough active votes and strictly more permits than blocks; the default count strategy exactly when permits are a
    strict majority of the whole colony (idle voters count against); UNANIMOUS exactly when there is a permit and no
    block. -/
theorem c06_default_criteria_in_counts (minVoters : Nat) (voters : List Voter) :
    ((runVote ⟨.majority, none, minVoters⟩ voters).reached = true ↔
      minVoters ≤ nP (collect voters) + nB (collect voters) ∧ nB (collect voters) < nP (collect voters)) ∧
    ((runVote ⟨.threshold, none, minVoters⟩ voters).reached = true ↔
      minVoters ≤ nP (collect voters) + nB (collect voters) ∧ voters.length < 2 * nP (collect voters)) ∧
    ((runVote ⟨.unanimous, none, minVoters⟩ voters).reached = true ↔
      minVoters ≤ nP (collect voters) + nB (collect voters) ∧ nB (collect voters) = 0 ∧ 0 < nP (collect voters)) := by
  have hmaj : majorityThreshold = 1 / 2 :=
    le_antisymm const_more.1 const_more.2.1
  have hnn : ∀ s, NonNegThreshold ⟨s, none, minVoters⟩ := by intro s t h; cases h
  refine ⟨?_, ?_, ?_⟩
  · rw [run_reached_iff]
    apply and_congr_right; intro _
    simp only [StratReached]
    rw [count_share, shareGt_iff (by positivity) (by positivity) (effThreshold_nonneg const_facts.1 (hnn .majority))]
    simp only [effThreshold, hmaj]
    constructor
    · intro h
      have : (nB (collect voters) : Rat) < (nP (collect voters) : Rat) := by linarith
      exact_mod_cast this
    · intro h
      have : (nB (collect voters) : Rat) < (nP (collect voters) : Rat) := by exact_mod_cast h
      linarith
  · rw [run_reached_iff]
    apply and_congr_right; intro _
    simp only [StratReached]
    rw [thresholdCount_le_iff _ (hnn .threshold)]
    simp only [CountMet]
    omega
  · rw [run_reached_iff]
    simp only [StratReached]

/-- e.g. three permits, two blocks, one failed voter: MAJORITY reached (3 > 2); the default count strategy is not
    (3 of 6 is no strict majority of the colony) -/
example : (runVote ⟨.majority, none, 1⟩ (List.replicate 3 (voterOf .permit 1 1) ++ List.replicate 2 (voterOf .block 1 1) ++ [voterOf .raises 1 1])).reached = true ∧
    (runVote ⟨.threshold, none, 1⟩ (List.replicate 3 (voterOf .permit 1 1) ++ List.replicate 2 (voterOf .block 1 1) ++ [voterOf .raises 1 1])).reached = false := by
  decide +kernel

/-! ### The un-stubbed colony: real `BioAgent` voters (core/agent.py) -/

/-- Un-stubbed colony (real `BioAgent` voters of core/agent.py): a proposal that carries a dangerous marker or that
    the agents' membrane rejects is never PERMIT — for every strategy, non-negative threshold, `min_voters`, colony
    size and ATP budget (agents that run out of ATP answer FAILURE, which is an abstention, never support). -/
theorem c06_real_voters_never_permit_dangerous (cfg : Cfg) (ht : NonNegThreshold cfg) (p : PromptClass)
    (hp : p ≠ .safe) (budget n : Nat) :
    (runVote cfg (bioVoters p budget n)).reached = false ∧ (runVote cfg (bioVoters p budget n)).decision ≠ .permit :=
  c06_no_permit_without_permit_vote cfg _ ht (bioVoters_no_permit p hp budget n)

/-- … and a safe proposal put to a funded, non-empty colony of at least `min_voters` real voters is PERMIT under
    every strategy with its default threshold. -/
theorem c06_real_voters_permit_safe (s : Strategy) (minVoters budget n : Nat) (hn : 1 ≤ n) (hm : minVoters ≤ n)
    (hb : 10 * n ≤ budget) :
    (runVote ⟨s, none, minVoters⟩ (bioVoters .safe budget n)).decision = .permit := by
  have hall := bioVoters_safe_funded budget n hb
  have hlen := bioVoters_length .safe budget n
  have hne : bioVoters .safe budget n ≠ [] := by
    intro h; rw [h] at hlen; simp at hlen; omega
  have hcm : confidenceMin ≤ 1 := const_more.2.2
  refine (c06_unanimous_permit_is_permit _ _ hne ?_ (by rw [hlen]; exact hm) ?_ ?_ ?_).2
  · intro v hv; rw [hall v hv]; decide
  · intro v hv; rw [hall v hv]
    exact ⟨by show (0 : Rat) ≤ 1; decide +kernel, by show (0 : Rat) ≤ 1; decide +kernel⟩
  · have := default_attainable s (bioVoters .safe budget n).length
    unfold Attainable at this ⊢
    exact this
  · obtain ⟨v, hv⟩ := List.exists_mem_of_ne_nil _ hne
    have hv' := hall v hv
    have hmem : toVote (bioVoter .permit) ∈ collect (bioVoters .safe budget n) := by
      unfold collect; exact List.mem_map.mpr ⟨v, hv, by rw [hv']⟩
    have hk : (toVote (bioVoter .permit)).kind = .permit := by decide
    have he : 0 < (toVote (bioVoter .permit)).eff := by decide +kernel
    have hc : (toVote (bioVoter .permit)).conf ≥ confidenceMin := by
      show confidenceMin ≤ 1; exact hcm
    unfold Supported
    cases s <;> simp only []
    · exact ⟨_, hmem, hk, he⟩
    · exact ⟨_, hmem, hk, hc, he⟩
    · exact ⟨_, hmem, hk, he⟩

/-- … also when the budget runs out on the way: a safe proposal put to `n` real voters of which at least one - and at
    least `min_voters` - can pay for an answer is PERMIT under every strategy but the count strategy with its default
    threshold; the voters left without ATP answer FAILURE, an abstention that neither supports nor hinders (for the count
    strategy they enlarge the colony: 2 funded of 4 is no majority of the colony, example below). -/
theorem c06_real_voters_permit_safe_partially_funded (s : Strategy) (hs : s ≠ .threshold) (minVoters budget n : Nat)
    (hn : 1 ≤ n) (hb : 10 ≤ budget) (hm : minVoters ≤ min n (budget / 10)) :
    (runVote ⟨s, none, minVoters⟩ (bioVoters .safe budget n)).decision = .permit := by
  have hmem := bioVoters_safe_members budget n
  have hnP := nP_bioVoters_safe budget n
  have hpos : 0 < nP (collect (bioVoters .safe budget n)) := by rw [hnP]; omega
  have h01 : (0 : Rat) ≤ 1 := by decide +kernel
  refine (c06_unanimous_permit_with_idle_voters ⟨s, none, minVoters⟩ _ hs ?_ hpos (by rw [hnP]; exact hm) ?_ ?_ ?_).2
  · intro v hv
    rcases hmem v hv with rfl | rfl <;> decide
  · intro v hv
    rcases hmem v hv with rfl | rfl <;> exact ⟨h01, h01⟩
  · have := default_attainable s (bioVoters .safe budget n).length
    unfold Attainable at this ⊢
    exact this
  · obtain ⟨x, hx, hk⟩ := (nP_pos_iff _).mp hpos
    unfold collect at hx
    obtain ⟨v, hv, rfl⟩ := List.mem_map.mp hx
    have hvp : v = bioVoter .permit := by
      rcases hmem v hv with rfl | rfl
      · rfl
      · exact absurd hk (by decide)
    subst hvp
    have hmem' : toVote (bioVoter .permit) ∈ collect (bioVoters .safe budget n) := by
      unfold collect; exact List.mem_map.mpr ⟨_, hv, rfl⟩
    have he : 0 < (toVote (bioVoter .permit)).eff := by decide +kernel
    have hc : (toVote (bioVoter .permit)).conf ≥ confidenceMin := by
      show confidenceMin ≤ 1; exact const_more.2.2
    unfold Supported
    cases s <;> simp only []
    · exact ⟨_, hmem', hk, he⟩
    · exact ⟨_, hmem', hk, hc, he⟩
    · exact ⟨_, hmem', hk, he⟩

/-- 25 ATP among four voters: two permits, two FAILUREs - PERMIT under SUPERMAJORITY with `min_voters = 2` (the theorem
    above), but not under the default count strategy (2 of 4) -/
example : (runVote ⟨.supermajority, none, 2⟩ (bioVoters .safe 25 4)).decision = .permit ∧
    (runVote ⟨.threshold, none, 1⟩ (bioVoters .safe 25 4)).decision = .block := by decide +kernel

/-- both theorems apply to concrete colonies: three funded voters permit a safe proposal; with 25 ATP the third
    voter fails (abstains) and the two permits still carry the majority; a dangerous proposal is blocked -/
example : (runVote ⟨.supermajority, none, 2⟩ (bioVoters .safe 30 3)).decision = .permit ∧
    (runVote ⟨.majority, none, 1⟩ (bioVoters .safe 25 3)).abstain = 1 ∧
    (runVote ⟨.majority, none, 1⟩ (bioVoters .safe 25 3)).decision = .permit ∧
    (runVote ⟨.bayesian, some (1 / 4), 1⟩ (bioVoters .dangerous 30 3)).decision = .block ∧
    (runVote ⟨.threshold, some (3 / 10), 1⟩ (bioVoters .rejected 0 3)).decision = .block := by decide +kernel

/-! ### Colonies and histories: names never merge ballots; every vote of every history satisfies the clauses -/

/-- One ballot per colony member, by position, whatever the members are called (duplicate, empty, built-in names):
    the result's votes are the members' votes in colony order and the total is the colony size. -/
theorem c06_one_ballot_per_member_whatever_the_names (cfg : Cfg) (c : List Member) (beh : Nat → Behaviour) :
    (runVote cfg (electorate c beh)).votes = (electorate c beh).map toVote ∧
    (runVote cfg (electorate c beh)).votes.length = c.length ∧
    (runVote cfg (electorate c beh)).total = c.length := by
  obtain ⟨h1, h2, -⟩ := c06_counts_equal_ballots cfg (electorate c beh)
  refine ⟨h1, ?_, ?_⟩
  · rw [h1, List.length_map, electorate_length]
  · rw [h2, electorate_length]

/-- The operations that look members up by name act on one member at most: `add_agent` always appends (also when
    the name is taken); `remove_agent` removes exactly one member when it reports success and none otherwise, and
    only ever removes; `set_agent_weight` keeps every member and every name. -/
theorem c06_colony_operations (c : List Member) (name : List Nat) (w : Rat) :
    (addAgent c name w).length = c.length + 1 ∧ (∀ m ∈ c, m ∈ addAgent c name w) ∧
    (removeAgent c name).1.length = (if (removeAgent c name).2 then c.length - 1 else c.length) ∧
    (∀ m ∈ (removeAgent c name).1, m ∈ c) ∧
    (setAgentWeight c name w).1.map (·.name) = c.map (·.name) := by
  refine ⟨by simp [addAgent], fun m hm => by simp [addAgent, hm], removeAgent_length c name,
    removeAgent_sub c name, setAgentWeight_names c name w⟩

/-- Every result produced by any history of operations on a quorum object (strategy changes through `set_strategy`
    or by assigning `strategy` / `custom_threshold` / `min_voters` directly, members added — also under a name
    already in use — removed, deleted from or inserted into the `colony` list itself, weights set by name or assigned,
    votes with arbitrary agent behaviour, `update_reliability` / `update_all_reliability`) is the `runVote` of an electorate in the property's
    domain under a configuration with a non-negative threshold: so every theorem above applies to every vote of
    every history.  Hypotheses: the object starts in the domain and the operations' arguments are in it. -/
theorem c06_history_every_vote_in_domain (st : QState) (ops : List Op) (hst : st.Valid)
    (hops : ∀ op ∈ ops, op.Valid) :
    ∀ r ∈ runHistory st ops, ∃ cfg voters, r = runVote cfg voters ∧ NonNegThreshold cfg ∧
      (∀ v ∈ voters, v.Valid) :=
  history_results ops st hst hops

/-- … spelled out for the soundness clauses: at every vote of every history, PERMIT is reported only with a permit
    vote among the ballots cast, exactly when reached, exactly on the then-current criterion, and the reported
    counts are the ballots cast. -/
theorem c06_history_votes_are_sound (st : QState) (ops : List Op) (hst : st.Valid)
    (hops : ∀ op ∈ ops, op.Valid) :
    ∀ r ∈ runHistory st ops,
      (r.decision = .permit ↔ r.reached = true) ∧
      (r.decision = .permit → ∃ v ∈ r.votes, v.kind = .permit) ∧
      (∃ cfg, NonNegThreshold cfg ∧ (r.reached = true ↔ Criterion cfg r.votes.length r.votes)) ∧
      r.total = r.votes.length ∧ r.permit = nP r.votes ∧ r.block = nB r.votes ∧ r.abstain = nA r.votes := by
  intro r hr
  obtain ⟨cfg, voters, rfl, hn, hv⟩ := history_results ops st hst hops r hr
  obtain ⟨c1, c2, c3, c4, c5⟩ := counts_eq cfg voters.length (collect voters)
  have hvotes : (runVote cfg voters).votes = collect voters := c5
  refine ⟨c06_permit_iff_reached cfg voters, ?_, ⟨cfg, hn, ?_⟩, ?_, ?_, ?_, ?_⟩
  · intro hd
    by_contra hnone
    have hno : ∀ v ∈ voters, (toVote v).kind ≠ .permit := by
      intro v hv' hk
      apply hnone
      exact ⟨toVote v, by rw [hvotes]; unfold collect; exact List.mem_map.mpr ⟨v, hv', rfl⟩, hk⟩
    exact (c06_no_permit_without_permit_vote cfg voters hn hno).2 hd
  · rw [hvotes, collect_length]; exact c06_reached_iff_criterion cfg voters hn hv
  · unfold runVote; rw [c1, c5]
  · unfold runVote; rw [c2, c5]
  · unfold runVote; rw [c3, c5]
  · unfold runVote; rw [c4, c5]

/-- A vote is decided by — and reported under — the configuration in force when it is taken, however that
    configuration got there: after assigning `strategy`, `custom_threshold` and `min_voters` directly (no setter),
    the next vote is exactly `runVote` under the assigned values on the colony as it stands; `set_strategy` gives
    the same result as the two assignments. -/
theorem c06_assigned_configuration_decides_the_vote (st : QState) (s : Strategy) (custom : Option Rat) (n : Nat)
    (beh : Nat → Behaviour) :
    (∀ r, (stepOp (stepOp (stepOp (stepOp st (.assignStrategy s)).1 (.assignThreshold custom)).1
        (.assignMinVoters n)).1 (.vote beh)).2 = some r →
      r = runVote ⟨s, custom, n⟩ (electorate st.colony beh)) ∧
    (stepOp (stepOp st (.setStrategy s custom)).1 (.vote beh)).2 =
      (stepOp (stepOp (stepOp st (.assignStrategy s)).1 (.assignThreshold custom)).1 (.vote beh)).2 := by
  constructor
  · intro r hr
    simp only [stepOp] at hr
    by_cases h : runVoteRaises ⟨s, custom, n⟩ (electorate st.colony beh) = true
    · simp [h] at hr
    · simp only [h] at hr
      exact (Option.some.inj hr).symm
  · simp only [stepOp]; rfl

/-- a concrete history in the domain: a colony [Bacterium_0, Replica, Replica] under UNANIMOUS; the first Replica
    blocks — BLOCK, three ballots counted; the first Replica is removed by name, the rest permit — PERMIT;
    `update_all_reliability(PERMIT)` then sets both reliabilities to 1/2 (one correct vote of two cast) and the
    later weighted vote uses them: block 1·½·1 against permit 2·½·½ is a tie, hence BLOCK -/
example :
    let replica : List Nat := [82, 101]
    let ops : List Op :=
      [.add replica 1, .add replica 2,
       .vote (fun i => if i = 1 then ⟨.block, .absent⟩ else ⟨.permit, .absent⟩),
       .remove replica,
       .vote (fun _ => ⟨.permit, .absent⟩),
       .updateAll .permit,
       .setStrategy .weighted none,
       .vote (fun i => if i = 0 then ⟨.block, .num 1⟩ else ⟨.permit, .num (1 / 2)⟩)]
    (runHistory ⟨⟨.unanimous, none, 1⟩, newColony 1, none⟩ ops).map (fun r => (r.decision, r.total, r.block))
      = [(.block, 3, 1), (.permit, 2, 0), (.block, 2, 1)] := by
  decide +kernel

/-! ### Non-vacuity: concrete electorates meeting the hypotheses, and witnesses that no hypothesis can be dropped -/

/-- the two repaired defects, on the model: three blocks under BAYESIAN and two blocks under the default
    EmergencyQuorum are BLOCK, not PERMIT (hypotheses of `c06_no_permit_without_permit_vote` are satisfiable) -/
example : (runVote ⟨.bayesian, none, 1⟩ [voterOf .block 1 1, voterOf .block 1 1, voterOf .block 1 1]).decision = .block ∧
    (∀ cfg, emergencyDefaultCfg = some cfg → (runVote cfg [voterOf .block 1 1, voterOf .block 1 1]).decision = .block) := by
  decide +kernel

/-- `NonNegThreshold` cannot be dropped: with a negative custom threshold a lone block vote is PERMIT -/
theorem c06_negative_threshold_witness :
    (runVote ⟨.majority, some (-1 / 2), 1⟩ [voterOf .block 1 1]).decision = .permit ∧
    (runVote ⟨.threshold, some (-1), 1⟩ [voterOf .block 1 1]).decision = .permit := by decide +kernel

/-- a mixed valid ballot that is reached, and one that is not (both sides of `c06_reached_iff_criterion`) -/
example : (runVote ⟨.weighted, some (3 / 5), 2⟩ [voterOf .permit 2 1, voterOf .execute 1 (1 / 2), voterOf .block 1 1, voterOf .raises 2 1]).reached = true ∧
    (runVote ⟨.weighted, some (3 / 4), 2⟩ [voterOf .permit 2 1, voterOf .execute 1 (1 / 2), voterOf .block 1 1, voterOf .raises 2 1]).reached = false := by
  decide +kernel

/-- hypotheses of the unanimity theorem are satisfiable for every strategy, e.g. WEIGHTED with one zero-weight
    permit among supported ones, BAYESIAN at the default threshold, a custom count of 2 among 3 voters -/
example : (runVote ⟨.weighted, none, 2⟩ [voterOf .permit 1 1, voterOf .execute 0 1]).decision = .permit :=
  (c06_unanimous_permit_is_permit ⟨.weighted, none, 2⟩ [voterOf .permit 1 1, voterOf .execute 0 1] (by simp)
    (by decide +kernel) (by decide)
    (by intro v hv; simp at hv; rcases hv with rfl | rfl <;> exact voterOf_valid (by decide +kernel) (by decide +kernel))
    (by unfold Attainable; decide +kernel)
    (by unfold Supported; refine ⟨toVote (voterOf .permit 1 1), ?_, ?_, ?_⟩ <;> decide +kernel)).2

example : (runVote ⟨.bayesian, none, 1⟩ [voterOf .permit (1 / 4) (1 / 2), voterOf .permit 0 1]).decision = .permit :=
  (c06_unanimous_permit_is_permit ⟨.bayesian, none, 1⟩ [voterOf .permit (1 / 4) (1 / 2), voterOf .permit 0 1] (by simp)
    (by decide +kernel) (by decide)
    (by intro v hv; simp at hv; rcases hv with rfl | rfl <;> exact voterOf_valid (by decide +kernel) (by decide +kernel))
    (by unfold Attainable; decide +kernel)
    (by unfold Supported; refine ⟨toVote (voterOf .permit (1 / 4) (1 / 2)), ?_, ?_, ?_⟩ <;> decide +kernel)).2

example : (runVote ⟨.confidence, some (3 / 4), 1⟩ [voterOf .permit 1 (1 / 2), voterOf .permit 1 (1 / 4)]).decision = .permit :=
  (c06_unanimous_permit_is_permit ⟨.confidence, some (3 / 4), 1⟩ [voterOf .permit 1 (1 / 2), voterOf .permit 1 (1 / 4)] (by simp)
    (by decide +kernel) (by decide)
    (by intro v hv; simp at hv; rcases hv with rfl | rfl <;> exact voterOf_valid (by decide +kernel) (by decide +kernel))
    (by unfold Attainable; decide +kernel)
    (by unfold Supported; refine ⟨toVote (voterOf .permit 1 (1 / 2)), ?_, ?_, ?_, ?_⟩ <;> decide +kernel)).2

example : (runVote ⟨.threshold, some 2, 1⟩ [voterOf .permit 1 1, voterOf .permit 1 1, voterOf .execute 1 1]).decision = .permit :=
  (c06_unanimous_permit_is_permit ⟨.threshold, some 2, 1⟩ [voterOf .permit 1 1, voterOf .permit 1 1, voterOf .execute 1 1] (by simp)
    (by decide +kernel) (by decide)
    (by intro v hv; simp at hv; rcases hv with rfl | rfl | rfl <;> exact voterOf_valid (by decide +kernel) (by decide +kernel))
    (by unfold Attainable; right; decide +kernel) (by unfold Supported; trivial)).2

/-- the unanimity hypotheses cannot be dropped, one by one: an empty electorate (`min_voters = 0`); fewer voters
    than `min_voters`; an unattainable criterion (share threshold 1; a count of 5 among 3 voters; a Bayesian
    threshold of ¾ against one weak permit, posterior 0.55); an unsupported one (zero weight under WEIGHTED and
    BAYESIAN; confidence ¼ < CONFIDENCE_MIN under CONFIDENCE); a negative weight cancelling a positive one -/
theorem c06_unanimity_hypotheses_witness :
    (runVote ⟨.majority, none, 0⟩ []).decision = .block ∧
    (runVote ⟨.majority, none, 2⟩ [voterOf .permit 1 1]).decision = .abstain ∧
    (runVote ⟨.majority, some 1, 1⟩ [voterOf .permit 1 1, voterOf .permit 1 1]).decision = .block ∧
    (runVote ⟨.threshold, some 5, 1⟩ [voterOf .permit 1 1, voterOf .permit 1 1, voterOf .permit 1 1]).decision = .block ∧
    (runVote ⟨.bayesian, some (3 / 4), 1⟩ [voterOf .permit (1 / 4) (1 / 2)]).decision = .block ∧
    (runVote ⟨.weighted, none, 1⟩ [voterOf .permit 0 1, voterOf .permit 1 0]).decision = .block ∧
    (runVote ⟨.bayesian, none, 1⟩ [voterOf .permit 0 1]).decision = .block ∧
    (runVote ⟨.confidence, none, 1⟩ [voterOf .permit 1 (1 / 4)]).decision = .block ∧
    (runVote ⟨.weighted, none, 1⟩ [voterOf .permit 1 1, voterOf .permit (-1) 1]).decision = .block := by
  decide +kernel

/-- hypotheses of the monotonicity theorems are satisfiable: a PERMIT with a block voter to flip and a permit
    voter to strengthen -/
example : (runVote ⟨.bayesian, some (3 / 5), 2⟩ [voterOf .permit 1 1, voterOf .block (1 / 2) (1 / 2), voterOf .permit 1 (1 / 4)]).decision = .permit ∧
    (runVote ⟨.bayesian, some (3 / 5), 2⟩ [voterOf .permit 1 1, voterOf .permit (1 / 2) (1 / 2), voterOf .permit 1 (1 / 4)]).decision = .permit ∧
    (runVote ⟨.bayesian, some (3 / 5), 2⟩ [voterOf .permit 1 1, voterOf .block (1 / 2) (1 / 2), voterOf .permit 2 (1 / 2)]).decision = .permit := by
  decide +kernel

/-- `Voter.Valid` cannot be dropped from monotonicity: flipping a block voter of negative weight to permit
    loses the PERMIT (WEIGHTED, threshold ¾) -/
theorem c06_monotonicity_needs_valid_witness :
    (runVote ⟨.weighted, some (3 / 4), 1⟩ [voterOf .permit 1 1, voterOf .block (-1 / 2) 1, voterOf .block (1 / 4) 1]).decision = .permit ∧
    (runVote ⟨.weighted, some (3 / 4), 1⟩ [voterOf .permit 1 1, voterOf .permit (-1 / 2) 1, voterOf .block (1 / 4) 1]).decision = .block := by
  decide +kernel

/-- idle voters exist in every flavour and change nothing: abstain, defer, raising, non-numeric confidence -/
example : (runVote ⟨.confidence, none, 1⟩ [voterOf .permit 1 1, voterOf .other 2 1, voterOf .defer 2 1, voterOf .raises 2 1, ⟨.permit, .bad, 2, 1⟩, voterOf .block 1 1]).decision
    = (runVote ⟨.confidence, none, 1⟩ [voterOf .permit 1 1, voterOf .block 1 1]).decision := by decide +kernel


/-! ### A fractional count threshold is a share of the colony (round 7) -/

/-- A fractional count threshold is a SHARE OF THE COLONY (idle and failed members count against), never "zero
    permits": for every share `0 < t < 1` the count strategy is reached exactly when enough votes are active, at least
    `t · len(colony)` members permit, and at least one does - for `QuorumSensing(strategy=THRESHOLD, threshold=t)`, for
    `EmergencyQuorum(emergency_threshold=t)` and for `EmergencyQuorum()` with its default share.  (The number is a number:
    the model has no notion of the Python type that carries it, and the correspondence / count table run every share as
    float, Fraction and Decimal.) -/
theorem c06_share_of_the_colony_in_counts (t : Rat) (ht0 : 0 < t) (ht1 : t < 1) (minVoters : Nat) (voters : List Voter) :
    ((runVote ⟨.threshold, some t, minVoters⟩ voters).reached = true ↔
      minVoters ≤ nP (collect voters) + nB (collect voters) ∧
        t * (voters.length : Rat) ≤ (nP (collect voters) : Rat) ∧ 1 ≤ nP (collect voters)) ∧
    (∀ cfg, emergencyCfg (some t) = some cfg → ((runVote cfg voters).reached = true ↔
      emergencyMinVoters ≤ nP (collect voters) + nB (collect voters) ∧
        t * (voters.length : Rat) ≤ (nP (collect voters) : Rat) ∧ 1 ≤ nP (collect voters))) ∧
    (∃ cfg, emergencyDefaultCfg = some cfg ∧ 0 < emergencyDefaultThreshold ∧ emergencyDefaultThreshold < 1 ∧
      ((runVote cfg voters).reached = true ↔
        emergencyMinVoters ≤ nP (collect voters) + nB (collect voters) ∧
          emergencyDefaultThreshold * (voters.length : Rat) ≤ (nP (collect voters) : Rat) ∧ 1 ≤ nP (collect voters))) := by
  have key : ∀ (s : Rat) (mv : Nat), 0 < s → s < 1 →
      ((runVote ⟨.threshold, some s, mv⟩ voters).reached = true ↔
        mv ≤ nP (collect voters) + nB (collect voters) ∧
          s * (voters.length : Rat) ≤ (nP (collect voters) : Rat) ∧ 1 ≤ nP (collect voters)) := by
    intro s mv hs0 hs1
    have hnn : NonNegThreshold ⟨.threshold, some s, mv⟩ := by
      intro t' h; cases h; exact le_of_lt hs0
    rw [run_reached_iff]
    apply and_congr_right; intro _
    simp only [StratReached]
    rw [thresholdCount_le_iff _ hnn]
    simp only [CountMet, ne_of_gt hs0, if_false, hs1, if_true]
  have hdc : emergencyDefaultCfg = some ⟨.threshold, some emergencyDefaultThreshold, emergencyMinVoters⟩ := by
    decide +kernel
  have hd0 : 0 < emergencyDefaultThreshold := by decide +kernel
  have hd1 : emergencyDefaultThreshold < 1 := by decide +kernel
  refine ⟨key t minVoters ht0 ht1, ?_, ⟨_, hdc, hd0, hd1, key _ _ hd0 hd1⟩⟩
  intro cfg hc
  have : cfg = ⟨.threshold, some t, emergencyMinVoters⟩ := by
    have h2 : emergencyCfg (some t) = some ⟨.threshold, some t, emergencyMinVoters⟩ := by
      have hs : strategyOfName? emergencyStrategyName = some .threshold := by decide +kernel
      have hp : emergencyPassesThreshold = true := by decide +kernel
      simp [emergencyCfg, hs, hp]
    rw [h2] at hc
    exact (Option.some.inj hc).symm
  rw [this]
  exact key t _ ht0 ht1

/-- 7 voters, a share of 3/10 (⌈2.1⌉ = 3 permits needed): one permit against six blocks is BLOCK, three permits PERMIT -/
example : (runVote ⟨.threshold, some (3/10), 1⟩ (⟨.permit, .absent, 1, 1⟩ :: List.replicate 6 ⟨.block, .absent, 1, 1⟩)).decision = .block ∧
    (runVote ⟨.threshold, some (3/10), 1⟩ (List.replicate 3 ⟨.permit, .absent, 1, 1⟩ ++ List.replicate 4 ⟨.block, .absent, 1, 1⟩)).decision = .permit := by
  decide +kernel

/-! ### The collection loop, and every point at which an answer can fail (round 7) -/

/-- The collection loop of `run_vote` as written - per member `try: express → _protein_to_vote (action type,
    confidence, reasoning text) → votes.append → votes_cast += 1`, `except Exception: votes.append(ABSTAIN)` - IS the
    model's `collect` / `afterVote` on the electorate the protocol abstracts the answers to: every theorem about
    `runVote` / `stepOp` speaks about the loop. -/
theorem c06_collection_loop_is_the_model (c : List Member) (as : List Answer) (h : as.length = c.length) :
    collectLoop c as = (collect (electorate c (fun i => answerBehaviour (as.getD i .raised))),
                        afterVote c (fun i => answerBehaviour (as.getD i .raised))) := by
  apply collectLoop_refines _ c as 0 h
  intro j hj
  simp [List.getD, List.getElem?_eq_getElem hj]

/-- Exactly one ballot per colony member, wherever in the per-voter step the member's answer fails: `express`
    raising, an answer without `action_type` / `payload`, a confidence that cannot be read, a payload that cannot be
    rendered into the reasoning text - each gives the one zero-confidence ABSTAIN carrying the bare profile weight and
    leaves `votes_cast` alone; an answer that fails nowhere gives its one vote (weight × reliability) and counts as
    cast.  Nothing is appended before the last step that can fail. -/
theorem c06_one_ballot_per_member_wherever_the_answer_fails (c : List Member) (as : List Answer)
    (h : as.length = c.length) :
    (collectLoop c as).1.length = c.length ∧
    ∀ (i : Nat) (m : Member) (a : Answer), c[i]? = some m → as[i]? = some a →
      (a.faultPoint.isSome → (collectLoop c as).1[i]? = some (⟨.abstain, 0, m.weight⟩ : Vote) ∧ (collectLoop c as).2[i]? = some m) ∧
      (a.faultPoint = none → ∃ v, proteinToVote m a = some v ∧ v.weight = m.weight * m.rel ∧
        (collectLoop c as).1[i]? = some v ∧
        (collectLoop c as).2[i]? = some (⟨m.name, m.weight, m.rel, m.votesCast + 1, m.correct⟩ : Member)) := by
  refine ⟨by rw [collectLoop_fst, collect, List.length_map, answerVoters_length c as h], ?_⟩
  intro i m a hm ha
  obtain ⟨h1, h2⟩ := collectLoop_getElem? c as i m a hm ha
  have hf := fault_iff m a
  constructor
  · intro hfp
    rw [hfp] at hf
    have hnone : proteinToVote m a = none := by simpa using hf
    rw [hnone] at h1 h2
    exact ⟨by simpa using h1, by simpa using h2⟩
  · intro hfp
    rw [hfp] at hf
    cases hp : proteinToVote m a with
    | none => rw [hp] at hf; simp at hf
    | some v =>
      rw [hp] at h1 h2
      refine ⟨v, rfl, ?_, by simpa using h1, by simpa using h2⟩
      cases a with
      | raised => simp [proteinToVote] at hp
      | unusable => simp [proteinToVote] at hp
      | protein s p => cases p <;> simp [proteinToVote] at hp <;> rw [← hp]

/-- Failed voters never count as support, whichever step failed: a colony all of whose answers fail somewhere is
    never reported reached / PERMIT, reports no permit vote, and one ballot per member (non-negative threshold). -/
theorem c06_failed_answers_are_no_support (cfg : Cfg) (hn : NonNegThreshold cfg) (c : List Member) (as : List Answer)
    (h : as.length = c.length) (hall : ∀ a ∈ as, a.faultPoint.isSome) :
    (aggregate cfg c.length (collectLoop c as).1).reached = false ∧
    (aggregate cfg c.length (collectLoop c as).1).decision ≠ .permit ∧
    (aggregate cfg c.length (collectLoop c as).1).total = c.length := by
  have hrun : aggregate cfg c.length (collectLoop c as).1 = runVote cfg (answerVoters c as) := by
    rw [collectLoop_fst, runVote, answerVoters_length c as h]
  rw [hrun]
  obtain ⟨h1, h2⟩ := c06_no_permit_without_permit_vote cfg _ hn (answerVoters_no_permit c as hall)
  exact ⟨h1, h2, by rw [(c06_counts_equal_ballots cfg _).2.1, answerVoters_length c as h]⟩

/-- a PERMIT answer with a confidence of ¾ in a payload that cannot be rendered, next to a plain PERMIT and a BLOCK:
    three ballots, the middle one the failure ABSTAIN with the bare weight 2 (not 2 × ½), `votes_cast` untouched -/
example : collectLoop [⟨[1], 1, 1, 0, 0⟩, ⟨[2], 2, 1/2, 5, 0⟩, ⟨[3], 1, 1, 0, 0⟩]
    [.protein permitCps .notDict, .protein permitCps (.unrenderable true), .protein blockCps (.confNumeric (1/2))]
    = ([⟨.permit, 1, 1⟩, ⟨.abstain, 0, 2⟩, ⟨.block, 1/2, 1⟩],
       [⟨[1], 1, 1, 1, 0⟩, ⟨[2], 2, 1/2, 5, 0⟩, ⟨[3], 1, 1, 1, 0⟩]) := by decide +kernel

/-! ### Statistics and history (round 7) -/

/-- The statistics and the history report the votes: after ANY sequence of votes on a fresh object `total_votes` is
    the number of ballots in all results, `quorums_reached` / `quorums_failed` count the results that say reached /
    not reached (together: every vote exactly once), the history holds the newest results in order - all of them up to
    1000, the last 1000 beyond -, its newest entry is the result just returned and the entry before it the previous
    result (`get_vote_history(1)`, `get_vote_history(2)`), however many votes were taken. -/
theorem c06_statistics_and_history_report_the_votes (rs : List Result) :
    let l := ({} : Ledger).recordAll rs
    l.totalVotes = sumN (rs.map (·.votes.length)) ∧
    l.reached = (rs.filter (·.reached)).length ∧ l.failed = (rs.filter (fun r => !r.reached)).length ∧
    l.reached + l.failed = rs.length ∧
    l.history = lastN historyCap rs ∧ l.history.length ≤ historyCap ∧
    (∀ k, 1 ≤ k → k ≤ historyCap → l.recent k = lastN k rs) := by
  intro l
  obtain ⟨h1, h2, h3⟩ := recordAll_counts rs {}
  have hh : l.history = lastN historyCap rs := by
    have := recordAll_history rs {} [] (by rfl)
    simpa using this
  refine ⟨by simpa using h1, by simpa using h2, by simpa using h3, ?_, hh, ?_, ?_⟩
  · have := filter_partition rs
    show (({} : Ledger).recordAll rs).reached + (({} : Ledger).recordAll rs).failed = rs.length
    rw [h2, h3]; simpa using this
  · rw [hh]; exact lastN_length _ _
  · intro k hk1 hk2
    unfold Ledger.recent
    rw [hh]
    unfold lastN
    rw [List.drop_drop, List.length_drop]
    congr 1
    omega

/-- … with the results of a history of operations on one object: the ballots counted are one per colony member at
    each vote (`c06_counts_equal_ballots`) -/
theorem c06_total_votes_counts_every_ballot (cfg : Cfg) (voters : List Voter) (l : Ledger) :
    (l.record (runVote cfg voters)).totalVotes = l.totalVotes + voters.length := by
  unfold Ledger.record
  simp only
  rw [(c06_counts_equal_ballots cfg voters).1, List.length_map]

/-- with a cap of 1000 nothing is dropped from three results, and `get_vote_history(2)` is the last two: a BLOCK
    (one block vote) then a PERMIT (one permit vote) after an earlier PERMIT -/
example : let p := runVote ⟨.majority, none, 1⟩ [⟨.permit, .absent, 1, 1⟩]
    let b := runVote ⟨.majority, none, 1⟩ [⟨.block, .absent, 1, 1⟩]
    (({} : Ledger).recordAll [p, b, p]).recent 2 = [b, p] ∧ (({} : Ledger).recordAll [p, b, p]).totalVotes = 3 ∧
    (({} : Ledger).recordAll [p, b, p]).reached = 2 ∧ (({} : Ledger).recordAll [p, b, p]).failed = 1 := by decide +kernel

/-! ### Decision tables evaluated from the real code on every run, reproduced by the model in the kernel

`Operon.Gen.QuorumTables` is regenerated on every run by EVALUATING operon_ai/topology/quorum.py through its public
API (constructor, `run_vote` on stubbed colonies; nothing is parsed).  The theorems below re-establish, with the
tables of the current tree, that the model gives the same answer on every row, and lift the count table - by the
lemma that a counting strategy sees a ballot only through its (permit, block, abstain, defer) profile - to EVERY
electorate of at most 7 voters (the property's quantifier bound), whatever the weights, reliabilities, confidences,
action types and failures. -/

/-- `_protein_to_vote` reads the action type by whole-string equality, for every string: only "PERMIT" / "EXECUTE"
    give a permit vote, only "BLOCK" a block, only "DEFER" a deferral; every other action type - empty, a fragment
    or a superstring of those words, another case - is an abstention (whatever the payload and the profile). -/
theorem c06_action_type_classification (s : List Nat) (c : Conf) (w r : Rat) :
    ((toVote ⟨classifyAction s, c, w, r⟩).kind = .permit → s = permitCps ∨ s = executeCps) ∧
    ((toVote ⟨classifyAction s, c, w, r⟩).kind = .block → s = blockCps) ∧
    ((toVote ⟨classifyAction s, c, w, r⟩).kind = .defer → s = deferCps) ∧
    (s ≠ permitCps → s ≠ executeCps → s ≠ blockCps → s ≠ deferCps →
      (toVote ⟨classifyAction s, c, w, r⟩).kind = .abstain) := by
  obtain ⟨h1, h2, h3, h4, h5⟩ := classifyAction_spec s
  refine ⟨?_, ?_, ?_, ?_⟩
  · intro h
    rcases ((casts_permit_iff _).mp h).1 with h | h
    · exact Or.inl (h1.mp h)
    · exact Or.inr (h2.mp h)
  · intro h; exact h3.mp ((casts_block_iff _).mp h).1
  · intro h
    apply h4.mp
    cases hk : classifyAction s <;> cases c <;> simp_all [toVote, voteTypeOf, failedVote]
  · intro n1 n2 n3 n4
    have : classifyAction s = .other := by
      unfold classifyAction; simp [n1, n2, n3, n4]
    rw [this]
    cases c <;> simp [toVote, voteTypeOf, failedVote]

/-- the code point lists are the four words -/
example : "PERMIT".toList.map Char.toNat = permitCps ∧ "EXECUTE".toList.map Char.toNat = executeCps ∧
    "BLOCK".toList.map Char.toNat = blockCps ∧ "DEFER".toList.map Char.toNat = deferCps := by decide

set_option maxRecDepth 100000 in
/-- Classification table: for every evaluated row - action-type strings (the four words, all their proper prefixes
    and suffixes, case / blank variants, concatenations, the empty string, unrelated words) x payload shapes (not a
    dict, no "confidence" key, numeric as float / int / bool / string, non-numeric, None, list) x profile weight and
    reliability, and a raising agent - the vote the real `run_vote` recorded (type, confidence, weight) is the one
    the model's `toVote` gives. -/
theorem c06_classification_table_agrees :
    classTableComplete = true ∧
    ∀ row ∈ classTable, observedVote (toVote (rowVoter row.1)) = rowObserved row.2 := by
  have hok : ClassTableOk := by unfold ClassTableOk; decide +kernel
  refine ⟨by decide, fun row hrow => ?_⟩
  have := List.all_eq_true.mp hok row hrow
  exact of_decide_eq_true this

/-- … judged by `c06_action_type_classification` (not by inspection of the rows): wherever the real code recorded
    a PERMIT vote in the table the agent's action type was exactly "PERMIT" or "EXECUTE", a BLOCK vote exactly "BLOCK" -
    none of the fragments, superstrings, case or blank variants, nor the empty string. -/
theorem c06_evaluated_votes_come_from_the_exact_words :
    ∀ row ∈ classTable,
      (row.2.1 = 0 → row.1.1 = permitCps ∨ row.1.1 = executeCps) ∧ (row.2.1 = 1 → row.1.1 = blockCps) := by
  intro row hrow
  have hag := c06_classification_table_agrees.2 row hrow
  have hkind : voteTypeCode (toVote (rowVoter row.1)).kind = row.2.1 := congrArg Prod.fst hag
  unfold rowVoter at hkind
  by_cases hr : row.1.2.1 = raisesCode
  · simp only [hr, if_true] at hkind
    have : voteTypeCode (toVote ⟨.raises, .absent, q16 row.1.2.2.2.1, q16 row.1.2.2.2.2⟩).kind = 2 := rfl
    constructor <;> intro h <;> omega
  · simp only [hr, if_false] at hkind
    obtain ⟨c1, c2, -, -⟩ := c06_action_type_classification row.1.1
      (confOfPayload (payloadOfCode (if row.1.2.1 = 14 then 6 else row.1.2.1) (payloadValue row.1.2.1 row.1.2.2.1)))
      (q16 row.1.2.2.2.1) (q16 row.1.2.2.2.2)
    constructor
    · intro h
      apply c1
      rw [h] at hkind
      revert hkind
      cases (toVote _).kind <;> simp [voteTypeCode]
    · intro h
      apply c2
      rw [h] at hkind
      revert hkind
      cases (toVote _).kind <;> simp [voteTypeCode]

/-- Count tables: for every evaluated configuration (MAJORITY / SUPERMAJORITY / UNANIMOUS / THRESHOLD x custom
    thresholds incl. none, 0, shares, counts, fractional counts x min_voters, and `EmergencyQuorum` with its default
    and with custom thresholds) and EVERY electorate of at most 7 voters - any weights, reliabilities, confidences,
    action types, failures - the model's outcome (reached & PERMIT / not reached & BLOCK / gated ABSTAIN /
    ZeroDivisionError) is the digit the real code produced for that electorate's profile. -/
theorem c06_count_tables_agree :
    countTableComplete = true ∧
    ∀ row ∈ countTable, ∃ cfg, cfgOfCode row.1 = some cfg ∧ NonNegThreshold cfg ∧ cfg.strategy.counting = true ∧
      decodeCount row.2 = (profilesUpTo countMaxVoters).map (fun pr => (pr, countOutcome cfg pr)) ∧
      ∀ voters : List Voter, voters.length ≤ countMaxVoters →
        (profileOf voters, outcomeCode cfg voters) ∈ decodeCount row.2 := by
  have hok : CountTableOk := by unfold CountTableOk; decide +kernel
  refine ⟨by decide, fun row hrow => ?_⟩
  obtain ⟨cfg, hc, hn, hcount, hdec⟩ := countRow_sound hok row hrow
  refine ⟨cfg, hc, hn, hcount, hdec, fun voters hlen => ?_⟩
  rw [hdec, outcome_eq_count cfg hcount voters]
  apply List.mem_map.mpr
  refine ⟨profileOf voters, ?_, rfl⟩
  have hsum := profileOf_sum voters
  rcases hp : profileOf voters with ⟨p, b, a, d⟩
  rw [hp] at hsum
  exact (mem_profilesUpTo _ p b a d).mpr (by simp only at hsum; omega)

/-- The outcomes the real code produced, judged by the general theorems (not by inspection of the digits): in every
    row of the count tables a PERMIT digit sits only at a profile with a permit vote and at least `min_voters` active
    votes (`c06_no_permit_without_permit_vote`), under UNANIMOUS never at a profile with a block
    (`c06_block_defeats_unanimous`), and every profile of permits only - at least one, at least `min_voters`, the
    criterion attainable - carries the PERMIT digit (`c06_unanimous_permit_is_permit`). -/
theorem c06_evaluated_outcomes_obey_the_clauses :
    ∀ row ∈ countTable, ∃ cfg, cfgOfCode row.1 = some cfg ∧
      ∀ pr d, (pr, d) ∈ decodeCount row.2 →
        (d = 1 → 0 < pr.1 ∧ cfg.minVoters ≤ pr.1 + pr.2.1) ∧
        (d = 1 → cfg.strategy = .unanimous → pr.2.1 = 0) ∧
        (0 < pr.1 → pr.2.1 = 0 → pr.2.2.1 = 0 → pr.2.2.2 = 0 → cfg.minVoters ≤ pr.1 → Attainable cfg pr.1 →
          d = 1) := by
  intro row hrow
  obtain ⟨cfg, hc, hn, hcount, hdec, -⟩ := c06_count_tables_agree.2 row hrow
  refine ⟨cfg, hc, fun pr d hmem => ?_⟩
  rw [hdec, List.mem_map] at hmem
  obtain ⟨pr', -, heq⟩ := hmem
  obtain ⟨rfl, rfl⟩ := Prod.mk.inj heq
  -- the digit is the outcome of the plain electorate of that profile
  have hout : countOutcome cfg pr' = outcomeCode cfg (plainVoters pr') := by
    rw [outcome_eq_count cfg hcount, profileOf_plain]
  have hprof := profileOf_plain pr'
  rw [profileOf_eq] at hprof
  have hP : nP (collect (plainVoters pr')) = pr'.1 := congrArg Prod.fst hprof
  have hB : nB (collect (plainVoters pr')) = pr'.2.1 := congrArg (fun x => x.2.1) hprof
  have hlen : (plainVoters pr').length = pr'.1 + pr'.2.1 + pr'.2.2.1 + pr'.2.2.2 := by
    have := profileOf_sum (plainVoters pr'); rw [profileOf_plain] at this; exact this.symm
  -- digit 1 = reached and PERMIT
  have hone : countOutcome cfg pr' = 1 → (runVote cfg (plainVoters pr')).decision = .permit := by
    intro h1
    rw [hout] at h1
    unfold outcomeCode at h1
    by_cases hr : runVoteRaises cfg (plainVoters pr') = true
    · simp [hr] at h1
    · simp only [hr] at h1
      revert h1
      cases (runVote cfg (plainVoters pr')).reached <;> cases (runVote cfg (plainVoters pr')).decision <;>
        simp [codeOf]
  refine ⟨fun h1 => ?_, fun h1 hs => ?_, fun hp hb ha hd hmv hatt => ?_⟩
  · have hdec1 := hone h1
    have hr := (c06_permit_iff_reached cfg _).mp hdec1
    have hgate := ((run_reached_iff cfg _).mp hr).1
    rw [hP, hB] at hgate
    refine ⟨?_, hgate⟩
    by_contra hzero
    have hnone : ∀ v ∈ plainVoters pr', (toVote v).kind ≠ .permit := by
      intro v hv hk
      have : 0 < nP (collect (plainVoters pr')) :=
        (nP_pos_iff _).mpr ⟨toVote v, by unfold collect; exact List.mem_map.mpr ⟨v, hv, rfl⟩, hk⟩
      omega
    exact (c06_no_permit_without_permit_vote cfg _ hn hnone).2 hdec1
  · have hdec1 := hone h1
    by_contra hblock
    have : 0 < nB (collect (plainVoters pr')) := by omega
    obtain ⟨x, hx, hk⟩ := (nB_pos_iff _).mp this
    unfold collect at hx
    obtain ⟨v, hv, rfl⟩ := List.mem_map.mp hx
    exact (c06_block_defeats_unanimous cfg _ hs ⟨v, hv, hk⟩).2 hdec1
  · have hne : plainVoters pr' ≠ [] := by
      intro h; rw [h] at hlen; simp at hlen; omega
    have hall : ∀ v ∈ plainVoters pr', (toVote v).kind = .permit := by
      intro v hv
      unfold plainVoters at hv
      rw [hb, ha, hd] at hv
      simp only [List.replicate_zero, List.append_nil, List.mem_replicate] at hv
      rw [hv.2]; rfl
    have hlen' : (plainVoters pr').length = pr'.1 := by omega
    have hsup : Supported cfg (collect (plainVoters pr')) := by
      unfold Supported
      cases hs : cfg.strategy <;> simp only [] <;>
        first | (rw [hs] at hcount; exact absurd hcount (by decide)) | exact True.intro
    have hres := c06_unanimous_permit_is_permit cfg (plainVoters pr') hne hall (by omega)
      (plainVoters_valid pr') (by rw [hlen']; exact hatt) hsup
    -- back from the decision to the digit
    have hnr : runVoteRaises cfg (plainVoters pr') = false := c06_run_vote_returns cfg _ hne
    rw [hout]
    unfold outcomeCode
    simp only [hnr, Bool.false_eq_true, if_false, hres.1, hres.2]
    rfl

/-- the table theorems are about something: the tables are not empty (87 count configurations x 330 profiles and
    several hundred classification rows on the current tree); e.g. the first count row is MAJORITY, default threshold,
    `min_voters = 0`, and its digit for the profile (1 permit, 1 block) is 2 = BLOCK (a tie is not a majority) -/
example : 50 ≤ countTable.length ∧ 500 ≤ classTable.length ∧ (profilesUpTo countMaxVoters).length = 330 ∧
    ((1, 1, 0, 0), 2) ∈ decodeCount (countTable.head!).2 := by decide +kernel

end Operon.Quorum
