import Operon.Lemmas.C03
import Operon.Gen.MitoCaps
/-!
# C03 — tools outside the allowed capability set are never executed, on any path

Model: `Operon/Model/MitoTools.lean`.  The two booleans "a capability test dominates `tool.execute`" are
regenerated from the source on every run (`Operon/Gen/MitoCaps.lean`, extractor `harness/vf/extract/e1_caps.py`);
the behaviour is tied to the code by the differential correspondence of `harness/vf/props/c03.py`.
Quantifiers: every ceiling (`none`, empty, any list of tags - core `Capability` members and foreign tags alike),
every registry history (registration, re-registration of the same or another callable under a taken name,
re-declaration on the live object, removal - interleaved with calls AND happening while a call is in flight, i.e.
during the evaluation of its arguments), every entry point, every provider behaviour (`rounds` is an arbitrary list
of requested calls, the provider may use the registration API between rounds), every tool-body behaviour
(return / raise, and use of the registration API from inside the body), whatever the ROS latch, length guard and pathway detection decide.  The ceiling is the public
attribute `allowed_capabilities`; re-assigning it on the live engine is an operation of the history and every
execution is judged against the ceiling in force (`Ev.ceiling`).
-/
namespace Operon.MitoTools
open Operon.Gen.MitoCaps

/-- The source as it is now guards both execution paths, and has no other `.execute(...)` site. -/
theorem c03_guards_extracted : guards = ⟨true, true⟩ ∧ otherExecuteSites = [] := by decide

/-- Package-wide source facts (every module of `operon_ai` that mentions the engine or a `.tools` registry): nothing but
    the two guarded functions runs, aliases or `getattr`s a tool's `.execute` / `.func`; nobody outside
    `class Mitochondria` touches a `.tools` registry; outside mitochondria.py an engine is only used through its public
    API (the tool loop: `export_tool_schemas` and `execute_tool_call`).  An entry point added later shows up here. -/
theorem c03_no_other_route_extracted : registryUsesOutside = [] ∧ engineOtherUses = [] := by decide

/-- **The ceiling test of the source is the model's `permitted`** on the complete table over a 3-tag universe
    (729 rows: every ceiling x every way of declaring capabilities), obtained by running the real `execute_tool_call`
    with a counting tool body.  The universe mixes the kinds of tag a declaration may hold - a core `Capability`
    member, a plain string equal to that member's value, a member of a foreign Enum with the same name and value - so
    a test that looks at anything but the tag itself (its value, its name, a table of the core members) changes the
    table.  The code handles tags uniformly (set operations only), so the table covers the decision logic: fallback
    from `required_capabilities` to `capabilities`, empty vs. absent, `None` vs. empty ceiling.  The body ran iff the
    model permits, and the result reports success iff the body ran (refusal is reported as a failure). -/
theorem c03_permitted_table_agrees :
    ∃ rows, permTable = some rows ∧ rows.length = 729 ∧
      rows.all (fun r => permitted r.allowed ⟨0, r.req, r.caps, false⟩ == r.callRan && r.callRan == r.callOk) = true := by
  refine ⟨_, rfl, by decide +kernel, by decide +kernel⟩

/-- the same table through the expression pathway, `metabolize("t()", OXIDATIVE)`: the test that guards THIS path is
    the model's `permitted` too (an inline guard with other semantics - a falsy-default ceiling, no `capabilities`
    fallback - changes these columns) -/
theorem c03_permitted_table_agrees_metabolize :
    ∃ rows, permTable = some rows ∧
      rows.all (fun r => permitted r.allowed ⟨0, r.req, r.caps, false⟩ == r.metRan && r.metRan == r.metOk) = true := by
  refine ⟨_, rfl, by decide +kernel⟩

/-- ... through `metabolize("t()")` with the auto-detected pathway -/
theorem c03_permitted_table_agrees_auto :
    ∃ rows, permTable = some rows ∧
      rows.all (fun r => permitted r.allowed ⟨0, r.req, r.caps, false⟩ == r.autoRan && r.autoRan == r.autoOk) = true := by
  refine ⟨_, rfl, by decide +kernel⟩

/-- ... and through `Nucleus.transcribe_with_tools` with a provider that requests the tool -/
theorem c03_permitted_table_agrees_loop :
    ∃ rows, permTable = some rows ∧
      rows.all (fun r => permitted r.allowed ⟨0, r.req, r.caps, false⟩ == r.loopRan) = true := by
  refine ⟨_, rfl, by decide +kernel⟩

/-- **Declarations computed on demand are vetted by what they yield, at every request.**  Tools whose
    `required_capabilities` / `capabilities` are properties that build a fresh one-shot iterator (generator expression,
    `map`, `iter(…)`) at each access, evaluated on the REAL four entry points for every (ceiling, required, capabilities)
    over the tag universe of `permTable`, every engine asked TWICE (one row per request, 1458 rows, regenerated each
    run): the body runs iff the model's `permitted` holds for the tool value `iteratorDecl` describes, and the result
    reports success iff it ran - on the first request and on the second alike (a check that walks the declaration more
    than once, or remembers an exhausted iterator, changes these rows). -/
theorem c03_on_demand_declaration_table_agrees :
    ∃ rows, onDemandTable = some rows ∧ rows.length = 1458 ∧
      rows.all (fun r =>
        let p := permitted r.allowed ⟨0, (iteratorDecl r.req r.caps).1, (iteratorDecl r.req r.caps).2, false⟩
        p == r.callRan && r.callRan == r.callOk && p == r.metRan && r.metRan == r.metOk &&
        p == r.autoRan && r.autoRan == r.autoOk && p == r.loopRan) = true := by
  refine ⟨_, rfl, by decide +kernel, by decide +kernel⟩

/-- what an on-demand declaration requires is what its `required_capabilities` iterator yields whenever that attribute
    is present - also when it yields nothing (the iterator object is truthy: `capabilities` is not consulted) - and
    what `capabilities` yields otherwise -/
theorem c03_on_demand_declaration_required (req caps : Option (List Cap)) (b : Nat) (r : Bool) :
    (Tool.mk b (iteratorDecl req caps).1 (iteratorDecl req caps).2 r).required =
      match req with
      | some cs => cs
      | none => caps.getD [] := by
  unfold iteratorDecl Tool.required
  cases req with
  | none => cases caps with
    | none => rfl
    | some cs => cases cs <;> rfl
  | some cs => cases cs <;> rfl

/-- **Registering a taken name replaces the object, through every registration entry point.**  The real constructor
    `tools=`, `engulf_tool` (SimpleTool / hand-written object) and `register_function` are evaluated on every pair of
    styles x same callable or another x declarations (96 rows, regenerated each run): the registry then holds the
    SECOND registration, and `execute_tool_call` under the empty ceiling runs a body exactly when the model - registry
    update `Registry.set` twice, then `executeToolCall` - runs the second tool, i.e. exactly when the declaration
    registered NOW is inside the ceiling. -/
theorem c03_registration_table_agrees :
    ∃ rows, regTable = some rows ∧ rows.length = 96 ∧
      rows.all (fun r =>
        let t1 : Tool := ⟨1, some r.2.2.2.1, none, false⟩
        let t2 : Tool := ⟨if r.2.2.1 then 1 else 2, some r.2.2.2.2.1, none, false⟩
        let s : St := { reg := Registry.set (Registry.set [] "t" t1) "t" t2, allowed := some [] }
        r.2.2.2.2.2.1 &&
          (((executeToolCall ⟨true, true⟩ s "t" []).1.events.map (·.tool) == [t2]) == r.2.2.2.2.2.2) &&
          (permitted (some []) t2 == r.2.2.2.2.2.2)) = true := by
  refine ⟨_, rfl, by decide +kernel, by decide +kernel⟩

/-- **A requested name is resolved exactly as the model resolves it, on every entry point.**  The real code is run on
    every pair (spelling the tool is registered under, spelling it is requested under) of 11 look-alike spellings of one
    name - other case, trailing / leading blank, full-width first letter, composed / decomposed accent, qualified
    `functions.<name>`, `-` for `_` (121 rows, regenerated each run).  On an unrestricted engine the body ran exactly
    when the model's dictionary lookup (`Registry.lookup`: key equality, nothing folded, trimmed or normalised) finds
    the tool: through `execute_tool_call` and the tool loop under the requested string itself, through `metabolize`
    (forced, and auto with the recorded detection) under the identifier Python's parser reads in the expression.  And
    with the tool outside the ceiling no spelling of its name made it run on any entry point. -/
theorem c03_name_resolution_table_agrees :
    ∃ rows, nameTable = some rows ∧ rows.length = 121 ∧
      rows.all (fun r =>
        let t : Tool := ⟨1, some [2], none, false⟩
        let s : St := { reg := [(r.reg, t)] }
        let ran := fun (x : St) => x.events.map (·.tool) == [t]
        (ran (executeToolCall ⟨true, true⟩ s r.req []).1 == r.callRan) &&
        (ran (metabolize ⟨true, true⟩ s .oxidative r.parsed true []).1 == r.metRan) &&
        (ran (metabolize ⟨true, true⟩ s (if r.autoOx then .oxidative else .otherPathway false) r.parsed true []).1
          == r.autoRan) &&
        (ran (toolLoop ⟨true, true⟩ 10 true s [⟨[], [(r.req, [])]⟩, ⟨[], []⟩]).1 == r.loopRan) &&
        !r.deniedRan) = true := by
  refine ⟨_, rfl, by decide +kernel, by decide +kernel⟩

/-- the lookup is by the requested spelling itself: the tool it finds is registered under exactly that key -/
theorem c03_lookup_is_exact (r : Registry) (n : String) (t : Tool) (h : r.lookup n = some t) : (n, t) ∈ r := by
  unfold Registry.lookup at h
  split at h
  · rename_i p hp
    have h1 := List.find?_some hp
    have h2 := List.mem_of_find?_eq_some hp
    simp only [beq_iff_eq] at h1
    cases p with
    | mk a b =>
      simp only [Option.some.injEq] at h
      subst h
      simp only at h1
      subst h1
      exact h2
  · cases h

/-- **A request runs nothing that is registered under another spelling**: whatever else the registry holds - the same
    name in another case, padded, normalised differently - a request for `n` that runs a tool runs the one registered
    under exactly `n` (and that one was vetted: `c03_vetted_is_executed_*`); if `n` itself is not a key, nothing runs,
    on any entry point. -/
theorem c03_other_spellings_are_other_names (s : St) (n : String) (argsOk : Bool) (ops : List RegOp)
    (hn : ∀ t, (n, t) ∉ s.reg) :
    (executeToolCall guards s n ops).1.events = s.events ∧
    (metabolize guards s .oxidative (.name n) argsOk ops).1.events = s.events ∧
    ∀ k auto, (toolLoop guards k auto s [⟨[], [(n, ops)]⟩]).1.events = s.events := by
  have hl : s.reg.lookup n = none := by
    cases h : s.reg.lookup n with
    | none => rfl
    | some t => exact absurd (c03_lookup_is_exact s.reg n t h) (hn t)
  refine ⟨by simp [executeToolCall, hl], by simp [metabolize, oxidative, hl], ?_⟩
  intro k auto
  cases k with
  | zero => simp [toolLoop]
  | succ k =>
    cases auto
    · simp [toolLoop, during]
    · cases k <;> simp [toolLoop, loopRound, executeToolCall, hl, during, Registry.applyAll]

/-- a registry that holds the name in two other spellings, one of them outside the ceiling: the request for a third
    spelling runs nothing; the request for the permitted spelling runs that tool only -/
example :
    let s : St := { reg := [("fetch", ⟨1, some [2], none, false⟩), ("Fetch", ⟨2, some [], none, false⟩)], allowed := some [] }
    (∀ t, ("FETCH", t) ∉ s.reg) ∧
    (run ⟨true, true⟩ s [.call "FETCH" [], .metabolize .oxidative (.name "FETCH") true [], .call "Fetch" [],
      .call "fetch" []]).events.map (·.tool.body) = [2] := by
  refine ⟨?_, by decide⟩
  intro t h
  simp at h

/-- **Least privilege, all entry points, all histories** (from any start state whose log is clean; ceiling
    re-assignment, in-flight registration and provider-side registration included).  Every tool body that ever ran
    had its required capabilities (as declared by the object that was vetted and run) inside the ceiling in force. -/
theorem c03_least_privilege_in_force (allowed : Option (List Cap)) (ops : List Op) :
    ∀ e ∈ (run guards (init allowed) ops).events, permitted e.ceiling e.tool = true := by
  rw [c03_guards_extracted.1]
  exact run_events ops (init allowed) (by simp [init])

/-- **Least privilege as the property states it**: an engine constructed with `allowed` whose ceiling attribute is
    not re-assigned never runs a tool outside `allowed`, on any entry point, for any history. -/
theorem c03_least_privilege (allowed : Option (List Cap)) (ops : List Op)
    (hno : ∀ op ∈ ops, op.isSetCeiling = false) :
    ∀ e ∈ (run guards (init allowed) ops).events, permitted allowed e.tool = true := by
  intro e he
  have h1 := c03_least_privilege_in_force allowed ops e he
  rw [c03_guards_extracted.1] at he
  have h2 := (run_events_fixed ops (init allowed) hno (by simp [init])).2 e he
  rw [h2] at h1
  exact h1

/-- spelled out for a restricted engine: required ⊆ allowed for every executed tool -/
theorem c03_least_privilege_subset (al : List Cap) (ops : List Op) (hno : ∀ op ∈ ops, op.isSetCeiling = false) :
    ∀ e ∈ (run guards (init (some al)) ops).events, ∀ c ∈ e.tool.required, c ∈ al := by
  intro e he c hc
  have h := c03_least_privilege (some al) ops hno e he
  simp only [permitted, subset, List.all_eq_true] at h
  have := h c hc
  simpa using this

/-- **Refusal is a failure without effect** (expression pathway): a registered tool outside the ceiling is
    refused with a failure result; no tool body runs and the arguments are not even evaluated (the registry is
    untouched, whatever their evaluation would have done). -/
theorem c03_refusal_is_failure_without_effect_metabolize (s : St) (n : String)
    (t : Tool) (argsOk : Bool) (ops : List RegOp) (hl : s.reg.lookup n = some t) (hp : permitted s.allowed t = false) :
    (metabolize guards s .oxidative (.name n) argsOk ops).2 = .failure "PermissionError" ∧
    (metabolize guards s .oxidative (.name n) argsOk ops).1.events = s.events ∧
    (metabolize guards s .oxidative (.name n) argsOk ops).1.reg = s.reg := by
  rw [c03_guards_extracted.1]
  simp [metabolize, oxidative, hl, hp]

/-- **Refusal is a failure without effect** (structured tool call). -/
theorem c03_refusal_is_failure_without_effect_call (s : St) (n : String)
    (t : Tool) (ops : List RegOp) (hl : s.reg.lookup n = some t) (hp : permitted s.allowed t = false) :
    (executeToolCall guards s n ops).2 = .failure "PermissionError" ∧
    (executeToolCall guards s n ops).1.events = s.events ∧
    (executeToolCall guards s n ops).1.reg = s.reg := by
  rw [c03_guards_extracted.1]
  simp [executeToolCall, hl, hp]

/-- **The tool that is vetted is the tool that runs** (expression pathway).  Whatever the evaluation of the
    arguments does to the registry - re-register the requested name with a more privileged tool, remove it - a
    request either runs nothing, or runs exactly the object that was registered under the name when the request
    arrived, and that object is within the ceiling. -/
theorem c03_vetted_is_executed_metabolize (s : St) (pre : Pre) (n : String) (argsOk : Bool) (ops : List RegOp) :
    (metabolize guards s pre (.name n) argsOk ops).1.events = s.events ∨
    ∃ t, s.reg.lookup n = some t ∧ permitted s.allowed t = true ∧
      (metabolize guards s pre (.name n) argsOk ops).1.events = s.events ++ [⟨t, s.allowed⟩] := by
  rw [c03_guards_extracted.1]
  cases pre with
  | tooLong => left; rfl
  | rosLatched => left; rfl
  | otherPathway b => cases b <;> (left; rfl)
  | oxidative =>
    simp only [metabolize, oxidative]
    cases hl : s.reg.lookup n with
    | none => left; rfl
    | some t =>
      by_cases hp : permitted s.allowed t = true
      · cases argsOk
        · left; simp [hp, during]
        · right
          refine ⟨t, rfl, hp, ?_⟩
          simp only [hp, runBody, during]
          cases t.raises <;> simp
      · left
        simp only [Bool.not_eq_true] at hp
        simp [hp]

/-- **The tool that is vetted is the tool that runs** (structured tool call; `ops` = what evaluating
    `**call.arguments` does to the registry). -/
theorem c03_vetted_is_executed_call (s : St) (n : String) (ops : List RegOp) :
    (executeToolCall guards s n ops).1.events = s.events ∨
    ∃ t, s.reg.lookup n = some t ∧ permitted s.allowed t = true ∧
      (executeToolCall guards s n ops).1.events = s.events ++ [⟨t, s.allowed⟩] := by
  rw [c03_guards_extracted.1]
  simp only [executeToolCall]
  cases hl : s.reg.lookup n with
  | none => left; rfl
  | some t =>
    by_cases hp : permitted s.allowed t = true
    · right
      refine ⟨t, rfl, hp, ?_⟩
      simp only [hp, runBody, during]
      cases t.raises <;> simp
    · left
      simp only [Bool.not_eq_true] at hp
      simp [hp]

/-- **The LLM tool loop forwards only checked calls**: whatever the provider requests, for however many rounds,
    and whatever it registers between rounds or through the arguments of its calls, the loop only appends tools
    permitted under the ceiling to the execution log and leaves the ceiling alone. -/
theorem c03_loop_forwards_only_checked (k : Nat) (auto : Bool) (s : St) (rounds : List Round) :
    (toolLoop guards k auto s rounds).1.allowed = s.allowed ∧
    ∃ new, (toolLoop guards k auto s rounds).1.events = s.events ++ new ∧
      ∀ e ∈ new, e.ceiling = s.allowed ∧ permitted s.allowed e.tool = true := by
  rw [c03_guards_extracted.1]
  exact toolLoop_ext k auto rounds s

/-- **In the tool loop a refusal is a failure without effect, at every position of a round**: when the loop reaches a
    requested call (after serving the calls `pre` before it) and the tool then registered under that name is outside
    the ceiling, the answer recorded for that call is a failure and no tool body runs for it. -/
theorem c03_loop_refusal_is_failure_without_effect (s : St) (pre post : List (String × List RegOp)) (n : String)
    (ops : List RegOp) (t : Tool)
    (hl : (loopRound guards s pre).1.reg.lookup n = some t)
    (hp : permitted (loopRound guards s pre).1.allowed t = false) :
    (loopRound guards s (pre ++ (n, ops) :: post)).2[pre.length]? = some (.failure "PermissionError") ∧
    (loopRound guards s (pre ++ [(n, ops)])).1.events = (loopRound guards s pre).1.events := by
  have h := c03_refusal_is_failure_without_effect_call (loopRound guards s pre).1 n t ops hl hp
  constructor
  · rw [loopRound_append]
    simp only [loopRound]
    rw [List.getElem?_append_right (by simp [loopRound_length])]
    simp [loopRound_length, h.1]
  · rw [loopRound_append]
    simp only [loopRound]
    exact h.2.1

/-- with `auto_execute=False` the loop runs nothing at all -/
theorem c03_loop_without_auto_execute_runs_nothing (k : Nat) (s : St) (rounds : List Round) :
    (toolLoop guards k false s rounds).1.events = s.events := by
  cases k with
  | zero => simp [toolLoop]
  | succ k => cases rounds <;> simp [toolLoop, during]

/-- **The declaration registered NOW decides**: registering under a name - first registration or re-registration,
    same callable or another one, whatever object held the name before - makes exactly that object the one that is
    looked up, so its declaration is the one the ceiling is tested against. -/
theorem c03_registration_replaces (r : Registry) (n : String) (t : Tool) : (r.set n t).lookup n = some t :=
  lookup_set r n t

/-- consequence for the history `register n t ; request n` with `t` outside the ceiling - in particular the same
    callable registered a second time with a tighter declaration: refused on both paths, nothing runs. -/
theorem c03_reregistered_outside_ceiling_is_refused (s : St) (n : String) (t : Tool) (argsOk : Bool)
    (ops : List RegOp) (hp : permitted s.allowed t = false) :
    (run guards s [.register n t, .call n ops]).events = s.events ∧
    (run guards s [.register n t, .metabolize .oxidative (.name n) argsOk ops]).events = s.events := by
  have hl : ({ s with reg := s.reg.set n t } : St).reg.lookup n = some t := c03_registration_replaces s.reg n t
  constructor
  · exact (c03_refusal_is_failure_without_effect_call { s with reg := s.reg.set n t } n t ops hl hp).2.1
  · exact (c03_refusal_is_failure_without_effect_metabolize { s with reg := s.reg.set n t } n t argsOk ops hl hp).2.1

/-- re-declaration on the live object (`tool.required_capabilities = …`) is what the next request is judged by -/
theorem c03_redeclaration_decides (r : Registry) (n : String) (t : Tool) (req caps : Option (List Cap))
    (hl : r.lookup n = some t) :
    (r.redeclare n req caps).lookup n = some { t with req := req, caps := caps } :=
  lookup_redeclare r n t req caps hl

/-- **A tool that ran before is refused once its declaration leaves the ceiling** - however the declaration changed:
    attribute re-assigned, the declared set mutated in place, or re-declared through another engine that holds the
    same object (all of them are the operation `redeclare` in THIS engine's history): no memory of an earlier
    clearance survives. -/
theorem c03_redeclared_outside_ceiling_is_refused (s : St) (n : String) (t : Tool) (req caps : Option (List Cap))
    (argsOk : Bool) (ops : List RegOp) (hl : s.reg.lookup n = some t)
    (hp : permitted s.allowed { t with req := req, caps := caps } = false) :
    (run guards s [.redeclare n req caps, .call n ops]).events = s.events ∧
    (run guards s [.redeclare n req caps, .metabolize .oxidative (.name n) argsOk ops]).events = s.events := by
  have hl' : ({ s with reg := s.reg.redeclare n req caps } : St).reg.lookup n = some { t with req := req, caps := caps } :=
    c03_redeclaration_decides s.reg n t req caps hl
  constructor
  · exact (c03_refusal_is_failure_without_effect_call { s with reg := s.reg.redeclare n req caps } n _ ops hl' hp).2.1
  · exact (c03_refusal_is_failure_without_effect_metabolize { s with reg := s.reg.redeclare n req caps } n _ argsOk ops
      hl' hp).2.1

/-- ... and once the ceiling is narrowed below its declaration (assignment to `allowed_capabilities`, or the set object
    mutated in place): judged by the ceiling in force, not by an earlier verdict. -/
theorem c03_narrowed_ceiling_refuses (s : St) (n : String) (t : Tool) (al : Option (List Cap))
    (argsOk : Bool) (ops : List RegOp) (hl : s.reg.lookup n = some t) (hp : permitted al t = false) :
    (run guards s [.setCeiling al, .call n ops]).events = s.events ∧
    (run guards s [.setCeiling al, .metabolize .oxidative (.name n) argsOk ops]).events = s.events := by
  constructor
  · exact (c03_refusal_is_failure_without_effect_call { s with allowed := al } n t ops hl hp).2.1
  · exact (c03_refusal_is_failure_without_effect_metabolize { s with allowed := al } n t argsOk ops hl hp).2.1

/-- hypotheses satisfiable, and the earlier use did run: used, re-declared outside the ceiling, refused; ceiling widened,
    runs; ceiling narrowed, refused -/
example :
    let s := run ⟨true, true⟩ (init (some [0])) [.register "w" ⟨1, some [0], none, false⟩, .call "w" []]
    s.events.length = 1 ∧ s.reg.lookup "w" = some ⟨1, some [0], none, false⟩ ∧
    permitted s.allowed { (⟨1, some [0], none, false⟩ : Tool) with req := some [0, 2], caps := none } = false ∧
    (run ⟨true, true⟩ s [.redeclare "w" (some [0, 2]) none, .call "w" [], .setCeiling (some [0, 2]), .call "w" [],
      .setCeiling (some [2]), .call "w" []]).events.map (·.ceiling) = [some [0], some [0, 2]] := by
  decide

/-- A tool that was removed from the registry (or never registered) is never run: every executed tool was the object
    registered under the requested name when the request arrived. -/
theorem c03_only_currently_registered (s : St) (n : String) (ops : List RegOp)
    (hl : s.reg.lookup n = none) :
    (executeToolCall guards s n ops).1.events = s.events ∧
    (metabolize guards s .oxidative (.name n) true ops).1.events = s.events := by
  simp [executeToolCall, metabolize, oxidative, hl]

/-- removal really removes: after `unreg n` the name is unknown -/
theorem c03_erase_lookup (r : Registry) (n : String) : (r.erase n).lookup n = none := by
  unfold Registry.lookup Registry.erase
  have : (List.filter (fun p : String × Tool => !(p.1 == n)) r).find? (fun p => p.1 == n) = none := by
    rw [List.find?_eq_none]
    intro p hp
    have := (List.mem_filter.mp hp).2
    simpa using this
  simp [this]

/-- an unrestricted engine (`allowed_capabilities=None`) refuses nothing: permitted is constantly true -/
theorem c03_unrestricted_permits_all (t : Tool) : permitted none t = true := rfl

/-- the ceiling is what the tool DECLARES: `required_capabilities`, else `capabilities`, else nothing -/
theorem c03_empty_ceiling_runs_only_capability_free (ops : List Op) (hno : ∀ op ∈ ops, op.isSetCeiling = false) :
    ∀ e ∈ (run guards (init (some [])) ops).events, e.tool.required = [] := by
  intro e he
  have h := c03_least_privilege_subset [] ops hno e he
  cases hr : e.tool.required with
  | nil => rfl
  | cons c cs => exact absurd (h c (by simp [hr])) (by simp)

/-! ### Non-vacuity -/

private def tWrite : Tool := ⟨1, some [3], none, false⟩     -- requires capability #3
private def tFree : Tool := ⟨2, some [], none, false⟩
private def tGpu : Tool := ⟨2, some [6], none, false⟩       -- same callable as `tFree`, declares the foreign tag #6

/-- a history in which a permitted tool does run and a forbidden one is refused on all three entry points -/
example :
    (run ⟨true, true⟩ (init (some []))
      [.register "w" tWrite, .register "f" tFree, .call "w" [], .call "f" [],
       .metabolize .oxidative (.name "w") true [],
       .loop 3 true [⟨[], [("w", []), ("f", [])]⟩, ⟨[], [("w", [])]⟩]]).events.map (·.tool) = [tFree, tFree] := by
  decide

/-- the same callable registered again with a tighter declaration: it ran before, it is refused afterwards -/
example :
    (run ⟨true, true⟩ (init (some [0]))
      [.register "f" tFree, .call "f" [], .register "f" tGpu, .call "f" [],
       .metabolize .oxidative (.name "f") true []]).events.map (·.tool) = [tFree] := by
  decide

/-- in-flight re-registration: the harmless tool that was vetted runs, the privileged one that took its name during
    argument evaluation does not - neither in this request nor in the next one -/
example :
    let s := run ⟨true, true⟩ (init (some []))
      [.register "f" tFree, .metabolize .oxidative (.name "f") true [.register "f" tWrite], .call "f" []]
    s.events.map (·.tool) = [tFree] ∧ s.reg.lookup "f" = some tWrite := by
  decide

/-- a tool body that uses the registration API while it runs - it installs a privileged tool under its own name: it
    ran once (it was within the ceiling when it was vetted), the tool it installed is refused on every path -/
example :
    let s := run ⟨true, true⟩ (init (some []))
      [.register "f" tFree, .script 2 [.register "f" tWrite], .call "f" [], .call "f" [],
       .metabolize .oxidative (.name "f") true [], .loop 2 true [⟨[], [("f", [])]⟩]]
    s.events.map (·.tool) = [tFree] ∧ s.reg.lookup "f" = some tWrite := by
  decide

/-- the ceiling re-assigned on the live engine: each execution is judged against the ceiling in force -/
example :
    (run ⟨true, true⟩ (init (some []))
      [.register "w" tWrite, .call "w" [], .setCeiling (some [3]), .call "w" [], .setCeiling (some []), .call "w" []]
      ).events = [⟨tWrite, some [3]⟩] := by
  decide

/-- hypotheses of the loop refusal theorem are satisfiable: after serving `f`, `w` is registered outside the ceiling -/
example :
    let s : St := { reg := [("w", tWrite), ("f", tFree)], allowed := some [] }
    (loopRound ⟨true, true⟩ s [("f", [])]).1.reg.lookup "w" = some tWrite ∧
    permitted (loopRound ⟨true, true⟩ s [("f", [])]).1.allowed tWrite = false ∧
    (loopRound ⟨true, true⟩ s [("f", []), ("w", []), ("f", [])]).2 =
      [.success, .failure "PermissionError", .success] := by
  decide

/-- hypotheses of the refusal theorems are satisfiable -/
example : (({ reg := [("w", tWrite)], allowed := some [] } : St).reg.lookup "w" = some tWrite) ∧
    permitted (some []) tWrite = false := by
  decide

/-- witness for the unguarded shape (the pinned `execute_tool_call`): without the guard the forbidden tool runs -/
theorem c03_unguarded_call_witness :
    (run ⟨true, false⟩ (init (some [])) [.register "w" tWrite, .call "w" []]).events.map (·.tool) = [tWrite] := by
  decide

end Operon.MitoTools
