import Operon.Lemmas.C03
import Operon.Gen.MitoCaps
/-!
# C03 — tools outside the allowed capability set are never executed, on any path

Model: `Operon/Model/MitoTools.lean`.  The two booleans "a capability test dominates `tool.execute`" are
regenerated from the source on every run (`Operon/Gen/MitoCaps.lean`, extractor `harness/vf/extract/e1_caps.py`);
the behaviour is tied to the code by the differential correspondence of `harness/vf/props/c03.py`.
Quantifiers: every ceiling (`none`, empty, any list), every registry history (registration and re-registration
interleaved with calls), every entry point, every provider behaviour (`rounds` is an arbitrary list of requested
calls), every tool-body behaviour (return / raise), whatever the ROS latch, length guard and pathway detection
decide.
-/
namespace Operon.MitoTools
open Operon.Gen.MitoCaps

/-- The source as it is now guards both execution paths, and has no other `.execute(...)` site. -/
theorem c03_guards_extracted : guards = ⟨true, true⟩ ∧ otherExecuteSites = [] := by decide

/-- **The ceiling test of the source is the model's `permitted`** on the complete table over a 3-capability universe
    (729 rows: every ceiling x every way of declaring capabilities), obtained by running the real `execute_tool_call`
    with a counting tool body.  The code handles capabilities uniformly (set operations only), so the table covers the
    decision logic: fallback from `required_capabilities` to `capabilities`, empty vs. absent, `None` vs. empty ceiling. -/
theorem c03_permitted_table_agrees :
    ∃ rows, permTable = some rows ∧ rows.length = 729 ∧
      rows.all (fun r => permitted r.1 ⟨0, r.2.1, r.2.2.1, false⟩ == r.2.2.2) = true := by
  refine ⟨_, rfl, by decide +kernel, by decide +kernel⟩

/-- **Least privilege, all entry points, all histories.**  Every tool body that ever ran had its required
    capabilities (as declared by the object registered at that moment) inside the ceiling. -/
theorem c03_least_privilege (allowed : Option (List Cap)) (ops : List Op) :
    ∀ t ∈ (run guards allowed {} ops).events, permitted allowed t = true := by
  rw [c03_guards_extracted.1]
  exact run_events allowed ops {} (by simp)

/-- spelled out for a restricted engine: required ⊆ allowed for every executed tool -/
theorem c03_least_privilege_subset (al : List Cap) (ops : List Op) :
    ∀ t ∈ (run guards (some al) {} ops).events, ∀ c ∈ t.required, c ∈ al := by
  intro t ht c hc
  have h := c03_least_privilege (some al) ops t ht
  simp only [permitted, subset, List.all_eq_true] at h
  have := h c hc
  simpa using this

/-- **Refusal is a failure without effect** (expression pathway): a registered tool outside the ceiling is
    refused with a failure result and no tool body runs, whatever the arguments. -/
theorem c03_refusal_is_failure_without_effect_metabolize (allowed : Option (List Cap)) (s : St) (n : String)
    (t : Tool) (argsOk : Bool) (hl : s.reg.lookup n = some t) (hp : permitted allowed t = false) :
    (metabolize guards allowed s .oxidative (.name n) argsOk).2 = .failure "PermissionError" ∧
    (metabolize guards allowed s .oxidative (.name n) argsOk).1.events = s.events := by
  rw [c03_guards_extracted.1]
  simp [metabolize, oxidative, hl, hp]

/-- **Refusal is a failure without effect** (structured tool call). -/
theorem c03_refusal_is_failure_without_effect_call (allowed : Option (List Cap)) (s : St) (n : String)
    (t : Tool) (hl : s.reg.lookup n = some t) (hp : permitted allowed t = false) :
    (executeToolCall guards allowed s n).2 = .failure "PermissionError" ∧
    (executeToolCall guards allowed s n).1.events = s.events := by
  rw [c03_guards_extracted.1]
  simp [executeToolCall, hl, hp]

/-- **The LLM tool loop forwards only checked calls**: whatever the provider requests, for however many rounds,
    the loop only appends permitted tools to the execution log and leaves the registry alone. -/
theorem c03_loop_forwards_only_checked (allowed : Option (List Cap)) (k : Nat) (s : St)
    (rounds : List (List String)) :
    ∃ new, (toolLoop guards allowed k s rounds).1.events = s.events ++ new ∧
      ∀ t ∈ new, permitted allowed t = true := by
  rw [c03_guards_extracted.1]
  exact (toolLoop_ext allowed k rounds s).2

/-- A tool that was removed from the registry (or never registered) is never run: every executed tool was, at that
    moment, the object registered under the requested name. -/
theorem c03_only_currently_registered (allowed : Option (List Cap)) (s : St) (n : String)
    (hl : s.reg.lookup n = none) :
    (executeToolCall guards allowed s n).1.events = s.events ∧
    (metabolize guards allowed s .oxidative (.name n) true).1.events = s.events := by
  simp [executeToolCall, metabolize, oxidative, hl]

/-- removal really removes: after `unreg n` the name is unknown -/
theorem c03_erase_lookup (r : Registry) (n : String) : (r.erase n).lookup n = none := by
  unfold Registry.lookup Registry.erase
  have : (List.filter (fun p : String × Tool => !(p.1 == n)) r).find? (fun p => p.1 == n) = none := by
    rw [List.find?_eq_none]
    intro p hp
    have := (List.mem_filter.mp hp).2
    simpa using this
  simp [this]

/-- an unrestricted engine (`allowed_capabilities=None`) refuses nothing: permitted is constantly true -/
theorem c03_unrestricted_permits_all (t : Tool) : permitted none t = true := rfl

/-- the ceiling is what the tool DECLARES: `required_capabilities`, else `capabilities`, else nothing -/
theorem c03_empty_ceiling_runs_only_capability_free (ops : List Op) :
    ∀ t ∈ (run guards (some []) {} ops).events, t.required = [] := by
  intro t ht
  have h := c03_least_privilege_subset [] ops t ht
  cases hr : t.required with
  | nil => rfl
  | cons c cs => exact absurd (h c (by simp [hr])) (by simp)

/-! ### Non-vacuity -/

private def tWrite : Tool := ⟨1, some [3], none, false⟩     -- requires capability #3
private def tFree : Tool := ⟨2, some [], none, false⟩

/-- a history in which a permitted tool does run and a forbidden one is refused on all three entry points -/
example :
    (run ⟨true, true⟩ (some []) {}
      [.register "w" tWrite, .register "f" tFree, .call "w", .call "f",
       .metabolize .oxidative (.name "w") true, .loop 3 true [["w", "f"], ["w"]]]).events = [tFree, tFree] := by
  decide

/-- hypotheses of the refusal theorems are satisfiable -/
example : (({ reg := [("w", tWrite)] } : St).reg.lookup "w" = some tWrite) ∧ permitted (some []) tWrite = false := by
  decide

/-- witness for the unguarded shape (the pinned `execute_tool_call`): without the guard the forbidden tool runs -/
theorem c03_unguarded_call_witness :
    (run ⟨true, false⟩ (some []) {} [.register "w" tWrite, .call "w"]).events = [tWrite] := by decide

end Operon.MitoTools
