import Operon.Lemmas.C15
import Operon.Lemmas.C15Dfs
import Operon.Lemmas.C15Life
import Operon.Lemmas.C15Boost
import Operon.Gen.CoordAdvanceProbe
import Operon.Gen.CoordVictimProbe
/-!
# C15 — deadlock detection agrees with the real wait-for relation

Property theorems only.  Model: `Operon/Model/Coord.lean`, `CoordDfs.lean`, `CoordHist.lean` (hand-written, tied to
`operon_ai/coordination/{types,controller,watchdog,priority}.py` by the differential correspondence of
`harness/vf/props/c15.py`).

* recorded graph  = `sys.edges`, what `DependencyGraph` holds;  `detectCycle` = `detect_cycle()` (`check_deadlock()`)
* reference graph = `refEdges h`: X → owner(r) for every active X whose last attempt on r was BLOCKED and that has
  not acquired r since (ghost state `pend` of `Operon.Coord.HSt`)

What holds in full: `detect_cycle` reports a cycle exactly when the recorded graph has one (soundness and
completeness of the DFS, for every graph); an edge is true when it is recorded; the victim rule; the state after
handling.  What is false on the current tree (open finding
C15-edges-dropped-on-progress): the recorded graph equals the reference graph at every point of every history.
-/
namespace Operon.Coord

/-- **A reported cycle is a cycle of the recorded graph** (soundness of the DFS, for every graph): the reported
    list is non-empty, each member has a recorded edge to the next and the last to the first, each labelled
    with a resource. -/
theorem c15_reported_cycle_is_recorded_cycle (E : Edges) (c : List Nat) (h : detectCycle E = some c) :
    IsCycle E c ∧ c ≠ [] ∧ ∀ a ∈ c, ∃ b r, Edge E a b ∧ HasEdge E a b r := by
  have hc : IsCycle E c := detectFrom_sound E _ _ _ c h
  refine ⟨hc, ?_, ?_⟩
  · obtain ⟨b, hb, _⟩ := hc
    intro hn; rw [hn] at hb; cases hb
  · intro a ha
    obtain ⟨b, hb⟩ := isCycle_mem_edge hc ha
    obtain ⟨r, hr⟩ := edge_hasEdge hb
    exact ⟨b, r, hb, hr⟩

/-- **Every recorded cycle is reported** (completeness of the DFS, for every graph): if the recorded graph, as the
    search reads it, contains a cycle, `detect_cycle` returns one.  The fuel of the model's recursion
    (`dfsFuel` = number of node occurrences + 1) provably never runs out. -/
theorem c15_detects_recorded_cycle (E : Edges) (c : List Nat) (h : IsCycle E c) :
    ∃ c', detectCycle E = some c' ∧ IsCycle E c' := by
  cases hd : detectCycle E with
  | none => exact absurd h (detectCycle_complete E hd c)
  | some c' => exact ⟨c', rfl, (detectFrom_sound E _ _ _ c' hd)⟩

/-- `detect_cycle` answers the question "is there a cycle in the recorded graph" exactly -/
theorem c15_reports_iff_recorded_cycle (E : Edges) : (detectCycle E).isSome = true ↔ ∃ c, IsCycle E c := by
  constructor
  · intro h
    cases hd : detectCycle E with
    | none => rw [hd] at h; cases h
    | some c => exact ⟨c, detectFrom_sound E _ _ _ c hd⟩
  · rintro ⟨c, hc⟩
    obtain ⟨c', hc', _⟩ := c15_detects_recorded_cycle E c hc
    rw [hc']; rfl

/-- **A recorded edge is true when it is added.**  `acquire_resource` is the only call that adds edges, it adds
    at most one, only on BLOCKED, and that edge says: the calling operation waits for `r`, whose owner at that
    moment is `b`, another operation. -/
theorem c15_recorded_edge_was_true_when_added (s : Sys) (c : Ctx) (r w b x : Nat)
    (h : HasEdge (acquire s c r).1.edges w b x) :
    HasEdge s.edges w b x ∨
      (w = c.id ∧ x = r ∧ (acquire s c r).2.2 = some .blocked ∧ Owns (acquire s c r).1 b r ∧ b ≠ c.id) := by
  cases hl : s.locks r with
  | none => rw [acquire_unknown hl] at h; exact Or.inl h
  | some l =>
    by_cases hres : (l.tryAcquire c.id c.prio).2 = .blocked
    · rw [acquire_blocked hl hres] at h ⊢
      obtain ⟨_, hne, hnn⟩ := tryAcquire_blocked hres
      rcases hasEdge_addDep.mp h with h' | ⟨rfl, rfl, rfl⟩
      · exact Or.inl h'
      · right
        have hb : l.owner = some (l.owner.getD 0) := by
          cases ho : l.owner with
          | none => exact absurd ho hnn
          | some y => rfl
        exact ⟨rfl, rfl, rfl, ⟨{ l with waiting := addWaiting l.waiting c.id c.prio }, by simp [Sys.setLock], hb⟩,
          fun hy => hne (hb.trans (congrArg some hy))⟩
    · rw [acquire_ok hl hres] at h
      exact Or.inl (hasEdge_removeAllFor.mp h).2.2

/-- releases and endings never add an edge -/
theorem c15_release_and_finish_add_no_edge (s : Sys) (c : Ctx) (r w b x : Nat) :
    (HasEdge (release s c r).1.edges w b x → HasEdge s.edges w b x) ∧
    (HasEdge (finish s c).1.edges w b x → HasEdge s.edges w b x) :=
  ⟨fun h => (release_relStep s c r).1.edges w b x h, fun h => ((finish_finStep s c).edges w b x).mp h |>.2.2⟩

/-- **Victim rule.**  When `Watchdog.execute` terminates an operation for the reason DEADLOCK, a cycle was
    reported, the victim is a listed (live) member of it, and among the listed members it has the lowest priority
    (strategy "priority") resp. the earliest creation time (strategy "oldest"). -/
theorem c15_victim_is_min_priority_or_oldest (s : Sys) (v : Nat) (h : (v, Reason.deadlock) ∈ (wdExecute s).2) :
    ∃ cyc cv, detectCycle s.edges = some cyc ∧ v ∈ cyc ∧ s.ctx? v = some cv ∧
      (s.strategy = .priority → ∀ o ∈ cyc, ∀ c, s.ctx? o = some c → cv.prio ≤ c.prio) ∧
      (s.strategy = .oldest → ∀ o ∈ cyc, ∀ c, s.ctx? o = some c → cv.created ≤ c.created) := by
  obtain ⟨cyc, hcyc, hsel⟩ := wdCheck_deadlock (s := s) h
  obtain ⟨cv, hcv, _, _, hmem, hp, ho⟩ := selectVictim_spec hsel
  exact ⟨cyc, cv, hcyc, hmem, hcv, hp, ho⟩

/-- **Priority inheritance only raises priorities.**  `PriorityInheritance.check_and_boost` leaves the locks, the
    recorded graph (hence what `detect_cycle` answers) and the strategy alone; every operation listed before is listed
    afterwards with the same id and the same creation time and a priority that is not lower, and nobody else is listed;
    whom a priority-blind rule ("oldest", or an unknown strategy) picks from any agent list does not change. -/
theorem c15_priority_inheritance_only_raises_priorities (s : Sys) :
    let s' := (checkAndBoost s).1
    s'.locks = s.locks ∧ s'.edges = s.edges ∧ detectCycle s'.edges = detectCycle s.edges ∧ s'.strategy = s.strategy ∧
    (∀ o c, s.ctx? o = some c → ∃ c', s'.ctx? o = some c' ∧ c'.id = c.id ∧ c'.created = c.created ∧ c.prio ≤ c'.prio) ∧
    (∀ o c', s'.ctx? o = some c' → ∃ c, s.ctx? o = some c ∧ c'.id = c.id ∧ c'.created = c.created ∧ c.prio ≤ c'.prio) ∧
    (s.strategy ≠ .priority → ∀ agents, selectVictim s' agents = selectVictim s agents) := by
  have h := boostSame_checkAndBoost s
  exact ⟨h.locks, h.edges, by rw [h.edges], h.strategy, fun _ _ hc => h.ctx_after hc, fun _ _ hc => h.ctx_before hc,
    fun hs agents => selectVictim_boostSame h hs agents⟩

/-- **Victim rule of a maintenance run** (`run_maintenance` = `check_and_boost`, then `Watchdog.execute`).  When the run
    terminates an operation for the reason DEADLOCK: the cycle is one of the graph recorded BEFORE the run, the victim is
    a listed member of it, and
    * under "priority" its CURRENT priority — the one it has after the boosts of this very run, which is what the
      watchdog looks at — is the lowest among the listed members' current priorities (a member that priority inheritance
      has just lifted above another one is not the victim any more, whatever it was started with);
    * under "oldest" its creation time is the earliest among the listed members — creation times as they were before
      the run: boosts do not touch them. -/
theorem c15_maintenance_victim_is_min_of_current_priorities_or_oldest (s : Sys) (v : Nat)
    (h : (v, Reason.deadlock) ∈ (maintenance s).2.2) :
    let b := (checkAndBoost s).1
    ∃ cyc cv cv0, detectCycle s.edges = some cyc ∧ v ∈ cyc ∧ b.ctx? v = some cv ∧ s.ctx? v = some cv0 ∧
      cv0.prio ≤ cv.prio ∧
      (s.strategy = .priority → ∀ o ∈ cyc, ∀ c, b.ctx? o = some c → cv.prio ≤ c.prio) ∧
      (s.strategy = .oldest → ∀ o ∈ cyc, ∀ c, s.ctx? o = some c → cv0.created ≤ c.created) := by
  have hb := boostSame_checkAndBoost s
  have h' : (v, Reason.deadlock) ∈ (wdExecute (checkAndBoost s).1).2 := h
  obtain ⟨cyc, cv, hcyc, hmem, hcv, hp, ho⟩ := c15_victim_is_min_priority_or_oldest _ v h'
  obtain ⟨cv0, hcv0, _, hcr, hup⟩ := hb.ctx_before hcv
  refine ⟨cyc, cv, cv0, by rw [← hb.edges]; exact hcyc, hmem, hcv, hcv0, hup, fun hs => hp (by rw [hb.strategy]; exact hs), ?_⟩
  intro hs o ho' c hc
  obtain ⟨c', hc', _, hcr', _⟩ := hb.ctx_after hc
  have := ho (by rw [hb.strategy]; exact hs) o ho' c' hc'
  omega

private def bOps : List HOp :=
  [.start 1 1, .start 2 2, .start 7 0, .start 8 9, .acq 1 1, .acq 2 2, .acq 7 3, .acq 1 3, .acq 1 2, .acq 2 1, .acq 8 1]

private def b0 : HSt := ⟨((({} : Sys).register 1 false).register 2 false).register 3 false, []⟩

/-- the maintenance theorem is not vacuous, and the current priorities are what matters: op1 (started with priority 1)
    and op2 (priority 2) wait for each other; op1 asked the outsider op7 first, so the boost of the lead-in op8
    (priority 9) travels op8 → op1 → op7 and lifts op1 to 9 while op2 stays at 2 — the run terminates op2, the member
    whose priority was the HIGHER one when the operations were started -/
example : detectCycle (hrun b0 bOps).sys.edges = some [1, 2] ∧
    (maintenance (hrun b0 bOps).sys).2.2 = [(2, Reason.deadlock)] ∧
    ((checkAndBoost (hrun b0 bOps).sys).1.ctx? 1).map (·.prio) = some 9 ∧
    ((checkAndBoost (hrun b0 bOps).sys).1.ctx? 2).map (·.prio) = some 2 ∧
    (wdExecute (hrun b0 bOps).sys).2 = [(1, Reason.deadlock)] := by decide

/-- **After handling.**  If the victim's listed contexts track what it owns (the invariant `Kinv`, which every
    controller call preserves), then after `Watchdog.execute` the victim owns nothing, is not active, is in no
    waiting list, no recorded edge mentions it — and therefore no cycle reported afterwards contains it: the
    cycle it was killed for is gone. -/
theorem c15_after_handling_victim_owns_nothing_and_cycle_gone (s : Sys) (v : Nat) (hk : Kinv s v)
    (h : (v, Reason.deadlock) ∈ (wdExecute s).2) :
    let s' := (wdExecute s).1
    (∀ r, ¬ Owns s' v r) ∧ (∀ c ∈ s'.active, c.id ≠ v) ∧ (∀ r l, s'.locks r = some l → ∀ e ∈ l.waiting, e.1 ≠ v) ∧
    (∀ w b r, HasEdge s'.edges w b r → w ≠ v ∧ b ≠ v) ∧
    (∀ c', detectCycle s'.edges = some c' → v ∉ c') := by
  obtain ⟨cyc, _, hsel⟩ := wdCheck_deadlock (s := s) h
  obtain ⟨cv, _, hcm, hcid, _⟩ := selectVictim_spec hsel
  have hmem : v ∈ (wdCheck s).map (·.1) := List.mem_map.mpr ⟨_, h, rfl⟩
  have hc : Clean (abortMany s ((wdCheck s).map (·.1))) v := abortMany_clean_of_mem _ hk ⟨cv, hcm, hcid⟩ hmem
  refine ⟨hc.owns, hc.active, hc.waiting, hc.edges, ?_⟩
  intro c' hc' hv
  obtain ⟨_, _, hall⟩ := c15_reported_cycle_is_recorded_cycle _ c' hc'
  obtain ⟨b, r, _, he⟩ := hall v hv
  exact (hc.edges v b r he).1 rfl

/-- **The hypothesis of the handling theorem holds at every point of every history.**  From a state in which every
    listed context tracks what its operation owns (e.g. the empty system), after any sequence of start (of ids
    that are not active) / acquire / release / complete / abort / kill, with or without trigger events, every
    listed context still tracks what its operation owns and an unlisted operation owns nothing.  (This is also
    what makes the premise of `c14_no_leak_on_any_exit` true for a fresh id in every reachable state.) -/
theorem c15_tracking_invariant_along_histories (h : HSt) (ops : List HOp) (hk : ∀ op, Kinv h.sys op)
    (hf : FreshStarts h ops) (op : Nat) :
    Kinv (hrun h ops).sys op ∧
    ((∀ c ∈ (hrun h ops).sys.active, c.id ≠ op) → ∀ r, ¬ Owns (hrun h ops).sys op r) :=
  ⟨kinv_run ops hk hf op, (kinv_run ops hk hf op).unlisted⟩

/-- **The recorded graph joins live operations, at every point of every history.**  From a state in which every
    listed context tracks what its operation owns and every recorded edge joins listed operations (e.g. the empty
    system), after any sequence of start (of ids that are not active) / acquire / release / complete / abort / kill —
    with or without trigger events of the open finding — both endpoints of every recorded edge are operations
    listed in `active_operations`.  (The waiter is the caller of `acquire_resource`; the holder is the lock's
    owner, and an owner is listed by the tracking invariant; ending an operation removes every edge that mentions
    it.) -/
theorem c15_recorded_edges_join_live_operations (h : HSt) (ops : List HOp) (hk : ∀ op, Kinv h.sys op)
    (hl : EdgesLive h.sys) (hf : FreshStarts h ops) (w b r : Nat)
    (he : HasEdge (hrun h ops).sys.edges w b r) :
    (∃ c ∈ (hrun h ops).sys.active, c.id = w) ∧ (∃ c ∈ (hrun h ops).sys.active, c.id = b) :=
  edgesLive_run ops hk hl hf w b r he

/-- **The reported cycle consists of live operations** — in full, not only outside the trigger of the open finding:
    at every point of every history every member of a cycle reported by `check_deadlock()` is listed in
    `active_operations`. -/
theorem c15_reported_cycle_members_are_live (h : HSt) (ops : List HOp) (hk : ∀ op, Kinv h.sys op)
    (hl : EdgesLive h.sys) (hf : FreshStarts h ops) (cyc : List Nat)
    (hc : detectCycle (hrun h ops).sys.edges = some cyc) :
    ∀ a ∈ cyc, ∃ c ∈ (hrun h ops).sys.active, c.id = a := by
  intro a ha
  obtain ⟨_, _, hall⟩ := c15_reported_cycle_is_recorded_cycle _ cyc hc
  obtain ⟨b, r, _, he⟩ := hall a ha
  exact (edgesLive_run ops hk hl hf a b r he).1

/-- **A reported deadlock is handled, at every point of every history.**  Whenever `check_deadlock()` reports a
    cycle, `Watchdog.execute` terminates a member of it — the one `_select_deadlock_victim` picks (for every
    strategy: a victim exists because the members are live); it is named in the returned events (with the reason
    DEADLOCK, or with the reason it was already named for in the same pass: TIMEOUT / STARVATION / NO_PROGRESS).
    Afterwards that operation owns nothing, is not active, is in no waiting list, no recorded edge mentions it, and
    no cycle reported afterwards contains it: the reported cycle is gone.  The pass is itself a history of endings
    (`hrun_finishes_sys`), so the two invariants hold again afterwards and the history may go on. -/
theorem c15_reported_deadlock_is_handled (h : HSt) (ops : List HOp) (hk : ∀ op, Kinv h.sys op)
    (hl : EdgesLive h.sys) (hf : FreshStarts h ops) (cyc : List Nat)
    (hc : detectCycle (hrun h ops).sys.edges = some cyc) :
    ∃ v ∈ cyc, selectVictim (hrun h ops).sys cyc = some v ∧ v ∈ (wdExecute (hrun h ops).sys).2.map (·.1) ∧
      (∀ r, ¬ Owns (wdExecute (hrun h ops).sys).1 v r) ∧ (∀ c ∈ (wdExecute (hrun h ops).sys).1.active, c.id ≠ v) ∧
      (∀ r l, (wdExecute (hrun h ops).sys).1.locks r = some l → ∀ e ∈ l.waiting, e.1 ≠ v) ∧
      (∀ w b r, HasEdge (wdExecute (hrun h ops).sys).1.edges w b r → w ≠ v ∧ b ≠ v) ∧
      (∀ c', detectCycle (wdExecute (hrun h ops).sys).1.edges = some c' → v ∉ c') ∧
      (∀ op, Kinv (wdExecute (hrun h ops).sys).1 op) ∧ EdgesLive (wdExecute (hrun h ops).sys).1 := by
  have hk1 := kinv_run ops hk hf
  have hl1 := edgesLive_run ops hk hl hf
  generalize hrun h ops = h1 at hc hk1 hl1
  obtain ⟨_, hne, hall⟩ := c15_reported_cycle_is_recorded_cycle _ cyc hc
  obtain ⟨a, ha⟩ : ∃ a, a ∈ cyc := by
    cases cyc with
    | nil => exact absurd rfl hne
    | cons a _ => exact ⟨a, by simp⟩
  obtain ⟨b, r, _, he⟩ := hall a ha
  obtain ⟨v, hsel, hvc, hvm⟩ := wdCheck_names_member hc ha (hl1 a b r he).1
  obtain ⟨cv, _, hcm, hcid, _⟩ := selectVictim_spec hsel
  have hclean : Clean (abortMany h1.sys ((wdCheck h1.sys).map (·.1))) v :=
    abortMany_clean_of_mem _ (hk1 v) ⟨cv, hcm, hcid⟩ hvm
  have hpass : (wdExecute h1.sys).1 = (hrun h1 (((wdCheck h1.sys).map (·.1)).map HOp.finish)).sys :=
    (hrun_finishes_sys _ h1).symm
  refine ⟨v, hvc, hsel, hvm, hclean.owns, hclean.active, hclean.waiting, hclean.edges, ?_, ?_, ?_⟩
  · intro c' hc' hv
    obtain ⟨_, _, hall'⟩ := c15_reported_cycle_is_recorded_cycle _ c' hc'
    obtain ⟨b', r', _, he'⟩ := hall' v hv
    exact (hclean.edges v b' r' he').1 rfl
  · rw [hpass]; exact kinv_run _ hk1 (freshStarts_finishes _ _)
  · rw [hpass]; exact edgesLive_run _ hk1 hl1 (freshStarts_finishes _ _)

/-- **A maintenance run is a step histories may contain.**  `run_maintenance` (`check_and_boost`, then
    `Watchdog.execute`) keeps the two invariants the history theorems start from — every listed context tracks what its
    operation owns, both endpoints of every recorded edge are listed — and so does `check_and_boost` alone: after either,
    `c15_tracking_invariant_along_histories`, `c15_recorded_edges_join_live_operations` and
    `c15_reported_deadlock_is_handled` apply again, so histories that interleave controller calls with maintenance runs
    and priority boosts are covered (audit F4: "maintenance (boosts) is not a history step"). -/
theorem c15_invariants_survive_a_maintenance_run (s : Sys) (hk : ∀ op, Kinv s op) (hl : EdgesLive s) :
    ((∀ op, Kinv (checkAndBoost s).1 op) ∧ EdgesLive (checkAndBoost s).1) ∧
    ((∀ op, Kinv (maintenance s).1 op) ∧ EdgesLive (maintenance s).1) := by
  have hso := sameOwn_checkAndBoost s
  have hkb : ∀ op, Kinv (checkAndBoost s).1 op := fun op => kinv_sameOwn hso (hk op)
  have hlb : EdgesLive (checkAndBoost s).1 := by
    intro w b r he
    rw [hso.edges] at he
    exact ⟨listed_of_ids hso.ids (hl w b r he).1, listed_of_ids hso.ids (hl w b r he).2⟩
  refine ⟨⟨hkb, hlb⟩, ?_⟩
  have hpass : (maintenance s).1 =
      (hrun ⟨(checkAndBoost s).1, []⟩ (((wdCheck (checkAndBoost s).1).map (·.1)).map HOp.finish)).sys :=
    (hrun_finishes_sys _ ⟨(checkAndBoost s).1, []⟩).symm
  rw [hpass]
  exact ⟨kinv_run _ hkb (freshStarts_finishes _ _), edgesLive_run _ hkb hlb (freshStarts_finishes _ _)⟩

/-! ### The open finding: the recorded graph is not the reference graph -/

-- FULL (false on the current tree):
--   ∀ h ops, Good h → (∀ w b r, HasEdge (hrun h ops).sys.edges w b r ↔ (w, b, r) ∈ refEdges (hrun h ops))
-- and hence `check_deadlock()` reports a cycle exactly when the reference graph has one.

/-- **Exactness outside the trigger** (`_partial`: the full statement above is false).  Start from any state in
    which the recorded graph equals the reference graph and every listed context tracks what its operation owns
    (`Good`; in particular the empty system, `c15_good_init`).  Along every history of start / acquire / release /
    complete / abort / kill in which no trigger event of the open finding occurs (`trig`: a successful acquire by X
    while X has another pending wait, or somebody waits on a lock X owns, or somebody else waits on the acquired
    lock; a successful release by X while X has a pending wait or somebody waits on a lock X still owns) and no
    id is started while active, the recorded graph equals the reference wait-for graph at the end — and hence at
    every point, every prefix of a trigger-free history being trigger-free. -/
theorem c15_exact_partial (h : HSt) (ops : List HOp) (hg : Good h) (ht : TrigFree h ops) (w b r : Nat) :
    HasEdge (hrun h ops).sys.edges w b r ↔ (w, b, r) ∈ refEdges (hrun h ops) := by
  rw [mem_refEdges]
  exact (good_run ops hg ht).exact w b r

/-- the starting point: a system in which nothing is owned, nothing is recorded and nobody waits -/
theorem c15_good_init (s : Sys) (hfree : ∀ o r, ¬ Owns s o r) (hedges : s.edges = []) :
    Good { sys := s, pend := [] } := by
  refine ⟨fun op => ⟨fun _ _ _ x hx => absurd hx (hfree op x), fun _ x => hfree op x⟩, ?_, by simp [hedges]⟩
  intro w b r
  simp only [Ref, HasEdge, hedges]
  simp

/-- outside the trigger a reported cycle is a real one: every member is waiting, by the reference relation, for a
    resource owned by the member it has its recorded edge to (no phantom deadlock).  The converse — a reference
    cycle is reported — is `c15_no_missed_deadlock_partial` (through `c15_detects_recorded_cycle`). -/
theorem c15_reported_members_really_wait_partial (h : HSt) (ops : List HOp) (hg : Good h) (ht : TrigFree h ops)
    (c : List Nat) (hc : detectCycle (hrun h ops).sys.edges = some c) :
    IsCycle (hrun h ops).sys.edges c ∧
    ∀ a b, Edge (hrun h ops).sys.edges a b → ∃ r, (a, b, r) ∈ refEdges (hrun h ops) := by
  refine ⟨(c15_reported_cycle_is_recorded_cycle _ c hc).1, ?_⟩
  intro a b he
  obtain ⟨r, hr⟩ := edge_hasEdge he
  exact ⟨r, (c15_exact_partial h ops hg ht a b r).mp hr⟩

/-- a cycle of the reference wait-for graph: a non-empty closed walk whose consecutive members `a`, `b` satisfy
    "`a` waits for a resource owned by `b`" -/
def RefCycle (h : HSt) (c : List Nat) : Prop :=
  ∃ b, c.head? = some b ∧ ChainR (fun x y => ∃ r, (x, y, r) ∈ refEdges h) (c ++ [b])

/-- **No missed deadlock outside the trigger**: along a trigger-free history, whenever the operations that are
    blocked, together with the owners of what they wait for, form a wait-for cycle, `check_deadlock()` reports a
    cycle (and by `c15_reported_members_really_wait_partial` the reported one is real).  Together: outside the
    trigger the deadlock check reports a cycle exactly when the reference graph has one. -/
theorem c15_no_missed_deadlock_partial (h : HSt) (ops : List HOp) (hg : Good h) (ht : TrigFree h ops)
    (c : List Nat) (hc : RefCycle (hrun h ops) c) :
    ∃ c', detectCycle (hrun h ops).sys.edges = some c' := by
  have hgood := good_run ops hg ht
  obtain ⟨b, hb, hch⟩ := hc
  have hcyc : IsCycle (hrun h ops).sys.edges c :=
    ⟨b, hb, chain_of_chainR (fun x y ⟨r, hr⟩ =>
      hasEdge_edge hgood.keys ((c15_exact_partial h ops hg ht x y r).mpr hr)) _ hch⟩
  obtain ⟨c', hc', _⟩ := c15_detects_recorded_cycle _ c hcyc
  exact ⟨c', hc'⟩

/-- … and conversely a report outside the trigger implies a reference cycle -/
theorem c15_no_phantom_deadlock_partial (h : HSt) (ops : List HOp) (hg : Good h) (ht : TrigFree h ops)
    (c : List Nat) (hc : detectCycle (hrun h ops).sys.edges = some c) : RefCycle (hrun h ops) c := by
  obtain ⟨b, hb, hch⟩ := (c15_reported_cycle_is_recorded_cycle _ c hc).1
  have hwait := (c15_reported_members_really_wait_partial h ops hg ht c hc).2
  refine ⟨b, hb, ?_⟩
  have key : ∀ l : List Nat, Chain (hrun h ops).sys.edges l →
      ChainR (fun x y => ∃ r, (x, y, r) ∈ refEdges (hrun h ops)) l := by
    intro l
    induction l with
    | nil => intro _; trivial
    | cons a t ih =>
      cases t with
      | nil => intro _; trivial
      | cons b' t' => intro hl; exact ⟨hwait a b' hl.1, ih hl.2⟩
  exact key _ hch

private def w0 : HSt := { sys := ((({} : Sys).register 1 false).register 2 false).register 3 false }
private def wOps : List HOp := [.start 1 1, .start 2 2, .acq 1 1, .acq 2 2, .acq 2 1, .acq 1 3, .acq 1 2]

/-- **Missed deadlock.**  op1 holds r1, op2 holds r2, op2 blocked on r1, op1 acquires r3 (a trigger event: somebody
    waits on a lock op1 owns), op1 blocked on r2.  The reference graph has the cycle 2 → 1 → 2, the recorded graph
    has lost the edge 2 → 1, and `detect_cycle` reports nothing. -/
theorem c15_missed_deadlock_witness :
    trig (hrun w0 (wOps.take 5)) (.acq 1 3) = true ∧
    refEdges (hrun w0 wOps) = [(2, 1, 1), (1, 2, 2)] ∧
    (hrun w0 wOps).sys.edges = [(1, [(2, 2)])] ∧
    detectCycle (hrun w0 wOps).sys.edges = none := by decide

private def p0 : HSt := { sys := (({} : Sys).register 1 true).register 2 false }
private def pOps : List HOp := [.start 1 2, .start 2 1, .start 3 5, .acq 1 1, .acq 2 2, .acq 2 1, .acq 3 1, .acq 1 2]

/-- **Phantom deadlock.**  op2 is blocked on r1 held by op1; op3 preempts r1 (a trigger event: somebody else waits
    on the acquired lock); op1 is blocked on r2 held by op2.  The reference graph is 2 → 3, 1 → 2 (no cycle: op3
    waits for nobody), the recorded graph still says 2 → 1 and a cycle is reported. -/
theorem c15_phantom_deadlock_witness :
    trig (hrun p0 (pOps.take 6)) (.acq 3 1) = true ∧
    refEdges (hrun p0 pOps) = [(2, 3, 1), (1, 2, 2)] ∧
    detectCycle (hrun p0 pOps).sys.edges = some [2, 1] := by decide

/-! ### Phase cycling: `advance`, context flags assigned from outside, time passing

`controller.advance(ctx)` takes an operation from phase to phase and round the cycle (M → G0) when the checkpoint
of its phase passes; the flags the default checkpoints read (`resources_acquired`, `execution_complete`,
`validation_passed`) and the watchdog exemption are public attributes of the context.  `lstep` (Model/CoordLife.lean)
is what the protocol driver runs for `advance o` / `flag o f b` / `exempt o b` / `adv d`. -/

/-- **The model's `advance` is the code's, on its complete domain (table regenerated from the source on every run).**
    `Gen.advanceProbe` (harness/vf/extract/coord_probe.py) is the real `CellCycleController.advance` EVALUATED with the
    default checkpoints on every (phase, resources_acquired, execution_complete, validation_passed) — 40 rows, all of
    the domain (`advanceDomain`), each on a context whose every other attribute holds a sentinel.  On every row the
    model's `advance` (`baseCond`, `Phase.next`) gives the same verdict and the same next phase, writes the phase time
    exactly when the code does, changes nothing else — and neither does the code: the column "every other attribute
    of the context or part of the controller that differs afterwards" is empty on every row (in particular `advance`
    does not touch the priority, the creation time or the flags, also when the phase wraps M → G0).  A proof by
    `decide` over the complete finite table; custom checkpoint conditions are environment (`CpOut.no / .raise`). -/
theorem c15_advance_table_agrees_with_source :
    Gen.advanceProbeOk = true ∧
    Gen.advanceProbe.map (fun r => (r.1, r.2.1, r.2.2.1, r.2.2.2.1)) = advanceDomain ∧
    ∀ r ∈ Gen.advanceProbe,
      advanceRow r.1 r.2.1 r.2.2.1 r.2.2.2.1 = (r.2.2.2.2.1, r.2.2.2.2.2.1, r.2.2.2.2.2.2.1, false) ∧
      r.2.2.2.2.2.2.2 = [] := by
  decide

set_option synthInstance.maxSize 1024 in
/-- **The victim rule is the code's, on a complete grid (table regenerated from the source on every run).**
    `Gen.victimProbe` (harness/vf/extract/victim_probe.py) is the real `Watchdog.check` EVALUATED on a controller whose
    three active operations form the recorded ring op1 → op2 → op3 → op1, for every strategy ("priority", "oldest",
    anything else) x priorities in {0, 1, 2}³ x creation times in {0, 25 h, 71 h}³ (microseconds, the clock at 72 h: ages of 3 d, 1 d 23 h, 1 h — the time-of-day part of an age is ordered differently from the age) — 2187 rows, all of `victimDomain`:
    every weak ordering of three keys with all its ties, the two keys crossed.  On every row the model's `wdCheck`
    (`detectCycle` on the same ring, `selectVictim`, `firstMinBy` = Python's `min`: the first minimal member in cycle
    order) names exactly the operation the code names in its DEADLOCK event.  A proof by `decide` over the complete
    finite table; `c15_victim_is_min_priority_or_oldest` is the ∀-statement about the model. -/
theorem c15_victim_table_agrees_with_source :
    Gen.victimProbeOk = true ∧
    Gen.victimProbe.map (fun r => (r.1, r.2.1, r.2.2.1, r.2.2.2.1, r.2.2.2.2.1, r.2.2.2.2.2.1, r.2.2.2.2.2.2.1)) = victimDomain ∧
    ∀ r ∈ Gen.victimProbe,
      victimRow r.1 r.2.1 r.2.2.1 r.2.2.2.1 r.2.2.2.2.1 r.2.2.2.2.2.1 r.2.2.2.2.2.2.1 = [r.2.2.2.2.2.2.2] := by
  decide +kernel

/-- **Phase cycling changes nothing the detector or the victim rule reads.**  After any sequence of `advance`
    calls (whatever the checkpoints answer, also round the cycle M → G0, any number of times), flag / exemption
    assignments and clock ticks, for any operations: the locks and the recorded graph are the same, `detect_cycle`
    answers the same, and `_select_deadlock_victim` picks the same operation out of any list of agents — for every
    strategy; every listed operation still has the id, the priority and the creation time it had. -/
theorem c15_phase_cycling_leaves_detector_and_victim_rule_alone (s : Sys) (ops : List LOp) (agents : List Nat) :
    (lrun s ops).locks = s.locks ∧ (lrun s ops).edges = s.edges ∧
    detectCycle (lrun s ops).edges = detectCycle s.edges ∧
    selectVictim (lrun s ops) agents = selectVictim s agents ∧
    ∀ o, ((lrun s ops).ctx? o).map victimKey = (s.ctx? o).map victimKey := by
  have h := lifeSame_lrun ops s
  exact ⟨h.locks, h.edges, by rw [h.edges], selectVictim_lifeSame h agents, h.key⟩

/-- **"Oldest" means started first, "lowest priority" means the priority given at the start.**  Operation `o` is
    started with priority `p` when the clock shows `t`.  Whatever follows — controller calls by anybody (start of
    other ids, acquire, release, complete / abort / kill), `advance` round the cycle any number of times, flag and
    exemption assignments, time passing — as long as `o` is not started again: whenever `o` is still listed, its
    context carries creation time `t` and priority `p`, i.e. exactly the keys `c15_victim_is_min_priority_or_oldest`
    compares.  (Priority inheritance — `check_and_boost`, part of `run_maintenance` — does raise priorities; it is
    not one of these calls, and it leaves the creation time alone.) -/
theorem c15_start_time_and_priority_are_set_by_start_only (h : HSt) (o : Nat) (p : Int) (ops : List XOp)
    (hno : ∀ p', XOp.ctl (.start o p') ∉ ops) (c : Ctx)
    (hc : (xrun (xstep h (.ctl (.start o p))) ops).sys.ctx? o = some c) :
    c.id = o ∧ c.prio = p ∧ c.created = h.sys.now := by
  have h1 : ((xstep h (.ctl (.start o p))).sys.ctx? o).map victimKey = some (o, p, h.sys.now) := start_key h.sys o p
  rcases xrun_keys ops (xstep h (.ctl (.start o p))) o hno with h2 | h2
  · rw [h2] at hc; cases hc
  · rw [hc, h1] at h2
    simp only [Option.map_some, Option.some.injEq, victimKey, Prod.mk.injEq] at h2
    exact h2

/-- **The history theorems hold with phase cycling interleaved.**  Along every history that mixes controller calls
    (start of ids that are not active / acquire / release / complete / abort / kill) with `advance`, flag and
    exemption assignments and clock ticks: the tracking invariant and "recorded edges join listed operations" hold
    at the end (hence at every point), and — when no trigger event of the open finding occurs among the controller
    calls (a life-cycle call is never one) — the recorded graph equals the reference wait-for graph. -/
theorem c15_histories_with_phase_cycling (h : HSt) (ops : List XOp) :
    ((∀ op, Kinv h.sys op) → EdgesLive h.sys → XFreshStarts h ops →
      (∀ op, Kinv (xrun h ops).sys op) ∧ EdgesLive (xrun h ops).sys) ∧
    (Good h → XTrigFree h ops →
      ∀ w b r, HasEdge (xrun h ops).sys.edges w b r ↔ (w, b, r) ∈ refEdges (xrun h ops)) := by
  refine ⟨fun hk hl hf => kinv_edgesLive_xrun ops hk hl hf, fun hg ht w b r => ?_⟩
  rw [mem_refEdges]
  exact (good_xrun ops hg ht).exact w b r

/-! ### Non-vacuity -/

private def r0 : HSt := { sys := { (({} : Sys).register 1 false).register 2 false with strategy := .oldest } }
private def rOps : List HOp := [.start 1 2, .start 2 1, .acq 1 1, .acq 2 2, .acq 1 2, .acq 2 1]

/-- a trigger-free two-party deadlock: detected, reference and recorded graphs coincide, the victim rule and the
    handling theorem apply (their hypotheses are satisfiable) -/
example : TrigFree r0 rOps ∧ RefCycle (hrun r0 rOps) [1, 2] ∧ detectCycle (hrun r0 rOps).sys.edges = some [1, 2] ∧
    refEdges (hrun r0 rOps) = [(1, 2, 2), (2, 1, 1)] ∧
    (wdExecute (hrun r0 rOps).sys).2 = [(1, Reason.deadlock)] ∧
    detectCycle (wdExecute (hrun r0 rOps).sys).1.edges = none := by
  refine ⟨?_, ⟨1, rfl, ⟨⟨2, by decide⟩, ⟨1, by decide⟩, trivial⟩⟩, by decide, by decide, by decide, by decide⟩
  simp only [TrigFree, rOps]
  decide

/-- phase cycling before a deadlock: op1 is started first, goes once round the whole cycle (G0 → … → M → G0) two
    ticks later, then the ring forms; the history is trigger-free, the cycle is reported, the "oldest" victim is
    op1 (started at 0, op2 at 2), and op1 is back in G0 with its creation time 0 -/
private def cOps : List XOp :=
  [.ctl (.start 1 2), .life (.tick 2), .ctl (.start 2 1), .life (.flag 1 .resAcq true), .life (.flag 1 .execDone true),
   .life (.flag 1 .valPassed true), .life (.advance 1 .base), .life (.advance 1 .base), .life (.advance 1 .base),
   .life (.advance 1 .base), .life (.tick 1), .life (.advance 1 .base), .ctl (.acq 1 1), .ctl (.acq 2 2),
   .ctl (.acq 1 2), .ctl (.acq 2 1)]

example : XTrigFree r0 cOps ∧ XFreshStarts r0 cOps ∧ detectCycle (xrun r0 cOps).sys.edges = some [1, 2] ∧
    (wdExecute (xrun r0 cOps).sys).2 = [(1, Reason.deadlock)] ∧
    ((xrun r0 cOps).sys.ctx? 1).map (fun c => (c.phase, c.created, c.phaseAt)) = some (.g0, 0, 3) ∧
    ((xrun r0 cOps).sys.ctx? 2).map (·.created) = some 2 := by
  refine ⟨?_, ?_, by decide, by decide, by decide, by decide⟩
  · simp only [XTrigFree, cOps]; decide
  · simp only [XFreshStarts, cOps]; decide

/-- the hypotheses of `c15_invariants_survive_a_maintenance_run` are satisfiable on a state with a deadlock, a lead-in
    and a boost to make (`bOps` above): reached from the system with three free resources — which satisfies both
    invariants — by a history with fresh starts, hence (`kinv_run`, `edgesLive_run`) satisfying them too -/
example : (∀ op, Kinv (hrun b0 bOps).sys op) ∧ EdgesLive (hrun b0 bOps).sys ∧
    (maintenance (hrun b0 bOps).sys).2.1.map (fun e => (e.1, e.2.2)) = [(7, 1), (1, 2), (7, 2), (1, 9), (7, 9)] := by
  have h0 : ∀ o r, ¬ Owns b0.sys o r := by
    rintro o r ⟨l, hl, ho⟩
    simp only [b0, Sys.register] at hl
    split at hl
    · cases hl; cases ho
    · split at hl
      · cases hl; cases ho
      · split at hl
        · cases hl; cases ho
        · cases hl
  have hk0 : ∀ op, Kinv b0.sys op := fun o => ⟨fun _ _ _ x hx => absurd hx (h0 o x), fun _ x => h0 o x⟩
  have hl0 : EdgesLive b0.sys := by rintro w b r ⟨e, he, _⟩; cases he
  have hf : FreshStarts b0 bOps := by simp only [FreshStarts, bOps]; decide
  exact ⟨kinv_run bOps hk0 hf, edgesLive_run bOps hk0 hl0 hf, by decide⟩

/-- the hypotheses of `c15_exact_partial` are satisfiable: `r0` is `Good`, `rOps` is trigger-free (above) -/
example : Good r0 := by
  refine c15_good_init _ ?_ rfl
  rintro o r ⟨l, hl, ho⟩
  simp only [Sys.register] at hl
  split at hl
  · cases hl; cases ho
  · split at hl
    · cases hl; cases ho
    · cases hl

/-- the hypotheses of `c15_recorded_edges_join_live_operations`, `c15_reported_cycle_members_are_live` and
    `c15_reported_deadlock_is_handled` are satisfiable: in `r0` (and `w0`, `p0`) nothing is owned and nothing is
    recorded; `FreshStarts` below; the deadlock of `rOps` is reported (example above) -/
example : (∀ op, Kinv r0.sys op) ∧ EdgesLive r0.sys ∧ (∀ op, Kinv w0.sys op) ∧ EdgesLive w0.sys := by
  have hr : ∀ o r, ¬ Owns r0.sys o r := by
    rintro o r ⟨l, hl, ho⟩
    simp only [r0, Sys.register] at hl
    split at hl
    · cases hl; cases ho
    · split at hl
      · cases hl; cases ho
      · cases hl
  have hw : ∀ o r, ¬ Owns w0.sys o r := by
    rintro o r ⟨l, hl, ho⟩
    simp only [w0, Sys.register] at hl
    split at hl
    · cases hl; cases ho
    · split at hl
      · cases hl; cases ho
      · split at hl
        · cases hl; cases ho
        · cases hl
  refine ⟨fun op => ⟨fun _ _ _ x hx => absurd hx (hr op x), fun _ x => hr op x⟩, ?_,
    fun op => ⟨fun _ _ _ x hx => absurd hx (hw op x), fun _ x => hw op x⟩, ?_⟩
  · rintro w b r ⟨e, he, _⟩; cases he
  · rintro w b r ⟨e, he, _⟩; cases he

/-- the hypotheses of `c15_tracking_invariant_along_histories` are satisfiable, also on the witness history of
    the open finding (which is not trigger-free) -/
example : FreshStarts r0 rOps ∧ FreshStarts w0 wOps := by
  constructor <;> simp only [FreshStarts, rOps, wOps] <;> decide

end Operon.Coord
