import Operon.Lemmas.C05
import Operon.Lemmas.C05Conserve
import Operon.Lemmas.C05Calls
import Operon.Gen.AtpLocks
/-!
# C05 — energy store operations are atomic under every thread interleaving

Models: `Operon/Model/Lock.lean` (threads, non-reentrant locks, one source line per step), `Operon/Model/AtpConc.lean`
(the store's critical regions; bodies = the sequential functions of `Operon/Model/Atp.lean`, tied to the code by C04's
correspondence).  The region structure of every operation is regenerated from the source (`Operon/Gen/AtpLocks.lean`).

Quantifiers: any number of threads, any number of stores, any programs of consume / regenerate / convert /
transfer calls, ANY cut of each operation's region into source lines (`cut`, only required to compose to the
operation's body), any interleaving of those lines (`Star Step`), and any `on_state_change` observers (`obs j` for store
`j`: called inside the region, may raise — the call then raises after its mutations, and every theorem still holds).
-/
namespace Operon.AtpConc
open Operon.Lock Operon.Atp

/-- region structure expected of an operation that runs one region per listed object -/
def skOf (ws : List Nat) : List Sk := ws.flatMap fun w => [.acq w, .touch w, .rel w]

/-- **Source shape** (extracted, E3): each of the four operations is exactly one `with self._lock` region — two for
    `transfer_to`, the second on the peer — every access to a mutable shared field lies inside the region of its
    own object, no region is nested in another (the two store locks are never held together), and the lock is a
    `threading.Lock`/`RLock`.  The only foreign code invoked while a store lock is held is the `on_state_change`
    observer (called by `_update_state`); the lock discipline is checked for the class's own code, what the observer does
    is an ASSUMPTION of `c05_deadlock_free`: it returns or raises and takes no lock of ANY store (`Obs`). -/
theorem c05_shapes_wellLocked :
    Gen.AtpLocks.consume = skOf [0] ∧ Gen.AtpLocks.regenerate = skOf [0] ∧ Gen.AtpLocks.convert = skOf [0] ∧
    Gen.AtpLocks.transferTo = skOf [0, 1] ∧
    (∀ sk ∈ [Gen.AtpLocks.consume, Gen.AtpLocks.regenerate, Gen.AtpLocks.convert, Gen.AtpLocks.transferTo],
      Sk.flat none sk = true) ∧
    (Gen.AtpLocks.lockKind = "Lock" ∨ Gen.AtpLocks.lockKind = "RLock") ∧
    Gen.AtpLocks.callbacksUnderLock = ["on_state_change"] := by decide

/-- **Serializability at the level of atomic actions.**  Whatever the interleaving of source lines, every quiescent
    configuration reached (no lock held — in particular the final one) is reached by executing the critical regions
    one after the other, each thread's regions in its own order: same stores, same per-thread return values, same
    remaining work. -/
theorem c05_serializable (cls : Classifier) (obs : Nat → Obs) (cut : Cut) (hc : cut.Faithful cls obs) (ac0 : ACfg)
    (c : Cfg Loc Store) (hs : Star Step (ac0.toRCfg cut).toCfg c) (hq : c.quiescent) :
    ∃ ac, c = (ac.toRCfg cut).toCfg ∧ Star (ActStep cls obs) ac0 ac := by
  obtain ⟨rc, rfl, hr⟩ := serializable_regions (ac0.toRCfg cut) c hs hq
  obtain ⟨ac, rfl, ha⟩ := rstar_actstar cls obs cut hc ac0 rc hr
  exact ⟨ac, rfl, ha⟩

/-- **The same, with the order made explicit.**  There is a trace `tr` — a list of (thread, action) pairs — such that
    (i) for every thread, the actions it ran, in order, followed by those it has not yet run are exactly its program:
    the trace is an interleaving of the threads' programs in which no action is lost, duplicated or reordered;
    (ii) the stores and every thread's return values are those of the sequential reference `runTrace`, which applies
    the C04 region bodies one after the other in trace order. -/
theorem c05_final_state_is_sequential_run (cls : Classifier) (obs : Nat → Obs) (cut : Cut) (hc : cut.Faithful cls obs) (ac0 : ACfg)
    (c : Cfg Loc Store) (hs : Star Step (ac0.toRCfg cut).toCfg c) (hq : c.quiescent) :
    ∃ ac tr, c = (ac.toRCfg cut).toCfg ∧
      (∀ t, proj t tr ++ todoAt ac t = todoAt ac0 t) ∧
      ac.st = (runTrace cls obs ⟨ac0.st, locAt ac0⟩ tr).st ∧
      (∀ t, t < ac.threads.length → locAt ac t = (runTrace cls obs ⟨ac0.st, locAt ac0⟩ tr).locs t) := by
  obtain ⟨ac, hceq, hstar⟩ := c05_serializable cls obs cut hc ac0 c hs hq
  obtain ⟨tr, hrun⟩ := actstar_run cls obs ac0 ac hstar
  exact ⟨ac, tr, hceq, (actrun_proj cls obs ac0 ac tr hrun).2, (actrun_runTrace cls obs ac0 ac tr hrun).1,
    (actrun_runTrace cls obs ac0 ac tr hrun).2⟩

/-- **No deadlock**: no reachable configuration with unfinished work is stuck — opposite-direction transfers
    included, since no thread ever waits for a lock while holding one.
    Assumption (visible in `c05_shapes_wellLocked`): the `on_state_change` observer, which `_update_state` calls while
    the region's lock is held, takes no lock of any store — it is modelled as `Obs` (returns or raises).  An observer that
    calls back into a store would wait for a lock while holding one: `A.on_state_change = λ_. B.regenerate(1)` with
    `B.on_state_change = λ_. A.regenerate(1)` deadlocks two threads, an observer calling its own store deadlocks one
    (`threading.Lock` is not reentrant).  That is outside the property's operation list and outside this theorem.
    Model detail: after a failed withdrawal the model still runs an (effect-free) deposit region, i.e. takes the peer's
    lock, which the code does not — conservative for this theorem, invisible in stores and returns. -/
theorem c05_deadlock_free (cut : Cut) (ac0 : ACfg) (c : Cfg Loc Store)
    (hs : Star Step (ac0.toRCfg cut).toCfg c) (hnf : ¬ c.final) : ∃ c', Step c c' :=
  deadlock_free_regions (ac0.toRCfg cut) c hs hnf

/-- **Balances never go negative** (and debt, capacities stay non-negative) in any quiescent configuration reached. -/
theorem c05_nonneg (cls : Classifier) (obs : Nat → Obs) (ac0 ac : ACfg) (hs : Star (ActStep cls obs) ac0 ac)
    (h0 : ∀ j, (ac0.st j).WF) : ∀ j, (ac.st j).WF := by
  refine actstar_induct (P := fun x => ∀ j, (x.st j).WF) h0 ?_ hs
  intro x y hx hstep j
  cases hstep with
  | @run st pre post a as l =>
    by_cases hj : j = a.lock
    · subst hj
      simp only [upd1, if_true]
      exact (body_quiet cls obs a l (st a.lock)).wf (hx a.lock)
    · simp only [upd1, hj, if_false]; exact hx j

/-- **Debt stays within the limit** of its store under every interleaving (no interest is applied by these operations). -/
theorem c05_debt_within_limit (cls : Classifier) (obs : Nat → Obs) (ac0 ac : ACfg) (hs : Star (ActStep cls obs) ac0 ac)
    (h0 : ∀ j, (ac0.st j).WF ∧ (ac0.st j).debt ≤ (ac0.st j).maxDebt) :
    ∀ j, (ac.st j).debt ≤ (ac.st j).maxDebt := by
  have key : ∀ j, (ac.st j).WF ∧ (ac.st j).debt ≤ (ac.st j).maxDebt := by
    refine actstar_induct (P := fun x => ∀ j, (x.st j).WF ∧ (x.st j).debt ≤ (x.st j).maxDebt) h0 ?_ hs
    intro x y hx hstep j
    cases hstep with
    | @run st pre post a as l =>
      by_cases hj : j = a.lock
      · subst hj
        simp only [upd1, if_true]
        have q := body_quiet cls obs a l (st a.lock)
        have hcfg := q.cfg
        unfold Store.SameCfg at hcfg
        refine ⟨q.wf (hx a.lock).1, ?_⟩
        have := q.debt (hx a.lock).1 0 (Int.le_refl 0) (by simpa using (hx a.lock).2)
        rw [hcfg.2.2.2.1]; simpa using this
      · simp only [upd1, hj, if_false]; exact hx j
  exact fun j => (key j).2

/-- **No overspend, no lost update** (per store, accounting form): what store `j` has charged for successful spends
    plus what it can still pay out never exceeds what it could pay out initially plus the energy that the
    regenerate / deposit actions run so far may have added.  Every successful spend is in `consumed` (C04: a success
    charges exactly its cost), so concurrent spends are all accounted — none is lost and none is served twice. -/
theorem c05_no_overspend (cls : Classifier) (obs : Nat → Obs) (ac0 ac : ACfg) (hs : Star (ActStep cls obs) ac0 ac) (j : Nat) :
    pot (ac.st j) + pendingInflow j ac.threads ≤ pot (ac0.st j) + pendingInflow j ac0.threads := by
  refine actstar_induct
    (P := fun x => pot (x.st j) + pendingInflow j x.threads ≤ pot (ac0.st j) + pendingInflow j ac0.threads)
    (Int.le_refl _) ?_ hs
  intro x y hx hstep
  cases hstep with
  | @run st pre post a as l =>
    rw [pendingInflow_split] at hx ⊢
    simp only [List.map_cons, List.sum_cons] at hx
    by_cases hj : a.lock = j
    · have hb := body_pot cls obs a l (st a.lock) j hj
      subst hj
      simp only [upd1, if_true]
      omega
    · have h0 : a.inflow j = 0 := by
        cases a <;> simp only [Act.inflow, Act.lock] at hj ⊢ <;> (try rfl) <;> simp [hj]
      have hne : ¬ j = a.lock := fun h => hj h.symm
      simp only [upd1, hne, if_false]
      omega

/-- Corollary in the property's words: the total charged for successful spends on store `j` is bounded by what was
    available (balances plus unused debt limit) plus all regeneration / deposits addressed to `j`. -/
theorem c05_spends_bounded_by_available (cls : Classifier) (obs : Nat → Obs) (ac0 ac : ACfg) (hs : Star (ActStep cls obs) ac0 ac) (j : Nat)
    (h0 : ∀ j, (ac0.st j).WF) :
    (ac.st j).consumed - (ac0.st j).consumed ≤ (ac0.st j).room + pendingInflow j ac0.threads := by
  have h := c05_no_overspend cls obs ac0 ac hs j
  have hwf := c05_nonneg cls obs ac0 ac hs h0 j
  have hroom : 0 ≤ (ac.st j).room := by
    unfold Store.room Store.total
    have := hwf.atp; have := hwf.gtp; have := hwf.nadh
    omega
  have hpend : 0 ≤ pendingInflow j ac.threads := pendingInflow_nonneg j ac.threads
  unfold pot at h
  omega

/-- **Nothing is created, no transfer duplicates energy — under every interleaving, across all stores.**  Threads run
    programs of API calls (`ACfg.ofCalls`) on stores `0 .. N-1`.  At every point reached, whatever the order in which
    the critical regions ran (the two halves of a `transfer_to` may be arbitrarily far apart, other calls in between):
    what the stores hold (`held` = net worth + what was charged to successful spends, summed over the stores) plus the
    energy in flight between the halves of unfinished transfers plus what the `regenerate` calls still to run may add
    (`energy`) is at most its initial value.  Regeneration is the only source. -/
theorem c05_nothing_is_created (cls : Classifier) (obs : Nat → Obs) (N : Nat) (st : Nat → Store)
    (progs : List (List Call)) (hN : ∀ p ∈ progs, ∀ c ∈ p, ∀ a ∈ c.acts, a.lock < N)
    (ac : ACfg) (hs : Star (ActStep cls obs) (ACfg.ofCalls st progs) ac) :
    energy N ac ≤ energy N (ACfg.ofCalls st progs) :=
  (actstar_conserves cls obs N _ ac (ofCalls_inv N st progs hN) hs).2

/-- Corollary in the property's words: at every point, net worth of all stores plus everything charged to successful
    spends is bounded by the initial net worth (plus what had been charged before) plus the total of all `regenerate`
    amounts of the programs — transfers and conversions only move energy, concurrent spends are never served from
    the same unit twice. -/
theorem c05_holdings_plus_spends_bounded (cls : Classifier) (obs : Nat → Obs) (N : Nat) (st : Nat → Store)
    (progs : List (List Call)) (hN : ∀ p ∈ progs, ∀ c ∈ p, ∀ a ∈ c.acts, a.lock < N)
    (ac : ACfg) (hs : Star (ActStep cls obs) (ACfg.ofCalls st progs) ac) :
    heldSum N ac.st ≤ heldSum N st + regenTotal progs := by
  have h := c05_nothing_is_created cls obs N st progs hN ac hs
  have hc := credit_nonneg ac.threads
  unfold energy at h
  rw [credit_ofCalls] at h
  simp only [ACfg.ofCalls] at h
  omega

/-- **Per-call serializability, partial: programs without `transfer_to`.**  Threads run programs of consume /
    regenerate / convert calls (`ACfg.ofCalls`, no transfer) on shared stores; the regions are cut into source lines in
    any faithful way and the lines interleave arbitrarily (`Star Step`).  Every quiescent configuration reached — the
    final one in particular — is the result of executing the CALLS one after the other in some order `order` (a list
    of (thread, call) pairs run by `runCalls`, each call atomically): (i) for every thread, the calls it has made in
    `order`, in that order, followed by the calls it still has to make are exactly its program — nothing lost,
    duplicated or reordered; (ii) the stores are those of that sequential execution; (iii) so are every thread's
    return values.  (`transfer_to` is two regions and is NOT atomic as a call: witness below.) -/
theorem c05_per_call_serializable_partial (cls : Classifier) (obs : Nat → Obs) (cut : Cut) (hc : cut.Faithful cls obs)
    (st : Nat → Store) (progs : List (List Call)) (hnt : ∀ p ∈ progs, ∀ c ∈ p, c.isTransfer = false)
    (c : Cfg Loc Store) (hs : Star Step ((ACfg.ofCalls st progs).toRCfg cut).toCfg c) (hq : c.quiescent) :
    ∃ (ac : ACfg) (order : List (Nat × Call)), c = (ac.toRCfg cut).toCfg ∧
      (∀ t, ((order.filter (fun e => e.1 == t)).map (·.2)) ++ (todoAt ac t).map Act.toCall = progs.getD t []) ∧
      ac.st = (runCalls cls obs ⟨st, fun _ => {}⟩ order).st ∧
      (∀ t, t < ac.threads.length → locAt ac t = (runCalls cls obs ⟨st, fun _ => {}⟩ order).locs t) := by
  obtain ⟨ac, tr, hceq, hproj, hst, hloc⟩ :=
    c05_final_state_is_sequential_run cls obs cut hc (ACfg.ofCalls st progs) c hs hq
  have hsingle : ∀ e ∈ tr, e.2.single = true := by
    intro e he
    obtain ⟨t, a⟩ := e
    have h1 : a ∈ proj t tr ++ todoAt ac t := List.mem_append_left _ (mem_proj he)
    rw [hproj t, todoAt_ofCalls] at h1
    exact acts_single _ (getD_noTransfer progs hnt t) a h1
  refine ⟨ac, tr.map (fun e => (e.1, e.2.toCall)), hceq, ?_, ?_, ?_⟩
  · intro t
    rw [proj_map_toCall, ← List.map_append, hproj t, todoAt_ofCalls]
    exact flatMap_toCall _ (getD_noTransfer progs hnt t)
  · rw [runCalls_map cls obs tr _ hsingle]
    rw [locAt_ofCalls] at hst
    exact hst
  · intro t ht
    rw [runCalls_map cls obs tr _ hsingle]
    have h := hloc t ht
    rw [locAt_ofCalls] at h
    exact h

/-! ### The safety clauses for interleavings (not only for the atomic semantics)

    The theorems above about `ActStep` speak of regions executed one at a time.  By `c05_serializable` every quiescent
    configuration of the line-level semantics is such a configuration, so they hold there too — for every faithful
    cut, every interleaving of the lines, any number of threads.  (Inside a region — a non-quiescent configuration —
    an unlocked reader such as `get_balance` may see the store between two lines; with an arbitrary cut nothing can
    be said about those intermediate values, and the property's observation points are the returns and the final
    balances.) -/

/-- **Balances never go negative, debt stays within its limit — under every interleaving**, at every quiescent point. -/
theorem c05_nonneg_interleaved (cls : Classifier) (obs : Nat → Obs) (cut : Cut) (hc : cut.Faithful cls obs) (ac0 : ACfg)
    (c : Cfg Loc Store) (hs : Star Step (ac0.toRCfg cut).toCfg c) (hq : c.quiescent)
    (h0 : ∀ j, (ac0.st j).WF ∧ (ac0.st j).debt ≤ (ac0.st j).maxDebt) :
    ∀ j, (c.st j).WF ∧ (c.st j).debt ≤ (c.st j).maxDebt := by
  obtain ⟨ac, rfl, ha⟩ := c05_serializable cls obs cut hc ac0 c hs hq
  intro j
  exact ⟨c05_nonneg cls obs ac0 ac ha (fun j => (h0 j).1) j, c05_debt_within_limit cls obs ac0 ac ha h0 j⟩

/-- **The sum of successful spends never exceeds what was available — under every interleaving** (per store). -/
theorem c05_spends_bounded_interleaved (cls : Classifier) (obs : Nat → Obs) (cut : Cut) (hc : cut.Faithful cls obs)
    (ac0 : ACfg) (c : Cfg Loc Store) (hs : Star Step (ac0.toRCfg cut).toCfg c) (hq : c.quiescent) (j : Nat)
    (h0 : ∀ j, (ac0.st j).WF) :
    (c.st j).consumed - (ac0.st j).consumed ≤ (ac0.st j).room + pendingInflow j ac0.threads := by
  obtain ⟨ac, rfl, ha⟩ := c05_serializable cls obs cut hc ac0 c hs hq
  exact c05_spends_bounded_by_available cls obs ac0 ac ha j h0

/-- **Nothing is created — under every interleaving, across all stores**: at every quiescent point the net worth of
    the stores plus everything charged to successful spends is at most the initial value plus the total of the
    `regenerate` amounts of the programs, transfers (whose halves may be arbitrarily far apart) included. -/
theorem c05_nothing_is_created_interleaved (cls : Classifier) (obs : Nat → Obs) (cut : Cut) (hc : cut.Faithful cls obs)
    (N : Nat) (st : Nat → Store) (progs : List (List Call)) (hN : ∀ p ∈ progs, ∀ c ∈ p, ∀ a ∈ c.acts, a.lock < N)
    (c : Cfg Loc Store) (hs : Star Step ((ACfg.ofCalls st progs).toRCfg cut).toCfg c) (hq : c.quiescent) :
    heldSum N c.st ≤ heldSum N st + regenTotal progs := by
  obtain ⟨ac, rfl, ha⟩ := c05_serializable cls obs cut hc (ACfg.ofCalls st progs) c hs hq
  exact c05_holdings_plus_spends_bounded cls obs N st progs hN ac ha

-- FULL (false on current tree): every execution is equivalent to a sequential order of the CALLS (transfer_to
-- included).  `transfer_to` releases its own lock before it takes the peer's, so other calls can run between
-- its two halves:

private def clsN : Classifier := fun _ _ => .normal
private def stA : Store := Store.fresh 5 0 0 0 0 1
private def stB : Store := { Store.fresh 5 0 0 0 0 1 with atp := 0 }
private def st0 : Nat → Store := fun j => if j = 0 then stA else stB

/-- results (T0's returns, T1's returns, final ATP of A and B) of a list of (thread, action) pairs run atomically -/
private def outcome (tr : List (Nat × Act)) : List Ret × List Ret × Int × Int :=
  let w := runTrace clsN (fun _ => Obs.silent) ⟨st0, fun _ => {}⟩ tr
  ((w.locs 0).rets, (w.locs 1).rets, (w.st 0).atp, (w.st 1).atp)

/-- **Witness**: T0 = `A.transfer_to(B, 5)`, T1 = `A.consume(5); B.consume(5)` with A = 5, B = 0.  The schedule
    withdraw · A.consume · B.consume · deposit gives (True, False, False), which none of the three sequential
    orders of the calls produces. -/
theorem c05_transfer_not_atomic_witness :
    let w := Act.withdraw 0 5 .atp
    let d := Act.deposit 1 5 .atp
    let ca := Act.consume 0 5 .atp false 0
    let cb := Act.consume 1 5 .atp false 0
    outcome [(0, w), (1, ca), (1, cb), (0, d)] = ([.bool true], [.bool false, .bool false], 0, 5) ∧
    outcome [(0, w), (1, ca), (1, cb), (0, d)] ∉
      [outcome [(0, w), (0, d), (1, ca), (1, cb)],      -- transfer first
       outcome [(1, ca), (0, w), (0, d), (1, cb)],      -- transfer between
       outcome [(1, ca), (1, cb), (0, w), (0, d)]] := by  -- transfer last
  decide

/-! ### Non-vacuity -/

/-- a faithful cut exists (one line per region), and a two-line cut of `consume`-like bodies is faithful too -/
example (cls : Classifier) (obs : Nat → Obs) : Cut.Faithful cls obs (fun a => [body cls obs a]) := fun _ => rfl

/-- programs meeting the hypothesis of the conservation theorems: two stores, opposite-direction transfers, a spend,
    a regeneration and a pass of a background regeneration loop (`tickCall`) -/
example : ∀ p ∈ [[Call.transfer 0 1 3 .atp, Call.consume 0 2 .atp true 5], [Call.transfer 1 0 4 .gtp, Call.regenerate 1 2 .atp],
    [tickCall 0 5]], ∀ c ∈ p, ∀ a ∈ c.acts, a.lock < 2 := by decide

/-- programs meeting the hypothesis of `c05_per_call_serializable_partial` (no transfers), background loop included -/
example : ∀ p ∈ [[Call.consume 0 2 .atp true 5, Call.convert 0 1], [Call.regenerate 0 2 .nadh], regenThread 0 5 3],
    ∀ c ∈ p, c.isTransfer = false := by decide

/-- a configuration meeting the hypotheses of the invariant theorems: two stores built by the constructor -/
example : (∀ j, (st0 j).WF ∧ (st0 j).debt ≤ (st0 j).maxDebt) := by
  intro j; unfold st0; split <;> (constructor <;> (try constructor) <;> decide)

end Operon.AtpConc
