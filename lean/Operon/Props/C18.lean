import Operon.Lemmas.C18
import Operon.Lemmas.C18Hist
import Operon.Lemmas.C18Live
import Operon.Lemmas.C18Early
import Operon.Lemmas.C18Decay
import Operon.Lemmas.C18Raise
import Operon.Lemmas.C18Timed
/-!
# C18 — healing and tool loops stop within their budgets against any generator

Property theorems only.  Model: `Operon/Model/Loops.lean` (hand-written, tied to
`operon_ai/healing/chaperone_loop.py`, `operon_ai/healing/regenerative_swarm.py` and
`operon_ai/organelles/nucleus.py` by the differential correspondence of `harness/vf/props/c18.py`).

Every statement quantifies over
* every limit (`Int`: zero and negative limits included),
* every adversary: generator, validator, worker factory, worker step, summarizer, provider and tool executor
  are transition functions of an arbitrary state type `σ` that see everything the code shows them and return
  or raise (this contains every function of the call index and of the shown arguments),
* every start state of the adversary, every prompt / task, every instance state left by earlier calls,
* every float classifier the loops consult (`ConfOps`, `SwarmCode`),
* and, for the two `while` loops, every fuel (so the bounds come from the loop guard, never from the fuel).

The ghost lists `calls` / `spawns` / `evs` record each adversary invocation with what it was shown.
-/
namespace Operon.Loops

/-! ## The validation-feedback loop (`ChaperoneLoop.heal`) -/
section Heal
variable {σ κ C : Type}

/-- The generator is called at most `max_retries + 1` times (never, when that is ≤ 0), whatever it and the
    validator do; every call gets the caller's prompt. -/
theorem c18_heal_calls_le_retries_succ (ops : ConfOps C) (cfg : HealCfg) (adv : HealAdv σ κ C) (s : σ)
    (prompt : String) :
    (heal ops cfg adv s prompt).calls.length ≤ (cfg.maxRetries + 1).toNat ∧
    ∀ c ∈ (heal ops cfg adv s prompt).calls, c.prompt = prompt :=
  ⟨healLoop_calls_le ops adv prompt _ _ _ _ _, healLoop_prompt ops adv prompt _ _ _ _ _⟩

/-- The same bound for a natural-number limit `n`: at most `n + 1` generator calls. -/
theorem c18_heal_calls_le_retries_succ_nat (ops : ConfOps C) (n : Nat) (adv : HealAdv σ κ C) (s : σ)
    (prompt : String) : (heal ops ⟨(n : Int)⟩ adv s prompt).calls.length ≤ n + 1 := by
  have := (c18_heal_calls_le_retries_succ ops ⟨(n : Int)⟩ adv s prompt).1
  simp only at this
  omega

/-- The first attempt is shown no error; attempt `i + 1` exists only if attempt `i` returned an output that
    the validator answered as invalid, and it is shown exactly the context built from *that* attempt: its
    error trace (or the default text when the trace is empty/None) and the first 200 characters of its output. -/
theorem c18_retry_sees_previous_error (ops : ConfOps C) (cfg : HealCfg) (adv : HealAdv σ κ C) (s : σ)
    (prompt : String) :
    (∀ c, (heal ops cfg adv s prompt).calls[0]? = some c → c.ctx = none) ∧
    (∀ i c', (heal ops cfg adv s prompt).calls[i + 1]? = some c' →
      ∃ c raw f, (heal ops cfg adv s prompt).calls[i]? = some c ∧ c.out = .ok raw ∧ c.fold = some (.ok f) ∧
        f.valid = false ∧ c'.ctx = some ⟨traceOr f.trace, shownPrefix raw⟩) := by
  have h := chain_index none _ (healLoop_chain ops adv prompt (cfg.maxRetries + 1).toNat 0 none [] s)
  refine ⟨h.1, ?_⟩
  intro i c' hi
  obtain ⟨c, e, h1, h2, h3⟩ := h.2 i c' hi
  obtain ⟨raw, f, h4, h5, h6, h7⟩ := nextCtx_some c e h2
  exact ⟨c, raw, f, h1, h4, h5, h6, by rw [h3, h7]; rfl⟩

/-- HEALED / VALID_FIRST_TRY is reported only with a structure the validator accepted: the last generator
    output was answered `valid` and the result carries exactly that answer (its confidence lowered to the
    decayed confidence of that attempt), untagged; VALID_FIRST_TRY exactly when it was the first call. -/
theorem c18_healed_only_if_valid (ops : ConfOps C) (cfg : HealCfg) (adv : HealAdv σ κ C) (s : σ)
    (prompt : String) (r : HealResult κ C) (h : (heal ops cfg adv s prompt).res = .ok r)
    (hv : r.outcome = .healed ∨ r.outcome = .validFirstTry) :
    ∃ c raw f n, (heal ops cfg adv s prompt).calls.getLast? = some c ∧
      (heal ops cfg adv s prompt).calls.length = n + 1 ∧
      c.out = .ok raw ∧ c.fold = some (.ok f) ∧ f.valid = true ∧
      r.folded = some ⟨true, ops.min f.conf (ops.cur n), f.trace, f.payload⟩ ∧
      r.finalConf = ops.min f.conf (ops.cur n) ∧ r.tagged = false ∧
      (r.outcome = .validFirstTry ↔ n = 0) := by
  have hval : r.isValid = true := by rcases hv with hv | hv <;> simp [HealResult.isValid, hv]
  obtain ⟨c, raw, f, n, h1, h2, h3, h4, h5, h6, h7, h8, h9⟩ :=
    healLoop_valid ops adv prompt _ _ _ _ _ r h hval
  simp only [Nat.zero_add] at h6 h7 h9
  refine ⟨c, raw, f, n, h1, h2, h3, h4, h5, h6, h7, h8, ?_⟩
  rw [h9]
  by_cases hn : n = 0 <;> simp [hn]

/-- Otherwise the result is tagged for degradation with confidence 0 and no folded structure — and that only
    happens after exactly `max_retries + 1` generator outputs were each rejected by the validator. -/
theorem c18_degraded_tagged_conf_zero (ops : ConfOps C) (cfg : HealCfg) (adv : HealAdv σ κ C) (s : σ)
    (prompt : String) (r : HealResult κ C) (h : (heal ops cfg adv s prompt).res = .ok r)
    (hv : r.outcome ≠ .healed ∧ r.outcome ≠ .validFirstTry) :
    r.outcome = .degraded ∧ r.tagged = true ∧ r.finalConf = ops.zero ∧ r.folded = none ∧
    (heal ops cfg adv s prompt).calls.length = (cfg.maxRetries + 1).toNat ∧
    ∀ c ∈ (heal ops cfg adv s prompt).calls, ∃ raw f, c.out = .ok raw ∧ c.fold = some (.ok f) ∧ f.valid = false := by
  have hval : r.isValid = false := by
    cases ho : r.outcome <;> simp_all [HealResult.isValid]
  exact healLoop_degraded ops adv prompt _ _ _ _ _ r h hval

/-- The degradation tag is set exactly on DEGRADED results. -/
theorem c18_heal_tagged_iff_degraded (ops : ConfOps C) (cfg : HealCfg) (adv : HealAdv σ κ C) (s : σ)
    (prompt : String) (r : HealResult κ C) (h : (heal ops cfg adv s prompt).res = .ok r) :
    r.tagged = true ↔ r.outcome = .degraded := by
  cases ho : r.outcome
  · obtain ⟨_, _, _, _, _, _, _, _, _, _, _, h8, _⟩ := c18_healed_only_if_valid ops cfg adv s prompt r h (Or.inr ho)
    simp [h8]
  · obtain ⟨_, _, _, _, _, _, _, _, _, _, _, h8, _⟩ := c18_healed_only_if_valid ops cfg adv s prompt r h (Or.inl ho)
    simp [h8]
  · have := c18_degraded_tagged_conf_zero ops cfg adv s prompt r h (by simp [ho])
    simp [this.2.1]

/-- A returned result records one attempt per generator call; an exception leaves `heal` only when the
    generator or the validator raised, at the last call made. -/
theorem c18_heal_attempts_and_raise (ops : ConfOps C) (cfg : HealCfg) (adv : HealAdv σ κ C) (s : σ)
    (prompt : String) :
    (∀ r, (heal ops cfg adv s prompt).res = .ok r → r.attempts.length = (heal ops cfg adv s prompt).calls.length) ∧
    ((heal ops cfg adv s prompt).res = .raise →
      ∃ c, (heal ops cfg adv s prompt).calls.getLast? = some c ∧ (c.out = .raise ∨ c.fold = some .raise)) := by
  refine ⟨?_, healLoop_raise ops adv prompt _ _ _ _ _⟩
  intro r h
  have := healLoop_attempts ops adv prompt _ _ _ _ _ r h
  simp only [List.length_nil, Nat.zero_add] at this
  exact this

/-- An exception of a callback is never swallowed by `heal`: the call raises exactly when the generator or the
    validator raised at one of the recorded generator invocations, and that invocation is the last one — nothing is
    called after it (so a raising callback can never be used to win further attempts). -/
theorem c18_heal_exceptions_propagate (ops : ConfOps C) (cfg : HealCfg) (adv : HealAdv σ κ C) (s : σ)
    (prompt : String) :
    ((heal ops cfg adv s prompt).res = .raise ↔ ∃ c ∈ (heal ops cfg adv s prompt).calls, c.raised) ∧
    (∀ i c, (heal ops cfg adv s prompt).calls[i]? = some c → c.raised →
      i + 1 = (heal ops cfg adv s prompt).calls.length) :=
  ⟨(healLoop_propagates ops adv prompt _ _ _ _ _).iff_exists, (healLoop_propagates ops adv prompt _ _ _ _ _).raised_is_last⟩

end Heal

/-! ## The regenerative swarm (`RegenerativeSwarm.supervise`) -/
section Swarm
variable {σ W ω η ι τ : Type}

/-- One `supervise` call spawns at most `max_regenerations + 1` workers (none when that is ≤ 0), whatever
    factory, workers and summarizer do and whatever the counters were before; the instance counter grows by
    exactly the number of spawns.  Stated for the loop with *any* fuel and any value `k` of `regenerations`. -/
theorem c18_swarm_workers_le_regen_succ_loop (code : SwarmCode ω) (cfg : SwarmCfg) (adv : SwarmAdv σ W ω η ι τ)
    (task : τ) (fuel k : Nat) (hints : η) (sw : SwarmSt ι η) (s : σ) :
    (superviseLoop code cfg adv task fuel k hints sw s).spawns.length ≤ (cfg.maxRegen + 1 - k).toNat :=
  superviseLoop_spawns_le code cfg adv task fuel k hints sw s

theorem c18_swarm_workers_le_regen_succ (code : SwarmCode ω) (cfg : SwarmCfg) (adv : SwarmAdv σ W ω η ι τ)
    (task : τ) (hints0 : η) (sw : SwarmSt ι η) (s : σ) :
    (supervise code cfg adv task hints0 sw s).spawns.length ≤ (cfg.maxRegen + 1).toNat ∧
    (supervise code cfg adv task hints0 sw s).sw.counter =
      sw.counter + (supervise code cfg adv task hints0 sw s).spawns.length ∧
    (∀ i sp, (supervise code cfg adv task hints0 sw s).spawns[i]? = some sp → sp.name = sw.counter + 1 + i) := by
  have h1 := superviseLoop_spawns_le code cfg adv task (superviseFuel cfg) 0 hints0 sw s
  have h2 := superviseLoop_counter code cfg adv task (superviseFuel cfg) 0 hints0 sw s
  refine ⟨?_, h2.1, h2.2⟩
  simp only [supervise]
  simp only [Int.natCast_zero, Int.sub_zero] at h1
  exact h1

/-- The same bound for a natural-number limit `n`: at most `n + 1` workers. -/
theorem c18_swarm_workers_le_regen_succ_nat (code : SwarmCode ω) (n : Nat) (ms : Int) (adv : SwarmAdv σ W ω η ι τ)
    (task : τ) (hints0 : η) (sw : SwarmSt ι η) (s : σ) :
    (supervise code ⟨(n : Int), ms⟩ adv task hints0 sw s).spawns.length ≤ n + 1 := by
  have := (c18_swarm_workers_le_regen_succ code ⟨(n : Int), ms⟩ adv task hints0 sw s).1
  simp only at this
  omega

/-- On every spawned worker at most `max_steps_per_worker` steps are run (none when that is ≤ 0), even if the
    factory hands out the same worker object again. -/
theorem c18_swarm_steps_le_max (code : SwarmCode ω) (cfg : SwarmCfg) (adv : SwarmAdv σ W ω η ι τ)
    (task : τ) (hints0 : η) (sw : SwarmSt ι η) (s : σ) :
    ∀ sp ∈ (supervise code cfg adv task hints0 sw s).spawns, sp.steps.length ≤ cfg.maxSteps.toNat :=
  fun sp h => (superviseLoop_spawn_facts code cfg adv task _ _ _ _ _ sp h).steps_le

/-- Success is reported only for an output carrying a completion marker: it is the last step output of the
    last spawned worker, `_is_success` holds of it, no earlier step of that worker carried a marker, and the
    reported worker id / total are that worker's id and the instance counter. -/
theorem c18_swarm_success_only_with_marker (code : SwarmCode ω) (cfg : SwarmCfg) (adv : SwarmAdv σ W ω η ι τ)
    (task : τ) (hints0 : η) (sw : SwarmSt ι η) (s : σ) (r : SwarmResult ω ι)
    (h : (supervise code cfg adv task hints0 sw s).res = some (.ok r)) (hs : r.success = true) :
    ∃ sp w o pre, (supervise code cfg adv task hints0 sw s).spawns.getLast? = some sp ∧
      sp.worker = .ok w ∧ sp.steps = pre ++ [.ok o] ∧ NoMarker code pre ∧ code.marker o = true ∧
      r.output = some o ∧ r.finalId = some (adv.wid w) ∧
      r.total = (supervise code cfg adv task hints0 sw s).sw.counter := by
  rcases superviseLoop_result code cfg adv task _ _ _ _ _ r h with ⟨sp, h1, h2⟩ | ⟨h1, _⟩
  · obtain ⟨_, ht, _, w, o, pre, g1, g2, g3, g4, g5, g6⟩ := h2
    exact ⟨sp, w, o, pre, h1, g1, g2, g3, g4, g5, g6, ht⟩
  · rw [hs] at h1; cases h1

/-- Failure carries no output, and is reported only after the whole budget: exactly `max_regenerations + 1`
    workers were spawned, none of their steps produced a marker, and each was summarised. -/
theorem c18_swarm_failure_only_after_budget (code : SwarmCode ω) (cfg : SwarmCfg) (adv : SwarmAdv σ W ω η ι τ)
    (task : τ) (hints0 : η) (sw : SwarmSt ι η) (s : σ) (r : SwarmResult ω ι)
    (h : (supervise code cfg adv task hints0 sw s).res = some (.ok r)) (hs : r.success = false) :
    r.output = none ∧ r.finalId = none ∧
    (supervise code cfg adv task hints0 sw s).spawns.length = (cfg.maxRegen + 1).toNat ∧
    ∀ sp ∈ (supervise code cfg adv task hints0 sw s).spawns,
      NoMarker code sp.steps ∧ ∃ w hh, sp.worker = .ok w ∧ sp.summ = some (.ok hh) := by
  rcases superviseLoop_result code cfg adv task _ _ _ _ _ r h with ⟨sp, _, h2⟩ | ⟨_, h2, h3, _, h5, h6⟩
  · rw [h2.1] at hs; cases hs
  · refine ⟨h2, h3, ?_, h6⟩
    simp only [Int.natCast_zero, Int.sub_zero] at h5
    exact h5

/-- With markers read as the code reads them on strings: a successful output contains, upper-cased, one of
    SUCCESS / SOLVED / COMPLETE / DONE / FINISHED as a contiguous block. -/
theorem c18_swarm_success_marker_word (code : SwarmCode String) (hm : code.marker = strMarker) (cfg : SwarmCfg)
    (adv : SwarmAdv σ W String η ι τ) (task : τ) (hints0 : η) (sw : SwarmSt ι η) (s : σ) (r : SwarmResult String ι)
    (h : (supervise code cfg adv task hints0 sw s).res = some (.ok r)) (hs : r.success = true) :
    ∃ o m a b, r.output = some o ∧ m ∈ markers ∧ o.toUpper.toList = a ++ m.toList ++ b := by
  obtain ⟨_, _, o, _, _, _, _, _, g4, g5, _⟩ := c18_swarm_success_only_with_marker code cfg adv task hints0 sw s r h hs
  rw [hm] at g4
  obtain ⟨m, h1, a, b, h2⟩ := strMarker_spec o g4
  exact ⟨o, m, a, b, g5, h1, h2⟩

/-- The entropy-collapse early exit is the only way a worker is abandoned before its step limit: a spawn that
    was summarised (apoptosis) after fewer than `max_steps_per_worker` steps made at least three steps and the
    entropy test `low` fired on the window of its last three outputs. -/
theorem c18_swarm_early_exit_only_on_collapse (code : SwarmCode ω) (cfg : SwarmCfg) (adv : SwarmAdv σ W ω η ι τ)
    (task : τ) (hints0 : η) (sw : SwarmSt ι η) (s : σ) :
    ∀ sp ∈ (supervise code cfg adv task hints0 sw s).spawns, sp.summ.isSome = true →
      sp.steps.length < cfg.maxSteps.toNat →
      (outs sp.steps).length ≥ 3 ∧
      code.low (code.distinct (lastThree (outs sp.steps))) (lastThree (outs sp.steps)).length = true :=
  fun sp h => (superviseLoop_spawn_facts code cfg adv task _ _ _ _ _ sp h).early

/-- No worker is given up prematurely: after every step of a spawn except its last, the entropy test (`Collapsed`:
    at least three outputs so far and `low` on the window of the last three) had not fired on the outputs so far
    — together with `c18_swarm_early_exit_only_on_collapse` and the marker clauses: a worker runs until its first
    marker output, its first collapsed window, its step limit, or an exception, whichever comes first. -/
theorem c18_swarm_no_premature_abandon (code : SwarmCode ω) (cfg : SwarmCfg) (adv : SwarmAdv σ W ω η ι τ)
    (task : τ) (hints0 : η) (sw : SwarmSt ι η) (s : σ) :
    ∀ sp ∈ (supervise code cfg adv task hints0 sw s).spawns, ∀ j, j + 1 < sp.steps.length →
      ¬ Collapsed code (outs (sp.steps.take (j + 1))) := by
  intro sp hsp j hj
  rcases superviseLoop_spawn_is_run code cfg adv task _ _ _ _ _ sp hsp with h | ⟨w, s1, h⟩
  · rw [h] at hj; simp at hj
  · rw [h] at hj ⊢
    have hl : lastThree ([] : List ω) = [] := rfl
    have := runWorker_no_premature code adv w task cfg.maxSteps.toNat [] s1 j (by rw [hl]; exact hj)
    rw [hl] at this
    simpa using this

/-- `supervise` never runs out of the fuel the model gives it (the value `none` is unreachable), and an
    exception leaves it only from the last spawn (factory, a step, or the summarizer raised). -/
theorem c18_swarm_fuel_sufficient (code : SwarmCode ω) (cfg : SwarmCfg) (adv : SwarmAdv σ W ω η ι τ)
    (task : τ) (hints0 : η) (sw : SwarmSt ι η) (s : σ) :
    (supervise code cfg adv task hints0 sw s).res ≠ none ∧
    ((supervise code cfg adv task hints0 sw s).res = some .raise →
      ∃ sp, (supervise code cfg adv task hints0 sw s).spawns.getLast? = some sp ∧
        (sp.worker = .raise ∨ sp.summ = some .raise ∨ ∃ pre, sp.steps = pre ++ [.raise])) := by
  refine ⟨superviseLoop_fuel code cfg adv task _ 0 _ _ _ ?_, superviseLoop_raise code cfg adv task _ _ _ _ _⟩
  simp only [superviseFuel, Int.natCast_zero, Int.sub_zero]
  omega

/-- Bookkeeping of one call: at most `max_regenerations` regeneration events and at most one apoptosis event
    per spawn are added; hints are threaded from each summarizer answer to the next factory call. -/
theorem c18_swarm_events_and_hints (code : SwarmCode ω) (cfg : SwarmCfg) (adv : SwarmAdv σ W ω η ι τ)
    (task : τ) (hints0 : η) (sw : SwarmSt ι η) (s : σ) :
    (supervise code cfg adv task hints0 sw s).sw.regen.length ≤ sw.regen.length + cfg.maxRegen.toNat ∧
    (supervise code cfg adv task hints0 sw s).sw.apop.length ≤
      sw.apop.length + (supervise code cfg adv task hints0 sw s).spawns.length ∧
    (∀ sp, (supervise code cfg adv task hints0 sw s).spawns[0]? = some sp → sp.hints = hints0) ∧
    (∀ i sp', (supervise code cfg adv task hints0 sw s).spawns[i + 1]? = some sp' →
      ∃ sp, (supervise code cfg adv task hints0 sw s).spawns[i]? = some sp ∧ sp.summ = some (.ok sp'.hints)) := by
  have h1 := superviseLoop_events code cfg adv task (superviseFuel cfg) 0 hints0 sw s
  have h2 := superviseLoop_hints code cfg adv task (superviseFuel cfg) 0 hints0 sw s
  simp only [Int.natCast_zero, Int.sub_zero] at h1
  exact ⟨h1.1, h1.2.2.1, h2.1, h2.2⟩

/-- An exception of the factory, of a worker's step or of the summarizer is never swallowed by `supervise`: the
    call raises exactly when a callback raised during one of the recorded spawns, and that spawn is the last one
    — no worker is spawned after it, whatever the remaining budget (seeded change s1 of round 7 regenerated
    after a raising summarizer without charging the budget). -/
theorem c18_swarm_exceptions_propagate (code : SwarmCode ω) (cfg : SwarmCfg) (adv : SwarmAdv σ W ω η ι τ)
    (task : τ) (hints0 : η) (sw : SwarmSt ι η) (s : σ) :
    ((supervise code cfg adv task hints0 sw s).res = some .raise ↔
      ∃ sp ∈ (supervise code cfg adv task hints0 sw s).spawns, sp.raised) ∧
    (∀ i sp, (supervise code cfg adv task hints0 sw s).spawns[i]? = some sp → sp.raised →
      i + 1 = (supervise code cfg adv task hints0 sw s).spawns.length) :=
  ⟨(superviseLoop_propagates code cfg adv task _ _ _ _ _).iff_exists,
   (superviseLoop_propagates code cfg adv task _ _ _ _ _).raised_is_last⟩

end Swarm

/-! ## The LLM tool loop (`Nucleus.transcribe_with_tools`) -/
section Tools
variable {σ ρ κ θ : Type}

/-- The loop, for any fuel and any value `k` of `iterations`: at most `max_iterations - k` further tool rounds,
    at most one plain completion, and that completion only after all those rounds, as the last call. -/
theorem c18_tool_loop_rounds_le_max_plus_final_loop (cfg : ToolCfg) (adv : ToolAdv σ ρ κ θ) (fuel k : Nat)
    (cur : PromptView θ) (s : σ) :
    toolRounds (toolLoop cfg adv fuel k cur s).evs ≤ (cfg.maxIter - k).toNat ∧
    completions (toolLoop cfg adv fuel k cur s).evs ≤ 1 :=
  ⟨(toolLoop_counts cfg adv fuel k cur s).1, (toolLoop_counts cfg adv fuel k cur s).2.1⟩

/-- `transcribe_with_tools` performs at most `max_iterations` tool rounds (`complete_with_tools` calls; none
    when that is ≤ 0) plus at most one final plain completion — for every provider, including one that
    requests tools forever, every tool executor, every configuration; it always returns or propagates the
    adversary's exception (never runs out of fuel), and it logs at most one transcription. -/
theorem c18_tool_loop_rounds_le_max_plus_final (cfg : ToolCfg) (adv : ToolAdv σ ρ κ θ) (s : σ) :
    toolRounds (transcribeWithTools cfg adv s).evs ≤ cfg.maxIter.toNat ∧
    completions (transcribeWithTools cfg adv s).evs ≤ 1 ∧
    toolRounds (transcribeWithTools cfg adv s).evs + completions (transcribeWithTools cfg adv s).evs
      ≤ cfg.maxIter.toNat + 1 ∧
    (transcribeWithTools cfg adv s).res ≠ none ∧
    (transcribeWithTools cfg adv s).logged.length ≤ 1 := by
  have plain : ∀ p, toolRounds (transcribe adv p s).evs ≤ cfg.maxIter.toNat ∧
      completions (transcribe adv p s).evs ≤ 1 ∧
      toolRounds (transcribe adv p s).evs + completions (transcribe adv p s).evs ≤ cfg.maxIter.toNat + 1 ∧
      (transcribe adv p s).res ≠ none ∧ (transcribe adv p s).logged.length ≤ 1 := by
    intro p
    obtain ⟨out, h1, h2, h3, _⟩ := transcribe_spec adv p s
    rw [h1, h2, toolRounds_complete_single, completions_complete_single]
    exact ⟨by omega, by omega, by omega, by simp, h3⟩
  unfold transcribeWithTools
  split
  · exact plain none
  · split
    · exact plain none
    · obtain ⟨h1, h2, h3, _⟩ := toolLoop_counts cfg adv (toolFuel cfg) 0 none s
      have h4 := toolLoop_fuel cfg adv (toolFuel cfg) 0 none s (by simp [toolFuel])
      simp only [Int.natCast_zero, Int.sub_zero] at h1
      exact ⟨h1, h2, by omega, h4, h3⟩

/-- With `export_tool_schemas()` as one more callback (it answers non-empty / empty, or raises): the budget holds
    all the same, and when it raises no provider call is made at all and the exception is what propagates. -/
theorem c18_tool_loop_schemas_callback (schemas : Out Bool) (cfg : ToolCfg) (adv : ToolAdv σ ρ κ θ) (s : σ) :
    toolRounds (transcribeWithToolsM schemas cfg adv s).evs ≤ cfg.maxIter.toNat ∧
    completions (transcribeWithToolsM schemas cfg adv s).evs ≤ 1 ∧
    (transcribeWithToolsM schemas cfg adv s).res ≠ none ∧
    (schemas = .raise → (transcribeWithToolsM schemas cfg adv s).evs = [] ∧
      (transcribeWithToolsM schemas cfg adv s).res = some .raise ∧ (transcribeWithToolsM schemas cfg adv s).logged = []) := by
  cases schemas with
  | raise => simp [transcribeWithToolsM, toolRounds, completions]
  | ok b =>
    have h := c18_tool_loop_rounds_le_max_plus_final ⟨cfg.maxIter, cfg.autoExec, b, cfg.hasToolApi⟩ adv s
    exact ⟨h.1, h.2.1, h.2.2.2.1, fun hh => by cases hh⟩

/-- The final plain completion of the tool path is made only when the whole budget of rounds was used; it is
    the last adversary call and its outcome is what `transcribe_with_tools` returns. -/
theorem c18_tool_loop_final_only_after_budget (cfg : ToolCfg) (adv : ToolAdv σ ρ κ θ) (s : σ)
    (hs : cfg.hasSchemas = true) (ha : cfg.hasToolApi = true)
    (hc : completions (transcribeWithTools cfg adv s).evs = 1) :
    toolRounds (transcribeWithTools cfg adv s).evs = cfg.maxIter.toNat ∧
    ∃ p out, (transcribeWithTools cfg adv s).evs.getLast? = some (.complete p out) ∧
      (transcribeWithTools cfg adv s).res = some out := by
  simp only [transcribeWithTools, hs, ha, Bool.not_true, Bool.false_eq_true, if_false] at hc ⊢
  have := (toolLoop_counts cfg adv (toolFuel cfg) 0 none s).2.2.2 hc
  simpa using this

/-- "Even if the provider requests tools forever": against a provider that asks for tools on every round
    (tools and completion never raising, auto-execution on) exactly `max_iterations` rounds are made, then
    exactly one plain completion, and a response is returned. -/
theorem c18_tool_loop_insatiable_provider (cfg : ToolCfg) (adv : ToolAdv σ ρ κ θ) (s : σ)
    (hs : cfg.hasSchemas = true) (ha : cfg.hasToolApi = true) (hauto : cfg.autoExec = true)
    (hins : Insatiable adv) :
    toolRounds (transcribeWithTools cfg adv s).evs = cfg.maxIter.toNat ∧
    completions (transcribeWithTools cfg adv s).evs = 1 ∧
    ∃ r, (transcribeWithTools cfg adv s).res = some (.ok r) := by
  simp only [transcribeWithTools, hs, ha, Bool.not_true, Bool.false_eq_true, if_false]
  have := toolLoop_insatiable cfg adv hins hauto (toolFuel cfg) 0 none s (by simp [toolFuel])
  simpa using this

/-- What the provider is shown (`Thr`, defined in `Lemmas/C18.lean`): the first call sees the caller's prompt;
    every later round, and the final completion, is shown exactly the results of the tool executions of the
    round just before it, in order (not accumulated over rounds); nothing follows a raising execution or the
    plain completion. -/
theorem c18_tool_loop_prompts_threaded (cfg : ToolCfg) (adv : ToolAdv σ ρ κ θ) (s : σ) :
    Thr none (transcribeWithTools cfg adv s).evs := by
  have plain : Thr none (transcribe adv none s).evs := by
    obtain ⟨out, h1, _⟩ := transcribe_spec adv none s
    rw [h1]; simp [Thr]
  unfold transcribeWithTools
  split
  · exact plain
  · split
    · exact plain
    · exact toolLoop_thr cfg adv _ _ _ _

/-- An exception of the provider (`complete_with_tools`, `complete`) or of the tool executor is never swallowed by
    `transcribe_with_tools`: the call raises exactly when one of the recorded adversary calls raised, and that call
    is the last one — in particular a raising provider is not asked again (seeded change k3 retried it). -/
theorem c18_tool_exceptions_propagate (cfg : ToolCfg) (adv : ToolAdv σ ρ κ θ) (s : σ) :
    ((transcribeWithTools cfg adv s).res = some .raise ↔ ∃ e ∈ (transcribeWithTools cfg adv s).evs, e.raised) ∧
    (∀ i e, (transcribeWithTools cfg adv s).evs[i]? = some e → e.raised →
      i + 1 = (transcribeWithTools cfg adv s).evs.length) :=
  ⟨(transcribeWithTools_propagates cfg adv s).iff_exists, (transcribeWithTools_propagates cfg adv s).raised_is_last⟩

end Tools

/-! ## The swarm with its limits read where the code reads them

`supervise` re-reads `max_regenerations` at every turn of its `while` loop, `max_steps_per_worker` whenever it
starts a worker and `entropy_threshold` at every entropy test, so a factory, worker or summarizer that holds
the swarm can move the budget while the call runs.  `superviseL` (`Model/Loops.lean` section 5) makes every read
where the code makes it and records them (`reads`); these theorems hold for *any* callbacks, any fuel. -/
section LiveSwarm
variable {σ W ω η ι τ : Type}

/-- Worker number `i` of a call (from 0) is spawned only while `i ≤ max_regenerations` as read by the loop test
    just before it; hence at most `M + 1` workers, for any `M` bounding the limits read during the call — the
    largest limit in force. -/
theorem c18_swarm_live_workers_le_largest_limit (L : SwarmLive σ ω) (adv : SwarmAdv σ W ω η ι τ) (task : τ)
    (hints0 : η) (fuel : Nat) (sw : SwarmSt ι η) (s : σ) :
    (superviseL L adv task hints0 fuel sw s).reads.length = (superviseL L adv task hints0 fuel sw s).spawns.length ∧
    (∀ (i : Nat) (rm : Int × Int), (superviseL L adv task hints0 fuel sw s).reads[i]? = some rm → (i : Int) ≤ rm.1) ∧
    (∀ M, (∀ rm ∈ (superviseL L adv task hints0 fuel sw s).reads, rm.1 ≤ M) →
      (superviseL L adv task hints0 fuel sw s).spawns.length ≤ (M + 1).toNat) := by
  have f := superviseLoopL_facts L adv task fuel 0 hints0 sw s
  refine ⟨f.len, ?_, ?_⟩
  · intro i rm h
    have := f.guard i rm h
    simpa using this
  · intro M hM
    have := liveFacts_spawns_le L adv 0 sw _ f M hM
    simp only [Int.natCast_zero, Int.sub_zero] at this
    exact this

/-- Each worker runs at most `max_steps_per_worker` steps, for the value the attribute had when that worker
    was started (none when that is ≤ 0). -/
theorem c18_swarm_live_steps_le_limit_at_start (L : SwarmLive σ ω) (adv : SwarmAdv σ W ω η ι τ) (task : τ)
    (hints0 : η) (fuel : Nat) (sw : SwarmSt ι η) (s : σ) :
    ∀ (i : Nat) (sp : Spawn W ω η) (rm : Int × Int),
      (superviseL L adv task hints0 fuel sw s).spawns[i]? = some sp →
      (superviseL L adv task hints0 fuel sw s).reads[i]? = some rm → sp.steps.length ≤ rm.2.toNat :=
  (superviseLoopL_facts L adv task fuel 0 hints0 sw s).steps

/-- Success is reported only for an output carrying a completion marker — also when the callbacks move the
    limits: it is the last step output of the last spawned worker, no earlier step of that worker carried a
    marker; failure carries no output and is reported only when the loop test failed — more workers spawned than
    `max_regenerations` allows as it is in the final state — after every worker was run without a marker and
    summarised. -/
theorem c18_swarm_live_success_only_with_marker (L : SwarmLive σ ω) (adv : SwarmAdv σ W ω η ι τ) (task : τ)
    (hints0 : η) (fuel : Nat) (sw : SwarmSt ι η) (s : σ) (r : SwarmResult ω ι)
    (h : (superviseL L adv task hints0 fuel sw s).res = some (.ok r)) :
    (r.success = true →
      ∃ sp w o pre, (superviseL L adv task hints0 fuel sw s).spawns.getLast? = some sp ∧ sp.worker = .ok w ∧
        sp.steps = pre ++ [.ok o] ∧ NoMarkerL L pre ∧ L.marker o = true ∧ r.output = some o ∧
        r.finalId = some (adv.wid w) ∧ r.total = (superviseL L adv task hints0 fuel sw s).sw.counter) ∧
    (r.success = false → r.output = none ∧ r.finalId = none ∧
      ¬ ((superviseL L adv task hints0 fuel sw s).spawns.length : Int) ≤ L.regenOf (superviseL L adv task hints0 fuel sw s).st ∧
      ∀ sp ∈ (superviseL L adv task hints0 fuel sw s).spawns,
        NoMarkerL L sp.steps ∧ ∃ w hh, sp.worker = .ok w ∧ sp.summ = some (.ok hh)) := by
  refine ⟨(superviseLoopL_facts L adv task fuel 0 hints0 sw s).success r h, ?_⟩
  intro hs
  obtain ⟨g1, g2, g3, g4⟩ := (superviseLoopL_facts L adv task fuel 0 hints0 sw s).failure r h hs
  refine ⟨g1, g2, ?_, g4⟩
  simp only [Nat.zero_add] at g3
  exact g3

/-- Exact when no callback assigns: with callbacks that keep an invariant `Inv` under which the limits read
    are `cfg` / `code`, the call is the entry-snapshot `supervise` of the section above, spawn for spawn — so
    with the fuel `superviseFuel cfg` it returns, and every theorem about `supervise` holds of it. -/
theorem c18_swarm_live_exact_when_limits_untouched (L : SwarmLive σ ω) (code : SwarmCode ω) (cfg : SwarmCfg)
    (adv : SwarmAdv σ W ω η ι τ) (task : τ) (Inv : σ → Prop)
    (hfac : ∀ s n h, Inv s → Inv (adv.factory s n h).1) (hstep : ∀ s w t, Inv s → Inv (adv.step s w t).1)
    (hsum : ∀ s w, Inv s → Inv (adv.summarize s w).1)
    (hcode : ∀ s, Inv s → L.codeAt s = code) (hcfg : ∀ s, Inv s → L.cfgAt s = cfg)
    (hints0 : η) (sw : SwarmSt ι η) (s : σ) (hI : Inv s) :
    (superviseL L adv task hints0 (superviseFuel cfg) sw s).toRun = supervise code cfg adv task hints0 sw s ∧
    (superviseL L adv task hints0 (superviseFuel cfg) sw s).res ≠ none := by
  have e := (superviseLoopL_eq L code cfg adv task Inv hfac hstep hsum hcode hcfg (superviseFuel cfg) 0 hints0 sw s hI).1
  refine ⟨e, ?_⟩
  have h2 := (c18_swarm_fuel_sufficient code cfg adv task hints0 sw s).1
  have : (superviseL L adv task hints0 (superviseFuel cfg) sw s).res =
      (supervise code cfg adv task hints0 sw s).res := by
    have := congrArg SwarmRun.res e
    exact this
  rw [this]; exact h2

/-- the swarm's limit lives in the environment state (an `Int`); workers never emit the marker -/
private def liveL : SwarmLive Int Nat := ⟨fun s => s, fun _ => 1, fun _ => false, fun l => l.length, fun _ _ _ => false⟩
/-- a factory that raises `max_regenerations` by one on every call -/
private def growing : SwarmAdv Int Unit Nat Unit Unit Unit :=
  ⟨fun s _ _ => (s + 1, .ok ()), fun s _ _ => (s, .ok 0), fun s _ => (s, .ok ()), fun _ => ()⟩

/-- Why the bound speaks of the largest limit *read*: against a factory that raises `max_regenerations` on every
    call the loop test never fails — for every fuel the call spawns that many workers and has not returned. -/
theorem c18_swarm_live_raising_factory_never_returns :
    ∀ (fuel k : Nat) sw (s : Int), (k : Int) ≤ s →
      (superviseLoopL liveL growing () fuel k () sw s).res = none ∧
      (superviseLoopL liveL growing () fuel k () sw s).spawns.length = fuel := by
  intro fuel
  induction fuel with
  | zero => intro k sw s _; simp [superviseLoopL]
  | succ fuel ih =>
    intro k sw s h
    have h' : ((k + 1 : Nat) : Int) ≤ s + 1 := by omega
    simp only [superviseLoopL, liveL, growing, h, if_true]
    simp only [Int.toNat_one, runWorkerL, window, Bool.false_eq_true, if_false]
    have := ih (k + 1) ⟨sw.counter + 1, sw.apop ++ [((), ())],
      if (k : Int) ≤ s then sw.regen ++ [((), sw.counter + 2, ())] else sw.regen⟩ (s + 1) h'
    simp only [liveL, growing] at this
    simp [this.1, this.2]

/-- a factory that raises the limit on its first 19 calls (state: limit, calls made) -/
private def bump19 : SwarmAdv (Int × Nat) Unit Nat Unit Unit Unit :=
  ⟨fun s _ _ => ((if s.2 < 19 then s.1 + 1 else s.1, s.2 + 1), .ok ()), fun s _ _ => (s, .ok 0), fun s _ => (s, .ok ()),
   fun _ => ()⟩

/-- entered with `max_regenerations = 1`: 21 workers, then failure — and every worker was within the limit read
    just before it (the largest limit read is 20) -/
example : let r := superviseL (⟨fun s => s.1, fun _ => 1, fun _ => false, fun l => l.length, fun _ _ _ => false⟩ :
        SwarmLive (Int × Nat) Nat) bump19 () () 50 ⟨0, [], []⟩ (1, 0)
    r.spawns.length = 21 ∧ (r.res.bind Out.toOption).map (·.success) = some false ∧
    r.reads.map (·.1) = [1, 2, 3, 4, 5, 6, 7, 8, 9, 10, 11, 12, 13, 14, 15, 16, 17, 18, 19, 20, 20] := by
  decide +kernel

/-- …and also when the callbacks move the swarm's limits while the call runs, for every fuel: an exception of a
    callback ends the run at once (it is the last spawn recorded) and the run raises exactly when a callback did. -/
theorem c18_swarm_live_exceptions_propagate (L : SwarmLive σ ω) (adv : SwarmAdv σ W ω η ι τ) (task : τ)
    (hints0 : η) (fuel : Nat) (sw : SwarmSt ι η) (s : σ) :
    ((superviseL L adv task hints0 fuel sw s).res = some .raise ↔
      ∃ sp ∈ (superviseL L adv task hints0 fuel sw s).spawns, sp.raised) ∧
    (∀ i sp, (superviseL L adv task hints0 fuel sw s).spawns[i]? = some sp → sp.raised →
      i + 1 = (superviseL L adv task hints0 fuel sw s).spawns.length) :=
  ⟨(superviseLoopL_propagates L adv task _ _ _ _ _).iff_exists,
   (superviseLoopL_propagates L adv task _ _ _ _ _).raised_is_last⟩

end LiveSwarm

/-! ## Histories on one live object (public attributes re-assigned after construction)

One `ChaperoneLoop` / `RegenerativeSwarm` / `Nucleus` serves a whole history of calls, and between the calls
(and, through the callbacks, during them) anybody may assign its public attributes.  `runObj` lists, for
every operation of a history, the private and environment state it started in and the call's result; the
limits are read off the environment state (`retriesOf`, `cfgOf`).  "At most max_retries + 1" then means: the
limit *in force when the call is made*. -/
section Histories
variable {σ κ C W ω η ι τ ρ θ : Type}

/-- `heal` with the decay read at every attempt (`healL`) makes, for ANY callbacks — also ones that assign
    `confidence_decay` while it runs —, exactly the adversary calls of the entry-snapshot `heal` and returns the
    same result up to confidence numbers (`HealRun.skel`: final state, calls with the contexts shown, outcome,
    tag, attempt records, the validator's answer carried, and confidence 0 of a degraded result).  Every
    theorem of the first section therefore holds of it: in particular at most `max_retries + 1` generator calls. -/
theorem c18_heal_live_decay_only_changes_confidences (ops : ConfOps C) (curOf : σ → Nat → C) (cfg : HealCfg)
    (adv : HealAdv σ κ C) (s : σ) (prompt : String) :
    (healL ops curOf cfg adv s prompt).skel = (heal ops cfg adv s prompt).skel ∧
    (healL ops curOf cfg adv s prompt).calls.length ≤ (cfg.maxRetries + 1).toNat := by
  have h := healLoopL_skel ops curOf adv prompt (cfg.maxRetries + 1).toNat 0 none [] [] s rfl
  refine ⟨h, ?_⟩
  have hc : (healL ops curOf cfg adv s prompt).calls = (heal ops cfg adv s prompt).calls := by
    have := congrArg (fun x => x.2.1) h
    exact this
  rw [hc]
  exact (c18_heal_calls_le_retries_succ ops cfg adv s prompt).1

/-- …and it is the entry-snapshot `heal` itself when the callbacks leave the decay alone. -/
theorem c18_heal_live_decay_exact_when_untouched (ops : ConfOps C) (curOf : σ → Nat → C) (cfg : HealCfg)
    (adv : HealAdv σ κ C) (Inv : σ → Prop)
    (hg : ∀ s q c, Inv s → Inv (adv.gen s q c).1) (hf : ∀ s raw, Inv s → Inv (adv.fold s raw).1)
    (hcur : ∀ s, Inv s → curOf s = ops.cur) (s : σ) (hI : Inv s) (prompt : String) :
    healL ops curOf cfg adv s prompt = heal ops cfg adv s prompt :=
  healLoopL_eq ops curOf adv prompt Inv hg hf hcur _ _ _ _ s hI

/-- Every `heal` of a history is the single call `healL`, run with the limit in force when it is entered — so it
    makes at most `max_retries + 1` generator calls for the value `max_retries` has *then*, whatever it was at
    construction or during earlier calls, and whatever the callbacks assign while it runs (`max_retries` is read
    once; the decay only moves confidences); its first attempt is shown no error, whatever errors earlier calls on
    the same object ended with.  Through `c18_heal_live_decay_only_changes_confidences` all single-call theorems
    apply to `run`. -/
theorem c18_heal_history_limit_in_force (o : HealObj σ κ C) (s0 : σ) (ops : List (ObjOp σ String)) (i : Nat)
    (u : Unit) (s : σ) (run : HealRun σ κ C) (h : (runObj o.call () s0 ops)[i]? = some (u, s, some run)) :
    ∃ prompt, ops[i]? = some (.call prompt) ∧
      ((), s) = endObj o.call () s0 (ops.take i) ∧
      run = healL o.ops o.curOf ⟨o.retriesOf s⟩ o.adv s prompt ∧
      run.skel = (heal o.ops ⟨o.retriesOf s⟩ o.adv s prompt).skel ∧
      run.calls.length ≤ (o.retriesOf s + 1).toNat ∧
      (∀ c, run.calls[0]? = some c → c.ctx = none) := by
  obtain ⟨prompt, h1, h2, h3⟩ := runObj_call o.call ops () s0 i u s run h
  have hk := (c18_heal_live_decay_only_changes_confidences o.ops o.curOf ⟨o.retriesOf s⟩ o.adv s prompt)
  refine ⟨prompt, h1, h2, h3, ?_, ?_, ?_⟩
  · rw [h3]; exact hk.1
  · rw [h3]; exact hk.2
  · -- nothing of an earlier call's error reaches the first attempt of this one
    have hc : run.calls = (heal o.ops ⟨o.retriesOf s⟩ o.adv s prompt).calls := by
      rw [h3]; exact congrArg (fun x => x.2.1) hk.1
    rw [hc]
    exact (c18_retry_sees_previous_error o.ops ⟨o.retriesOf s⟩ o.adv s prompt).1

/-- The limit in force is the one assigned last: after `loop.max_retries = n` (an assignment `f` that sets the
    limit to `n`), any number of further calls and of assignments to *other* attributes, with callbacks that do
    not touch the limit themselves, the next `heal` makes at most `n + 1` generator calls — whatever the limit
    was when the loop was constructed (`s0`) and whatever happened before (`pre`). -/
theorem c18_heal_history_last_assignment (o : HealObj σ κ C)
    (hq : ∀ s, (∀ p c, o.retriesOf (o.adv.gen s p c).1 = o.retriesOf s) ∧
      ∀ raw, o.retriesOf (o.adv.fold s raw).1 = o.retriesOf s)
    (s0 : σ) (pre mid : List (ObjOp σ String)) (f : σ → σ) (n : Int) (prompt : String)
    (hf : ∀ s, o.retriesOf (f s) = n)
    (hmid : ∀ op ∈ mid, ∀ g, op = .assign g → ∀ s, o.retriesOf (g s) = o.retriesOf s)
    (e : Unit × σ × Option (HealRun σ κ C))
    (h : (runObj o.call () s0 (pre ++ .assign f :: (mid ++ [.call prompt])))[pre.length + 1 + mid.length]? = some e) :
    ∃ run, e.2.2 = some run ∧ run.calls.length ≤ (n + 1).toNat := by
  obtain ⟨op, h1, h2⟩ := runObj_get o.call _ () s0 _ e h
  have hop : op = .call prompt := by
    have : (pre ++ ObjOp.assign f :: (mid ++ [ObjOp.call prompt]))[pre.length + 1 + mid.length]? =
        some (ObjOp.call prompt) := by
      rw [List.getElem?_append_right (by omega)]
      have : pre.length + 1 + mid.length - pre.length = mid.length + 1 := by omega
      rw [this, List.getElem?_cons_succ, List.getElem?_append_right (by omega)]
      simp
    rw [this] at h1
    exact (Option.some.inj h1).symm
  have htake : (pre ++ ObjOp.assign f :: (mid ++ [ObjOp.call prompt])).take (pre.length + 1 + mid.length) =
      pre ++ (ObjOp.assign f :: mid) := by
    have h1 : pre.length + 1 + mid.length = pre.length + (mid.length + 1) := by omega
    rw [h1, List.take_length_add_append, List.take_succ_cons]
    have h2 : mid.length = mid.length + 0 := by omega
    rw [h2, List.take_length_add_append]
    simp
  rw [htake, endObj_append] at h2
  -- the limit is n after the assignment and stays n over `mid`
  have hn : o.retriesOf (endObj o.call (endObj o.call () s0 pre).1 (endObj o.call () s0 pre).2
      (ObjOp.assign f :: mid)).2 = n := by
    simp only [endObj, objStep]
    refine endObj_inv o.call (fun s => o.retriesOf s = n) mid _ _ ?_ (hf _)
    intro op' ho p s hs
    cases op' with
    | assign g =>
      simp only [objStep]
      rw [hmid _ ho g rfl s]; exact hs
    | call a =>
      simp only [objStep, HealObj.call]
      have hst : (healL o.ops o.curOf ⟨o.retriesOf s⟩ o.adv s a).st = (heal o.ops ⟨o.retriesOf s⟩ o.adv s a).st :=
        congrArg (fun x => x.1) (c18_heal_live_decay_only_changes_confidences o.ops o.curOf ⟨o.retriesOf s⟩ o.adv s a).1
      rw [hst]
      exact healLoop_st_inv _ o.adv a (fun s => o.retriesOf s = n)
        (fun s q c h => by rw [(hq s).1 q c]; exact h) (fun s raw h => by rw [(hq s).2 raw]; exact h) _ _ _ _ _ hs
  subst hop
  generalize endObj o.call (endObj o.call () s0 pre).1 (endObj o.call () s0 pre).2 (ObjOp.assign f :: mid) = st at h2 hn
  refine ⟨(o.call st.1 st.2 prompt).2.2, by rw [h2]; rfl, ?_⟩
  have hb := (c18_heal_live_decay_only_changes_confidences o.ops o.curOf ⟨o.retriesOf st.2⟩ o.adv st.2 prompt).2
  refine Nat.le_trans hb ?_
  show (o.retriesOf st.2 + 1).toNat ≤ (n + 1).toNat
  rw [hn]
  exact Nat.le_refl _

/-- Every `supervise` of a history on one swarm is the single call `superviseL` (below: the swarm with its limits
    read where the code reads them), entered with the counters the earlier calls left and with the limits as
    they are then: the `i`-th worker of the call (counting from 0) is spawned only while `i ≤ max_regenerations`
    as read by the loop test just before it, so at most `M + 1` workers for any `M` that bounds the values read;
    each worker runs at most the `max_steps_per_worker` read when it was started; the counter grows by the spawns. -/
theorem c18_swarm_history_limits_in_force (o : SwarmObj σ W ω η ι τ) (sw0 : SwarmSt ι η) (s0 : σ)
    (ops : List (ObjOp σ τ)) (i : Nat) (sw : SwarmSt ι η) (s : σ) (run : SwarmRunL σ W ω η ι)
    (h : (runObj o.call sw0 s0 ops)[i]? = some (sw, s, some run)) :
    ∃ task, ops[i]? = some (.call task) ∧ (sw, s) = endObj o.call sw0 s0 (ops.take i) ∧
      run = superviseL o.live o.adv task o.hints0 o.fuel sw s ∧
      (∀ M, (∀ rm ∈ run.reads, rm.1 ≤ M) → run.spawns.length ≤ (M + 1).toNat) ∧
      (∀ (j : Nat) (sp : Spawn W ω η) (rm : Int × Int), run.spawns[j]? = some sp → run.reads[j]? = some rm →
        sp.steps.length ≤ rm.2.toNat) ∧
      run.sw.counter = sw.counter + run.spawns.length := by
  obtain ⟨task, h1, h2, h3⟩ := runObj_call o.call ops sw0 s0 i sw s run h
  have f := superviseLoopL_facts o.live o.adv task o.fuel 0 o.hints0 sw s
  refine ⟨task, h1, h2, h3, ?_, ?_, ?_⟩
  · intro M hM
    rw [h3] at hM ⊢
    have := liveFacts_spawns_le o.live o.adv 0 sw _ f M hM
    simp only [Int.natCast_zero, Int.sub_zero] at this
    exact this
  · rw [h3]; exact f.steps
  · rw [h3]; exact f.counter

/-- With callbacks that leave the swarm's limits alone (they keep an invariant `Inv` of the environment state
    under which the limits read are `cfg` / `code`), every `supervise` of the history that is entered in such a
    state is the entry-snapshot model of the theorems above, run with the limits in force at entry: at most
    `max_regenerations + 1` workers and `max_steps_per_worker` steps on each, for the values they have then. -/
theorem c18_swarm_history_exact_when_limits_untouched (o : SwarmObj σ W ω η ι τ) (code : SwarmCode ω)
    (cfg : SwarmCfg) (Inv : σ → Prop)
    (hfac : ∀ s n h, Inv s → Inv (o.adv.factory s n h).1) (hstep : ∀ s w t, Inv s → Inv (o.adv.step s w t).1)
    (hsum : ∀ s w, Inv s → Inv (o.adv.summarize s w).1)
    (hcode : ∀ s, Inv s → o.live.codeAt s = code) (hcfg : ∀ s, Inv s → o.live.cfgAt s = cfg)
    (sw0 : SwarmSt ι η) (s0 : σ) (ops : List (ObjOp σ τ)) (i : Nat) (sw : SwarmSt ι η) (s : σ)
    (run : SwarmRunL σ W ω η ι) (h : (runObj o.call sw0 s0 ops)[i]? = some (sw, s, some run)) (hI : Inv s) :
    ∃ task, run.toRun = superviseLoop code cfg o.adv task o.fuel 0 o.hints0 sw s ∧
      run.spawns.length ≤ (cfg.maxRegen + 1).toNat ∧
      ∀ sp ∈ run.spawns, sp.steps.length ≤ cfg.maxSteps.toNat := by
  obtain ⟨task, _, _, h3⟩ := runObj_call o.call ops sw0 s0 i sw s run h
  have e := (superviseLoopL_eq o.live code cfg o.adv task Inv hfac hstep hsum hcode hcfg o.fuel 0 o.hints0 sw s hI).1
  have e' : run.toRun = superviseLoop code cfg o.adv task o.fuel 0 o.hints0 sw s := by rw [h3]; exact e
  have hsp : run.spawns = (superviseLoop code cfg o.adv task o.fuel 0 o.hints0 sw s).spawns := by
    rw [← e']; rfl
  refine ⟨task, e', ?_, ?_⟩
  · rw [hsp]
    have := c18_swarm_workers_le_regen_succ_loop code cfg o.adv task o.fuel 0 o.hints0 sw s
    simpa using this
  · rw [hsp]
    exact fun sp hsp' => (superviseLoop_spawn_facts code cfg o.adv task _ _ _ _ _ sp hsp').steps_le

/-- Every tool loop of a history on one nucleus keeps to the budget *of that call* (`max_iterations` is an
    argument): at most that many rounds plus one final completion, whatever the earlier calls on the same
    object did, whatever the log holds and whatever `export_tool_schemas()` answers; each call appends at most
    one transcription to the log. -/
theorem c18_tool_history_budget_per_call (adv : ToolAdv σ ρ κ θ) (log0 : List (TLog ρ θ)) (s0 : σ)
    (ops : List (ObjOp σ (Out Bool × ToolCfg))) (i : Nat) (log : List (TLog ρ θ)) (s : σ) (run : ToolRun σ ρ κ θ)
    (h : (runObj (nucCallM adv) log0 s0 ops)[i]? = some (log, s, some run)) :
    ∃ a, ops[i]? = some (.call a) ∧ run = transcribeWithToolsM a.1 a.2 adv s ∧
      toolRounds run.evs ≤ a.2.maxIter.toNat ∧ completions run.evs ≤ 1 ∧
      (nucCallM adv log s a).1.length ≤ log.length + 1 := by
  obtain ⟨a, h1, _, h3⟩ := runObj_call (nucCallM adv) ops log0 s0 i log s run h
  have hb := c18_tool_loop_schemas_callback a.1 a.2 adv s
  refine ⟨a, h1, h3, ?_, ?_, ?_⟩
  · rw [h3]; exact hb.1
  · rw [h3]; exact hb.2.1
  · simp only [nucCallM, List.length_append]
    have : (transcribeWithToolsM a.1 a.2 adv s).logged.length ≤ 1 := by
      cases hs : a.1 with
      | raise => simp [transcribeWithToolsM]
      | ok b =>
        simp only [transcribeWithToolsM]
        exact (c18_tool_loop_rounds_le_max_plus_final ⟨a.2.maxIter, a.2.autoExec, b, a.2.hasToolApi⟩ adv s).2.2.2.2
    omega

end Histories

/-! ### Non-vacuity: concrete adversaries meeting the hypotheses -/

private def natOps : ConfOps Nat := ⟨0, fun k => 10 - k, Nat.min⟩
/-- never valid -/
private def advNever : HealAdv Nat Unit Nat :=
  ⟨fun i _ _ => (i + 1, .ok "bad"), fun i _ => (i, .ok ⟨false, 0, some "boom", ()⟩)⟩
/-- valid at the third attempt -/
private def advThird : HealAdv Nat Unit Nat :=
  ⟨fun i _ _ => (i + 1, .ok "x"), fun i _ => (i, .ok ⟨decide (i ≥ 3), 7, none, ()⟩)⟩

/-- a never-valid generator uses the whole budget (3 + 1 calls) and is degraded: the hypotheses of
    `c18_degraded_tagged_conf_zero` are met and the bound of `c18_heal_calls_le_retries_succ` is tight -/
example : (heal natOps ⟨3⟩ advNever 0 "p").calls.length = 4 ∧
    (heal natOps ⟨3⟩ advNever 0 "p").res.toOption.map (fun r => (r.outcome, r.tagged)) = some (.degraded, true) := by
  decide

/-- a generator that becomes valid at the third attempt is HEALED with the decayed confidence: the hypotheses
    of `c18_healed_only_if_valid` are met -/
example : (heal natOps ⟨5⟩ advThird 0 "p").calls.length = 3 ∧
    (heal natOps ⟨5⟩ advThird 0 "p").res.toOption.map (fun r => (r.outcome, r.finalConf, r.tagged)) =
      some (.healed, 7, false) := by
  decide

/-- the retry is shown the previous attempt's error (`calls[1]` exists, so `c18_retry_sees_previous_error`'s
    hypothesis is met) -/
example : ((heal natOps ⟨3⟩ advNever 0 "p").calls[1]?.map (·.ctx)) = some (some ⟨"boom", shownPrefix "bad"⟩) := by
  decide

/-- budget −1: the generator is never called and the result is degraded -/
example : (heal natOps ⟨-1⟩ advNever 0 "p").calls.length = 0 := by decide


/-- a live loop whose environment state is (call counter, max_retries): never valid -/
private def liveNever : HealObj (Nat × Int) Unit Nat :=
  ⟨⟨fun s _ _ => ((s.1 + 1, s.2), .ok "bad"), fun s _ => (s, .ok ⟨false, 0, some "boom", ()⟩)⟩, fun s => s.2, natOps,
   fun _ => natOps.cur⟩

/-- built with max_retries 4, the attribute lowered to 1, then `heal` with a generator that stays invalid: 2
    generator calls, not 5 (the history of seeded change p1; hypotheses of `c18_heal_history_last_assignment`
    met with `pre = []`, `mid = []`); a second call after raising the limit to 2 makes 3 -/
example : ((runObj liveNever.call () (0, 4) [.assign fun s => (s.1, 1), .call "p", .assign fun s => (s.1, 2), .call "p"]).map
    fun e => e.2.2.map fun r => r.calls.length) = [none, some 2, none, some 3] := by decide

/-! ### Timing (round 8): `step_timeout` and the durations of the callbacks -/

/-- Timing does not move the budgets: whatever `step_timeout` holds (`None`, zero, tiny, huge, negative; also re-assigned
    by the callbacks while `supervise` runs) and however long the factory, the steps and the summarizer take by the
    clock (`tick`: any function of environment, timeout and clock), `supervise` spawns the same workers, runs the same
    steps on each, returns the same result and leaves the same instance state as the run in which no time passes at
    all.  Hence every clause above (`≤ max_regenerations + 1` workers, `≤ max_steps_per_worker` steps on each, success
    only with a marker) holds for every timeout and every duration of the steps. -/
theorem c18_swarm_blind_to_timing (code : SwarmCode ω) (cfg : SwarmCfg) (adv : SwarmAdv σ W ω η ι τ)
    (tick : Timed σ → Option Int × Int) (task : τ) (hints0 : η) (sw : SwarmSt ι η) (t : Timed σ) :
    (supervise code cfg (adv.timed tick) task hints0 sw t).spawns = (supervise code cfg adv task hints0 sw t.env).spawns ∧
    (supervise code cfg (adv.timed tick) task hints0 sw t).res = (supervise code cfg adv task hints0 sw t.env).res ∧
    (supervise code cfg (adv.timed tick) task hints0 sw t).sw = (supervise code cfg adv task hints0 sw t.env).sw ∧
    (supervise code cfg (adv.timed tick) task hints0 sw t).st.env = (supervise code cfg adv task hints0 sw t.env).st :=
  have h := superviseLoop_timed code cfg adv tick task (superviseFuel cfg) 0 hints0 sw t
  ⟨h.2.2.2, h.2.2.1, h.2.1, h.1⟩

/-- The step budget under any timing, stated directly: with a `step_timeout` of any value and steps of any duration no
    spawned worker is stepped more than `max_steps_per_worker` times and at most `max_regenerations + 1` workers are
    spawned. -/
theorem c18_swarm_budgets_under_any_timing (code : SwarmCode ω) (cfg : SwarmCfg) (adv : SwarmAdv σ W ω η ι τ)
    (tick : Timed σ → Option Int × Int) (task : τ) (hints0 : η) (sw : SwarmSt ι η) (t : Timed σ) :
    (supervise code cfg (adv.timed tick) task hints0 sw t).spawns.length ≤ (cfg.maxRegen + 1).toNat ∧
    ∀ sp ∈ (supervise code cfg (adv.timed tick) task hints0 sw t).spawns, sp.steps.length ≤ cfg.maxSteps.toNat :=
  ⟨(c18_swarm_workers_le_regen_succ code cfg (adv.timed tick) task hints0 sw t).1,
   c18_swarm_steps_le_max code cfg (adv.timed tick) task hints0 sw t⟩

private def code0 : SwarmCode Nat := ⟨fun o => o == 99, fun l => l.eraseDups.length, fun _ _ => false⟩
/-- workers that count up and never emit the marker -/
private def swNever : SwarmAdv Nat Nat Nat Nat Nat Unit :=
  ⟨fun i n _ => (i, .ok n), fun i _ _ => (i + 1, .ok i), fun i _ => (i, .ok 0), fun w => w⟩
/-- the fifth step overall emits the marker 99 -/
private def swFifth : SwarmAdv Nat Nat Nat Nat Nat Unit :=
  ⟨fun i n _ => (i, .ok n), fun i _ _ => (i + 1, .ok (if i = 4 then 99 else i)), fun i _ => (i, .ok 0), fun w => w⟩

/-- never succeeding: exactly 2 + 1 workers with 3 steps each, failure — the hypotheses of
    `c18_swarm_failure_only_after_budget` are met and the bounds are tight -/
example : ((supervise code0 ⟨2, 3⟩ swNever () 0 ⟨0, [], []⟩ 0).spawns.map (·.steps.length)) = [3, 3, 3] ∧
    ((supervise code0 ⟨2, 3⟩ swNever () 0 ⟨0, [], []⟩ 0).res.bind Out.toOption).map (fun r => (r.success, r.total)) =
      some (false, 3) := by
  decide

/-- timing, non-vacuity: a zero `step_timeout` and steps that take 10 s each (every step overruns the timeout), budget
    1 + 1 workers x 2 steps: two workers with two steps each, as with no time passing; eight callbacks ran (2 x (factory + 2 steps + summarizer)) -/
example : ((supervise code0 ⟨1, 2⟩ (swNever.timed fun t => (some 0, t.clock + 10000000)) () 0 ⟨0, [], []⟩
      ⟨0, some 0, 0⟩).spawns.map (·.steps.length)) = [2, 2] ∧
    (supervise code0 ⟨1, 2⟩ (swNever.timed fun t => (some 0, t.clock + 10000000)) () 0 ⟨0, [], []⟩
      ⟨0, some 0, 0⟩).st.clock = 80000000 := by
  decide

/-- success on the second worker: the hypotheses of `c18_swarm_success_only_with_marker` are met -/
example : ((supervise code0 ⟨2, 3⟩ swFifth () 0 ⟨0, [], []⟩ 0).res.bind Out.toOption).map
      (fun r => (r.success, r.output, r.finalId)) = some (true, some 99, some 2) := by
  decide

/-- a stuck worker (always the same output) under an entropy test that fires on fewer than two distinct outputs:
    every worker is abandoned after 3 of its 6 allowed steps — the hypotheses of
    `c18_swarm_early_exit_only_on_collapse` are met -/
example : ((supervise ⟨fun o => o == 99, fun l => l.eraseDups.length, fun u _ => u < 2⟩ ⟨1, 6⟩
      (⟨fun i n _ => (i, .ok n), fun i _ _ => (i, .ok 5), fun i _ => (i, .ok 0), fun w => w⟩ :
        SwarmAdv Nat Nat Nat Nat Nat Unit) () 0 ⟨0, [], []⟩ 0).spawns.map
      (fun sp => (sp.steps.length, sp.summ.isSome))) = [(3, true), (3, true)] := by
  decide


/-- outputs 5, 6, 7, 7, 7 under an entropy test that fires on fewer than two distinct outputs: the worker is kept for
    four steps and given up at the fifth (the window 7, 7, 7) — the hypothesis `j + 1 < steps.length` of
    `c18_swarm_no_premature_abandon` is met for j = 0 … 3 -/
example : ((supervise ⟨fun o => o == 99, fun l => l.eraseDups.length, fun u _ => u < 2⟩ ⟨0, 9⟩
      (⟨fun i n _ => (i, .ok n), fun i _ _ => (i + 1, .ok (if i < 2 then 5 + i else 7)), fun i _ => (i, .ok 0), fun w => w⟩ :
        SwarmAdv Nat Nat Nat Nat Nat Unit) () 0 ⟨0, [], []⟩ 0).spawns.map
      (fun sp => sp.steps.length)) = [5] := by
  decide

/-- the string reading of the marker: "all done" succeeds, "DON E" does not -/
example : strMarker "all done" = true ∧ strMarker "DON E" = false ∧ strMarker "incomplete" = true := by decide +kernel

/-- a provider that always asks for one tool (an `Insatiable` adversary exists) -/
private def provForever : ToolAdv Nat Nat Nat Nat :=
  ⟨fun i _ => (i + 1, .ok (i, [i])), fun _ calls => !calls.isEmpty, fun i _ => (i, .ok 1000), fun i c => (i, .ok c)⟩

example : Insatiable provForever :=
  ⟨fun s _ => ⟨s + 1, s, [s], rfl, rfl⟩, fun s c => ⟨s, c, rfl⟩, fun s _ => ⟨s, 1000, rfl⟩⟩

/-- a provider whose `tool_calls` object is truthy but yields nothing (a generator object): also `Insatiable`, so
    exactly `max_iterations` rounds without a single execution, then one completion -/
private def provEmptyGenerator : ToolAdv Nat Nat Nat Nat :=
  ⟨fun i _ => (i + 1, .ok (i, [])), fun _ _ => true, fun i _ => (i, .ok 1000), fun i c => (i, .ok c)⟩

example : toolRounds (transcribeWithTools ⟨3, true, true, true⟩ provEmptyGenerator 0).evs = 3 ∧
    completions (transcribeWithTools ⟨3, true, true, true⟩ provEmptyGenerator 0).evs = 1 ∧
    (transcribeWithTools ⟨3, true, true, true⟩ provEmptyGenerator 0).evs.length = 4 := by
  decide

/-- against it, max_iterations = 3 gives exactly 3 rounds and one final completion, whose response is returned -/
example : toolRounds (transcribeWithTools ⟨3, true, true, true⟩ provForever 0).evs = 3 ∧
    completions (transcribeWithTools ⟨3, true, true, true⟩ provForever 0).evs = 1 ∧
    (transcribeWithTools ⟨3, true, true, true⟩ provForever 0).res = some (.ok 1000) := by
  decide

/-- a summarizer that raises when the second dead worker is summarized (state: steps made, summaries made) -/
private def swSummRaises : SwarmAdv (Nat × Nat) Nat Nat Nat Nat Unit :=
  ⟨fun s n _ => (s, .ok n), fun s _ _ => ((s.1 + 1, s.2), .ok s.1),
   fun s _ => ((s.1, s.2 + 1), if s.2 = 1 then .raise else .ok 0), fun w => w⟩

/-- budget 5 + 1 workers, the summarizer raises at the second one: the call raises, exactly two workers were spawned
    and the raising spawn is the last (hypotheses of `c18_swarm_exceptions_propagate` met; the history of seeded
    change s1) -/
example : (match (supervise code0 ⟨5, 2⟩ swSummRaises () 0 ⟨0, [], []⟩ (0, 0)).res with
      | some .raise => true | _ => false) = true ∧
    ((supervise code0 ⟨5, 2⟩ swSummRaises () 0 ⟨0, [], []⟩ (0, 0)).spawns.map (·.summ)) = [some (.ok 0), some .raise] := by
  decide

/-- a validator that raises at the third attempt: `heal` raises after exactly three generator calls -/
example : (match (heal natOps ⟨5⟩ (⟨fun i _ _ => (i + 1, .ok "x"), fun i _ => (i, if i = 3 then .raise else .ok ⟨false, 0, none, ()⟩)⟩ :
      HealAdv Nat Unit Nat) 0 "p").res with | .raise => true | _ => false) = true ∧
    (heal natOps ⟨5⟩ (⟨fun i _ _ => (i + 1, .ok "x"), fun i _ => (i, if i = 3 then .raise else .ok ⟨false, 0, none, ()⟩)⟩ :
      HealAdv Nat Unit Nat) 0 "p").calls.length = 3 := by
  decide

/-- a tool executor that raises in the second round: two rounds, no completion, the exception propagates -/
example : (transcribeWithTools ⟨4, true, true, true⟩
      (⟨fun i _ => (i + 1, .ok (i, [i])), fun _ calls => !calls.isEmpty, fun i _ => (i, .ok 1000),
        fun i c => (i, if c = 1 then .raise else .ok c)⟩ : ToolAdv Nat Nat Nat Nat) 0).res = some .raise ∧
    toolRounds (transcribeWithTools ⟨4, true, true, true⟩
      (⟨fun i _ => (i + 1, .ok (i, [i])), fun _ calls => !calls.isEmpty, fun i _ => (i, .ok 1000),
        fun i c => (i, if c = 1 then .raise else .ok c)⟩ : ToolAdv Nat Nat Nat Nat) 0).evs = 2 ∧
    completions (transcribeWithTools ⟨4, true, true, true⟩
      (⟨fun i _ => (i + 1, .ok (i, [i])), fun _ calls => !calls.isEmpty, fun i _ => (i, .ok 1000),
        fun i c => (i, if c = 1 then .raise else .ok c)⟩ : ToolAdv Nat Nat Nat Nat) 0).evs = 0 := by
  decide

end Operon.Loops
