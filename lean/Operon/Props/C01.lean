import Operon.Lemmas.C01
import Operon.Lemmas.C01Work
import Operon.Lemmas.C01Reach
import Operon.Lemmas.C01VisitsReach
import Operon.Lemmas.MitoBox
import Operon.Model.MitoText
import Operon.Gen.MitoFacts
/-!
# C01 — the safe evaluator is confined to its allow-list, total, and resource-bounded

Property theorems only.  Model: `Operon/Model/Mito.lean` (`walk` mirrors `Mitochondria._compute_node`,
`metabolize` the entry point), tied to `operon_ai/organelles/mitochondria.py` by (i) the extractor E1, which
regenerates `Operon/Gen/MitoFacts.lean` on every run — the four tables by reflection, the set of handled
`ast.expr` classes by probing the real walker with every class of the running interpreter, the handler placement
by parsing — and (ii) the differential correspondence of `harness/vf/props/c01.py` (tracer objects; identical
protocol lines to the real code and to the driver; full interaction traces compared).

All theorems quantify over every expression tree (`Expr`, including `other k cs` for EVERY node-class name `k`),
every table content `T` unless stated for the extracted tables, and every environment `env` (every behaviour of
operators, functions, `bool()` and tools, including raising).
-/
set_option linter.unusedSimpArgs false
namespace Operon.Mito
open R

/-! ### The property text, as data -/

/-- the operators the engine may apply: arithmetic, sign, comparison -/
def approvedPrims : List Prim :=
  [.add, .sub, .mul, .truediv, .floordiv, .mod, .pow, .neg, .pos, .eq, .ne, .lt, .le, .gt, .ge]

/-- what an allow-listed name may be bound to: a numeric constant, a value-only builtin, a numeric `math` function -/
def approvedBindings : List String :=
  ["const:float", "const:int",
   "builtins.abs", "builtins.round", "builtins.min", "builtins.max", "builtins.sum", "builtins.len", "builtins.int",
   "builtins.float", "builtins.bool", "builtins.pow", "builtins.divmod",
   "math.sqrt", "math.sin", "math.cos", "math.tan", "math.asin", "math.acos", "math.atan", "math.atan2",
   "math.sinh", "math.cosh", "math.tanh", "math.asinh", "math.acosh", "math.atanh", "math.log", "math.log10",
   "math.log2", "math.log1p", "math.exp", "math.expm1", "math.pow", "math.ceil", "math.floor", "math.trunc",
   "math.factorial", "math.gcd", "math.lcm", "math.degrees", "math.radians", "math.fabs", "math.isqrt",
   "math.hypot", "math.copysign", "math.fmod", "math.isnan", "math.isinf", "math.isfinite", "math.erf",
   "math.erfc", "math.gamma", "math.lgamma", "math.cbrt", "math.exp2", "math.comb", "math.perm", "math.dist",
   "math.fsum", "math.prod", "math.remainder"]

/-- the node classes that may be evaluated — exactly the constructors of `Expr` other than `other` -/
def allowedKinds : List String :=
  ["BinOp", "BoolOp", "Call", "Compare", "Constant", "IfExp", "List", "Name", "Tuple", "UnaryOp"]

/-- the operator classes the model's enumerations `BinK` / `UnK` / `CmpK` / `BoolK` cover -/
def knownOperatorClasses : List String :=
  ["Add", "Sub", "Mult", "Div", "FloorDiv", "Mod", "Pow", "LShift", "RShift", "BitOr", "BitXor", "BitAnd", "MatMult",
   "USub", "UAdd", "Not", "Invert", "Eq", "NotEq", "Lt", "LtE", "Gt", "GtE", "Is", "IsNot", "In", "NotIn", "And", "Or"]

/-! ### Confinement -/

/-- The allow-list read from the CURRENT source is inside the approved sets: every operator-table entry is an
    approved `operator.*` function, every name is bound to a numeric constant or an approved pure function, no table
    key is unknown; the classes the real walker handles (found by probing it with every `ast.expr` class of the
    running interpreter) are exactly the ten allowed ones, every other class ends in the final raise, a call needs
    a plain-name callee, and every operator class of the interpreter is one the model knows.  By `decide` over the
    regenerated facts (complete finite tables: a proof, not a sample). -/
theorem c01_tables_confined :
    (∀ p ∈ primsOf Gen.tables, p ∈ approvedPrims) ∧
    (∀ kv ∈ Gen.fnKinds, kv.2 ∈ approvedBindings) ∧
    Gen.tables.names = Gen.fnKinds.map (·.1) ∧
    Gen.unknownTableKeys = [] ∧
    Gen.handledKinds = allowedKinds ∧
    (∀ k ∈ allowedKinds, k ∈ Gen.exprClasses) ∧
    Gen.finalRaise = true ∧ Gen.callNeedsNameCallee = true ∧
    (∀ c ∈ Gen.operatorClasses ++ Gen.unaryopClasses ++ Gen.cmpopClasses ++ Gen.boolopClasses,
        c ∈ knownOperatorClasses) := by
  decide

/-- Every interaction of the walker with its environment is allowed, for every tree, every table content and every
    environment: a lookup of a table-listed name, an application of a primitive found in the operator tables,
    `bool()` of a value, or a call of the value bound to a table-listed name.  (Attribute access, subscripting,
    lambda, comprehension, f-string, import are not even expressible as an action; that this is not vacuous is the
    content of `c01_tables_confined`, `c01_refused_node_fails` and `c01_forbidden_in_strict_position_fails`.) -/
theorem c01_walk_confined (T : Tables) (env : Env) (e : Expr) : ∀ a ∈ (walk T env e).1, Allowed T env a :=
  walk_confined T env e

/-- With the tables of the current source: every action is a lookup of one of the extracted names, an APPROVED
    operator, `bool()`, or a call of the binding of one of the extracted names (all approved pure functions). -/
theorem c01_engine_confined (env : Env) (e : Expr) (a : Act) (ha : a ∈ (walk Gen.tables env e).1) :
    match a with
    | .lookup n => n ∈ Gen.tables.names
    | .prim p _ => p ∈ approvedPrims
    | .truthy _ => True
    | .apply f _ _ => ∃ n, n ∈ Gen.tables.names ∧ f = env.lookup n
    | .tool _ _ _ => False := by
  have h := walk_confined Gen.tables env e a ha
  cases a with
  | lookup n => exact h
  | prim p args => exact c01_tables_confined.1 p h
  | truthy n => trivial
  | apply f as ks => exact h
  | tool n as ks => exact h

/-- A node of ANY other class (whatever its name and children) is refused on the spot: failure, nothing executed. -/
theorem c01_refused_node_fails (T : Tables) (env : Env) (k : String) (cs : List Expr) :
    walk T env (.other k cs) = ([], .error "ValueError: unsupported expression type") := by
  simp [walk, R.fail]

/-- A refused node in a strict position — operand, argument, keyword value before any `**`, list/tuple element,
    left side or first comparator of a comparison, first operand of and/or, test of a conditional, at any depth —
    makes the whole evaluation fail. -/
theorem c01_forbidden_in_strict_position_fails (T : Tables) (env : Env) (e : Expr) (k : String) (cs : List Expr)
    (h : Expr.other k cs ∈ e.strictSub) : (walk T env e).failed :=
  strict_fails T env e _ h ⟨_, by rw [c01_refused_node_fails]⟩

/-- More generally an error at a strictly evaluated sub-expression is never swallowed. -/
theorem c01_errors_propagate (T : Tables) (env : Env) (e n : Expr) (h : n ∈ e.strictSub)
    (hn : (walk T env n).failed) : (walk T env e).failed :=
  strict_fails T env e n h hn

/-- A call whose callee is not a plain name (attribute, subscript, lambda, another call, ...) fails without
    evaluating anything. -/
theorem c01_computed_callee_fails (T : Tables) (env : Env) (f : Expr) (args kv : List Expr)
    (kn : List (Option String)) (hf : ∀ n, f ≠ .name n) :
    (walk T env (.call f args kn kv)).failed ∧ (walk T env (.call f args kn kv)).1 = [] := by
  unfold walk
  cases f <;> first | exact absurd rfl (hf _) | exact ⟨failed_fail _, rfl⟩

/-- A name outside the table is never looked up: failure, nothing executed (as a variable and as a callee). -/
theorem c01_unlisted_name_fails (T : Tables) (env : Env) (n : String) (hn : n ∉ T.names) (args kv : List Expr)
    (kn : List (Option String)) :
    walk T env (.name n) = ([], .error "ValueError: unknown variable") ∧
    walk T env (.call (.name n) args kn kv) = ([], .error "ValueError: unknown function") := by
  constructor <;> simp [walk, hn, R.fail]

/-- No list of syntactic positions: `reached T env e` are the nodes the walker actually enters while evaluating `e`
    (following the values: the deciding operand of and/or, the links of a comparison chain up to the first falsy one,
    the taken branch of a conditional, at any depth).  A failure at ANY reached node is never swallowed. -/
theorem c01_errors_never_swallowed (T : Tables) (env : Env) (e n : Expr) (h : n ∈ reached T env e)
    (hn : (walk T env n).failed) : (walk T env e).failed :=
  reached_fails T env n hn e h

/-- Hence: a SUCCESSFUL evaluation reached no node of a refused class (attribute access, subscript, lambda,
    comprehension, f-string, walrus, starred, dict/set display, await/yield, … — `other k cs` for every class name `k`),
    no call with a computed callee, no call of and no reference to a name outside the table — in strict and in
    conditional positions alike. -/
theorem c01_success_reaches_only_allowed_nodes (T : Tables) (env : Env) (e : Expr) (v : Val)
    (h : (walk T env e).2 = .ok v) (n : Expr) (hn : n ∈ reached T env e) :
    (∀ k cs, n ≠ .other k cs) ∧
    (∀ f args kn kv, n = .call f args kn kv → ∃ fn, f = .name fn ∧ fn ∈ T.names) ∧
    (∀ id, n = .name id → id ∈ T.names) := by
  have ok : ¬ (walk T env e).failed := fun ⟨er, he⟩ => by rw [h] at he; cases he
  have key : ¬ (walk T env n).failed := fun hf => ok (c01_errors_never_swallowed T env e n hn hf)
  refine ⟨fun k cs hk => key ?_, fun f args kn kv hc => ?_, fun id hi => ?_⟩
  · subst hk; exact ⟨_, by rw [c01_refused_node_fails]⟩
  · subst hc
    cases f with
    | name fn =>
      refine ⟨fn, rfl, ?_⟩
      by_cases hm : fn ∈ T.names
      · exact hm
      · exact absurd ⟨_, by rw [(c01_unlisted_name_fails T env fn hm args kv kn).2]⟩ key
    | _ => exact absurd (c01_computed_callee_fails T env _ args kv kn (fun m hm => by cases hm)).1 key
  · subst hi
    by_cases hm : id ∈ T.names
    · exact hm
    · exact absurd ⟨_, by rw [(c01_unlisted_name_fails T env id hm [] [] []).1]⟩ key

/-- The tool pathway: everything before the tool body is walker-confined, and at most ONE tool body runs — the last
    action — and only when the expression is a call whose callee is the plain name of a registered tool that
    passed the capability check. -/
theorem c01_tool_path (T : Tables) (env : Env) (tools : List ToolReg) (allowed : Option (List String)) (e : Expr) :
    ∃ pre, (∀ a ∈ pre, Allowed T env a) ∧
      ((toolPath T env tools allowed e).1 = pre ∨
       ∃ tn args kn kv t as ks, e = .call (.name tn) args kn kv ∧ findTool tools tn = some t ∧
         capsOk allowed t = true ∧ (toolPath T env tools allowed e).1 = pre ++ [.tool tn as ks]) := by
  unfold toolPath
  split
  · rename_i tn args kn kv
    split
    · exact ⟨[], by simp, Or.inl rfl⟩
    · rename_i t ht
      split
      · rename_i hcap
        have h1 := walkList_confined T env args
        have h2 := walkKws_confined T env kn kv
        rcases hw : walkList T env args with ⟨t1, r1⟩
        rw [hw] at h1
        cases r1 with
        | error er => exact ⟨t1, h1, Or.inl rfl⟩
        | ok as =>
          rcases hk : walkKws T env kn kv with ⟨t2, r2⟩
          rw [hk] at h2
          cases r2 with
          | error er =>
            refine ⟨t1 ++ t2, ?_, Or.inl (by simp [R.bind])⟩
            intro a ha; rcases List.mem_append.mp ha with h | h
            · exact h1 a h
            · exact h2 a h
          | ok ks =>
            refine ⟨t1 ++ t2, ?_, Or.inr ⟨tn, args, kn, kv, t, as, dictOf ks, rfl, ht, hcap, by simp [R.bind, R.act]⟩⟩
            intro a ha; rcases List.mem_append.mp ha with h | h
            · exact h1 a h
            · exact h2 a h
      · exact ⟨[], by simp, Or.inl rfl⟩
  · exact ⟨[], by simp, Or.inl rfl⟩
  · exact ⟨[], by simp, Or.inl rfl⟩

/-- Star-star unpacking in a tool call is refused, never dropped: with a `**mapping` argument among the keywords the
    tool pathway fails and the tool body does not run (every action that did happen is a walker action). -/
theorem c01_tool_call_with_unpacking_refused (T : Tables) (env : Env) (tools : List ToolReg)
    (allowed : Option (List String)) (f : Expr) (args kv : List Expr) (kn : List (Option String))
    (hs : none ∈ kn) (hl : kn.length = kv.length) :
    (toolPath T env tools allowed (.call f args kn kv)).failed ∧
    ∀ a ∈ (toolPath T env tools allowed (.call f args kn kv)).1, Allowed T env a := by
  unfold toolPath
  split
  · rename_i tn args' kn' kv' heq
    cases heq
    split
    · exact ⟨failed_fail _, by simp⟩
    · split
      · refine ⟨bind_failed_right _ _ fun as => bind_failed_left _ _ (walkKws_star_fails T env kn kv hs hl), ?_⟩
        refine bind_all' _ _ _ (walkList_confined T env args) fun as _ => ?_
        have hk := walkKws_star_fails T env kn kv hs hl
        obtain ⟨er, he⟩ := hk
        rcases hw : walkKws T env kn kv with ⟨t2, r2⟩
        have h2 := walkKws_confined T env kn kv
        rw [hw] at h2 he
        simp only at he
        subst he
        simpa [R.bind] using h2
      · exact ⟨failed_fail _, by simp⟩
  · exact ⟨failed_fail _, by simp⟩
  · exact ⟨failed_fail _, by simp⟩

/-- The same for what `metabolize` actually dispatches to (`toolPathway` = tree-level repeated-keyword check, then
    `toolPath`): the check only adds a failure that executes nothing. -/
theorem c01_tool_pathway (T : Tables) (env : Env) (tools : List ToolReg) (allowed : Option (List String)) (e : Expr) :
    ∃ pre, (∀ a ∈ pre, Allowed T env a) ∧
      ((toolPathway T env tools allowed e).1 = pre ∨
       ∃ tn args kn kv t as ks, e = .call (.name tn) args kn kv ∧ findTool tools tn = some t ∧
         capsOk allowed t = true ∧ (toolPathway T env tools allowed e).1 = pre ++ [.tool tn as ks]) := by
  unfold toolPathway
  split
  · exact ⟨[], by simp, Or.inl rfl⟩
  · exact c01_tool_path T env tools allowed e

/-- What one call of the entry point may do: a walker action, or running a registered tool that passed the capability
    check. -/
def AllowedEntry (T : Tables) (env : Env) (cfg : Cfg) (a : Act) : Prop :=
  Allowed T env a ∨ ∃ tn as ks t, a = .tool tn as ks ∧ findTool cfg.tools tn = some t ∧ capsOk cfg.allowed t = true

/-- Confinement at the ENTRY POINT, for every pathway — forced or auto-detected (`detect` is arbitrary) —, every
    configuration, input, table content and environment: every environment interaction of one `metabolize` call is a
    walker action allowed by the tables (listed name, table operator, `bool()`, call of a listed binding) or the body of a
    registered, permitted tool; a tool body runs at most once, as the LAST action, and only on the tool pathway.  The
    logic pathway adds one `bool()`; the transform pathway interacts with nothing. -/
theorem c01_metabolize_confined (T : Tables) (env : Env) (cfg : Cfg) (latched : Bool) (d : Pathway) (inp : Inp)
    (forced : Option Pathway) :
    (∀ a ∈ (metabolize T env cfg latched d inp forced).1, AllowedEntry T env cfg a) ∧
    (∀ pre tn as ks rest, (metabolize T env cfg latched d inp forced).1 = pre ++ Act.tool tn as ks :: rest →
        rest = [] ∧ forced.getD d = .oxidative ∧ ∀ a ∈ pre, Allowed T env a) := by
  have key : ∀ p, (∀ a ∈ (pathwayBody T env cfg inp p).1, AllowedEntry T env cfg a) ∧
      (∀ pre tn as ks rest, (pathwayBody T env cfg inp p).1 = pre ++ Act.tool tn as ks :: rest →
        rest = [] ∧ p = .oxidative ∧ ∀ a ∈ pre, Allowed T env a) := by
    intro p
    -- a trace all of whose actions are walker actions contains no tool action
    have noTool : ∀ (tr : List Act), (∀ a ∈ tr, Allowed T env a) →
        (∀ a ∈ tr, AllowedEntry T env cfg a) ∧
        (∀ pre tn as ks rest, tr = pre ++ Act.tool tn as ks :: rest →
          rest = [] ∧ p = .oxidative ∧ ∀ a ∈ pre, Allowed T env a) := by
      intro tr h
      refine ⟨fun a ha => Or.inl (h a ha), fun pre tn as ks rest he => ?_⟩
      exact absurd (h (.tool tn as ks) (by rw [he]; simp)) (by simp [Allowed])
    unfold pathwayBody
    split
    · split <;> exact noTool _ (by simp)
    · split
      · exact noTool _ (by simp)
      · rename_i e _
        split
        · unfold glycolysis; split
          · exact noTool _ (by simp)
          · exact noTool _ (walk_confined T env e)
        · unfold krebs; split
          · exact noTool _ (by simp)
          · exact noTool _ (bind_all _ _ _ (walk_confined T env (normalise e)) fun v =>
              bind_all _ _ _ (truthyR_allowed T env v) fun b => by simp)
        · rename_i hp1 hp2
          have hp : p = .oxidative := by cases p <;> simp_all
          obtain ⟨pre, hpre, h⟩ := c01_tool_pathway T env cfg.tools cfg.allowed e
          rcases h with h | ⟨tn, args, kn, kv, t, as, ks, _, hf, hc, h⟩
          · rw [h]; exact noTool _ hpre
          · rw [h]
            refine ⟨fun a ha => ?_, fun pre' tn' as' ks' rest he => ?_⟩
            · rcases List.mem_append.mp ha with h1 | h1
              · exact Or.inl (hpre a h1)
              · simp only [List.mem_singleton] at h1
                exact Or.inr ⟨tn, as, ks, t, h1, hf, hc⟩
            · -- the only tool action of `pre ++ [tool]` is the last one
              have hlen : pre'.length = pre.length := by
                rcases Nat.lt_trichotomy pre'.length pre.length with hlt | heq | hgt
                · have h1 : (pre ++ [Act.tool tn as ks])[pre'.length]? = some (Act.tool tn' as' ks') := by
                    rw [he]; simp
                  rw [List.getElem?_append_left hlt] at h1
                  have hm : Act.tool tn' as' ks' ∈ pre := List.mem_of_getElem? h1
                  exact absurd (hpre _ hm) (by simp [Allowed])
                · exact heq
                · have h1 := congrArg List.length he
                  simp at h1; omega
              have hsplit := List.append_inj he.symm hlen
              obtain ⟨h1, h2⟩ := hsplit
              refine ⟨by simpa using (List.cons.inj h2).2, hp, by rw [h1]; exact hpre⟩
  unfold metabolize
  have nil : (∀ a ∈ ([] : List Act), AllowedEntry T env cfg a) ∧
      (∀ pre tn as ks rest, ([] : List Act) = pre ++ Act.tool tn as ks :: rest →
        rest = [] ∧ forced.getD d = .oxidative ∧ ∀ a ∈ pre, Allowed T env a) :=
    ⟨by simp, fun pre tn as ks rest he => by simp at he⟩
  split
  · exact nil
  · split
    · exact nil
    · simp only
      split
      · exact nil
      · split
        · exact nil
        · have hk := key (forced.getD d)
          rcases hb : pathwayBody T env cfg inp (forced.getD d) with ⟨t, r⟩
          rw [hb] at hk
          cases r with
          | ok v => simp only; split <;> exact hk
          | error er => exact hk

/-- Over-long input and a latched engine execute nothing at all and report failure. -/
theorem c01_guards_run_nothing (T : Tables) (env : Env) (cfg : Cfg) (latched : Bool) (d : Pathway) (inp : Inp)
    (forced : Option Pathway) (h : inp.len > cfg.maxLen ∨ latched = true) :
    metabolize T env cfg latched d inp forced = ([], .result false none false forced) := by
  unfold metabolize
  rcases h with h | h
  · simp [h]
  · subst h; split <;> rfl

/-! ### Totality -/

/-- With the print and the dispatch inside the handler, `metabolize` returns a result — never raises — for every
    configuration, every input (parsed or not), every pathway (forced or detected), every table content and every
    environment behaviour. -/
theorem c01_total (T : Tables) (env : Env) (cfg : Cfg) (hp : cfg.printInTry = true) (hd : cfg.dispatchInTry = true)
    (latched : Bool) (d : Pathway) (inp : Inp) (forced : Option Pathway) :
    ∃ s v r p, (metabolize T env cfg latched d inp forced).2 = .result s v r p := by
  unfold metabolize
  simp only [hp, hd]
  split
  · exact ⟨_, _, _, _, rfl⟩
  · split
    · exact ⟨_, _, _, _, rfl⟩
    · simp only [Bool.not_true, Bool.and_false, Bool.false_eq_true, if_false]
      split
      · exact ⟨_, _, _, _, rfl⟩
      · split
        · split <;> exact ⟨_, _, _, _, rfl⟩
        · exact ⟨_, _, _, _, rfl⟩

/-- The current source has both inside the handler (extractor E1), so the engine as it stands never raises. -/
theorem c01_never_raises_current_source (T : Tables) (env : Env) (cfg : Cfg) (hp : cfg.printInTry = Gen.printInTry)
    (hd : cfg.dispatchInTry = Gen.dispatchInTry) (latched : Bool) (d : Pathway) (inp : Inp) (forced : Option Pathway) :
    (metabolize T env cfg latched d inp forced).2 ≠ .raised := by
  obtain ⟨s, v, r, p, h⟩ := c01_total T env cfg (by rw [hp]; decide) (by rw [hd]; decide) latched d inp forced
  rw [h]; exact fun h => nomatch h

/-- The legacy entry point `digest_glucose` (what `BioAgent` calls for "calculate …" prompts) returns a string — never
    raises — for every input, environment and configuration, when additionally the `str(value)` conversion is
    guarded; in particular when rendering the value as text raises (an int of more than 4300 digits). -/
theorem c01_total_legacy (T : Tables) (env : Env) (cfg : Cfg) (hp : cfg.printInTry = true)
    (hd : cfg.dispatchInTry = true) (hs : cfg.strGuarded = true) (latched : Bool) (inp : Inp) (strRaises : Bool) :
    ∃ ok, (digestGlucose T env cfg latched inp strRaises).2 = .text ok := by
  obtain ⟨s, v, r, p, h⟩ := c01_total T env cfg hp hd latched .glycolysis inp (some .glycolysis)
  unfold digestGlucose
  rcases hm : metabolize T env cfg latched .glycolysis inp (some .glycolysis) with ⟨t, o⟩
  rw [hm] at h
  simp only at h
  subst h
  cases s <;> cases strRaises <;> simp [hs]

/-- … and the current source has that guard (E1), so `digest_glucose` as it stands never raises. -/
theorem c01_legacy_never_raises_current_source (T : Tables) (env : Env) (cfg : Cfg)
    (hp : cfg.printInTry = Gen.printInTry) (hd : cfg.dispatchInTry = Gen.dispatchInTry)
    (hs : cfg.strGuarded = Gen.strGuarded) (latched : Bool) (inp : Inp) (strRaises : Bool) :
    (digestGlucose T env cfg latched inp strRaises).2 ≠ .raised := by
  obtain ⟨ok, h⟩ := c01_total_legacy T env cfg (by rw [hp]; decide) (by rw [hd]; decide) (by rw [hs]; decide)
    latched inp strRaises
  rw [h]; exact fun h => nomatch h

/- non-vacuity of the two `…_current_source` theorems (kept next to them so that a failure is attributed to them) -/
/-- `c01_total` / `c01_never_raises_current_source`: a configuration with both flags as extracted -/
example : (⟨10000, false, false, [], none, Gen.printInTry, Gen.dispatchInTry, Gen.strGuarded⟩ : Cfg).printInTry = true := by decide

/-- `c01_total_legacy`: the flags as extracted from the current source -/
example : Gen.strGuarded = true ∧ Gen.printInTry = true ∧ Gen.dispatchInTry = true := by decide

/-- The pre-fix shape of `digest_glucose` is expressible and raises: a successful evaluation whose value cannot be
    rendered (`10**5000`) with the conversion unguarded (the defect repaired in /repo). -/
theorem c01_legacy_unguarded_str_raises_witness :
    (digestGlucose ⟨[], [], [], [], []⟩ ⟨fun _ => .h 0, fun _ _ => .error "", fun _ => .error "", fun _ _ _ => .error "",
        fun _ _ _ => .error ""⟩ ⟨10000, true, false, [], none, true, true, false⟩ false
        ⟨8, some (.const (.h 7)), none, false⟩ true).2 = .raised := by
  rfl

/-- The pre-fix shape is expressible and does raise: with the print outside the handler a lone surrogate on a
    non-silent engine escapes (the defect repaired by commit c4da247). -/
theorem c01_print_outside_try_raises_witness :
    (metabolize ⟨[], [], [], [], []⟩ ⟨fun _ => .h 0, fun _ _ => .error "", fun _ => .error "", fun _ _ _ => .error "",
        fun _ _ _ => .error ""⟩ ⟨10000, false, false, [], none, false, true, true⟩ false .glycolysis
        ⟨8, none, none, true⟩ none).2 = .raised := by
  rfl

/-! ### … whatever the console does (`Console`, `metabolizeOn`, `historyOn` in `Model/Mito.lean`)

A non-silent engine (the constructor default, the one `BioAgent` builds) writes a progress line to `sys.stdout`.  The
stream is the caller's: closed, a strict ASCII / latin-1 / cp1252 console that cannot encode the line's emoji, a pipe
that fails the k-th call writing to it.  "It never raises to the caller" includes that write. -/

/-- `metabolize` on ANY console state (kind of stream, number of calls that have written to it) returns a result — never raises —
    for every configuration, input, pathway, table content and environment, when the print and the dispatch sit inside
    the handler. -/
theorem c01_total_on_every_console (T : Tables) (env : Env) (cfg : Cfg) (hp : cfg.printInTry = true)
    (hd : cfg.dispatchInTry = true) (latched : Bool) (d : Pathway) (c : Console) (written : Nat) (inp : Inp)
    (forced : Option Pathway) :
    ∃ s v r p, (metabolizeOn T env cfg latched d c written inp forced).1.2 = .result s v r p := by
  unfold metabolizeOn
  exact c01_total T env cfg hp hd latched d _ forced

/-- The current source (E1 facts): in a history of calls of any length on one engine and one console stream — the
    stream's count of writing calls running through the history: guard refusals and silent engines do not count —
    no call raises. -/
theorem c01_history_on_every_console_never_raises (T : Tables) (env : Env) (cfg : Cfg)
    (hp : cfg.printInTry = Gen.printInTry) (hd : cfg.dispatchInTry = Gen.dispatchInTry) (detect : Inp → Pathway)
    (c : Console) (written : Nat) (calls : List (Bool × Inp × Option Pathway)) :
    ∀ o ∈ historyOn T env cfg detect c written calls, o ≠ .raised := by
  induction calls generalizing written with
  | nil => intro o ho; simp [historyOn] at ho
  | cons x rest ih =>
    obtain ⟨l, i, f⟩ := x
    intro o ho
    simp only [historyOn, List.mem_cons] at ho
    cases ho with
    | inl h =>
      obtain ⟨s, v, r, p, e⟩ := c01_total_on_every_console T env cfg (by rw [hp]; decide) (by rw [hd]; decide) l
        (detect i) c written i f
      rw [h, e]; exact fun h => nomatch h
    | inr h => exact ih _ o h

/-- non-vacuity: the stream fails the second call writing to it — exactly the second of three calls is a (counted)
    failure result -/
example : historyOn ⟨[], [], [], [], []⟩ ⟨fun _ => .h 0, fun _ _ => .error "", fun _ => .error "", fun _ _ _ => .error "",
        fun _ _ _ => .error ""⟩
    ⟨10000, false, false, [], none, true, true, true⟩ (fun _ => .glycolysis) (.failAt 2) 0
    [(false, ⟨1, some (.const (.h 1)), none, false⟩, none), (false, ⟨1, some (.const (.h 1)), none, false⟩, none),
      (false, ⟨1, some (.const (.h 1)), none, false⟩, none)]
    = [.result true (some (.h 1)) false (some .glycolysis), .result false none true (some .glycolysis),
       .result true (some (.h 1)) false (some .glycolysis)] := by
  rfl

/-- A progress line outside the handler is expressible and raises on a console that refuses the write — no odd
    character in the text needed: a closed stream, or a stream that fails the first call writing to it. -/
theorem c01_console_refusal_outside_try_raises_witness :
    (metabolizeOn ⟨[], [], [], [], []⟩ ⟨fun _ => .h 0, fun _ _ => .error "", fun _ => .error "", fun _ _ _ => .error "",
        fun _ _ _ => .error ""⟩
        ⟨10000, false, false, [], none, false, true, true⟩ false .glycolysis
        .closed 0 ⟨1, some (.const (.h 1)), none, false⟩ none).1.2 = .raised
    ∧ (metabolizeOn ⟨[], [], [], [], []⟩ ⟨fun _ => .h 0, fun _ _ => .error "", fun _ => .error "", fun _ _ _ => .error "",
        fun _ _ _ => .error ""⟩
        ⟨10000, false, false, [], none, false, true, true⟩ false .glycolysis
        (.failAt 1) 0 ⟨1, some (.const (.h 1)), none, false⟩ none).1.2 = .raised :=
  ⟨rfl, rfl⟩

/-! ### … through the result containers (what the CALLER sees: `Model/MitoBox.lean`)

Every result — the refusals at the guards, the failure built inside the handler, the success — is an instance of the
`MetabolicResult` dataclass (a success additionally wraps its value in `ATP`).  Building it is part of "never raises to
the caller": a `__post_init__` that validates a range (error level above 1, efficiency outside [0, 1]) would raise out of
the handler itself.  E1 re-establishes on every run that building results never raises (`Gen.box.builds`: 45 rounds of
failures on engines with a large `max_ros`, tiny / huge timeouts, a latched engine, direct construction over a grid). -/

/-- `metabolize` as the caller sees it never raises, for every input / pathway / environment / table content, when the
    print and the dispatch sit inside the handler AND building a result cannot fail. -/
theorem c01_total_delivered (T : Tables) (env : Env) (cfg : Cfg) (box : Box) (hp : cfg.printInTry = true)
    (hd : cfg.dispatchInTry = true) (hb : box.builds = true) (latched : Bool) (d : Pathway) (inp : Inp)
    (forced : Option Pathway) :
    (metabolizeD T env cfg box latched d inp forced).2 ≠ .raised := by
  obtain ⟨s, v, r, p, h⟩ := c01_total T env cfg hp hd latched d inp forced
  unfold metabolizeD
  simp only [h]
  intro hr
  rcases (deliver_raised box _).1 hr with h1 | h1
  · exact nomatch h1
  · rw [hb] at h1; exact nomatch h1

/-- The current source: handler placement and container facts as extracted (E1). -/
theorem c01_never_raises_current_source_delivered (T : Tables) (env : Env) (cfg : Cfg)
    (hp : cfg.printInTry = Gen.printInTry) (hd : cfg.dispatchInTry = Gen.dispatchInTry) (latched : Bool) (d : Pathway)
    (inp : Inp) (forced : Option Pathway) :
    (metabolizeD T env cfg Gen.box latched d inp forced).2 ≠ .raised :=
  c01_total_delivered T env cfg Gen.box (by rw [hp]; decide) (by rw [hd]; decide) (by decide) latched d inp forced

/-- The containers add nothing to what is executed: the interactions of `metabolize` as the caller sees it are those of
    the engine (so every confinement theorem above speaks about the delivered call as well). -/
theorem c01_delivery_executes_nothing (T : Tables) (env : Env) (cfg : Cfg) (box : Box) (latched : Bool) (d : Pathway)
    (inp : Inp) (forced : Option Pathway) :
    (metabolizeD T env cfg box latched d inp forced).1 = (metabolize T env cfg latched d inp forced).1 := rfl

/-- A result container whose construction may fail is expressible and does raise — even on an input that the length
    guard refuses (the shape of a range validation added to `MetabolicResult.__post_init__`). -/
theorem c01_container_validation_raises_witness :
    (metabolizeD ⟨[], [], [], [], []⟩ ⟨fun _ => .h 0, fun _ _ => .error "", fun _ => .error "", fun _ _ _ => .error "",
        fun _ _ _ => .error ""⟩ ⟨10000, true, false, [], none, true, true, true⟩ ⟨true, true, false⟩ false .glycolysis
        ⟨10001, none, none, false⟩ none).2 = .raised := by
  rfl

/-- `c01_total_delivered`: the container facts of the current source -/
example : Gen.box.builds = true := by decide

/-! ### … for every TEXT, whatever the entry point does to it before its readers see it (`Model/MitoText.lean`)

The quantifier of the property is "for all strings".  `metabolizeText` is the engine as a function of the caller's string:
`rd` is what CPython's `len` / parser / literal readers / console make of a string, `detect` the pathway heuristic, and the
readers see the caller's string or `f` of it (`PreKind`) for an ARBITRARY `f` — a translation of typographic operators, a
normalisation, a truncation.  Totality and confinement do not depend on which string is read. -/

/-- `metabolize` never raises, for every text, every reader, every pathway heuristic and every rewriting of the text in
    front of the readers. -/
theorem c01_total_for_every_text {Text : Type} (rd : Text → Inp) (detect : Text → Pathway) (k : PreKind) (f : Text → Text)
    (T : Tables) (env : Env) (cfg : Cfg) (box : Box) (hp : cfg.printInTry = true) (hd : cfg.dispatchInTry = true)
    (hb : box.builds = true) (latched : Bool) (text : Text) (forced : Option Pathway) :
    (metabolizeText rd detect k f T env cfg box latched text forced).2 ≠ .raised :=
  c01_total_delivered T env cfg box hp hd hb latched (detect (preOf k f text)) (rd (preOf k f text)) forced

/-- Confinement for every text and every rewriting: whatever string the readers end up with, every interaction of the
    call is a walker action allowed by the tables or the body of a registered, permitted tool (at most one, last, on the
    tool pathway only). -/
theorem c01_confined_for_every_text {Text : Type} (rd : Text → Inp) (detect : Text → Pathway) (k : PreKind)
    (f : Text → Text) (T : Tables) (env : Env) (cfg : Cfg) (box : Box) (latched : Bool) (text : Text)
    (forced : Option Pathway) :
    (∀ a ∈ (metabolizeText rd detect k f T env cfg box latched text forced).1, AllowedEntry T env cfg a) ∧
    (∀ pre tn as ks rest, (metabolizeText rd detect k f T env cfg box latched text forced).1
        = pre ++ Act.tool tn as ks :: rest →
        rest = [] ∧ forced.getD (detect (preOf k f text)) = .oxidative ∧ ∀ a ∈ pre, Allowed T env a) :=
  c01_metabolize_confined T env cfg latched (detect (preOf k f text)) (rd (preOf k f text)) forced

/-- `c01_total_for_every_text` / `c01_confined_for_every_text`: texts = strings, a reader that reads everything as the
    unlisted name `zz`, a rewriting that appends `!` — a failure result, nothing executed -/
example : metabolizeText (fun (_ : String) => (⟨2, some (.name "zz"), none, false⟩ : Inp)) (fun _ => .glycolysis) .rewrites
    (fun s => s ++ "!") ⟨[], [], [], [], []⟩ ⟨fun _ => .h 0, fun _ _ => .error "", fun _ => .error "", fun _ _ _ => .error "",
      fun _ _ _ => .error ""⟩ ⟨10000, true, false, [], none, true, true, true⟩ ⟨true, true, true⟩ false "zz" none
    = ([], .result false none true (some .glycolysis)) := by rfl

/-! ### Resource clause -/

/-- Structural work is linear: the number of environment interactions (operator applications, calls, lookups,
    truth tests) is at most three per AST node, for every tree and every environment. -/
theorem c01_work_linear (T : Tables) (env : Env) (e : Expr) : (walk T env e).1.length + 2 ≤ 3 * e.nodes := by
  have := walk_len T env e; have := nodes_pos e; omega

/-- Every node of the text is evaluated AT MOST ONCE: the number of walker invocations (`_compute_node` entries, the
    quantity the harness counts on the real engine and compares with the model on every `met` / `dg` line) is at most the
    number of AST nodes and at least one — for every tree, every table content, every environment.  In particular the
    operands of a comparison chain are not re-evaluated per link and nothing is evaluated once per enclosing level, so
    nesting cannot make the work exponential in the depth. -/
theorem c01_visits_linear (T : Tables) (env : Env) (e : Expr) : 1 ≤ visits T env e ∧ visits T env e ≤ e.nodes :=
  ⟨visits_pos T env e, visits_le T env e⟩

/-- The count the harness measures on the real engine (`v=…`: entries of `_compute_node`) IS the number of nodes the
    walker reaches: `visits = |reached|`, for every tree, every table content, every environment.  So `reached` — the
    object `c01_errors_never_swallowed` / `c01_success_reaches_only_allowed_nodes` speak about — is tied to the code
    through a quantity that is compared with the real engine on every `met` / `dg` line. -/
theorem c01_visits_count_the_reached_nodes (T : Tables) (env : Env) (e : Expr) :
    visits T env e = (reached T env e).length :=
  visits_eq_reached T env e

/-- The same at the entry point, for every pathway, configuration and input: one `metabolize` call enters the walker at
    most once per node of the parsed text (the logic pathway's `true`/`false` rewriting keeps the node count; the tool
    pathway evaluates the argument nodes only; over-long, latched, unparsable and transform inputs enter it not at all). -/
theorem c01_entry_visits_linear (T : Tables) (env : Env) (cfg : Cfg) (latched : Bool) (d : Pathway) (inp : Inp)
    (forced : Option Pathway) :
    metVisits T env cfg latched d inp forced ≤ (inp.parsed.map Expr.nodes).getD 0 := by
  unfold metVisits
  split
  · omega
  · split
    · omega
    · split
      · omega
      · unfold pathwayVisits
        split
        · omega
        · split
          · omega
          · rename_i e he
            simp only [he, Option.map_some, Option.getD_some]
            split
            · omega
            · split
              · exact visits_le T env e
              · have := visits_le T env (normalise e); rw [nodes_normalise] at this; exact this
              · have := toolVisits_le T env cfg.tools cfg.allowed e; omega

/-- PARTIAL (the resource clause).  For integer arithmetic without `**` the value that CPython has to materialise
    stays below `2 ^ budget`, where `budget` is the number of bits of the literals plus one per addition — linear in
    the size of the text.  What is missing for the full clause: (i) powers, factorial and sequence repetition are
    outside this class and genuinely unbounded (witness below, open finding C01-timeout-unenforced — `timeout_seconds`
    is never enforced); (ii) wall-clock time and memory of CPython primitives are not modelled at all.
    -- FULL (false on current tree): ∀ expression, metabolize returns within a bound governed by `timeout_seconds`. -/
theorem c01_bounded_partial (e : IExpr) (h : e.powFree = true) : e.val < 2 ^ e.budget :=
  val_lt_budget e h

/-- The 7-character expression `9**9**9` is outside the bounded class: its exponent is 387 420 489 and its value
    needs more than that many bits, while its budget (what a pow-free expression of the same literals could reach)
    is 12. -/
theorem c01_pow_tower_unbounded_witness :
    let inner := IExpr.pow (.lit 9) (.lit 9)
    let tower := IExpr.pow (.lit 9) inner
    tower.powFree = false ∧ tower.budget = 12 ∧ inner.val = 387420489 ∧ 2 ^ inner.val ≤ tower.val := by
  refine ⟨rfl, by decide, by decide, two_pow_le_pow_val _ _ (by decide)⟩

/-! ### Non-vacuity -/

private def envAll : Env :=
  ⟨fun _ => .h 1, fun _ _ => .ok (.h 2), fun _ => .ok true, fun _ _ _ => .ok (.h 3), fun _ _ _ => .ok (.h 4)⟩

/-- `c01_forbidden_in_strict_position_fails`: `abs((1).real)` — an Attribute node as a call argument -/
example : Expr.other "Attribute" [.const (.h 1)] ∈
    (Expr.call (.name "abs") [.other "Attribute" [.const (.h 1)]] [] []).strictSub := by
  simp [Expr.strictSub, strictList, strictKws]

/-- `c01_errors_never_swallowed` / `c01_success_reaches_only_allowed_nodes` in a CONDITIONAL position, which the strict
    list does not cover: in `pi or (1).real` with a falsy `pi` the Attribute node is reached (and the evaluation fails);
    with a truthy `pi` it is not reached -/
example : Expr.other "Attribute" [.const (.h 1)] ∈ reached Gen.tables
      ⟨fun _ => .h 1, fun _ _ => .ok (.h 2), fun _ => .ok false, fun _ _ _ => .ok (.h 3), fun _ _ _ => .ok (.h 4)⟩
      (.boolop .or [.name "pi", .other "Attribute" [.const (.h 1)]]) ∧
    Expr.other "Attribute" [.const (.h 1)] ∉ reached Gen.tables envAll
      (.boolop .or [.name "pi", .other "Attribute" [.const (.h 1)]]) := by
  constructor
  · simp [reached, reachedBool, walk, truthyR, R.act, show "pi" ∈ Gen.tables.names by decide,
      show BoolK.or ∈ Gen.tables.bool by decide]
  · simp [reached, reachedBool, walk, truthyR, R.act, envAll, show "pi" ∈ Gen.tables.names by decide,
      show BoolK.or ∈ Gen.tables.bool by decide]

/-- `c01_tool_call_with_unpacking_refused`: `echo(**{'a': 1})` — one keyword, no name, equal lengths -/
example : none ∈ [(none : Option String)] ∧ [(none : Option String)].length = [Expr.other "Dict" []].length := by
  decide

/-- `c01_tool_path` second alternative is reachable: a registered tool runs exactly once, last -/
example : (toolPath Gen.tables envAll [⟨"t", []⟩] none (.call (.name "t") [.name "pi"] [] [])).1
    = [.lookup "pi", .tool "t" [.h 1] []] := by
  rfl

/-- `c01_guards_run_nothing`: an over-long input -/
example : (10001 : Nat) > (⟨10000, true, false, [], none, true, true, true⟩ : Cfg).maxLen := by decide

/-- `c01_visits_linear` is tight on a nest: `0 < (0 < 1 < 2) < 2` has 7 nodes and all 7 are entered exactly once -/
example : visits Gen.tables ⟨fun _ => .h 1, fun _ _ => .ok (.bool true), fun _ => .ok true, fun _ _ _ => .ok (.h 3),
      fun _ _ _ => .ok (.h 4)⟩
    (.compare (.const (.h 0)) [.lt, .lt]
      [.compare (.const (.h 0)) [.lt, .lt] [.const (.h 1), .const (.h 2)], .const (.h 2)]) = 7 := by
  rfl

/-- `c01_metabolize_confined`, second part, is reachable: on the tool pathway the registered tool runs last -/
example : (metabolize Gen.tables envAll ⟨10000, true, false, [⟨"t", []⟩], none, true, true, true⟩ false .oxidative
    ⟨5, some (.call (.name "t") [.name "pi"] [] []), none, false⟩ none).1 = [.lookup "pi", .tool "t" [.h 1] []] := by
  rfl

/-- `c01_bounded_partial`: `12 * 34 + 5` is pow-free -/
example : (IExpr.add (.mul (.lit 12) (.lit 34)) (.lit 5)).powFree = true := by decide

/-- `c01_unlisted_name_fails`: `__import__` is not in the extracted table -/
example : "__import__" ∉ Gen.tables.names := by decide

end Operon.Mito
