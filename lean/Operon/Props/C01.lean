import Operon.Lemmas.Mito
import Operon.Gen.MitoFacts
namespace Operon.Mito
theorem c01_placeholder : True := trivial
end Operon.Mito
