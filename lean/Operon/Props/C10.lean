import Operon.Model.Membrane
import Operon.Model.Innate
import Operon.Gen.GatesConsts
namespace Operon.Gates

/-- placeholder while the correspondence is brought up -/
theorem c10_placeholder : critical = 3 := rfl

end Operon.Gates
