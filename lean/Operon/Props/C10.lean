import Operon.Lemmas.C10
import Operon.Lemmas.C10Conc
import Operon.Lemmas.C10Transfer
import Operon.Lemmas.C10Regex
import Operon.Gen.GatesConsts
import Operon.Gen.GatesRegex
import Operon.Gen.GatesTranslated
/-!
# C10 — prompt-injection gates block every signature hit, stay blocked, and never crash

Property theorems only.  Models: `Operon/Model/Gates.lean`, `Membrane.lean`, `Innate.lean` (hand-written, tied to
`operon_ai/organelles/membrane.py` and `operon_ai/surveillance/innate.py` by the correspondence of
`harness/vf/props/c10.py`; constants regenerated from the source into `Operon/Gen/GatesConsts.lean`).

Every statement quantifies over every environment `env` (any char-wise lowering function, any regex engine, any
JSON parser outcome), every gate state / configuration (threshold, signature lists — built-in, custom, learned,
imported —, rate limit, window length, validators, inflammation cut-offs), every input string (a list of code
points of any length, surrogates and control characters included) and, where histories are involved, every list
of operations.  Hypotheses about regexes are stated per signature and never needed for substring signatures.
-/
namespace Operon.Gates

/-! ## Membrane -/

/-- **No input makes the membrane raise.**  The only exception that can leave `filter` is one raised by the
    user's `on_threat` hook, and the hook only runs for a blocking scan decision that has already been taken
    and fully booked: without a hook, or with a hook that returns, every state, time and input yields a result;
    and when the hook raises, the audit trail, the immune memory and both counters already contain the decision
    (the exception is the hook's, the gate's bookkeeping is complete). -/
theorem c10_membrane_total (env : Env) (m : Membrane) (now : Nat) (c : Str) :
    (m.onThreat = none → (m.filter env now c).2.raised = none) ∧
    ((∀ f, m.onThreat = some f → ∀ v r, f v r = none) → (m.filter env now c).2.raised = none) ∧
    (∀ k, (m.filter env now c).2.raised = some k →
      (m.filter env now c).2.decision.reason = .scan ∧ (m.filter env now c).2.decision.allowed = false ∧
      hookRaise m.onThreat (m.filter env now c).1.view (m.filter env now c).2.decision = some k ∧
      (m.filter env now c).1.audit = m.audit ++ [(m.filter env now c).2.decision] ∧
      c ∈ (m.filter env now c).1.blocked ∧
      (m.filter env now c).1.totalFiltered = m.totalFiltered + 1 ∧
      (m.filter env now c).1.totalBlocked = m.totalBlocked + 1) := by
  obtain ⟨d, hd, haud, -, -, -, -, -, -, -, -, -, -, -, -, hs, htf, htb, -, hraise⟩ := filter_spec env m now c
  refine ⟨?_, ?_, ?_⟩
  · intro hn; rw [hraise, hn]; simp [hookRaise]
  · intro hf
    rw [hraise]
    split
    · cases ho : m.onThreat with
      | none => rfl
      | some f => simp [hookRaise, hf f ho]
    · rfl
  · intro k hk
    rw [hraise] at hk
    split at hk
    · rename_i hc
      rw [hd]
      refine ⟨hc.1, hc.2, hk, haud, ?_, htf, by rw [htb, hc.2]; simp⟩
      rw [(hs hc.1).2.2.2.2 hc.2]; simp
    · cases hk

/-- **Allowed only if clean**, as an exact characterisation: the membrane allows `c` iff the call is not rate
    limited (by the limit in force at that moment), `c` is not in the replay memory, and every active signature
    (innate, custom, learned, imported) that matches `c` has a level strictly below the threshold in force (and
    the threshold is not SAFE = 0, at which everything is blocked). -/
theorem c10_membrane_allowed_iff (env : Env) (m : Membrane) (now : Nat) (c : Str) :
    (m.filter env now c).2.decision.allowed = true ↔
      ((rateCheck m now).1 = false ∧ c ∉ m.blocked ∧ 0 < m.threshold ∧
        ∀ s ∈ m.active, s.matches env c = true → s.level < m.threshold) := by
  obtain ⟨r, hr, -, -, -, -, -, -, -, -, -, hrate, hrep, hscan, hns, hs, -⟩ := filter_spec env m now c
  rw [hr]
  by_cases hsc : r.reason = .scan
  · obtain ⟨-, -, hal, -, -⟩ := hs hsc
    obtain ⟨h1, h2⟩ := hscan.mp hsc
    rw [hal, maxLevel_lt_iff]
    simp only [mem_matched]
    constructor
    · rintro ⟨h0, hall⟩; exact ⟨h1, h2, h0, fun s hs hm => hall s ⟨hs, hm⟩⟩
    · rintro ⟨-, -, h0, hall⟩; exact ⟨h0, fun s hs => hall s hs.1 hs.2⟩
  · have hf := (hns hsc).1
    constructor
    · intro ha; rw [hf] at ha; cases ha
    · rintro ⟨h1, h2, -, -⟩; exact absurd (hscan.mpr ⟨h1, h2⟩) hsc

/-- **Allowed only if clean** (the direction the property states): an allowed input is matched by no active
    signature at or above the blocking threshold. -/
theorem c10_membrane_allowed_only_if_clean (env : Env) (m : Membrane) (now : Nat) (c : Str)
    (ha : (m.filter env now c).2.decision.allowed = true) :
    ∀ s ∈ m.active, s.matches env c = true → s.level < m.threshold :=
  ((c10_membrane_allowed_iff env m now c).mp ha).2.2.2

/-- **The reported level is the maximum over the matched signatures**, and the matched signatures are exactly
    the active signatures that match, in scan order — for every decision taken by the scan.  Rate-limit and
    replay rejections report CRITICAL with no matches by design; they are characterised too. -/
theorem c10_membrane_level_is_max_of_matched (env : Env) (m : Membrane) (now : Nat) (c : Str) (r : FilterRes)
    (h : (m.filter env now c).2.decision = r) :
    (r.reason = .scan →
      r.matched = m.active.filter (fun s => s.matches env c) ∧
      (∀ s ∈ r.matched, s.level ≤ r.level) ∧
      ((r.matched = [] ∧ r.level = 0) ∨ ∃ s ∈ r.matched, s.level = r.level) ∧
      (r.allowed = true ↔ r.level < m.threshold)) ∧
    (r.reason ≠ .scan → r.allowed = false ∧ r.level = critical ∧ r.matched = []) := by
  obtain ⟨r', hr', -, -, -, -, -, -, -, -, -, -, -, -, hns, hs, -⟩ := filter_spec env m now c
  rw [h] at hr'; subst hr'
  constructor
  · intro hsc
    obtain ⟨hm, hl, hal, -, -⟩ := hs hsc
    rw [hm, hl]
    exact ⟨rfl, maxLevel_ge_mem _, maxLevel_attained _, hal⟩
  · intro hsc
    exact ⟨(hns hsc).1, (hns hsc).2.1, (hns hsc).2.2.1⟩

/-- **A blocked input stays blocked under perturbation** (general form).  If the scan of `m` blocks `c`
    (its level reaches the threshold) and `c'` is any input that every signature matching `c` still matches, then
    `c'` is rejected by every gate state `m'` carrying the same rules — in particular by `m` itself and by the
    state after `c` was filtered —, at every time, whatever the rate limit, the rate window, the hook and the
    replay memory are. -/
theorem c10_membrane_blocked_stays_blocked (env : Env) (m m' : Membrane) (now' : Nat) (c c' : Str)
    (hblocked : ¬ scanLevel env m.active c < m.threshold)
    (hsame : m'.active = m.active ∧ m'.threshold = m.threshold)
    (hkeeps : KeepsHits env m.active c c') :
    (m'.filter env now' c').2.decision.allowed = false := by
  cases ha : (m'.filter env now' c').2.decision.allowed with
  | false => rfl
  | true =>
    exfalso
    obtain ⟨-, -, h0, hall⟩ := (c10_membrane_allowed_iff env m' now' c').mp ha
    apply hblocked
    have hmono := scanLevel_mono env m.active c c' hkeeps
    have : scanLevel env m.active c' < m.threshold := by
      unfold scanLevel
      rw [maxLevel_lt_iff]
      refine ⟨by rw [← hsame.2]; exact h0, ?_⟩
      intro s hs
      rw [mem_matched] at hs
      rw [← hsame.2]; exact hall s (by rw [hsame.1]; exact hs.1) hs.2
    omega

/-- **Case changes**: for substring signatures unconditionally, for regex signatures under the stated hypothesis
    that the regex does not distinguish case variants, a case variant `c'` of `c` (same lower-cased code points)
    gets exactly the same scan — same matched signatures, same level — and if `c` is blocked so is `c'`. -/
theorem c10_membrane_case_invariant (env : Env) (m m' : Membrane) (now' : Nat) (c c' : Str)
    (hv : CaseVariant env c c')
    (hrx : ∀ s ∈ m.active, s.isRegex = true → RxCaseInv env s.pat) :
    matched env m.active c = matched env m.active c' ∧
    scanLevel env m.active c = scanLevel env m.active c' ∧
    (¬ scanLevel env m.active c < m.threshold → m'.active = m.active ∧ m'.threshold = m.threshold →
      (m'.filter env now' c').2.decision.allowed = false) := by
  have hm := matched_case env m.active c c' hv hrx
  refine ⟨hm, by unfold scanLevel; rw [hm], ?_⟩
  intro hb hsame
  exact c10_membrane_blocked_stays_blocked env m m' now' c c' hb hsame
    (keepsHits_of_case env m.active c c' hv hrx)

/-- **Embedding in surrounding text**: for substring signatures unconditionally, for regex signatures under the
    stated hypothesis that each regex which matched `c` still matches `pre ++ c ++ post`, embedding never lowers
    the level, and a blocked input stays blocked when embedded. -/
theorem c10_membrane_embedding_monotone (env : Env) (m m' : Membrane) (now' : Nat) (c pre post : Str)
    (hrx : ∀ s ∈ m.active, s.isRegex = true → env.rx s.pat c = true → env.rx s.pat (pre ++ c ++ post) = true) :
    scanLevel env m.active c ≤ scanLevel env m.active (pre ++ c ++ post) ∧
    (¬ scanLevel env m.active c < m.threshold → m'.active = m.active ∧ m'.threshold = m.threshold →
      (m'.filter env now' (pre ++ c ++ post)).2.decision.allowed = false) := by
  have hk := keepsHits_of_embed env m.active c pre post hrx
  refine ⟨scanLevel_mono env m.active c _ hk, ?_⟩
  intro hb hsame
  exact c10_membrane_blocked_stays_blocked env m m' now' c _ hb hsame hk

/-- **Replay memory**: once the membrane has rejected `c` for what it contains (by the scan — also when the
    `on_threat` hook then raised —, or again from memory), every later `filter` of `c` is rejected too, after
    *any* history of operations (forgetting patterns, changing the threshold by method or attribute, importing,
    learning, re-assigning rate limit / adaptive flag / hook, clearing the audit log, time passing, other inputs).
    Rejections that are only rate limiting say nothing about the input and are excluded. -/
theorem c10_membrane_replay_memory (env : Env) (st : MSt) (c : Str)
    (hrej : (st.m.filter env st.now c).2.decision.allowed = false)
    (hnr : (st.m.filter env st.now c).2.decision.reason ≠ .rate) (ops : List MOp) :
    ((mrun env (mstep env st (.filter c)).1 ops).1.m.filter env
        (mrun env (mstep env st (.filter c)).1 ops).1.now c).2.decision.allowed = false := by
  have hin : c ∈ (mstep env st (.filter c)).1.m.blocked := by
    obtain ⟨r, hr, -, -, -, -, -, -, -, -, -, hrate, hrep, hscan, hns, hs, -⟩ := filter_spec env st.m st.now c
    rw [hr] at hrej hnr
    simp only [mstep]
    by_cases hsc : r.reason = .scan
    · rw [(hs hsc).2.2.2.2 hrej]; simp
    · rw [(hns hsc).2.2.2]
      have : r.reason = .replay := by
        cases hr' : r.reason with
        | rate => exact absurd hr' hnr
        | replay => rfl
        | scan => exact absurd hr' hsc
      exact (hrep.mp this).2
  have hin2 := mrun_blocked_mono env ops _ c hin
  cases ha : ((mrun env (mstep env st (.filter c)).1 ops).1.m.filter env
        (mrun env (mstep env st (.filter c)).1 ops).1.now c).2.decision.allowed with
  | false => rfl
  | true =>
    have := (c10_membrane_allowed_iff env _ _ c).mp ha
    exact absurd hin2 this.2.1

/-- **Rate window, limit re-assigned at will.**  Start from a membrane whose request list is empty and run *any*
    history — including direct assignments `m.rate_limit = …` (raised, lowered, None ↔ finite) at any point.
    Whenever the next call passes the rate check while a finite limit `r` is in force, that call together with
    all earlier calls that passed the check under a finite limit inside the window `(now - W, now]` number at
    most `r`: the limit visible through the public attribute at the moment of the decision is never exceeded. -/
theorem c10_membrane_rate_window_live_limit (env : Env) (st : MSt) (hfresh : st.m.reqTimes = [])
    (ops : List MOp) (c : Str) (r : Nat)
    (hr : (mrun env st ops).1.m.rateLimit = some r)
    (hpass : ((mrun env st ops).1.m.filter env (mrun env st ops).1.now c).2.decision.reason ≠ .rate) :
    ((admissions (mrun env st ops).2 ++ [(mrun env st ops).1.now]).filter
      (inWin st.m.window (mrun env st ops).1.now)).length ≤ r := by
  have h0 : RateSync st.m.window st [] := ⟨rfl, by simp, by intro q _; simp [hfresh, prune]⟩
  have h1 := rateSync_run env st.m.window ops st [] h0
  simp only [List.nil_append] at h1
  obtain ⟨d, hd, -, -, -, -, -, -, -, -, -, hrate, -⟩ :=
    filter_spec env (mrun env st ops).1.m (mrun env st ops).1.now c
  rw [hd] at hpass
  have hp : (rateCheck (mrun env st ops).1.m (mrun env st ops).1.now).1 = false := by
    cases hh : (rateCheck (mrun env st ops).1.m (mrun env st ops).1.now).1 with
    | false => rfl
    | true => exact absurd (hrate.mpr hh) hpass
  exact admit_bound st.m.window r _ _ h1 hr hp

/-- **Rate window**, the property's formulation for a limit that is not re-assigned: start from a membrane with
    rate limit `r` whose request list is empty, run any history without `m.rate_limit = …` (time only moves
    forward: `adv d` adds `d ≥ 0`).  For every instant `T`, the number of filter calls that got past the rate
    check at a time in `(T - window, T]` is at most `r`; a fortiori at most `r` inputs are *allowed* in any
    window.  Holds for every window length. -/
theorem c10_membrane_rate_window (env : Env) (st : MSt) (r : Nat) (hr : st.m.rateLimit = some r)
    (hfresh : st.m.reqTimes = []) (ops : List MOp) (hops : ∀ op ∈ ops, op.isSetRate = false) (T : Nat) :
    ((admissions (mrun env st ops).2).filter (inWin st.m.window T)).length ≤ r ∧
    ((allowedTimes (mrun env st ops).2).filter (inWin st.m.window T)).length ≤ r := by
  have h0 : RateInv st.m.window r st [] :=
    ⟨hr, ⟨rfl, by simp, by intro q _; simp [hfresh, prune]⟩, by simp⟩
  have h1 := rateInv_run env st.m.window r ops hops st [] h0
  have hb := h1.bound T
  simp only [List.nil_append] at hb
  refine ⟨hb, Nat.le_trans ?_ hb⟩
  exact allowed_sub_admissions _ (fun e hm hrr => mrun_events_wf env ops st e hm hrr) _

/-- **Audit completeness**, one operation: every `filter` call appends exactly its own decision to the audit
    trail — whatever exit it took (rate limit, replay, scan allow, scan block) and also when the `on_threat` hook
    raised; no other operation except `clear_audit_log` touches the trail. -/
theorem c10_membrane_audit_step (env : Env) (st : MSt) (op : MOp) :
    (mstep env st op).1.m.audit =
      (if op.isClear then [] else st.m.audit ++ results (mstep env st op).2.toList) ∧
    (∀ c, op = .filter c → ∃ e, (mstep env st op).2 = some e ∧ e.t = st.now ∧
      (mstep env st op).1.m.audit = st.m.audit ++ [e.out.decision] ∧ e.out.decision.key = c) := by
  constructor
  · cases hc : op.isClear with
    | true =>
      cases op <;> simp [MOp.isClear] at hc
      simp [mstep, Membrane.clearAudit]
    | false => simpa using mstep_audit env st op hc
  · intro c hop; subst hop
    obtain ⟨r, hres, haud, -, -, -, -, -, -, -, hkey, -⟩ := filter_spec env st.m st.now c
    exact ⟨_, rfl, rfl, by simpa [mstep, hres] using haud, by simpa [hres] using hkey⟩

/-- **Audit completeness**, histories: along any history without `clear_audit_log`, the audit trail is the
    initial trail followed by the decision of every filter call, in order, nothing missing (not even a call that
    ended in the hook's exception), nothing extra. -/
theorem c10_membrane_audit_complete (env : Env) (ops : List MOp) (hnc : ∀ op ∈ ops, op.isClear = false) :
    ∀ st : MSt, (mrun env st ops).1.m.audit = st.m.audit ++ results (mrun env st ops).2 := by
  induction ops with
  | nil => intro st; simp [mrun, results]
  | cons op ops ih =>
    intro st
    have h1 := mstep_audit env st op (hnc op (by simp))
    have h2 := ih (fun o ho => hnc o (List.mem_cons_of_mem _ ho)) (mstep env st op).1
    simp only [mrun, results_append]
    rw [h2, h1, List.append_assoc]

/-- **The hook sees a complete audit trail**: whenever `on_threat` runs it is handed the blocking decision, and
    what it can read at that moment through `get_audit_log()` / `get_statistics()` already ends with that very
    decision and counts it. -/
theorem c10_membrane_hook_sees_decision (env : Env) (m : Membrane) (now : Nat) (c : Str) (f : Hook)
    (hf : m.onThreat = some f)
    (hblock : (m.filter env now c).2.decision.reason = .scan ∧ (m.filter env now c).2.decision.allowed = false) :
    (m.filter env now c).2.raised = f (m.filter env now c).1.view (m.filter env now c).2.decision ∧
    (m.filter env now c).1.view.audit = m.audit ++ [(m.filter env now c).2.decision] ∧
    (m.filter env now c).1.view.totalBlocked = m.totalBlocked + 1 ∧
    (m.filter env now c).1.view.blockedCount = m.blocked.length + 1 := by
  obtain ⟨d, hd, haud, -, -, -, -, -, -, -, -, -, -, -, -, hs, htf, htb, -, hraise⟩ := filter_spec env m now c
  rw [hd] at hblock ⊢
  refine ⟨by rw [hraise]; simp [hblock, hf, hookRaise], haud, by simp [Membrane.view, htb, hblock.2], ?_⟩
  simp [Membrane.view, (hs hblock.1).2.2.2.2 hblock.2]

/-- **Which signatures are active** (the set the theorems above quantify over).  Innate and custom signatures
    are never dropped by any history that does not edit the public list `m.signatures` directly; a direct edit /
    re-assignment leaves exactly the list that was assigned (plus the learned ones); `learn_threat` (adaptive immunity on, pattern compiles) makes the learned
    signature active at once; after `import_antibodies` every imported pattern text is the key of an active
    signature which is one of the imported antibodies (the last one with that text); `forget_threat p` leaves no
    learned signature with text `p`. -/
theorem c10_membrane_active_signatures (env : Env) (m : Membrane) :
    (∀ (st : MSt) (ops : List MOp) (s : Sig), (∀ op ∈ ops, op.isSetSigs = false) → s ∈ st.m.sigs →
      s ∈ (mrun env st ops).1.m.active) ∧
    (∀ (st : MSt) (l : List Sig) (s : Sig),
      (s ∈ (mstep env st (.setSigs l)).1.m.active ↔ s ∈ l ∨ s ∈ st.m.learned)) ∧
    (∀ s : Sig, m.adaptive = true → (s.isRegex = true → env.compiles s.pat = true) →
      s ∈ (m.learn env s).1.active) ∧
    (∀ (abs : List Sig) (ab : Sig), ab ∈ abs → ∃ y ∈ (m.importAb abs).active, y.pat = ab.pat ∧ y ∈ abs) ∧
    (∀ (p : Str), ∀ x ∈ (m.forget p).learned, x.pat ≠ p) := by
  refine ⟨?_, ?_, ?_, ?_, ?_⟩
  · intro st ops s hops hs
    exact List.mem_append_left _ (mrun_sigs_mono env ops hops st s hs)
  · intro st l s
    simp [mstep, Membrane.setSigs, Membrane.active]
  · intro s ha hc
    unfold Membrane.learn
    simp only [ha, if_true]
    cases hr : s.isRegex with
    | false => simp [Membrane.active, mem_dictSet_self]
    | true => simp [hc hr, Membrane.active, mem_dictSet_self]
  · intro abs ab hab
    obtain ⟨y, hy, hyp, hym⟩ := foldl_dictSet_imported abs m.learned ab hab
    exact ⟨y, List.mem_append_right _ hy, hyp, hym⟩
  · intro p x hx
    simp only [Membrane.forget, dictPop, List.mem_filter, decide_eq_true_eq] at hx
    exact hx.2

/-- **Antibody transfer between living membranes.**  Let a donor membrane be in any state reachable by any history
    from a state with no learned patterns (so its learned patterns form a dict), and let any recipient — whatever
    its own rules, history and `enable_adaptive` flag — execute `import_antibodies(donor.export_antibodies())`.
    Then EVERY signature the donor has learned or imported is itself active in the recipient, and every input such
    a signature matches at or above the recipient's threshold is rejected by the recipient from then on (until a
    rule is relaxed), at every time and whatever its rate limit, hook and replay memory are. -/
theorem c10_membrane_antibody_transfer (env : Env) (donor0 : MSt) (hd : donor0.m.learned = []) (ops : List MOp)
    (rcp : Membrane) (s : Sig) (hs : s ∈ (mrun env donor0 ops).1.m.exportAb) :
    s ∈ (rcp.importAb (mrun env donor0 ops).1.m.exportAb).active ∧
    (rcp.importAb (mrun env donor0 ops).1.m.exportAb).threshold = rcp.threshold ∧
    (rcp.importAb (mrun env donor0 ops).1.m.exportAb).sigs = rcp.sigs ∧
    ∀ (m' : Membrane) (now : Nat) (c : Str),
      m'.active = (rcp.importAb (mrun env donor0 ops).1.m.exportAb).active → m'.threshold = rcp.threshold →
      s.matches env c = true → rcp.threshold ≤ s.level → (m'.filter env now c).2.decision.allowed = false := by
  have hk : KeysDistinct (mrun env donor0 ops).1.m.learned :=
    mrun_keysDistinct env ops donor0 (by rw [hd]; simp [KeysDistinct])
  have hact : s ∈ (rcp.importAb (mrun env donor0 ops).1.m.exportAb).active :=
    List.mem_append_right _ (foldl_dictSet_mem_of_distinct _ hk rcp.learned s hs)
  refine ⟨hact, rfl, rfl, ?_⟩
  intro m' now c hsame hthr hm hlvl
  cases ha : (m'.filter env now c).2.decision.allowed with
  | false => rfl
  | true =>
    exfalso
    have := c10_membrane_allowed_only_if_clean env m' now c ha s (by rw [hsame]; exact hact) hm
    omega

/-! ## Floods: several threads inside `_check_rate_limit` at once

`Operon/Model/RateConc.lean` executes the statements of `_check_rate_limit` (the instruction list `rateProg`, which
`c10_translation_agrees_rate_program` below ties to the current source, lock region included) for any number of
threads under ANY schedule: a schedule is an arbitrary list of "thread i executes its next statement" / "the clock
advances by d" events; a thread waiting for the lock or already returned does nothing when scheduled. -/

/-- the state a schedule `evs` leads to when every thread starts a call on a membrane whose `_request_times` is
    `ts0`, at clock value `clock`, with rate limit `r` and window `W` -/
def floodOf (W r : Nat) (ts0 : List Nat) (clock : Nat) (evs : List CEv) : CSt :=
  crun rateProg (CSt.start ts0 clock (some r) W) evs

/-- **The rate check is a critical section, and every interleaving is a sequential history.**  For every number of
    threads, every schedule and every starting `_request_times`:
    (1) mutual exclusion — a thread between `acquire` and its return holds the lock, so no two threads are ever
        inside together;
    (2) linearizability — the log of returned calls, read in the order of their returns, is exactly a SEQUENTIAL
        history of rate checks: call after call returned what the sequential `_check_rate_limit` (`rateCheckL`, which
        is the membrane model's `rateCheck`) returns at the time that call read, and whenever no thread is inside,
        `_request_times` is what that sequential history leaves;
    (3) the times read by successive calls never decrease.
    This is why a `par` line of the protocol is replayed by the model as the threads' calls one after the other in
    the order in which they passed through the critical section. -/
theorem c10_rate_check_linearizable (W r : Nat) (ts0 : List Nat) (clock : Nat) (evs : List CEv) :
    (∀ j, 2 ≤ ((floodOf W r ts0 clock evs).thr j).pc → ((floodOf W r ts0 clock evs).thr j).pc ≤ 6 →
      (floodOf W r ts0 clock evs).sh.lock = some j) ∧
    (∀ j k, 2 ≤ ((floodOf W r ts0 clock evs).thr j).pc → ((floodOf W r ts0 clock evs).thr j).pc ≤ 6 →
      2 ≤ ((floodOf W r ts0 clock evs).thr k).pc → ((floodOf W r ts0 clock evs).thr k).pc ≤ 6 → j = k) ∧
    (∃ b, seqReplay W r ts0 (floodOf W r ts0 clock evs).sh.log = some b ∧
      ((floodOf W r ts0 clock evs).sh.lock = none → (floodOf W r ts0 clock evs).sh.reqTimes = b)) ∧
    List.Pairwise (· ≤ ·) ((floodOf W r ts0 clock evs).sh.log.map (·.t)) ∧
    (∀ (m : Membrane) (now : Nat), m.rateLimit = some r →
      rateCheck m now = rateCheckL m.window r m.reqTimes now) := by
  obtain ⟨b, h⟩ := concInv_run W r ts0 clock evs _ _ (concInv_start W r ts0 clock)
  refine ⟨fun j h2 h6 => h.excl j ⟨h2, h6⟩, ?_, ⟨b, h.replay, h.free⟩, h.sorted, ?_⟩
  · intro j k hj2 hj6 hk2 hk6
    have h1 := h.excl j ⟨hj2, hj6⟩
    have h2 := h.excl k ⟨hk2, hk6⟩
    unfold floodOf at h1 h2
    rw [h1] at h2; cases h2; rfl
  · intro m now hm
    simp [rateCheck, rateCheckL, hm]

/-- **A flood line of the protocol is a sequential history.**  What the model does for concurrent calls
    (`Membrane.filterSeq`: the calls one after the other in the order in which the threads passed the critical
    section) is literally the history `[filter c₁, filter c₂, …]` at one instant — so every theorem above that
    quantifies over histories (replay memory, audit completeness, rate window, active signatures) covers floods. -/
theorem c10_flood_is_sequential_history (env : Env) (cs : List (Nat × Str)) : ∀ (st : MSt),
    (st.m.filterSeq (fun _ => env) st.now cs).1 = (mrun env st (cs.map fun p => .filter p.2)).1.m ∧
    (mrun env st (cs.map fun p => .filter p.2)).1.now = st.now ∧
    (st.m.filterSeq (fun _ => env) st.now cs).2.map (·.2) = (mrun env st (cs.map fun p => .filter p.2)).2.map (·.out) := by
  induction cs with
  | nil => intro st; simp [Membrane.filterSeq, mrun]
  | cons p rest ih =>
    intro st
    obtain ⟨i, c⟩ := p
    have h := ih ⟨(st.m.filter env st.now c).1, st.now⟩
    simp only [Membrane.filterSeq, List.map_cons, mrun, mstep]
    refine ⟨h.1, h.2.1, ?_⟩
    simp only [Option.toList_some, List.singleton_append, List.map_cons]
    rw [h.2.2]

/-- **A long run (`bulk` line of the protocol) is a sequential history.**  The loop the driver executes for thousands of
    calls on one membrane (`Membrane.filterLoop`, an accumulator loop) computes exactly `Membrane.filterSeq` — for
    EVERY list of inputs, of any length, call `i` under its own environment — and therefore (previous theorem) is the
    history `[filter c₁, filter c₂, …]`: the theorems over histories, which bound neither the length of a history nor
    the size of the replay memory, the request window, the audit trail or the learned patterns, speak about these
    runs.  In particular (`c10_membrane_replay_memory` with `ops` = such a run followed by any relaxation of the
    rules) an input blocked before the run is still refused after it, however long the run. -/
theorem c10_bulk_is_sequential_history (envOf : Nat → Env) (now : Nat) (cs : List (Nat × Str)) :
    (∀ (m : Membrane) (acc : List (Nat × FilterOut)),
      m.filterLoop envOf now cs acc = ((m.filterSeq envOf now cs).1, acc.reverse ++ (m.filterSeq envOf now cs).2)) ∧
    (∀ m : Membrane, m.filterLoop envOf now cs [] = m.filterSeq envOf now cs) ∧
    (∀ (env : Env) (st : MSt) (c : Str),
      (st.m.filter env st.now c).2.decision.allowed = false → (st.m.filter env st.now c).2.decision.reason ≠ .rate →
      ∀ ops : List MOp,
        ((mrun env (mstep env st (.filter c)).1 ((cs.map fun p => MOp.filter p.2) ++ ops)).1.m.filter env
          (mrun env (mstep env st (.filter c)).1 ((cs.map fun p => MOp.filter p.2) ++ ops)).1.now c).2.decision.allowed
          = false) := by
  have h1 : ∀ (cs : List (Nat × Str)) (m : Membrane) (acc : List (Nat × FilterOut)),
      m.filterLoop envOf now cs acc = ((m.filterSeq envOf now cs).1, acc.reverse ++ (m.filterSeq envOf now cs).2) := by
    intro cs
    induction cs with
    | nil => intro m acc; simp [Membrane.filterLoop, Membrane.filterSeq]
    | cons p rest ih =>
      intro m acc
      obtain ⟨i, c⟩ := p
      simp only [Membrane.filterLoop, Membrane.filterSeq]
      rw [ih]
      simp
  refine ⟨h1 cs, ?_, ?_⟩
  · intro m
    rw [h1 cs m []]
    simp
  · intro env st c hrej hnr ops
    exact c10_membrane_replay_memory env st c hrej hnr _

/-- **A re-entrant hook is a history.**  When the user's `on_threat` hook, while it runs, un-installs itself, calls back
    into the membrane (any operations: further `filter` calls, `learn_threat`, `set_threshold`, …) and re-installs itself,
    the state in which the outer `filter` returns is the state after the HISTORY "`m.on_threat = None`; the hook's
    operations; `m.on_threat = hook`" run on the booked state of the outer call — so the theorems over histories
    (replay memory, audit completeness, rate window, active signatures) speak about everything a re-entrant hook does.
    In particular the input the hook was told about is refused when the hook itself sends it again
    (`c10_membrane_replay_memory`: it was booked before the hook ran). -/
theorem c10_reentrant_hook_is_history (env : Env) (m : Membrane) (now : Nat) (h : Option Hook) (ops : List MOp) :
    (m.reenter env now h ops).1 = (mrun env ⟨m, now⟩ ([.setHook none] ++ ops ++ [.setHook h])).1 ∧
    (m.reenter env now h ops).2 = (mrun env ⟨m, now⟩ ([.setHook none] ++ ops ++ [.setHook h])).2 := by
  have happ : ∀ (xs ys : List MOp) (st : MSt),
      mrun env st (xs ++ ys) = ((mrun env (mrun env st xs).1 ys).1, (mrun env st xs).2 ++ (mrun env (mrun env st xs).1 ys).2) := by
    intro xs
    induction xs with
    | nil => intro ys st; simp [mrun]
    | cons x xs ih =>
      intro ys st
      simp only [List.cons_append, mrun]
      rw [ih]
      simp [List.append_assoc]
  unfold Membrane.reenter
  rw [List.append_assoc, happ [.setHook none], happ ops]
  simp [mrun, mstep]

/-- **Rate window under floods.**  Take any sequential history on a fresh membrane with rate limit `r` (no
    re-assignment of the limit), then let any number of threads call `filter` concurrently — their
    `_check_rate_limit` executions interleaved statement by statement in any way, the clock advancing at any point.
    For every instant `T`, the calls admitted by the rate check at a time in `(T - window, T]` — those of the
    sequential history and those of the flood together — number at most `r`. -/
theorem c10_membrane_rate_window_concurrent (env : Env) (st : MSt) (r : Nat) (hr : st.m.rateLimit = some r)
    (hfresh : st.m.reqTimes = []) (ops : List MOp) (hops : ∀ op ∈ ops, op.isSetRate = false)
    (evs : List CEv) (T : Nat) :
    ((admissions (mrun env st ops).2 ++
      admits (floodOf st.m.window r (mrun env st ops).1.m.reqTimes (mrun env st ops).1.now evs).sh.log).filter
        (inWin st.m.window T)).length ≤ r := by
  have h0 : RateInv st.m.window r st [] :=
    ⟨hr, ⟨rfl, by simp, by intro q _; simp [hfresh, prune]⟩, by simp⟩
  have h1 := rateInv_run env st.m.window r ops hops st [] h0
  simp only [List.nil_append] at h1
  obtain ⟨b, h⟩ := concInv_run st.m.window r (mrun env st ops).1.m.reqTimes (mrun env st ops).1.now evs _ _
    (concInv_start st.m.window r _ _)
  exact seqReplay_bound st.m.window r _ _ _ (mrun env st ops).1.now b h.replay h.sorted h.lo1
    h1.syn.sync h1.syn.past h1.bound T

/-! ## Innate immunity -/

/-- **No input makes the innate check raise**, given only that `json.loads` fails with one of the exception
    classes it is known to raise (JSONDecodeError, another ValueError, RecursionError) — for every validator list
    built from the three shipped validators, every pattern list, every state and time.  The only exception that
    can leave `check` is then one raised by the user's `on_inflammation` hook (tagged `hook:`), which runs only
    for a level above NONE, after the inflammation state was recorded: without a hook, or with a hook that
    returns, there is always a result. -/
theorem c10_innate_total (env : Env) (im : Innate) (now : Nat) (c : Str) (hj : env.json c ≠ .other) :
    ((∃ r, (im.check env now c).2 = .ok r) ∨
      (∃ k f, (im.check env now c).2 = .raise ("hook:" ++ k) ∧ im.onInflammation = some f)) ∧
    ((∀ f, im.onInflammation = some f → ∀ v l, f v l = none) → ∃ r, (im.check env now c).2 = .ok r) ∧
    (im.check env now c).1.checkCount = im.checkCount + 1 := by
  obtain ⟨errs, he⟩ := runValidators_total env im.validators c (fun v _ => run_total env v c hj)
  obtain ⟨-, hor, -, -, -, hcc⟩ := check_spec env im now c errs he
  refine ⟨?_, ?_, hcc⟩
  · rcases hor with h | ⟨k, hk, -, hh⟩
    · exact Or.inl h
    · cases ho : im.onInflammation with
      | none => simp [innHookRaise, ho] at hh
      | some f => exact Or.inr ⟨k, f, hk, rfl⟩
  · intro hf
    rcases hor with h | ⟨k, hk, -, hh⟩
    · exact h
    · cases ho : im.onInflammation with
      | none => simp [innHookRaise, ho] at hh
      | some f => simp [innHookRaise, ho, hf f ho] at hh

/-- **Allowed only if clean**, exact characterisation: `check` allows `c` iff every matching TLR pattern has a
    severity strictly below the threshold (and the threshold is not 0), every structural validator accepts `c`,
    and the inflammation level computed for this input is below ACUTE.  The result lists exactly the matching
    patterns and exactly the rejecting validators. -/
theorem c10_innate_allowed_iff (env : Env) (im : Innate) (now : Nat) (c : Str) (r : CheckRes)
    (h : (im.check env now c).2 = .ok r) :
    r.matched = im.patterns.filter (fun s => s.matches env c) ∧
    r.errors = im.validators.filter (fun v => v.rejects env c) ∧
    (r.allowed = true ↔
      ((0 < im.sevThreshold ∧ ∀ s ∈ im.patterns, s.matches env c = true → s.level < im.sevThreshold) ∧
       (∀ v ∈ im.validators, v.run env c = .ok true) ∧ r.level < lvlAcute)) := by
  cases hv : runValidators env im.validators c with
  | raise k => rw [check_raise env im now c k hv] at h; cases h
  | ok errs =>
    obtain ⟨hspec, -⟩ := check_spec env im now c errs hv
    obtain ⟨hm, he, hl, hal⟩ := hspec r h
    obtain ⟨hfilt, hok⟩ := runValidators_ok env im.validators c errs hv
    refine ⟨hm, by rw [he, hfilt], ?_⟩
    rw [hal, maxLevel_lt_iff, hl]
    have herr : errs = [] ↔ ∀ v ∈ im.validators, v.run env c = .ok true := by
      rw [hfilt, List.filter_eq_nil_iff]
      constructor
      · intro hno v hvm
        obtain ⟨b, hb⟩ := hok v hvm
        cases b with
        | true => exact hb
        | false => exact absurd (by simp [Validator.rejects, hb]) (hno v hvm)
      · intro hall v hvm
        simp [Validator.rejects, hall v hvm]
    rw [herr]
    simp only [mem_matched]
    constructor
    · rintro ⟨⟨h0, hall⟩, hvs, hlv⟩; exact ⟨⟨h0, fun s hs hm => hall s ⟨hs, hm⟩⟩, hvs, hlv⟩
    · rintro ⟨⟨h0, hall⟩, hvs, hlv⟩; exact ⟨⟨h0, fun s hs => hall s hs.1 hs.2⟩, hvs, hlv⟩

/-- **Allowed only if clean** (the direction the property states). -/
theorem c10_innate_allowed_only_if_clean (env : Env) (im : Innate) (now : Nat) (c : Str) (r : CheckRes)
    (h : (im.check env now c).2 = .ok r) (ha : r.allowed = true) :
    (∀ s ∈ im.patterns, s.matches env c = true → s.level < im.sevThreshold) ∧
    (∀ v ∈ im.validators, v.rejects env c = false) := by
  obtain ⟨-, -, hiff⟩ := c10_innate_allowed_iff env im now c r h
  obtain ⟨⟨-, hp⟩, hv, -⟩ := hiff.mp ha
  exact ⟨hp, fun v hvm => by simp [Validator.rejects, hv v hvm]⟩

/-- **A signature-blocked input stays blocked under perturbation**: if some pattern at or above the severity
    threshold matches `c`, and `c'` keeps every hit of `c`, then `check` rejects `c'` in every state with the same
    patterns and threshold, at every time, whatever the inflammation state and the validators. -/
theorem c10_innate_blocked_stays_blocked (env : Env) (im im' : Innate) (now' : Nat) (c c' : Str)
    (hblocked : ∃ s ∈ im.patterns, s.matches env c = true ∧ im.sevThreshold ≤ s.level)
    (hsame : im'.patterns = im.patterns ∧ im'.sevThreshold = im.sevThreshold)
    (hkeeps : KeepsHits env im.patterns c c') (r' : CheckRes) (h' : (im'.check env now' c').2 = .ok r') :
    r'.allowed = false := by
  cases ha : r'.allowed with
  | false => rfl
  | true =>
    exfalso
    obtain ⟨s, hs, hm, hle⟩ := hblocked
    have := (c10_innate_allowed_only_if_clean env im' now' c' r' h' ha).1 s (by rw [hsame.1]; exact hs)
      (hkeeps s hs hm)
    rw [hsame.2] at this
    omega

/-- **Case changes and embedding** for the innate filter: a case variant of a signature-blocked input (regex
    patterns assumed case-invariant) and an embedding of it (each regex that matched assumed to still match) are
    rejected; substring patterns need no hypothesis. -/
theorem c10_innate_case_and_embedding (env : Env) (im im' : Innate) (now' : Nat) (c : Str)
    (hblocked : ∃ s ∈ im.patterns, s.matches env c = true ∧ im.sevThreshold ≤ s.level)
    (hsame : im'.patterns = im.patterns ∧ im'.sevThreshold = im.sevThreshold) :
    (∀ c', CaseVariant env c c' → (∀ s ∈ im.patterns, s.isRegex = true → RxCaseInv env s.pat) →
      ∀ r', (im'.check env now' c').2 = .ok r' → r'.allowed = false) ∧
    (∀ pre post,
      (∀ s ∈ im.patterns, s.isRegex = true → env.rx s.pat c = true → env.rx s.pat (pre ++ c ++ post) = true) →
      ∀ r', (im'.check env now' (pre ++ c ++ post)).2 = .ok r' → r'.allowed = false) := by
  constructor
  · intro c' hv hrx r' h'
    exact c10_innate_blocked_stays_blocked env im im' now' c c' hblocked hsame
      (keepsHits_of_case env im.patterns c c' hv hrx) r' h'
  · intro pre post hrx r' h'
    exact c10_innate_blocked_stays_blocked env im im' now' c _ hblocked hsame
      (keepsHits_of_embed env im.patterns c pre post hrx) r' h'

/-- **What "a structural validator rejects" means**, exactly, for the three shipped validators:
    length — shorter than `min` or longer than `max` (in code points); character set — a NUL when not allowed,
    or a control character other than tab / newline / carriage return when not allowed; JSON — longer than
    `max_size`, or not parseable (decode error, oversized integer literal, nesting beyond the interpreter's limit),
    or parsed with true nesting depth above `max_depth` (the early exit of `_measure_depth` never changes the
    verdict). -/
theorem c10_validators_reject_exactly (env : Env) (c : Str) :
    (∀ mn mx, (Validator.length mn mx).rejects env c = true ↔ (c.length < mn ∨ mx < c.length)) ∧
    (∀ allowCtl allowNull, (Validator.charset allowCtl allowNull).rejects env c = true ↔
      ((allowNull = false ∧ 0 ∈ c) ∨
       (allowCtl = false ∧ ∃ x ∈ c, x < 32 ∧ x ≠ 9 ∧ x ≠ 10 ∧ x ≠ 13))) ∧
    (∀ md ms, env.json c ≠ .other → ((Validator.json md ms).rejects env c = true ↔
      (ms < c.length ∨ (∀ t, env.json c ≠ .parsed t) ∨ ∃ t, env.json c = .parsed t ∧ md < depth t))) := by
  refine ⟨?_, ?_, ?_⟩
  · intro mn mx
    simp only [Validator.rejects, Validator.run]
    by_cases h1 : c.length < mn <;> by_cases h2 : c.length > mx <;> simp [h1, h2] <;> omega
  · intro allowCtl allowNull
    have hbad : c.any isBadCtl = true ↔ ∃ x ∈ c, x < 32 ∧ x ≠ 9 ∧ x ≠ 10 ∧ x ≠ 13 := by
      simp [List.any_eq_true, isBadCtl, and_assoc]
    rw [← hbad]
    have hmem : (0 ∈ c) ↔ c.contains 0 = true := by simp
    rw [hmem]
    simp only [Validator.rejects, Validator.run]
    generalize c.contains 0 = b0
    generalize c.any isBadCtl = b1
    cases allowNull <;> cases allowCtl <;> cases b0 <;> cases b1 <;> simp
  · intro md ms hj
    simp only [Validator.rejects, Validator.run]
    by_cases hsz : c.length > ms
    · simp [hsz]
    · simp only [hsz, if_false]
      cases hjs : env.json c with
      | parsed t =>
        have := measure_gt md t 0
        simp only [Nat.zero_add] at this
        by_cases hd : measure md t 0 > md
        · have hd' := this.mp hd
          simp [hd]
          omega
        · have hd' : ¬ depth t > md := fun h => hd (this.mpr h)
          simp [hd]
          omega
      | decodeError => simp
      | valueError => simp
      | recursionError => simp
      | other => exact absurd hjs hj

/-- **Innate: an input blocked by accumulated inflammation (ACUTE) stays blocked.**  `check` also rejects when the
    matched patterns — each possibly below the severity threshold — add up to inflammation level ACUTE.  If `c` is
    answered with level ACUTE, and `c'` keeps every hit of `c` (a case variant, an embedding: `keepsHits_of_case`,
    `keepsHits_of_embed`) while no fewer validators reject it, then `c'` is answered with ACUTE and rejected by every
    gate state with the same patterns and cut-offs, at every time, whatever its inflammation history, threshold and
    hook are.  More generally the level never decreases from `c` to `c'` in the same state. -/
theorem c10_innate_acute_stays_blocked (env : Env) (im im' : Innate) (now now' : Nat) (c c' : Str)
    (hsame : im'.patterns = im.patterns ∧ im'.cuts = im.cuts)
    (hkeeps : KeepsHits env im.patterns c c')
    (errs errs' : List Validator) (he : runValidators env im.validators c = .ok errs)
    (he' : runValidators env im'.validators c' = .ok errs') (hn : errs.length ≤ errs'.length) :
    (im'.cooling now' = im.cooling now → im.levelFor env now c errs ≤ im'.levelFor env now' c' errs') ∧
    (∀ r, (im.check env now c).2 = .ok r → r.level = lvlAcute →
      ∀ r', (im'.check env now' c').2 = .ok r' → r'.level = lvlAcute ∧ r'.allowed = false) := by
  obtain ⟨hsum, hmax, hlen⟩ := matched_dominates env im.patterns c c' hkeeps
  have hmono : ∀ cool, newLevel im.cuts (sumLevels (matched env im.patterns c) + errs.length * im.cuts.errWeight)
      (maxLevel (matched env im.patterns c)) ((matched env im.patterns c).length + errs.length) cool ≤
      newLevel im.cuts (sumLevels (matched env im.patterns c') + errs'.length * im.cuts.errWeight)
      (maxLevel (matched env im.patterns c')) ((matched env im.patterns c').length + errs'.length) cool := by
    intro cool
    apply newLevel_mono
    · have := Nat.mul_le_mul_right im.cuts.errWeight hn; omega
    · exact hmax
    · omega
  constructor
  · intro hcool
    unfold Innate.levelFor Innate.levelOf
    rw [hsame.1, hsame.2, hcool]
    exact hmono _
  · intro r hr hac r' hr'
    obtain ⟨hspec, -⟩ := check_spec env im now c errs he
    obtain ⟨-, -, hl, -⟩ := hspec r hr
    obtain ⟨hspec', -⟩ := check_spec env im' now' c' errs' he'
    obtain ⟨-, -, hl', hal'⟩ := hspec' r' hr'
    -- ACUTE does not depend on the cooling flag
    have hA : ∀ k t mx n cool cool', newLevel k t mx n cool = lvlAcute → newLevel k t mx n cool' = lvlAcute := by
      intro k t mx n cool cool' h
      unfold newLevel lvlAcute lvlHigh lvlMedium lvlLow lvlNone at *
      by_cases h1 : t ≥ k.acuteTotal ∨ mx ≥ k.acuteMax
      · simp [h1]
      · simp only [h1, if_false] at h
        repeat' split at h
        all_goals omega
    have hle : ∀ k t mx n cool, newLevel k t mx n cool ≤ lvlAcute := by
      intro k t mx n cool
      unfold newLevel lvlAcute lvlHigh lvlMedium lvlLow lvlNone
      repeat' split
      all_goals omega
    have hlv : im.levelFor env now c errs = lvlAcute := by rw [← hl]; exact hac
    have h1 : r'.level = lvlAcute := by
      rw [hl']
      unfold Innate.levelFor Innate.levelOf at hlv ⊢
      rw [hsame.1, hsame.2]
      have h2 := hA _ _ _ _ _ (im'.cooling now') hlv
      have h3 := hmono (im'.cooling now')
      have h4 := hle im.cuts (sumLevels (matched env im.patterns c') + errs'.length * im.cuts.errWeight)
        (maxLevel (matched env im.patterns c')) ((matched env im.patterns c').length + errs'.length) (im'.cooling now')
      omega
    refine ⟨h1, ?_⟩
    cases ha : r'.allowed with
    | false => rfl
    | true =>
      have := (hal'.mp ha).2.2
      rw [← hl', h1] at this
      exact absurd this (Nat.lt_irrefl _)

/-- **Which validator rejections survive embedding** (the structural validators judge the whole text, so "blocked
    stays blocked" holds for the rejections that are about something the text CONTAINS or about its being too long,
    and only for those): a character-set rejection (NUL / control character) and the two size bounds (`max_length`,
    JSON `max_size`) persist for `pre ++ c ++ post`.  A minimum-length rejection and a JSON parse / depth rejection do
    not (`c10_innate_validator_block_not_embedding_stable_witness`). -/
theorem c10_validator_rejections_stable_under_embedding (env : Env) (c pre post : Str) :
    (∀ allowCtl allowNull, (Validator.charset allowCtl allowNull).rejects env c = true →
      (Validator.charset allowCtl allowNull).rejects env (pre ++ c ++ post) = true) ∧
    (∀ mn mx, mx < c.length → (Validator.length mn mx).rejects env (pre ++ c ++ post) = true) ∧
    (∀ md ms, ms < c.length → (Validator.json md ms).rejects env (pre ++ c ++ post) = true) := by
  refine ⟨?_, ?_, ?_⟩
  · intro allowCtl allowNull h
    have hx := (c10_validators_reject_exactly env c).2.1 allowCtl allowNull
    have hy := (c10_validators_reject_exactly env (pre ++ c ++ post)).2.1 allowCtl allowNull
    rw [hy]
    rcases hx.mp h with ⟨h1, h2⟩ | ⟨h1, x, hx1, hx2⟩
    · exact Or.inl ⟨h1, by simp [h2]⟩
    · exact Or.inr ⟨h1, x, by simp [hx1], hx2⟩
  · intro mn mx h
    rw [(c10_validators_reject_exactly env (pre ++ c ++ post)).1 mn mx]
    right; simp only [List.length_append]; omega
  · intro md ms h
    have : (pre ++ c ++ post).length > ms := by simp only [List.length_append]; omega
    simp only [Validator.rejects, Validator.run, this, if_true]

-- FULL (false, by design of the validators): every input `check` rejects is still rejected when embedded in benign text.
/-- **Witness: a validator-blocked input need not stay blocked when embedded.**  With the shipped JSON validator,
    `abc` is rejected (not JSON) while `"abc"` — the same text between two quote characters — is a JSON string and
    is allowed; with `LengthValidator(min_length=5)`, `hi` is rejected and `well hi there` is allowed.  The clause
    "a blocked input stays blocked … when embedded" is therefore claimed for signature hits
    (`c10_innate_blocked_stays_blocked`), accumulated inflammation (`c10_innate_acute_stays_blocked`) and the
    rejections listed in `c10_validator_rejections_stable_under_embedding`, not for these two. -/
theorem c10_innate_validator_block_not_embedding_stable_witness :
    (∃ (env : Env) (im : Innate) (c pre post : Str) (r r' : CheckRes),
      (im.check env 0 c).2 = .ok r ∧ r.allowed = false ∧
      (im.check env 0 (pre ++ c ++ post)).2 = .ok r' ∧ r'.allowed = true ∧ im.validators = [.json 10 100]) ∧
    (∃ (env : Env) (im : Innate) (c pre post : Str) (r r' : CheckRes),
      (im.check env 0 c).2 = .ok r ∧ r.allowed = false ∧
      (im.check env 0 (pre ++ c ++ post)).2 = .ok r' ∧ r'.allowed = true ∧ im.validators = [.length 5 100]) := by
  constructor
  · exact ⟨⟨foldStd, fun _ _ => false, fun _ => true, fun s => if s = [97, 98, 99] then .decodeError else .parsed .scalar⟩,
      Innate.new [] (some [.json 10 100]) [] 3 0 ⟨10, 5, 6, 4, 3, 2, 1, 2⟩, [97, 98, 99], [34], [34],
      ⟨false, [], [.json 10 100], 1⟩, ⟨true, [], [], 0⟩, by decide, rfl, by decide, rfl, rfl⟩
  · exact ⟨⟨foldStd, fun _ _ => false, fun _ => true, fun _ => .decodeError⟩,
      Innate.new [] (some [.length 5 100]) [] 3 0 ⟨10, 5, 6, 4, 3, 2, 1, 2⟩, [104, 105],
      [119, 101, 108, 108, 32], [32, 116, 104, 101, 114, 101],
      ⟨false, [], [.length 5 100], 1⟩, ⟨true, [], [], 0⟩, by decide, rfl, by decide, rfl, rfl⟩

/-! ## Constants regenerated from the source -/

/-- The extractor recognised every constant it is responsible for (window length, default thresholds, level
    enumerations, inflammation cut-offs, validator defaults, both built-in signature tables).  A `none` here means
    the source no longer has the shape the model assumes.  Last conjunct: both `matches` methods, evaluated on
    discriminating pairs (capital sigma inside / at the end of a word, sharp s against SS, dotted capital I), compare
    substring signatures by full case folding — the code-point-wise map the model's `Env.lower : Nat → Str` stands
    for, which is what makes the embedding and case-change theorems hypothesis-free for substring signatures
    (with `str.lower()`, as before the `fix:` commit dc1025f, they are false: see `corpus/C10/sigma_embedding.json`). -/
theorem c10_consts_extracted :
    Operon.Gen.Gates.membraneWindowS.isSome ∧ Operon.Gen.Gates.membraneDefaultThreshold.isSome ∧
    Operon.Gen.Gates.membraneCritical = some critical ∧
    Operon.Gen.Gates.innateDefaultSevThreshold.isSome ∧ Operon.Gen.Gates.inflCuts.isSome ∧
    Operon.Gen.Gates.inflammationLevels =
      some [("NONE", lvlNone), ("LOW", lvlLow), ("MEDIUM", lvlMedium), ("HIGH", lvlHigh), ("ACUTE", lvlAcute)] ∧
    Operon.Gen.Gates.innateDefaultValidators.isSome ∧ Operon.Gen.Gates.jsonDefaults.isSome ∧
    Operon.Gen.Gates.membraneBuiltins.isSome ∧ Operon.Gen.Gates.innateBuiltins.isSome ∧
    Operon.Gen.Gates.substringFolding = some "casefold" := by
  decide

/-- the rows of a response table are cumulative: levels ascending by one, every row's actions / escalation targets
    extend the previous row's, the rate factor never rises -/
def cumulative : List (Nat × List String × List String × Nat × Bool) → Bool
  | (l1, a1, e1, f1, g1) :: (l2, a2, e2, f2, g2) :: rest =>
    (l2 == l1 + 1) && a1.isPrefixOf a2 && e1.isPrefixOf e2 && decide (f2 ≤ f1) && cumulative ((l2, a2, e2, f2, g2) :: rest)
  | _ => true

/-- **The inflammation response as a function of the level**, evaluated on the current code through `check` (one
    crafted input per level — so an if-cascade and a lookup table yield the same facts): all five levels NONE … ACUTE
    occur, the response is cumulative, enhanced logging is on exactly from LOW, NONE entails no action at the full
    rate, and ACUTE entails lockdown at rate 0. -/
theorem c10_inflammation_response_table :
    ∃ t, Operon.Gen.Gates.inflammationResponses = some t ∧
      t.map (·.1) = [lvlNone, lvlLow, lvlMedium, lvlHigh, lvlAcute] ∧ cumulative t = true ∧
      (t.all fun r => r.2.2.2.2 == decide (r.1 ≥ lvlLow)) = true ∧
      t.head? = some (lvlNone, [], [], 10, false) ∧
      (t.getLast?.map fun r => (r.2.2.2.1, r.2.1.contains "lockdown")) = some (0, true) := by
  exact ⟨_, rfl, by decide, by decide, by decide, by decide, by decide⟩

/-- the membrane a default constructor call builds, from the regenerated tables -/
def shippedMembrane : Membrane :=
  Membrane.new ((Operon.Gen.Gates.membraneBuiltins.getD []).map fun (p, l, r) => ⟨p, l, r⟩)
    (Operon.Gen.Gates.membraneDefaultThreshold.getD 0) true none
    (Operon.Gen.Gates.membraneWindowS.getD 0 * 1000000)

/-- **The shipped configuration blocks every instance of its own substring signatures at or above the default
    threshold**, in any letter case and embedded anywhere: for every built-in substring signature `s` of the
    current source with level ≥ the default threshold, every input whose lower-cased form contains the
    lower-cased pattern is rejected — also after any history that leaves rules and threshold unchanged. -/
theorem c10_shipped_membrane_blocks_own_signatures (env : Env) (m' : Membrane) (now : Nat)
    (hsame : m'.active = shippedMembrane.active ∧ m'.threshold = shippedMembrane.threshold)
    (s : Sig) (hs : s ∈ shippedMembrane.sigs) (hsub : s.isRegex = false)
    (hlvl : shippedMembrane.threshold ≤ s.level) (c : Str)
    (hc : isInfix (lowerS env s.pat) (lowerS env c) = true) :
    (m'.filter env now c).2.decision.allowed = false := by
  cases ha : (m'.filter env now c).2.decision.allowed with
  | false => rfl
  | true =>
    exfalso
    have := c10_membrane_allowed_only_if_clean env m' now c ha s
      (by rw [hsame.1]; exact List.mem_append_left _ hs)
      (by simp [Sig.matches, hsub, hc])
    rw [hsame.2] at this
    omega

/-- **`ThreatSignature.matches` and `TLRPattern.matches` of the current source are the model's `Sig.matches`**:
    the two methods (with the `__post_init__` that compiles a regex signature — IGNORECASE only, exactly when
    `is_regex`), translated from the Python AST on every run: a regex signature asks `search` of its compiled pattern
    on the WHOLE content, a substring signature asks containment after `casefold()` on both sides.  (`match` /
    `fullmatch`, a slice or other transformation of the content, `lower()`, another compile flag, a stripped pattern,
    an extra guard leave the translator's subset and this theorem fails.) -/
theorem c10_translation_agrees_matches (env : Env) (s : Sig) (c : Str) :
    Tr.memMatches env s c = s.matches env c ∧ Tr.innMatches env s c = s.matches env c :=
  ⟨rfl, rfl⟩

/-! ## The shipped regex signatures (their parse trees are regenerated from the shipped tables on every run) -/

/-- every regex of the two shipped tables, as (pattern text, parse tree) -/
def shippedRegexes : List (Str × Rx.Re) := Operon.Gen.Gates.membraneRegexes ++ Operon.Gen.Gates.innateRegexes

/-- a regex engine that, on the shipped patterns, is `re` as modelled: `env.rx pattern text` is a search with the
    pattern's parse tree under the character tables `ce` -/
def RxShipped (env : Env) (ce : Rx.CharEnv) : Prop :=
  ∀ e ∈ shippedRegexes, ∀ c, env.rx e.1 c = Rx.search ce e.2 c

/-- **The regex tables of the two generated files are the same tables**: the patterns of
    `Operon.Gen.Gates.membraneRegexes` / `innateRegexes` are exactly the regex entries of the shipped signature tables
    (`membraneBuiltins` / `innateBuiltins`), in order; there is at least one of each. -/
theorem c10_shipped_regex_tables_consistent :
    Operon.Gen.Gates.membraneRegexes.map (·.1) =
      ((Operon.Gen.Gates.membraneBuiltins.getD []).filter (·.2.2)).map (·.1) ∧
    Operon.Gen.Gates.innateRegexes.map (·.1) =
      ((Operon.Gen.Gates.innateBuiltins.getD []).filter (·.2.2)).map (·.1) ∧
    Operon.Gen.Gates.membraneBuiltins.isSome = true ∧ Operon.Gen.Gates.innateBuiltins.isSome = true ∧
    0 < Operon.Gen.Gates.membraneRegexes.length ∧ 0 < Operon.Gen.Gates.innateRegexes.length := by
  decide

/-- **Every shipped regex signature stays matched under separated embedding** — for every shipped regex (membrane
    and innate table of the current source), every text it matches, every surrounding text whose code points next to
    the text are not word characters (or absent), and whatever `re`'s character tables are: the regex still matches
    `pre ++ text ++ post`.  The proof uses that the shipped patterns consist of literals, classes, alternation,
    repetition and `\b` only — no `^`, `$`, `\A`, `\Z`, look-around, back-reference or compile flag beyond
    IGNORECASE (checked on the regenerated parse trees; this is what fails when a shipped pattern is anchored). -/
theorem c10_shipped_regexes_embedding_stable (ce : Rx.CharEnv) (e : Str × Rx.Re) (he : e ∈ shippedRegexes)
    (text pre post : Str) (hsep : Rx.Separated ce pre post) (h : Rx.search ce e.2 text = true) :
    Rx.search ce e.2 (pre ++ text ++ post) = true := by
  have hall : ∀ e ∈ shippedRegexes, e.2.anchorFree = true := by decide
  exact Rx.search_embedding_stable ce e.2 (hall e he) text pre post hsep h

/-- **Membrane, embedding, shipped regexes without hypothesis**: with `re` as modelled on the shipped patterns, a
    separated embedding never lowers the level and a blocked input stays blocked; a hypothesis remains only for
    regex signatures that are NOT shipped (custom, learned, imported ones — the user's regex). -/
theorem c10_membrane_shipped_embedding (env : Env) (ce : Rx.CharEnv) (hrx : RxShipped env ce)
    (m m' : Membrane) (now' : Nat) (c pre post : Str) (hsep : Rx.Separated ce pre post)
    (hother : ∀ s ∈ m.active, s.isRegex = true → s.pat ∉ shippedRegexes.map (·.1) →
      env.rx s.pat c = true → env.rx s.pat (pre ++ c ++ post) = true) :
    scanLevel env m.active c ≤ scanLevel env m.active (pre ++ c ++ post) ∧
    (¬ scanLevel env m.active c < m.threshold → m'.active = m.active ∧ m'.threshold = m.threshold →
      (m'.filter env now' (pre ++ c ++ post)).2.decision.allowed = false) := by
  apply c10_membrane_embedding_monotone
  intro s hs hr hm
  by_cases hsh : s.pat ∈ shippedRegexes.map (·.1)
  · obtain ⟨e, he, hpe⟩ := List.mem_map.mp hsh
    rw [← hpe] at hm ⊢
    rw [hrx e he] at hm ⊢
    exact c10_shipped_regexes_embedding_stable ce e he c pre post hsep hm
  · exact hother s hs hr hsh hm

/-- **Innate filter, embedding, shipped regexes without hypothesis**: the same for `InnateImmunity.check` — an input
    blocked by a pattern at or above the severity threshold stays blocked under separated embedding. -/
theorem c10_innate_shipped_embedding (env : Env) (ce : Rx.CharEnv) (hrx : RxShipped env ce)
    (im im' : Innate) (now' : Nat) (c pre post : Str) (hsep : Rx.Separated ce pre post)
    (hblocked : ∃ s ∈ im.patterns, s.matches env c = true ∧ im.sevThreshold ≤ s.level)
    (hsame : im'.patterns = im.patterns ∧ im'.sevThreshold = im.sevThreshold)
    (hother : ∀ s ∈ im.patterns, s.isRegex = true → s.pat ∉ shippedRegexes.map (·.1) →
      env.rx s.pat c = true → env.rx s.pat (pre ++ c ++ post) = true) :
    ∀ r', (im'.check env now' (pre ++ c ++ post)).2 = .ok r' → r'.allowed = false := by
  apply (c10_innate_case_and_embedding env im im' now' c hblocked hsame).2 pre post
  intro s hs hr hm
  by_cases hsh : s.pat ∈ shippedRegexes.map (·.1)
  · obtain ⟨e, he, hpe⟩ := List.mem_map.mp hsh
    rw [← hpe] at hm ⊢
    rw [hrx e he] at hm ⊢
    exact c10_shipped_regexes_embedding_stable ce e he c pre post hsep hm
  · exact hother s hs hr hsh hm

/-- **Every shipped regex signature is understood by the model and stays matched under case changes** — for every
    shipped regex: its parse tree contains only constructs the model gives a meaning to, and a text that `re`'s tables
    cannot tell apart from a matched text code point by code point (`Rx.CaseVar`: same classes `\d \s \w`, equal
    to the same pattern literals under IGNORECASE, same ranges) is matched too.  Holds with anchors as well; what it
    needs from the shipped table is the IGNORECASE flag and nothing unsupported. -/
theorem c10_shipped_regexes_case_stable (ce : Rx.CharEnv) (e : Str × Rx.Re) (he : e ∈ shippedRegexes) :
    e.2.supported = true ∧
    ∀ text text', Rx.CaseVar ce text text' → Rx.search ce e.2 text = true → Rx.search ce e.2 text' = true := by
  have hall : ∀ e ∈ shippedRegexes, e.2.supported = true := by decide
  exact ⟨hall e he, fun text text' hcv h => Rx.search_case_stable ce e.2 text text' hcv h⟩

/-- **Membrane and innate filter, case changes, shipped regexes without hypothesis**: with `re` as modelled on the
    shipped patterns, a case variant (same folded code points, and code point by code point indistinguishable for
    `re`'s tables) of a blocked input is blocked — by the membrane and by the innate filter; a hypothesis remains only
    for regexes that are not shipped. -/
theorem c10_shipped_case_variants_blocked (env : Env) (ce : Rx.CharEnv) (hrx : RxShipped env ce) (c c' : Str)
    (hv : CaseVariant env c c') (hcv : Rx.CaseVar ce c c') :
    (∀ (m m' : Membrane) (now' : Nat),
      (∀ s ∈ m.active, s.isRegex = true → s.pat ∉ shippedRegexes.map (·.1) →
        env.rx s.pat c = true → env.rx s.pat c' = true) →
      ¬ scanLevel env m.active c < m.threshold → m'.active = m.active ∧ m'.threshold = m.threshold →
      (m'.filter env now' c').2.decision.allowed = false) ∧
    (∀ (im im' : Innate) (now' : Nat),
      (∀ s ∈ im.patterns, s.isRegex = true → s.pat ∉ shippedRegexes.map (·.1) →
        env.rx s.pat c = true → env.rx s.pat c' = true) →
      (∃ s ∈ im.patterns, s.matches env c = true ∧ im.sevThreshold ≤ s.level) →
      im'.patterns = im.patterns ∧ im'.sevThreshold = im.sevThreshold →
      ∀ r', (im'.check env now' c').2 = .ok r' → r'.allowed = false) := by
  -- every signature that matched `c` matches `c'`: substring signatures by case folding, shipped regexes by the
  -- regex model, other regexes by the hypothesis
  have keeps : ∀ sigs : List Sig, (∀ s ∈ sigs, s.isRegex = true → s.pat ∉ shippedRegexes.map (·.1) →
      env.rx s.pat c = true → env.rx s.pat c' = true) → KeepsHits env sigs c c' := by
    intro sigs hother s hs hm
    cases hr : s.isRegex with
    | false => rw [← matches_sub_case env s hr c c' hv]; exact hm
    | true =>
      simp only [Sig.matches, hr, if_true] at hm ⊢
      by_cases hsh : s.pat ∈ shippedRegexes.map (·.1)
      · obtain ⟨e, he, hpe⟩ := List.mem_map.mp hsh
        rw [← hpe] at hm ⊢
        rw [hrx e he] at hm ⊢
        exact (c10_shipped_regexes_case_stable ce e he).2 c c' hcv hm
      · exact hother s hs hr hsh hm
  constructor
  · intro m m' now' hother hb hsame
    exact c10_membrane_blocked_stays_blocked env m m' now' c c' hb hsame (keeps m.active hother)
  · intro im im' now' hother hblocked hsame r' h'
    exact c10_innate_blocked_stays_blocked env im im' now' c c' hblocked hsame (keeps im.patterns hother) r' h'

/-! ## The translated source agrees with the model

`Operon/Gen/GatesTranslated.lean` is regenerated from the Python AST of `membrane.py` / `innate.py` by
`harness/vf/extract/py2lean_gates.py` on every run (helpers inlined through the call graph, constants resolved to
their values, logging / naming / early-return differences normalised away; fail closed: a construct outside the
supported subset yields `untranslatable …`, which the agreement theorem of that piece does not survive).  Each theorem: for every state and argument the translated piece
of Python computes exactly what the hand-written model computes — so the theorems above are theorems about the
translated source, not only about a model that testing found to agree with it. -/

/-- the inflammation cut-offs of the current source as the model's parameter -/
def genCuts : InflCuts :=
  match Operon.Gen.Gates.inflCuts with
  | some (a, b, c, d, e, f, g, h) => ⟨a, b, c, d, e, f, g, h⟩
  | none => ⟨0, 0, 0, 0, 0, 0, 0, 0⟩

/-- `Membrane._check_rate_limit`, translated, is the model's `rateCheck` (the model's window parameter being the
    source's 60 s) — including the read of the live `rate_limit` attribute, the strict `t > cutoff`, the `>=`
    against the limit and the append of the admitted call. -/
theorem c10_translation_agrees_check_rate_limit (m : Membrane) (now : Nat) (hw : m.window = 60 * 1000000) :
    Tr.checkRateLimit m now = rateCheck m now := by
  unfold Tr.checkRateLimit rateCheck prune
  cases m.rateLimit with
  | none => rfl
  | some r => simp only [hw, decide_eq_true_eq]

/-- `_check_rate_limit` of the current source, read as a program over the shared window — which statements read or
    write `_request_times`, in which order, and which of them sit inside `with self._rate_lock:` (helpers inlined,
    local computations and logging skipped) — is the instruction list `rateProg` that the concurrent model executes
    and `c10_rate_check_linearizable` / `c10_membrane_rate_window_concurrent` are about.  A snapshot of the window
    taken before the lock, an access after it, or a second lock leave the subset (`none`). -/
theorem c10_translation_agrees_rate_program : Tr.rateProgram = some rateProg := by
  decide

/-- `Membrane.filter`, translated as a whole with every helper it calls inlined through the call graph — counter,
    rate check on the live limit, the two refusals without scan, the scan over innate + custom + learned signatures
    with its running maximum, the threshold comparison, and the bookkeeping of the decision in source order (audit
    append, `_total_blocked`, `_blocked_hashes.add`, then the `on_threat` hook whose exception aborts the rest) — is
    the model's `Membrane.filter`: same state, same decision, same exception, for every state, time and input. -/
theorem c10_translation_agrees_filter (env : Env) (m : Membrane) (now : Nat) (c : Str)
    (hw : m.window = 60 * 1000000) : Tr.filter env m now c = m.filter env now c := by
  unfold Tr.filter Membrane.filter Membrane.afterRate Membrane.decide Membrane.bookBlock rateCheck prune maxLevel
    Membrane.active hookRaise
  simp only [matched_append, maxFrom_append, List.nil_append, hw, critical]
  cases m.rateLimit <;> simp only [] <;> (repeat' split) <;> simp_all

/-- the allow rule of `InnateImmunity.check`, translated, is the condition of the model's `conclude` -/
theorem c10_translation_agrees_innate_allow (im : Innate) (ms : List Sig) (errs : List Validator) (lvl : Nat) :
    Tr.innateAllow (maxLevel ms) im.sevThreshold errs.length lvl =
      decide (maxLevel ms < im.sevThreshold ∧ errs = [] ∧ lvl < lvlAcute) := by
  unfold Tr.innateAllow lvlAcute
  cases errs <;> simp [Bool.and_assoc]

/-- the level chain of the inflammation function (found through the call graph as the method whose result is the
    `inflammation=` field of the result `check` builds; the locals it reads expanded), translated, is the model's
    `levelOf` with the cut-offs regenerated from the source -/
theorem c10_translation_agrees_inflammation (im : Innate) (hc : im.cuts = genCuts) (now : Nat) (ms : List Sig)
    (errs : List Validator) :
    Tr.newLevel (sumLevels ms) ms.length errs.length (maxLevel ms) (im.cooling now) = im.levelOf now ms errs := by
  unfold Innate.levelOf Tr.newLevel newLevel
  rw [hc]
  simp only [genCuts, Operon.Gen.Gates.inflCuts, lvlAcute, lvlHigh, lvlMedium, lvlLow, lvlNone, Bool.or_eq_true,
    decide_eq_true_eq]
  by_cases h1 : sumLevels ms + errs.length * 2 ≥ 10 ∨ maxLevel ms ≥ 5 <;>
    by_cases h2 : sumLevels ms + errs.length * 2 ≥ 6 ∨ maxLevel ms ≥ 4 <;>
    by_cases h3 : sumLevels ms + errs.length * 2 ≥ 3 ∨ ms.length + errs.length ≥ 2 <;>
    by_cases h4 : ms.length + errs.length ≥ 1 <;> simp only [h1, h2, h3, h4, if_true, if_false]

mutual
/-- `JSONValidator._measure_depth`, translated with its recursion (early exit once `current` exceeds `max_depth`, empty
    container = one more level, otherwise the maximum over the children measured one level deeper; dict and list
    branches translate to the same text), is the model's `measure` — for every tree, every starting level, every
    `max_depth`. -/
theorem c10_translation_agrees_measure_depth (md : Nat) : ∀ (t : J) (cur : Nat), Tr.measure md t cur = measure md t cur
  | .scalar, cur => by simp [Tr.measure, measure]
  | .node xs, cur => by
    unfold Tr.measure measure
    split
    · rfl
    · cases xs with
      | nil => rfl
      | cons y ys => exact c10_translation_agrees_measure_depth_children md (y :: ys) (cur + 1)
/-- … and the maximum over the children likewise -/
theorem c10_translation_agrees_measure_depth_children (md : Nat) : ∀ (xs : List J) (cur : Nat),
    Tr.measureMax md xs cur = measureMax md xs cur
  | [], _ => by simp [Tr.measureMax, measureMax]
  | x :: xs, cur => by
    simp only [Tr.measureMax, measureMax]
    rw [c10_translation_agrees_measure_depth md x cur, c10_translation_agrees_measure_depth_children md xs cur]
end

/-- the three shipped validators' `validate` methods, translated, are the model's `Validator.run` (JSON: including
    which exception classes of `json.loads` the handler catches) -/
theorem c10_translation_agrees_validators (env : Env) (c : Str) :
    (∀ mn mx, Tr.lengthValidate mn mx c = (Validator.length mn mx).run env c) ∧
    (∀ allowCtl allowNull, Tr.charsetValidate allowCtl allowNull c = (Validator.charset allowCtl allowNull).run env c) ∧
    (∀ md ms, Tr.jsonValidate env md ms c = (Validator.json md ms).run env c) := by
  refine ⟨?_, ?_, ?_⟩
  · intro mn mx
    unfold Tr.lengthValidate Validator.run
    by_cases h1 : c.length < mn <;> by_cases h2 : c.length > mx <;> simp [h1, h2]
  · intro allowCtl allowNull
    have hany : c.any (fun code => decide (code < 32) && !([9, 10, 13].contains code)) = c.any isBadCtl := by
      congr 1; funext code
      simp only [isBadCtl, List.contains_cons, List.contains_nil, Bool.or_false, Bool.not_or, bne]
      cases decide (code < 32) <;> simp [Bool.and_assoc]
    unfold Tr.charsetValidate Validator.run
    rw [hany]
    cases allowNull <;> cases allowCtl <;> cases c.contains 0 <;> cases c.any isBadCtl <;> rfl
  · intro md ms
    unfold Tr.jsonValidate Validator.run
    simp only [c10_translation_agrees_measure_depth]
    by_cases h : c.length > ms
    · simp [h]
    · simp only [h, decide_false, Bool.false_eq_true, if_false]
      cases env.json c with
      | parsed t => by_cases hd : measure md t 0 > md <;> simp [hd]
      | decodeError => rfl
      | valueError => rfl
      | recursionError => rfl
      | other => rfl

/-! ## Non-vacuity: concrete states and inputs meeting the hypotheses -/

/-- a test environment: ASCII-style lowering, a "regex" that looks for the digit 7, everything compiles -/
private def env0 : Env := ⟨foldStd, fun _ c => c.contains 55, fun _ => true, fun _ => .decodeError⟩
private def sJail : Sig := ⟨[106, 97, 105, 108], 3, false⟩      -- "jail", CRITICAL, substring
private def sSeven : Sig := ⟨[55], 2, true⟩                       -- regex, DANGEROUS
private def m0 : Membrane := Membrane.new [sJail, sSeven] 2 true (some 2) 60

/-- `c10_membrane_allowed_iff` / `_only_if_clean`: an allowed call exists (benign "hi") -/
example : (m0.filter env0 0 [104, 105]).2.decision.allowed = true ∧ (m0.filter env0 0 [104, 105]).2.raised = none := by
  decide

/-- `c10_membrane_blocked_stays_blocked`, `_case_invariant`, `_embedding_monotone`: "JAIL" is scan-blocked, and
    "xx jail!" keeps its hit -/
example : ¬ scanLevel env0 m0.active [74, 65, 73, 76] < m0.threshold := by decide
example : CaseVariant env0 [74, 65, 73, 76] [106, 65, 105, 76] := by unfold CaseVariant; decide
example : (m0.filter env0 5 ([120, 120, 32] ++ [74, 65, 73, 76] ++ [33])).2.decision =
    ⟨false, 3, [sJail], [120, 120, 32, 74, 65, 73, 76, 33], .scan⟩ := by decide

/-- the inputs of the repaired defect (dc1025f): with per-code-point folding "Σ" is matched inside "Σn" as well as
    alone, and "STRASSE" is a case variant of "straße" -/
example : (⟨[0x3A3], 3, false⟩ : Sig).matches env0 [0x3A3] = true ∧ (⟨[0x3A3], 3, false⟩ : Sig).matches env0 [0x3A3, 110] = true ∧
    CaseVariant env0 [0x73, 0x74, 0x72, 0x61, 0xDF, 0x65] [0x53, 0x54, 0x52, 0x41, 0x53, 0x53, 0x45] := by
  unfold CaseVariant; decide

/-- `c10_membrane_replay_memory`: blocked by the scan, then the pattern list is emptied of matches by raising the
    threshold to a level nothing reaches (4) — the input is still rejected, now from memory -/
example :
    ((mrun env0 (mstep env0 ⟨m0, 0⟩ (.filter [106, 97, 105, 108])).1 [.setThr 4, .adv 100]).1.m.filter env0
      (mrun env0 (mstep env0 ⟨m0, 0⟩ (.filter [106, 97, 105, 108])).1 [.setThr 4, .adv 100]).1.now
      [106, 97, 105, 108]).2.decision = ⟨false, 3, [], [106, 97, 105, 108], .replay⟩ := by
  decide

/-- … and a history that empties the public list `m.signatures` directly (`m.signatures.clear()`): still refused -/
example :
    ((mrun env0 (mstep env0 ⟨m0, 0⟩ (.filter [106, 97, 105, 108])).1 [.setSigs [], .adv 100]).1.m.filter env0
      (mrun env0 (mstep env0 ⟨m0, 0⟩ (.filter [106, 97, 105, 108])).1 [.setSigs [], .adv 100]).1.now
      [106, 97, 105, 108]).2.decision = ⟨false, 3, [], [106, 97, 105, 108], .replay⟩ ∧
    (mrun env0 ⟨m0, 0⟩ [.setSigs [sSeven]]).1.m.active = [sSeven] := by
  decide

/-- `c10_bulk_is_sequential_history`: "jail" is blocked, then a run of three further blocked inputs ("0jail", "1jail",
    "2jail": four entries in the replay memory, four decisions in the audit trail), then the threshold is raised to a
    level nothing reaches — "jail" is still refused, from memory -/
example :
    ((Membrane.new [sJail] 2 true none 60).filterLoop (fun _ => env0) 0
        ((0, [106, 97, 105, 108]) :: bulkInputs [] [106, 97, 105, 108] 3) []).1.blocked.length = 4 ∧
    ((((Membrane.new [sJail] 2 true none 60).filterLoop (fun _ => env0) 0
        ((0, [106, 97, 105, 108]) :: bulkInputs [] [106, 97, 105, 108] 3) []).1.setThreshold 4).filter env0 9
      [106, 97, 105, 108]).2.decision = ⟨false, 3, [], [106, 97, 105, 108], .replay⟩ := by
  decide

/-- `c10_membrane_rate_window`: a fresh membrane with a rate limit, a history in which the third call inside the
    window is refused and a call after the window is admitted again -/
example : (allowedTimes (mrun env0 ⟨m0, 0⟩ [.filter [97], .filter [98], .filter [99], .adv 60, .filter [100]]).2)
    = [0, 0, 60] := by decide

/-- `c10_membrane_rate_window_live_limit`: limit 2, two calls admitted, the operator raises the limit to 5 on the
    live object; the next call passes the rate check and is the third admission of its window (3 ≤ 5) — and a
    history that lowers the limit from 5 to 1 after two admissions refuses the next call -/
example :
    (mrun env0 ⟨m0, 0⟩ [.filter [97], .filter [98], .setRate (some 5)]).1.m.rateLimit = some 5 ∧
    ((mrun env0 ⟨m0, 0⟩ [.filter [97], .filter [98], .setRate (some 5)]).1.m.filter env0 0 [99]).2.decision.reason = .scan ∧
    admissions (mrun env0 ⟨m0, 0⟩ [.filter [97], .filter [98], .setRate (some 5)]).2 = [0, 0] := by decide
example : ((mrun env0 ⟨m0.setRate (some 5), 0⟩ [.filter [97], .filter [98], .setRate (some 1)]).1.m.filter env0 0
    [99]).2.decision.reason = .rate := by decide

/-- `c10_membrane_total`, `c10_membrane_hook_sees_decision`: a hook that raises `RuntimeError` whenever the audit
    trail it can read ends with the decision it is handed (it always does): the call raises, and the decision is
    in the audit trail, in the immune memory and in the counters; a replay is answered from memory -/
private def hookR : Hook := fun v r => if v.audit.getLast? = some r then some "RuntimeError" else none
example :
    ((m0.setHook (some hookR)).filter env0 0 [106, 97, 105, 108]).2.raised = some "RuntimeError" ∧
    ((m0.setHook (some hookR)).filter env0 0 [106, 97, 105, 108]).1.audit =
      [⟨false, 3, [sJail], [106, 97, 105, 108], .scan⟩] ∧
    ((m0.setHook (some hookR)).filter env0 0 [106, 97, 105, 108]).1.totalBlocked = 1 ∧
    ((mrun env0 ⟨m0.setHook (some hookR), 0⟩ [.filter [106, 97, 105, 108], .filter [106, 97, 105, 108]]).1.m.audit.map
      (·.reason)) = [.scan, .replay] := by decide

/-- `c10_membrane_audit_complete`: a clear-free history with all four exits -/
example : ((mrun env0 ⟨m0, 0⟩ [.filter [106, 97, 105, 108], .filter [106, 97, 105, 108], .filter [97]]).1.m.audit.map
    (·.reason)) = [.scan, .replay, .rate] := by decide

/-- `c10_membrane_active_signatures`: learning with adaptive immunity on and a compiling regex; importing two
    antibodies with the same text keeps the last; forgetting removes -/
example : m0.adaptive = true ∧ env0.compiles sSeven.pat = true ∧ sSeven ∈ (m0.learn env0 sSeven).1.active := by decide
example : (m0.importAb [⟨[97], 1, false⟩, ⟨[98], 2, false⟩, ⟨[97], 3, false⟩]).learned =
    [⟨[97], 3, false⟩, ⟨[98], 2, false⟩] := by decide
example : ((m0.importAb [⟨[97], 1, false⟩, ⟨[98], 2, false⟩]).forget [97]).learned = [⟨[98], 2, false⟩] := by decide

/-- `c10_membrane_antibody_transfer`: a donor that learned "jail"-like pattern [97] at level 3 and imported [98]; a
    recipient with adaptive immunity OFF and an own entry for [97] at level 1 imports the donor's export: both donor
    antibodies are active (the own entry for [97] is replaced), and "a" is now rejected -/
example :
    (mrun env0 ⟨Membrane.new [] 2 true none 60, 0⟩ [.learn ⟨[97], 3, false⟩, .importAb [⟨[98], 2, false⟩]]).1.m.exportAb
      = [⟨[97], 3, false⟩, ⟨[98], 2, false⟩] ∧
    (((Membrane.new [] 2 false none 60).importAb [⟨[97], 1, false⟩]).importAb
      (mrun env0 ⟨Membrane.new [] 2 true none 60, 0⟩ [.learn ⟨[97], 3, false⟩, .importAb [⟨[98], 2, false⟩]]).1.m.exportAb).learned
      = [⟨[97], 3, false⟩, ⟨[98], 2, false⟩] := by decide

/-- `c10_validators_reject_exactly`: a parser outcome other than `.other`, a document of depth 2 against
    `max_depth` 1 (rejected) and 2 (accepted) -/
example : depth (.node [.node [], .scalar]) = 2 ∧
    (Validator.json 1 100).rejects ⟨foldStd, fun _ _ => false, fun _ => true, fun _ => .parsed (.node [.node [], .scalar])⟩ [91] = true ∧
    (Validator.json 2 100).rejects ⟨foldStd, fun _ _ => false, fun _ => true, fun _ => .parsed (.node [.node [], .scalar])⟩ [91] = false := by
  decide

/-- `c10_rate_check_linearizable`, `c10_membrane_rate_window_concurrent`: limit 1, window 60, two threads.  Thread 0
    enters the critical section; thread 1 is scheduled three times while 0 holds the lock (it passes the `None`
    guard, then waits); 0 finishes and is admitted; the clock advances by 5; thread 1 gets the lock, reads time 5
    and is refused.  The log replays sequentially and leaves `_request_times = [0]`. -/
private def sched0 : List CEv :=
  [.run 0, .run 0, .run 1, .run 1, .run 1, .run 0, .run 0, .run 0, .run 0, .run 0, .tick 5,
   .run 1, .run 1, .run 1, .run 1]
example : (floodOf 60 1 [] 0 sched0).sh.log = [⟨0, 0, false⟩, ⟨1, 5, true⟩] ∧
    (floodOf 60 1 [] 0 sched0).sh.lock = none ∧ (floodOf 60 1 [] 0 sched0).sh.reqTimes = [0] ∧
    seqReplay 60 1 [] (floodOf 60 1 [] 0 sched0).sh.log = some [0] := by decide
/-- … and a state in which a thread is inside the critical section (thread 0 at `pruneShared`, thread 1 waiting) -/
example : ((floodOf 60 1 [] 0 [.run 0, .run 0, .run 1, .run 1, .run 0]).thr 0).pc = 3 ∧
    ((floodOf 60 1 [] 0 [.run 0, .run 0, .run 1, .run 1, .run 0]).thr 1).pc = 1 ∧
    (floodOf 60 1 [] 0 [.run 0, .run 0, .run 1, .run 1, .run 0]).sh.lock = some 0 := by decide

/-- The lock is what the theorem rests on: the same statements WITHOUT `acquire` (every access to
    `_request_times` outside a critical section — which is also what reading the window before taking the lock
    amounts to) admit two calls under limit 1 when thread 1 runs its whole check between thread 0's test and
    append. -/
example : (admits (crun [.guardNone, .readClock, .pruneShared, .testShared, .appendShared, .retFalse]
      (CSt.start [] 0 (some 1) 60)
      [.run 0, .run 0, .run 0, .run 0, .run 1, .run 1, .run 1, .run 1, .run 1, .run 1, .run 0, .run 0]).sh.log)
    = [0, 0] := by decide

private def im0 : Innate :=
  Innate.new [⟨[106, 97, 105, 108], 5, false⟩, sSeven] (some [.json 2 100, .charset false false]) [] 3 60
    ⟨10, 5, 6, 4, 3, 2, 1, 2⟩

/-- `c10_innate_total`: the hypothesis holds for an environment whose parser raises RecursionError, and the
    check then *rejects* instead of raising -/
example : (im0.check ⟨foldStd, fun _ _ => false, fun _ => true, fun _ => .recursionError⟩ 0 [91, 91]).2
    = .ok ⟨false, [], [.json 2 100], 1⟩ := by decide

/-- … and an `on_inflammation` hook that raises: the exception is tagged as the hook's, the check is counted -/
example : ((im0.setHook (some fun _ _ => some "KeyError")).check env0 0 [106, 97, 105, 108]).2 = .raise "hook:KeyError" ∧
    ((im0.setHook (some fun _ _ => some "KeyError")).check env0 0 [106, 97, 105, 108]).1.checkCount = 1 ∧
    ((im0.setHook (some fun _ _ => some "KeyError")).check env0 0 [106, 97, 105, 108]).1.inflLevel = 4 := by decide

/-- `c10_innate_acute_stays_blocked`: five severity-2 patterns (each below the threshold 3) all matched by "7":
    total 10 ⇒ ACUTE ⇒ rejected although no single pattern reaches the threshold -/
example : ((Innate.new [⟨[55], 2, true⟩, ⟨[55], 2, true⟩, ⟨[55], 2, true⟩, ⟨[55], 2, true⟩, ⟨[55], 2, true⟩]
      (some []) [] 3 0 ⟨10, 5, 6, 4, 3, 2, 1, 2⟩).check env0 0 [55]).2 =
    .ok ⟨false, [⟨[55], 2, true⟩, ⟨[55], 2, true⟩, ⟨[55], 2, true⟩, ⟨[55], 2, true⟩, ⟨[55], 2, true⟩], [], 4⟩ := by decide

/-- `c10_innate_allowed_iff`: an allowed check exists (valid shallow JSON, no pattern) -/
example : (im0.check ⟨foldStd, fun _ _ => false, fun _ => true, fun _ => .parsed (.node [.scalar])⟩ 0 [91, 49, 93]).2
    = .ok ⟨true, [], [], 0⟩ := by decide

/-- `c10_innate_blocked_stays_blocked` / `_case_and_embedding`: "jail" is signature-blocked -/
example : ∃ s ∈ im0.patterns, s.matches env0 [106, 97, 105, 108] = true ∧ im0.sevThreshold ≤ s.level :=
  ⟨⟨[106, 97, 105, 108], 5, false⟩, by decide, by decide, by decide⟩

/-- `c10_shipped_membrane_blocks_own_signatures`: the shipped table contains "jailbreak" (CRITICAL, substring),
    the default threshold is below it, and "My JAILBREAK prompt" contains it case-insensitively -/
example : (⟨[106, 97, 105, 108, 98, 114, 101, 97, 107], 3, false⟩ : Sig) ∈ shippedMembrane.sigs ∧
    shippedMembrane.threshold ≤ 3 ∧
    isInfix (lowerS env0 [106, 97, 105, 108, 98, 114, 101, 97, 107])
      (lowerS env0 [77, 121, 32, 74, 65, 73, 76, 66, 82, 69, 65, 75, 32, 112]) = true := by decide

/-- `c10_shipped_regexes_embedding_stable`: some shipped regex (however it is spelled) matches "Human:", "ok.\nHuman: x" is a separated embedding ('\n' before, ' ' after) and matches as well;
    and an anchored variant `^\s*(?:Human|Assistant):` is NOT anchor-free and does lose the embedded text -/
example : (shippedRegexes.any fun e => Rx.search Rx.stdEnv e.2 [72, 117, 109, 97, 110, 58] &&
      Rx.search Rx.stdEnv e.2 ([111, 107, 46, 10] ++ [72, 117, 109, 97, 110, 58] ++ [32, 120])) = true ∧
    Rx.Separated Rx.stdEnv [111, 107, 46, 10] [32, 120] :=
  ⟨by decide, by decide, by decide⟩
example : (fun r : Rx.Re => r.anchorFree = false ∧ Rx.search Rx.stdEnv r [72, 117, 109, 97, 110, 58] = true ∧
      Rx.search Rx.stdEnv r ([111, 107, 46, 10] ++ [72, 117, 109, 97, 110, 58] ++ [32, 120]) = false)
    (.seq (.at .bos) (.seq (.rep 0 none (.set false [.cat .space false]))
      (.seq (.alt (.seq (.lit 72) (.seq (.lit 117) (.seq (.lit 109) (.seq (.lit 97) (.lit 110)))))
                  (.seq (.lit 65) (.seq (.lit 115) (.seq (.lit 115) (.seq (.lit 105) (.seq (.lit 115) (.seq (.lit 116)
                    (.seq (.lit 97) (.seq (.lit 110) (.lit 116))))))))))
            (.lit 58)))) := by
  decide

/-- `c10_shipped_regexes_case_stable` / `c10_shipped_case_variants_blocked`: under the driver's tables "Human:" and
    "hUMAN:" are indistinguishable code point by code point (checked here for the two letters that differ in kind:
    `H`/`h` and `:`/`:`), and some shipped regex matches both -/
example : Rx.CaseEqv Rx.stdEnv 72 104 ∧ Rx.CaseEqv Rx.stdEnv 58 58 := by
  refine ⟨⟨by decide, by decide, by decide, ?_, ?_, by decide⟩, ⟨rfl, rfl, rfl, fun _ => rfl, fun _ _ => rfl, rfl⟩⟩
  · intro x; simp [Rx.stdEnv, lowerStd]
  · intro lo hi; simp [Rx.stdEnv, Rx.casesStd, Bool.or_comm]
example : (shippedRegexes.any fun e => Rx.search Rx.stdEnv e.2 [72, 117, 109, 97, 110, 58] &&
      Rx.search Rx.stdEnv e.2 [104, 85, 77, 65, 78, 58]) = true := by decide

end Operon.Gates
