import Operon.Lemmas.C05
import Operon.Props.C04
/-!
# C05, tie module — the critical regions' bodies are the translated source

Kept apart from `Props/C05.lean` because it rests on C04's translator (`Operon/Gen/AtpTranslated.lean`, regenerated from
`operon_ai/state/metabolism.py` on every run) and C04's agreement theorems: when a rewrite of the source defeats the
translator, only this obligation stops checking, not the atomicity theorems.
-/
namespace Operon.AtpConc
open Operon.Lock Operon.Atp

/-- the body of each critical region, written with the functions that `harness/vf/extract/py2lean_metabolism.py` translates
    from the source of `ATP_Store` on every run (`Operon/Gen/AtpTranslated.lean`) -/
def bodyT (cls : Classifier) (obs : Nat → Obs) : Act → Loc → Store → Loc × Store
  | .consume i cost cur d p, l, s =>
    let r := Gen.AtpT.consumeT cls (obs i) s cost cur d p
    (⟨l.rets ++ [retBool r.2], l.pending⟩, r.1)
  | .regenerate i n cur, l, s =>
    let r := Gen.AtpT.regenerateT cls (obs i) s n cur
    (⟨l.rets ++ [retUnit r.2], l.pending⟩, r.1)
  | .convert _ n, l, s =>
    let r := Gen.AtpT.convertT s n
    (⟨l.rets ++ [.int r.2], l.pending⟩, r.1)
  | .withdraw _ n cur, l, s =>
    let w := Gen.AtpT.transferWithdrawT s n cur
    (⟨if w.2 then l.rets else l.rets ++ [.bool false], w.2⟩, w.1)
  | .deposit j n cur, l, s =>
    if l.pending then
      let r := Gen.AtpT.transferDepositT cls (obs j) s n cur
      (⟨l.rets ++ [match r.2 with | .ok _ => .bool true | .error e => .raised e], false⟩, r.1)
    else (l, s)

/-- **The region bodies are the translated source**: the atomic actions every theorem below speaks about are the
    functions regenerated from `metabolism.py` (C04's agreement theorems), so an edit that changes what a critical region
    computes breaks this theorem before any schedule is explored. -/
theorem c05_region_bodies_are_the_translated_source (cls : Classifier) (obs : Nat → Obs) :
    body cls obs = bodyT cls obs := by
  funext a l s
  cases a with
  | consume i cost cur d p =>
    simp only [body, bodyT, c04_translation_agrees_consume]
  | regenerate i n cur => simp only [body, bodyT, c04_translation_agrees_regenerate]
  | convert i n => simp only [body, bodyT, c04_translation_agrees_convert]
  | withdraw i n cur => simp only [body, bodyT, c04_translation_agrees_transfer_withdraw]
  | deposit j n cur =>
    simp only [body, bodyT, c04_translation_agrees_transfer_deposit]
    split <;> rfl

end Operon.AtpConc
