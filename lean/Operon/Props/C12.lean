import Operon.Lemmas.C12
import Operon.Lemmas.C12Str
import Operon.Lemmas.C12Scan
import Operon.Lemmas.C12Reg
import Operon.Gen.RibosomeRegistry
/-!
# C12 — template rendering follows the documented grammar; bound values stay data

Property theorems only.  Three layers (see `Operon/Model/Ribosome.lean`, `Operon/Model/Tmpl.lean`):

* string layer `Ribosome.translate` — mirrors the four regex passes of `operon_ai/organelles/ribosome.py`; this is
  what the differential correspondence of `harness/vf/props/c12.py` runs against the real code;
* token layer `renderTok` — the same passes as token-list transformers that re-lex whatever they splice in;
* specification `specToks` / `renderSpec` — ONE left-to-right expansion of a grammar template (`Tmpl`), values spliced
  as inert `Tok.val` pieces.

The driver runs all three layers on every generated case and reports any difference between them.

All statements quantify over every environment `cfg` (character classes, filter table and filter results, marker
text), every registry of templates, every context, every include depth `fuel` (so no acyclicity assumption is needed:
both sides run out of fuel together) and every grammar template.  "No `{`" is all the token level needs of a value; the
exclusion of `}` in the property's first quantifier belongs to the string layer (a value `{` next to template text
`{a}}`), see `notes/C12.md`.
-/
namespace Operon.Tmpl
open Operon.Ribosome

/-! ## Clause 1 — rendering is one left-to-right expansion (delimiter-free values) -/

/-- CORE.  For every grammar template (non-nested blocks, any includes, any depth) and every context whose values,
    loop items, dict fields, filter results and marker contain no `{` (hypothesis `BF`): the implementation's four
    passes, run on the template's tokens, produce exactly the text of ONE left-to-right expansion — or both produce
    no text (a filter raised, or the include depth ran out).  Non-strict mode. -/
theorem c12_tok_eq_spec_brace_free_values (cfg : Cfg) (reg : SReg) (ctx : Ctx) (hbf : BF cfg ctx)
    (hreg : GrammarReg reg) (fuel : Nat) (t : Tmpl) (ht : Grammar t) :
    (renderTok cfg false (tokReg reg) ctx fuel (flatten t)).toOption.map (fun r => printToks r.1)
      = (renderSpec cfg false reg ctx fuel t).toOption := by
  have h := tok_eq_spec_aux cfg reg ctx hbf hreg.split fuel t ht.1 ht.2
  unfold renderSpec
  cases hs : specToks cfg reg ctx fuel t with
  | error e =>
    rw [hs] at h
    cases hr : renderTok cfg false (tokReg reg) ctx fuel (flatten t) with
    | error e' => rfl
    | ok r => rw [hr] at h; simp [Except.toOption] at h
  | ok out =>
    rw [hs] at h
    cases hr : renderTok cfg false (tokReg reg) ctx fuel (flatten t) with
    | error e' => rw [hr] at h; simp [Except.toOption] at h
    | ok r =>
      rw [hr] at h
      simp only [Except.toOption, Option.map, Option.some.injEq] at h
      simp [Except.toOption, h]

/-- Strict mode: whenever the strict render returns text at all, it is the text of the one left-to-right expansion
    (strict mode only ever adds an error, see `c12_missing_reported`). -/
theorem c12_tok_strict_refines_spec (cfg : Cfg) (reg : SReg) (ctx : Ctx) (hbf : BF cfg ctx)
    (hreg : GrammarReg reg) (fuel : Nat) (t : Tmpl) (ht : Grammar t) (out : List Tok) (w : List Str)
    (h : renderTok cfg true (tokReg reg) ctx fuel (flatten t) = .ok (out, w)) :
    renderSpec cfg false reg ctx fuel t = .ok (printToks out) := by
  have h0 := renderTok_strict_ok cfg (tokReg reg) ctx fuel (flatten t) _ h
  have h1 := tok_eq_spec_aux cfg reg ctx hbf hreg.split fuel t ht.1 ht.2
  rw [h0] at h1
  unfold renderSpec
  cases hs : specToks cfg reg ctx fuel t with
  | error e => rw [hs] at h1; simp [Except.toOption] at h1
  | ok o =>
    rw [hs] at h1
    simp only [Except.toOption, Option.map, Option.some.injEq] at h1
    simp [h1]

/-- Strict mode, both directions ("… or an error in strict mode").  (1) A strict render that returns text returns the
    text of the STRICT specification: the one left-to-right expansion found nothing unbound, in the template and in
    every included template it reached.  (2) Hence, whenever the expansion does find a variable unbound — also when the
    slot stands only in an included template — the strict render does not return text. -/
theorem c12_tok_strict_eq_spec (cfg : Cfg) (reg : SReg) (ctx : Ctx) (hbf : BF cfg ctx)
    (hreg : GrammarReg reg) (fuel : Nat) (t : Tmpl) (ht : Grammar t) :
    (∀ out w, renderTok cfg true (tokReg reg) ctx fuel (flatten t) = .ok (out, w) →
      renderSpec cfg true reg ctx fuel t = .ok (printToks out)) ∧
    (∀ sout, specToks cfg reg ctx fuel t = .ok sout → specMissing sout ≠ [] →
      ∀ out w, renderTok cfg true (tokReg reg) ctx fuel (flatten t) ≠ .ok (out, w)) := by
  have key : ∀ out w, renderTok cfg true (tokReg reg) ctx fuel (flatten t) = .ok (out, w) →
      specToks cfg reg ctx fuel t = .ok out ∧ specMissing out = [] := by
    intro out w h
    have h0 := renderTok_strict_ok cfg (tokReg reg) ctx fuel (flatten t) _ h
    have h1 := tok_eq_spec_aux cfg reg ctx hbf hreg.split fuel t ht.1 ht.2
    rw [h0] at h1
    have hnv := renderTok_strict_no_var cfg reg ctx hbf hreg.split fuel t ht.1 ht.2 out w h
    refine ⟨?_, ?_⟩
    · cases hs : specToks cfg reg ctx fuel t with
      | error e => rw [hs] at h1; simp [Except.toOption] at h1
      | ok o =>
        rw [hs] at h1
        simp only [Except.toOption, Option.map, Option.some.injEq] at h1
        rw [h1]
    · cases hv : specMissing out with
      | nil => rfl
      | cons a r =>
        have : a ∈ varNames out := by simp only [specMissing] at hv; rw [hv]; simp
        exact absurd (mem_varNames.mp this) (hnv a)
  constructor
  · intro out w h
    obtain ⟨h1, h2⟩ := key out w h
    simp [renderSpec, h1, h2]
  · intro sout hs hm out w h
    obtain ⟨h1, h2⟩ := key out w h
    rw [hs] at h1
    simp only [Except.ok.injEq] at h1
    rw [h1] at hm
    exact hm h2

/-- The grammar AST is recoverable from the tokens: `parse` inverts `flatten` on every template with non-nested
    blocks.  Together with `c12_parse_sound` (whatever `parse` returns flattens back to the given tokens) and `print_lex`
    (the lexed tokens print back to the text) this makes the specification the driver runs next to the passes the
    specification OF the rendered text; `c12_str_eq_spec_on_strings` states clause 1 in that form. -/
theorem c12_parse_flatten (t : Tmpl) (hwf : ∀ s ∈ t, s.wf = true) : parse (flatten t) = some t :=
  parse_flatten t hwf

/-! ## Missing variables are reported -/

/-- CORE.  (a) strict mode: an unbound `{{name}}` anywhere in the template makes the render fail with the
    missing-variable error; (b) non-strict mode, any values whatsoever: every unbound `{{name}}` of the template is
    among the warnings; (c) non-strict mode, delimiter-free values: every variable the one left-to-right expansion
    found unbound — through includes too — is among the warnings. -/
theorem c12_missing_reported (cfg : Cfg) (reg : SReg) (ctx : Ctx) (fuel : Nat) (t : Tmpl) :
    (∀ n, Tok.var n ∈ flatten t → isBound ctx n = false →
        renderTok cfg true (tokReg reg) ctx (fuel + 1) (flatten t) = .error .value) ∧
    (∀ out w, renderTok cfg false (tokReg reg) ctx (fuel + 1) (flatten t) = .ok (out, w) →
        ∀ n, Tok.var n ∈ flatten t → isBound ctx n = false → n ∈ w) ∧
    (BF cfg ctx → GrammarReg reg → Grammar t →
      ∀ out w, renderTok cfg false (tokReg reg) ctx (fuel + 1) (flatten t) = .ok (out, w) →
        ∃ sout, specToks cfg reg ctx (fuel + 1) t = .ok sout ∧ ∀ n ∈ specMissing sout, n ∈ w) := by
  refine ⟨?_, ?_, ?_⟩
  · intro n hn hb
    exact renderTok_strict_missing cfg _ ctx fuel _ n hn hb
  · intro out w h n hn hb
    exact renderTok_warns_static cfg _ ctx fuel _ out w h n hn hb
  · intro hbf hreg ht out w h
    have h1 := tok_eq_spec_aux cfg reg ctx hbf hreg.split (fuel + 1) t ht.1 ht.2
    rw [h] at h1
    cases hs : specToks cfg reg ctx (fuel + 1) t with
    | error e => rw [hs] at h1; simp [Except.toOption] at h1
    | ok sout =>
      rw [hs] at h1
      simp only [Except.toOption, Option.map, Option.some.injEq] at h1
      subst h1
      refine ⟨_, rfl, ?_⟩
      intro n hn
      exact renderTok_warns_dynamic cfg _ ctx hbf.text fuel _ _ w h n (mem_varNames.mp hn)

/-- Trigger of the open finding `C12-required-scan-ignores-structure`: the template has a plain `{{name}}` slot whose
    name is unbound in the context, yet the one left-to-right expansion does not find it missing — because it never
    evaluates that slot against the context (a loop-context key inside an each-block, an each-block that runs zero
    times, the branch not taken). -/
def ScanTrigger (cfg : Cfg) (reg : SReg) (ctx : Ctx) (fuel : Nat) (t : Tmpl) : Prop :=
  ∃ n sout, specToks cfg reg ctx fuel t = .ok sout ∧ Tok.var n ∈ flatten t ∧ isBound ctx n = false ∧
    n ∉ specMissing sout

/-- PARTIAL (converse of `c12_missing_reported`: nothing BUT missing variables is reported).  Outside the trigger of
    `C12-required-scan-ignores-structure`, with delimiter-free values: every warning names a variable that the one
    left-to-right expansion found unbound, or is the no-such-filter notice for `{{v|name}}` with `v` bound.
    Missing for the full statement: it is false, see `c12_required_scan_witness`. -/
theorem c12_warnings_are_missing_partial (cfg : Cfg) (reg : SReg) (ctx : Ctx) (hbf : BF cfg ctx) (hreg : GrammarReg reg)
    (fuel : Nat) (t : Tmpl) (ht : Grammar t) (hno : ¬ ScanTrigger cfg reg ctx (fuel + 1) t) (out : List Tok) (w : List Str)
    (h : renderTok cfg false (tokReg reg) ctx (fuel + 1) (flatten t) = .ok (out, w)) :
    ∃ sout, specToks cfg reg ctx (fuel + 1) t = .ok sout ∧
      ∀ n ∈ w, n ∈ specMissing sout ∨
        ∃ v, isBound ctx v = true ∧ isWordStr cfg n = true ∧ cfg.filters.contains n = false := by
  have h1 := tok_eq_spec_aux cfg reg ctx hbf hreg.split (fuel + 1) t ht.1 ht.2
  rw [h] at h1
  cases hs : specToks cfg reg ctx (fuel + 1) t with
  | error e => rw [hs] at h1; simp [Except.toOption] at h1
  | ok sout =>
    rw [hs] at h1
    simp only [Except.toOption, Option.map, Option.some.injEq] at h1
    subst h1
    refine ⟨_, rfl, ?_⟩
    intro n hn
    rcases renderTok_warns_split cfg _ ctx fuel _ _ w h n hn with ⟨hv, hb⟩ | hf | ho
    · by_cases hm : n ∈ specMissing out
      · exact Or.inl hm
      · exact absurd ⟨n, out, hs, hv, hb, hm⟩ hno
    · exact Or.inr hf
    · exact Or.inl (mem_varNames.mpr ho)

-- FULL (false on the pinned tree): `c12_warnings_are_missing_partial` without `hno`, and "a strict render fails only
-- if the expansion finds a variable unbound".

/-! ## Unknown includes -/

/-- CORE.  `{{>name}}` for a name that is not registered renders as the explicit marker that names it
    (`markerPre ++ name ++ markerSuf`, on the pinned tree `[Unknown template: name]`), in both modes, with no warning;
    the specification says the same. -/
theorem c12_unknown_include_marker (cfg : Cfg) (strict : Bool) (reg : SReg) (ctx : Ctx) (fuel : Nat) (n : Str)
    (hn : lookup n reg = none) (hm : NoLB (cfg.markerPre ++ n ++ cfg.markerSuf)) :
    renderTok cfg strict (tokReg reg) ctx (fuel + 1) (flatten [.tok (.inc n)])
        = .ok (textTok (cfg.markerPre ++ n ++ cfg.markerSuf), []) ∧
    specToks cfg reg ctx (fuel + 1) [.tok (.inc n)] = .ok (textTok (cfg.markerPre ++ n ++ cfg.markerSuf)) := by
  constructor
  · have : lookup n (tokReg reg) = none := by rw [lookup_tokReg, hn]; rfl
    exact renderTok_unknown_include cfg strict _ ctx fuel n this hm
  · simp [specToks, flatMapM, specSeg, specTok, hn, markerSpec]

/-! ## Clause 2 — bound values stay data -/

/-- CORE (specification).  Non-interference: two contexts that agree on which names are bound, on truthiness, on
    list-ness, numbers of items and dict keys — and two filter tables that agree on which applications succeed — but
    differ ARBITRARILY in what the values, items, fields and filter results say, yield outputs with the same shape:
    the same template text, the same residual constructs and the same positions of spliced-in pieces.  What a value
    says never decides what is expanded. -/
theorem c12_spec_values_opaque (cfg cfg' : Cfg) (hE : EnvSim cfg cfg') (ctx ctx' : Ctx) (hC : CtxSim ctx ctx')
    (reg : SReg) (fuel : Nat) (t : Tmpl) :
    (specToks cfg reg ctx fuel t).toOption.map shapeL = (specToks cfg' reg ctx' fuel t).toOption.map shapeL :=
  specToks_sim cfg cfg' hE ctx ctx' hC reg fuel t

/-- PARTIAL (implementation, token layer; with `c12_str_eq_tok_brace_free` also the string layer).  Outside the trigger
    of the known finding — i.e. when neither context holds a `{` in any value, item, field or filter result — the
    implementation's passes have the same non-interference property.  NOTE what this does and does not say: the second
    half of the property's quantifier ("values/items/defaults that contain any template construct") is exactly the
    excluded region, so for hostile values there is NO positive result — the clause is REFUTED there by the witness
    below (open finding `C12-values-reinterpreted`).  The excluded region is also larger than what the witness needs:
    a value with single braces such as `{"k": 1}` is excluded although it can only form a delimiter together with a
    brace of the template text; that sharper boundary is covered by the oracle's trigger and the correspondence, not
    by a theorem. -/
theorem c12_impl_values_opaque_partial (cfg cfg' : Cfg) (hE : EnvSim cfg cfg') (ctx ctx' : Ctx) (hC : CtxSim ctx ctx')
    (hbf : BF cfg ctx) (hbf' : BF cfg' ctx') (reg : SReg) (hreg : GrammarReg reg) (fuel : Nat) (t : Tmpl)
    (ht : Grammar t) :
    (renderTok cfg false (tokReg reg) ctx fuel (flatten t)).toOption.map (fun r => shapeL r.1)
      = (renderTok cfg' false (tokReg reg) ctx' fuel (flatten t)).toOption.map (fun r => shapeL r.1) := by
  have h1 := tok_eq_spec_aux cfg reg ctx hbf hreg.split fuel t ht.1 ht.2
  have h2 := tok_eq_spec_aux cfg' reg ctx' hbf' hreg.split fuel t ht.1 ht.2
  have h3 := specToks_sim cfg cfg' hE ctx ctx' hC reg fuel t
  rw [← h1, ← h2] at h3
  simp only [Option.map_map] at h3
  exact h3

-- FULL (false on the pinned tree): `c12_impl_values_opaque_partial` without `hbf hbf'`, and
-- `c12_tok_eq_spec_brace_free_values` without `hbf` — "text that enters the output through a bound value, loop item or
-- default is emitted verbatim and is never itself re-interpreted as template syntax".

/-! ### a positive result inside the hostile region: templates of text and plain variables -/

/-- PARTIAL, WITH CONTENT FOR HOSTILE VALUES.  For every template that consists of text and plain variables only
    (`Hello {{name}}, you have {{count}} messages` — the shape of the library's own examples), for EVERY context —
    values containing `{{other}}`, `{{>include}}`, `{{#if …}}`, braces of any kind — and in both modes: the string
    layer (the model of the code) renders exactly the one left-to-right expansion: the text with each bound `{{name}}`
    replaced by `str(value)` verbatim, unbound slots left in place and warned about (twice: once by the required-variable
    scan, once by the variable pass), strict mode failing iff a slot is unbound.  No value is looked at again after it
    has been spliced in.  (The open finding needs a block, an include, an optional / defaulted / filtered variable or a
    second pass over the spliced text: see the witness below.) -/
theorem c12_plain_templates_values_verbatim (cfg : Cfg) (hs : CfgSane2 cfg) (reg : SReg) (ctx : Ctx) (fuel : Nat)
    (ts : List Tok) (hpl : ∀ t ∈ ts, t.plain = true) (hw : ∀ t ∈ ts, t.wfs cfg) :
    translate cfg ctx (fuel + 1) (printToks ts) =
      (let miss := (varNames ts).filter (fun n => !isBound ctx n)
       if cfg.strict && !miss.isEmpty then .error .value
       else .ok (ts.flatMap (emitPlain ctx), miss ++ miss)) ∧
    (renderSpec cfg cfg.strict reg ctx (fuel + 1) (ts.map Seg.tok)).toOption
      = (translate cfg ctx (fuel + 1) (printToks ts)).toOption.map (·.1) := by
  have h1 := translate_plain cfg hs ctx fuel ts hpl hw
  refine ⟨h1, ?_⟩
  obtain ⟨o, ho, hp, hm⟩ := specToks_plain cfg reg ctx fuel ts hpl
  rw [h1]
  simp only [renderSpec, ho, hm, hp]
  split <;> rfl

/-! ### the witness: a loop item that is re-interpreted -/

def wCfg : Cfg :=
  { isWord := asciiWord, isSpace := asciiSpace, filters := [], applyF := fun _ _ => .raise [],
    templates := [], strict := false, markerPre := [91, 63], markerSuf := [93] }

/-- `{{#each xs}}[{{item}}]{{/each}}` as text -/
def wStr : Str := EACHH ++ [32, 120, 115] ++ RR ++ [91] ++ tagOf kItem ++ [93] ++ ENDEACH

/-- … and as a grammar template -/
def wTmpl : Tmpl := [.each [32] [120, 115] [.text [91], .var kItem, .text [93]]]

/-- `xs = ["{{s}}", "{{index}}"]`, `s = "S"` -/
def wCtx : Ctx :=
  [([120, 115], ⟨[], true, some [⟨tagOf [115], []⟩, ⟨tagOf kIndex, []⟩]⟩), ([115], ⟨[83], true, none⟩)]

/-- the same context with harmless items `xs = ["ab", "cd"]`, and with `xs = ["{{zz}}", "cd"]` -/
def wCtx0 : Ctx :=
  [([120, 115], ⟨[], true, some [⟨[97, 98], []⟩, ⟨[99, 100], []⟩]⟩), ([115], ⟨[83], true, none⟩)]
def wCtx1 : Ctx :=
  [([120, 115], ⟨[], true, some [⟨tagOf [122, 122], []⟩, ⟨[99, 100], []⟩]⟩), ([115], ⟨[83], true, none⟩)]

/-- WITNESS (string layer = the code, and token layer).  The template `{{#each xs}}[{{item}}]{{/each}}` with the
    items `{{s}}` and `{{index}}` — values that contain `{` (the trigger) — renders as `[S][1]`: the first item pulled
    in the variable `s`, the second the loop index.  The one left-to-right expansion gives `[{{s}}][{{index}}]`.  So
    the implementation is NOT the expansion; and its output shape depends on what the items say: with the item
    `{{zz}}` (`wCtx1`) a residual construct appears where `wCtx0` has a spliced-in piece. -/
theorem c12_value_reinterpreted_witness :
    printToks (flatten wTmpl) = wStr ∧ lex wCfg wStr = flatten wTmpl ∧
    (∃ p ∈ wCtx, ∃ its, p.2.items = some its ∧ ∃ it ∈ its, 123 ∈ it.text) ∧
    (translate wCfg wCtx 5 wStr).toOption.map (·.1) = some [91, 83, 93, 91, 49, 93] ∧
    (renderTok wCfg false [] wCtx 5 (flatten wTmpl)).toOption.map (fun r => printToks r.1)
      = some [91, 83, 93, 91, 49, 93] ∧
    (renderSpec wCfg false [] wCtx 5 wTmpl).toOption
      = some ([91] ++ tagOf [115] ++ [93] ++ [91] ++ tagOf kIndex ++ [93]) ∧
    CtxSim wCtx1 wCtx0 ∧
    (renderTok wCfg false [] wCtx1 5 (flatten wTmpl)).toOption.map (fun r => shapeL r.1)
      ≠ (renderTok wCfg false [] wCtx0 5 (flatten wTmpl)).toOption.map (fun r => shapeL r.1) := by
  refine ⟨by decide, by decide, ?_, by decide, by decide, by decide, ?_, by decide⟩
  · exact ⟨_, List.mem_cons_self, _, rfl, _, List.mem_cons_self, by decide⟩
  · exact .cons ⟨rfl, rfl, rfl, .cons rfl (.cons rfl .nil)⟩ (.cons ⟨rfl, rfl, rfl, .nil⟩ .nil)

def isValueErr {α : Type} : Except Err α → Bool
  | .error .value => true
  | _ => false

/-- WITNESS for `C12-required-scan-ignores-structure` (string layer = the code, and token layer).  The template
    `{{#each xs}}[{{item}}]{{/each}}` with `xs = ["ab", "cd"]` and `item` not bound in the context: the trigger holds
    (`{{item}}` is an unbound slot that the expansion never looks up: it is the loop variable), the one left-to-right
    expansion is `[ab][cd]` with NOTHING missing — also in strict mode — yet the implementation warns about `item`, and
    in strict mode fails with the missing-variable error. -/
theorem c12_required_scan_witness :
    ScanTrigger wCfg [] wCtx0 5 wTmpl ∧
    (renderSpec wCfg true [] wCtx0 5 wTmpl).toOption = some [91, 97, 98, 93, 91, 99, 100, 93] ∧
    (specToks wCfg [] wCtx0 5 wTmpl).toOption.map specMissing = some [] ∧
    (translate wCfg wCtx0 5 wStr).toOption = some ([91, 97, 98, 93, 91, 99, 100, 93], [kItem]) ∧
    isValueErr (translate { wCfg with strict := true } wCtx0 5 wStr) = true ∧
    (renderTok wCfg false [] wCtx0 5 (flatten wTmpl)).toOption.map (·.2) = some [kItem] ∧
    isValueErr (renderTok wCfg true [] wCtx0 5 (flatten wTmpl)) = true := by
  refine ⟨⟨kItem, [.text [91], .val [97, 98], .text [93], .text [91], .val [99, 100], .text [93]], rfl, by decide,
    by decide, by decide⟩, by decide, by decide, by decide, by decide, by decide, by decide⟩

/-! ## Readings: where the specification follows the code's documented behaviour rather than a free reading of the text

The property text lists "filtered variables" among the constructs and `item`/`index`/`first`/`last` as loop variables
without saying (a) what a filtered variable whose VARIABLE is unbound renders to, (b) what `{{v|f}}` means when `f` is a
registered filter whose name is not a word, (c) whether the loop variables are visible to `{{?v}}`, `{{v|default}}`,
`{{v|filter}}` inside a loop body.  The specification (`pipeSem`, `specTok`) and the reference renderer of the harness
adopt what ribosome.py documents ("Simple variables: {{name}} - Warning if missing"; the loop variables are shown as
plain tags only; `_detect_codons` marks every `{{name|…}}` as not required): (a) left in place, NOT reported as missing,
no strict error; (b) left in place; (c) they refer to the OUTER context.  These are narrowings of the claim, stated in
`tools/claims.json`; the witness below pins them (string layer = the code, and the specification) so that they cannot
change unnoticed. -/

/-- an environment with the filters `up` (a word) and `u p` (not a word), both answering `U` -/
def rCfg : Cfg :=
  { isWord := asciiWord, isSpace := asciiSpace, filters := [[117, 112], [117, 32, 112]], applyF := fun _ _ => .ok [85],
    templates := [], strict := true, markerPre := [91, 63], markerSuf := [93] }

/-- `a = "x"`, `xs = ["p"]`; `u` and `item` are not bound -/
def rCtx : Ctx := [([97], ⟨[120], true, none⟩), ([120, 115], ⟨[108], true, some [⟨[112], []⟩]⟩)]

/-- WITNESS of the three readings, in STRICT mode (string layer = the code, and the strict specification):
    (a) `{{u|up}}`, `u` unbound, `up` a filter: rendered as it stands, no warning, no error, nothing "missing";
    (b) `{{a|u p}}`, `a` bound, `u p` a registered filter with a non-word name: rendered as it stands;
    (c) `{{#each xs}}{{?item}}{{item|d f}};{{/each}}` over one item with `item` unbound outside: `{{?item}}` is empty
        and `{{item|d f}}` is the default `d f` — the loop variable is not seen by the optional / defaulted construct. -/
theorem c12_readings_witness :
    (translate rCfg rCtx 3 (pipeTag [117] [117, 112])).toOption = some (pipeTag [117] [117, 112], []) ∧
    (renderSpec rCfg true [] rCtx 3 [.tok (.pipe [117] [117, 112])]).toOption = some (pipeTag [117] [117, 112]) ∧
    (translate rCfg rCtx 3 (pipeTag [97] [117, 32, 112])).toOption = some (pipeTag [97] [117, 32, 112], []) ∧
    (renderSpec rCfg true [] rCtx 3 [.tok (.pipe [97] [117, 32, 112])]).toOption = some (pipeTag [97] [117, 32, 112]) ∧
    (translate rCfg rCtx 3 (printToks (flatten [.each [32] [120, 115] [.opt kItem, .pipe kItem [100, 32, 102], .text [59]]]))).toOption
      = some ([100, 32, 102, 59], []) ∧
    (renderSpec rCfg true [] rCtx 3 [.each [32] [120, 115] [.opt kItem, .pipe kItem [100, 32, 102], .text [59]]]).toOption
      = some [100, 32, 102, 59] := by
  decide

/-! ## The bindings are the keyword arguments of the call — whatever they are called -/

/-- "…with the given bindings": `synthesize(sequence, **ctx)` / `translate(name, **ctx)` as CALLS.  (a) A context none
    of whose names is a positionally filled parameter of the entry point reaches the renderer unchanged — every
    binding, whatever the variable is called (a keyword, a dunder, the name of an option of the constructor…), is data
    for the template and nothing else; (b) a context with such a name is rejected as a whole (`TypeError` of the call
    protocol) before anything is rendered: there is no third possibility in which a binding is swallowed or
    re-interpreted as an option of the call.  `reserved` is probed on the tree under test (pinned tree: `self`,
    `template`; for `synthesize` also `sequence`); the correspondence runs every variable name that occurs in a
    signature of the anchored module, Python keywords and dunder names through both entry points. -/
theorem c12_bindings_reach_context (cfg : Cfg) (reserved : List Str) (ctx : Ctx) (s name : Str) :
    ((∀ p ∈ ctx, p.1 ∉ reserved) →
      synthesizeCall cfg reserved ctx s = translate cfg ctx defaultFuel s ∧
      translateCall cfg reserved ctx name = translateNamed cfg ctx name) ∧
    ((∃ p ∈ ctx, p.1 ∈ reserved) →
      synthesizeCall cfg reserved ctx s = .error (.other tyErr) ∧
      translateCall cfg reserved ctx name = .error (.other tyErr)) := by
  constructor
  · intro h
    have : ctx.any (fun p => reserved.contains p.1) = false := by
      rw [List.any_eq_false]
      intro p hp
      simpa using h p hp
    simp only [synthesizeCall, translateCall, callEntry, this, Bool.false_eq_true, ↓reduceIte, and_self]
  · rintro ⟨p, hp, hr⟩
    have : ctx.any (fun p => reserved.contains p.1) = true := by
      rw [List.any_eq_true]
      exact ⟨p, hp, by simpa using hr⟩
    simp only [synthesizeCall, translateCall, callEntry, this, ↓reduceIte, and_self]

/-! ## String layer = token layer, and hence string layer = the one left-to-right expansion

The string layer `Ribosome.translate` is the model of the CODE (regex scanners over text; it is what the differential
correspondence runs against `operon_ai/organelles/ribosome.py`).  The clause theorems above are about the token layer.
The two theorems below close the gap by proof: every regex scanner of the string layer (conditional head + lazy tail,
loop head + lazy tail, loop-body `str.replace` per loop-context key, include, filtered variable, defaulted variable with
its snapshot-then-`str.replace`-everywhere, optional variable, simple variable, and the required-variable scan) is shown
to fire exactly at the start of its own printed token and nowhere else (`Operon/Lemmas/C12Scan.lean`). -/

/-- CORE (was the stretch goal).  On the printed form of EVERY well-formed token list — any mixture of all twelve token
    kinds, nested / stray / unclosed block tags included, not only grammar templates — the string layer computes exactly
    what the token layer computes: the same text, the same warnings in the same order, the same error — in both modes,
    for every include depth, every registry of well-formed templates and every environment with sane character classes.
    Hypotheses (`StrOK`): nothing that can be spliced in (bound value, loop item, dict field, filter result, marker)
    contains `{`, dict keys are words (or `.`), and the names `item`/`index`/`first`/`last` are words of the
    environment's `\w`.  Well-formed (`Tok.wfs`): text and values without `{`; names made of word characters; defaults
    non-empty without `{` and `}`; block heads with a non-empty run of spaces. -/
theorem c12_str_eq_tok_brace_free (cfg : Cfg) (ctx : Ctx) (h : StrOK cfg ctx) (reg : Reg) (hreg : RegOK cfg reg)
    (fuel : Nat) (ts : List Tok) (hw : ∀ t ∈ ts, t.wfs cfg) :
    translate cfg ctx fuel (printToks ts)
      = (match renderTok cfg cfg.strict reg ctx fuel ts with
         | .ok (o, w) => .ok (printToks o, w)
         | .error e => .error e) :=
  (translate_print cfg ctx h reg hreg fuel ts hw).1

/-- the registry of the string layer, lexed (what the driver hands to the token layer) -/
def lexReg (cfg : Cfg) : Reg := cfg.templates.map (fun p => (p.1, lex cfg p.2))

/-- CORE, the same for template STRINGS (the code's actual input): the lexer loses nothing (`print_lex`), so for every
    text whose tokens are well formed — i.e. every `{` of the text starts a tag, names are words, defaults hold no
    brace — and every registry of such texts, the string layer on the TEXT computes what the token layer computes on
    its tokens.  This is exactly the comparison the driver makes on every generated case (`layers:agree`). -/
theorem c12_str_eq_tok_on_strings (cfg : Cfg) (ctx : Ctx) (h : StrOK cfg ctx)
    (hreg : ∀ p ∈ cfg.templates, ∀ t ∈ lex cfg p.2, t.wfs cfg) (fuel : Nat) (s : Str)
    (hw : ∀ t ∈ lex cfg s, t.wfs cfg) :
    translate cfg ctx fuel s
      = (match renderTok cfg cfg.strict (lexReg cfg) ctx fuel (lex cfg s) with
         | .ok (o, w) => .ok (printToks o, w)
         | .error e => .error e) := by
  have hro : RegOK cfg (lexReg cfg) := by
    constructor
    · simp only [lexReg, List.map_map]
      conv => lhs; rw [← List.map_id cfg.templates]
      apply List.map_congr_left
      intro p _
      simp [print_lex]
    · intro n b hl
      obtain ⟨k, hk⟩ := lookup_mem n (lexReg cfg) b hl
      simp only [lexReg, List.mem_map] at hk
      obtain ⟨p, hp, he⟩ := hk
      simp only [Prod.mk.injEq] at he
      rw [← he.2]
      exact hreg p hp
  have := c12_str_eq_tok_brace_free cfg ctx h (lexReg cfg) hro fuel (lex cfg s) hw
  rwa [print_lex] at this

/-- CORE, clause 1 for the layer that is tied to the code.  For every grammar template (non-nested blocks, any includes,
    any depth) whose tokens are well formed, and every context / environment in which nothing spliced in contains `{`:
    the STRING layer — the four regex passes over text, as the code runs them — renders exactly the text of ONE
    left-to-right expansion, or both produce no text (a filter raised, or the include depth ran out).  Non-strict mode. -/
theorem c12_str_eq_spec_brace_free_values (cfg : Cfg) (hns : cfg.strict = false) (ctx : Ctx) (h : StrOK cfg ctx)
    (reg : SReg) (hreg : GrammarReg reg) (hro : RegOK cfg (tokReg reg)) (fuel : Nat) (t : Tmpl) (ht : Grammar t)
    (hw : ∀ x ∈ flatten t, x.wfs cfg) :
    (translate cfg ctx fuel (printToks (flatten t))).toOption.map (·.1) = (renderSpec cfg false reg ctx fuel t).toOption := by
  rw [c12_str_eq_tok_brace_free cfg ctx h (tokReg reg) hro fuel (flatten t) hw, hns,
    ← c12_tok_eq_spec_brace_free_values cfg reg ctx h.toBF hreg fuel t ht]
  cases renderTok cfg false (tokReg reg) ctx fuel (flatten t) with
  | error e => rfl
  | ok p => rfl

/-- The AST handed to the specification IS the template that was rendered (with `c12_parse_flatten` and `print_lex`):
    whenever `parse` accepts a token list, the template it returns has non-nested blocks and flattens back to exactly
    those tokens. -/
theorem c12_parse_sound (ts : List Tok) (t : Tmpl) (h : parse ts = some t) :
    flatten t = ts ∧ ∀ s ∈ t, s.wf = true :=
  parse_sound ts t h

/-- CORE, clause 1 for a template TEXT as the code receives it.  Let `s` be any text whose lexed tokens are well formed
    and parse as a grammar template `t` (non-nested blocks), and let every registered text lex and parse likewise
    (`lexReg cfg = tokReg reg`); nothing that can be spliced in contains `{`.  Then the string layer — the regex passes
    over the TEXT — renders exactly the text of the one left-to-right expansion of `t`, or both render nothing.  No
    hand-supplied AST: `t` is determined by `s` (`parse ∘ lex`), and `flatten t` prints back to `s`. -/
theorem c12_str_eq_spec_on_strings (cfg : Cfg) (hns : cfg.strict = false) (ctx : Ctx) (h : StrOK cfg ctx)
    (reg : SReg) (hlex : lexReg cfg = tokReg reg) (hregwf : ∀ n b, lookup n reg = some b → ∀ sg ∈ b, sg.wf = true)
    (hreg : ∀ p ∈ cfg.templates, ∀ x ∈ lex cfg p.2, x.wfs cfg) (fuel : Nat) (s : Str) (t : Tmpl)
    (hp : parse (lex cfg s) = some t) (hw : ∀ x ∈ lex cfg s, x.wfs cfg) :
    printToks (flatten t) = s ∧
    (translate cfg ctx fuel s).toOption.map (·.1) = (renderSpec cfg false reg ctx fuel t).toOption := by
  obtain ⟨hfl, hwf⟩ := parse_sound _ _ hp
  have hG : Grammar t := grammar_of_wfs h.sane t hwf (by rw [hfl]; exact hw)
  have hGR : GrammarReg reg := by
    intro n b hl
    refine grammar_of_wfs h.sane b (hregwf n b hl) ?_
    have h1 : lookup n (lexReg cfg) = some (flatten b) := by rw [hlex, lookup_tokReg, hl]; rfl
    obtain ⟨k, hk⟩ := lookup_mem n (lexReg cfg) _ h1
    simp only [lexReg, List.mem_map] at hk
    obtain ⟨p, hpm, he⟩ := hk
    simp only [Prod.mk.injEq] at he
    rw [← he.2]
    exact hreg p hpm
  refine ⟨by rw [hfl, print_lex], ?_⟩
  rw [c12_str_eq_tok_on_strings cfg ctx h hreg fuel s hw, hns, hlex, ← hfl,
    ← c12_tok_eq_spec_brace_free_values cfg reg ctx h.toBF hGR fuel t hG]
  cases renderTok cfg false (tokReg reg) ctx fuel (flatten t) with
  | error e => rfl
  | ok p => rfl

/-- Missing variables are reported — string layer.  For every text with well-formed tokens: (a) strict mode: an unbound
    `{{name}}` anywhere in the text makes the render fail with the missing-variable error; (b) non-strict mode: every
    unbound `{{name}}` of the text is among the warnings. -/
theorem c12_str_missing_reported (cfg : Cfg) (ctx : Ctx) (h : StrOK cfg ctx)
    (hreg : ∀ p ∈ cfg.templates, ∀ t ∈ lex cfg p.2, t.wfs cfg) (fuel : Nat) (s : Str)
    (hw : ∀ t ∈ lex cfg s, t.wfs cfg) (n : Str) (hn : Tok.var n ∈ lex cfg s) (hb : isBound ctx n = false) :
    (cfg.strict = true → translate cfg ctx (fuel + 1) s = .error .value) ∧
    (cfg.strict = false → ∀ txt w, translate cfg ctx (fuel + 1) s = .ok (txt, w) → n ∈ w) := by
  have hE := c12_str_eq_tok_on_strings cfg ctx h hreg (fuel + 1) s hw
  constructor
  · intro hst
    rw [hE, hst, renderTok_strict_missing cfg _ ctx fuel _ n hn hb]
  · intro hns txt w hr
    rw [hE, hns] at hr
    cases hk : renderTok cfg false (lexReg cfg) ctx (fuel + 1) (lex cfg s) with
    | error e => rw [hk] at hr; cases hr
    | ok p =>
      obtain ⟨o, w'⟩ := p
      rw [hk] at hr
      simp only [Except.ok.injEq, Prod.mk.injEq] at hr
      rw [← hr.2]
      exact renderTok_warns_static cfg _ ctx fuel _ o w' hk n hn hb

/-- Missing variables are reported, through includes — string layer, non-strict: every variable the one left-to-right
    expansion found unbound (in the template or in any included template it reached) is among the warnings of the
    render of the TEXT. -/
theorem c12_str_missing_through_includes (cfg : Cfg) (hns : cfg.strict = false) (ctx : Ctx) (h : StrOK cfg ctx)
    (reg : SReg) (hreg : GrammarReg reg) (hro : RegOK cfg (tokReg reg)) (fuel : Nat) (t : Tmpl) (ht : Grammar t)
    (hw : ∀ x ∈ flatten t, x.wfs cfg) (s : Str) (w : List Str)
    (hr : translate cfg ctx (fuel + 1) (printToks (flatten t)) = .ok (s, w)) :
    ∃ sout, specToks cfg reg ctx (fuel + 1) t = .ok sout ∧ ∀ n ∈ specMissing sout, n ∈ w := by
  rw [c12_str_eq_tok_brace_free cfg ctx h (tokReg reg) hro (fuel + 1) (flatten t) hw, hns] at hr
  cases hk : renderTok cfg false (tokReg reg) ctx (fuel + 1) (flatten t) with
  | error e => rw [hk] at hr; cases hr
  | ok p =>
    obtain ⟨o, w'⟩ := p
    rw [hk] at hr
    simp only [Except.ok.injEq, Prod.mk.injEq] at hr
    rw [← hr.2]
    exact (c12_missing_reported cfg reg ctx fuel t).2.2 h.toBF hreg ht o w' hk

/-- Unknown includes — string layer: the text `{{>name}}` with `name` a word that is not registered renders as the
    explicit marker, in both modes, without warnings. -/
theorem c12_str_unknown_include_marker (cfg : Cfg) (ctx : Ctx) (h : StrOK cfg ctx) (reg : Reg) (hreg : RegOK cfg reg)
    (fuel : Nat) (n : Str) (hw : WordName cfg n) (hn : lookup n reg = none) :
    translate cfg ctx (fuel + 1) (INCH ++ n ++ RR) = .ok (cfg.markerPre ++ n ++ cfg.markerSuf, []) := by
  have hnl : NoLB n := mem_of_word_ne h.sane.toCfgSane hw
  have hm := h.marker n hnl
  have := c12_str_eq_tok_brace_free cfg ctx h reg hreg (fuel + 1) [.inc n] (by intro t ht; simp at ht; rw [ht]; exact hw)
  rw [renderTok_unknown_include cfg cfg.strict reg ctx fuel n hn hm] at this
  simp only [printToks, List.flatMap_cons, List.flatMap_nil, Tok.print, List.append_nil] at this
  rw [this]
  simp only [textTok]
  split <;> simp_all [Tok.print]

/-- Strict mode, string layer (the model of the code): a strict render that returns text returns the text of the STRICT
    one-left-to-right expansion (nothing was missing anywhere, included templates too); and when the expansion finds a
    variable unbound, the strict render of the text is an error. -/
theorem c12_str_strict_refines_spec (cfg : Cfg) (hst : cfg.strict = true) (ctx : Ctx) (h : StrOK cfg ctx)
    (reg : SReg) (hreg : GrammarReg reg) (hro : RegOK cfg (tokReg reg)) (fuel : Nat) (t : Tmpl) (ht : Grammar t)
    (hw : ∀ x ∈ flatten t, x.wfs cfg) :
    (∀ s w, translate cfg ctx fuel (printToks (flatten t)) = .ok (s, w) → renderSpec cfg true reg ctx fuel t = .ok s) ∧
    (∀ sout, specToks cfg reg ctx fuel t = .ok sout → specMissing sout ≠ [] →
      ∀ s w, translate cfg ctx fuel (printToks (flatten t)) ≠ .ok (s, w)) := by
  have hE := c12_str_eq_tok_brace_free cfg ctx h (tokReg reg) hro fuel (flatten t) hw
  rw [hst] at hE
  obtain ⟨k1, k2⟩ := c12_tok_strict_eq_spec cfg reg ctx h.toBF hreg fuel t ht
  constructor
  · intro s w hr
    rw [hE] at hr
    cases hk : renderTok cfg true (tokReg reg) ctx fuel (flatten t) with
    | error e => rw [hk] at hr; cases hr
    | ok p =>
      obtain ⟨o, w'⟩ := p
      rw [hk] at hr
      simp only [Except.ok.injEq, Prod.mk.injEq] at hr
      rw [← hr.1]
      exact k1 o w' hk
  · intro sout hs hm s w hr
    rw [hE] at hr
    cases hk : renderTok cfg true (tokReg reg) ctx fuel (flatten t) with
    | error e => rw [hk] at hr; cases hr
    | ok p =>
      obtain ⟨o, w'⟩ := p
      exact k2 sout hs hm o w' hk

/-! ## A live instance: what a name means is what the caller registered LAST under it

  "with the given bindings … includes": on a long-lived `Ribosome` templates are registered and registered again —
  through the constructor's mapping, `register_template(t, name=…)`, `create_template`, direct assignment to the
  public `templates` dict (`RegOp`, `regStep`: the key is `name or t.name`; the mapping and the assignment use the key
  whatever the mRNA calls itself).  The three theorems say that nothing but the CURRENT registry enters a render:
  the registry resolves a key to the last sequence written under it, a render reads the registry only by looking
  names up, and therefore the required-variable check, the warnings, the strict error and the text of
  `translate(key)` / `{{>key}}` after a re-registration are those of the NEW template.  (The code is tied to this by the
  correspondence: the driver keeps each instance's registry with `regStep` and renders with `withReg`; a tree that
  remembers anything about an earlier registration — e.g. a per-name cache of required variables — differs.) -/

/-- REGISTRY.  After any history of registrations (any mixture of the four ways, any own names, nameless attempts
    included) on an instance that started with the registry `ts`, a key resolves to the sequence of the last operation
    that wrote under it; to what `ts` held when no operation did. -/
theorem c12_registry_last_write_wins (ts : List (Str × Str)) (ops : List RegOp) (k : Str) :
    lookup k (regRun ts ops) = match lastWrite k ops with
      | some s => some s
      | none => lookup k ts :=
  lookup_regRun k ops ts

/-- which key an operation writes under: `name=` wins over the mRNA's own name, the own name is used when `name=` is
    absent, the mapping / assignment key is used as it is, and an operation without any name writes nothing -/
theorem c12_registration_key (ts : List (Str × Str)) :
    (∀ n own s, n ≠ [] → (RegOp.register n own s).key = some n) ∧
    (∀ own s, own ≠ [] → (RegOp.register [] own s).key = some own) ∧
    (∀ k own s, (RegOp.assign k own s).key = some k) ∧
    (∀ n s, n ≠ [] → (RegOp.create n s).key = some n) ∧
    (∀ s, regStep ts (RegOp.register [] [] s) = ts ∧ regStep ts (RegOp.create [] s) = ts) := by
  refine ⟨?_, ?_, ?_, ?_, ?_⟩
  · intro n own s h; simp [RegOp.key, h]
  · intro own s h; simp [RegOp.key, h]
  · intro k own s; rfl
  · intro n s h; simp [RegOp.key, h]
  · intro s; exact ⟨rfl, rfl⟩

/-- MODEL = CODE on the registration key.  `Operon.Gen.RibosomeRegistry.regKeyRows` is regenerated on every run by
    EVALUATING the tree under test: every way of registering (`register_template`, `create_template`, the constructor's
    mapping) × the `name=` argument given / empty / absent × the mRNA's own name given / empty, on an empty registry and
    on one that already holds both candidate keys; each row records the key under which the real code stored the
    template (`none`: `ValueError`, registry unchanged).  The model's `RegOp.key` agrees on every row — the domain is
    complete for what `name or template.name` can distinguish (a string is falsy iff it is empty). -/
theorem c12_registration_key_matches_code :
    Operon.Gen.RibosomeRegistry.regKeyRows.length = 19 ∧
    ∀ r ∈ Operon.Gen.RibosomeRegistry.regKeyRows, r.1.key = r.2 := by
  decide

/-- NO MEMORY.  A render reads the registry only by looking names up: two registries that resolve every name to the
    same sequence (however they came about — different histories, different slot order, other instances) give the
    same result — text, warnings in order, error — for every template text, every registered name, every context,
    strict or not, every include depth. -/
theorem c12_render_reads_registry_by_lookup_only (cfg : Cfg) (r1 r2 : List (Str × Str))
    (h : ∀ n, lookup n r1 = lookup n r2) (ctx : Ctx) (fuel : Nat) (s name : Str) :
    translate (withReg cfg r1) ctx fuel s = translate (withReg cfg r2) ctx fuel s ∧
    translateNamed (withReg cfg r1) ctx name = translateNamed (withReg cfg r2) ctx name :=
  ⟨translate_reg_ext cfg r1 r2 h ctx fuel s, translateNamed_reg_ext cfg r1 r2 h ctx name⟩

/-- HISTORIES.  Two histories of registrations whose last writes agree on every key render alike. -/
theorem c12_histories_with_same_last_writes_render_alike (cfg : Cfg) (ts1 ts2 : List (Str × Str)) (ops1 ops2 : List RegOp)
    (h : ∀ k, (match lastWrite k ops1 with | some s => some s | none => lookup k ts1)
            = (match lastWrite k ops2 with | some s => some s | none => lookup k ts2))
    (ctx : Ctx) (fuel : Nat) (s name : Str) :
    translate (withReg cfg (regRun ts1 ops1)) ctx fuel s = translate (withReg cfg (regRun ts2 ops2)) ctx fuel s ∧
    translateNamed (withReg cfg (regRun ts1 ops1)) ctx name = translateNamed (withReg cfg (regRun ts2 ops2)) ctx name :=
  c12_render_reads_registry_by_lookup_only cfg _ _
    (fun k => by rw [lookup_regRun, lookup_regRun]; exact h k) ctx fuel s name

/-- RE-REGISTRATION.  Whatever happened on the instance before (`ops`: registrations under this key or others; the
    renders in between do not change the registry), once `op` has written under the key `k` — in any of the four ways,
    whatever the mRNA's own name — `translate(k)` IS the render of `op`'s sequence (its required-variable check, its
    warnings, its strict error, its text), and `{{>k}}` splices the render of `op`'s sequence. -/
theorem c12_reregistered_key_renders_new_template (cfg : Cfg) (ts : List (Str × Str)) (ops : List RegOp) (op : RegOp)
    (k : Str) (hk : op.key = some k) (ctx : Ctx) :
    translateNamed (withReg cfg (regRun ts (ops ++ [op]))) ctx k
      = translate (withReg cfg (regRun ts (ops ++ [op]))) ctx defaultFuel op.seq ∧
    ∀ recS : Str → Res, incRepl (withReg cfg (regRun ts (ops ++ [op]))) recS k
      = (match recS op.seq with
         | .ok (x, _) => .ok (x, [])
         | .error e => .error e) := by
  have hl : lookup k (regRun ts (ops ++ [op])) = some op.seq := by
    rw [lookup_regRun, lastWrite_append, if_pos hk]
  have e : (withReg cfg (regRun ts (ops ++ [op]))).templates = regRun ts (ops ++ [op]) := rfl
  refine ⟨?_, fun recS => ?_⟩
  · unfold translateNamed; rw [e, hl]
  · unfold incRepl; rw [e, hl]; rfl

/-- SEVERAL INSTANCES.  Whatever is done, in whatever interleaving, to any number of live instances (constructed,
    constructed again under the same handle, `strict` / `filters` re-assigned, templates registered in any way):
    instance `i` is in exactly the state that ITS OWN operations, in their order, lead to — its strictness, its
    filter table, its registry.  Together with `c12_render_reads_registry_by_lookup_only` (the render is a function of
    these three and the bindings): what one `Ribosome` renders depends neither on the others nor on anything in its
    own past except the current values of `strict`, `filters`, `templates`. -/
theorem c12_instances_are_independent (w : List (String × Inst)) (ops : List (String × InstOp)) (i : String) :
    instGet (worldRun w ops) i = ((ops.filter (fun p => p.1 = i)).map (·.2)).foldl ownStep (instGet w i) :=
  instGet_worldRun ops w i

/-! ## Non-vacuity: the hypotheses are satisfiable by non-trivial data -/

/-- an environment with one filter `up` that answers `U`, marker `[?name]` -/
def eCfg : Cfg :=
  { isWord := asciiWord, isSpace := asciiSpace, filters := [[117, 112]], applyF := fun _ _ => .ok [85],
    templates := [], strict := false, markerPre := [91, 63], markerSuf := [93] }

/-- `a = "x"`, `f` falsy, `xs = ["p", {"k": "v"}]` -/
def eCtx : Ctx :=
  [([97], ⟨[120], true, none⟩), ([102], ⟨[], false, none⟩),
   ([120, 115], ⟨[108], true, some [⟨[112], []⟩, ⟨[113], [([107], [118])]⟩]⟩)]

/-- same shape, different words -/
def eCtx' : Ctx :=
  [([97], ⟨[121, 121], true, none⟩), ([102], ⟨[48], false, none⟩),
   ([120, 115], ⟨[], true, some [⟨[], []⟩, ⟨[114, 114], [([107], [119])]⟩]⟩)]

/-- `t0` = `<{{a}}{{zz}}>`; top = `{{#if f}}no{{#else}}{{a|up}}{{/if}}{{#each xs}}{{item}}{{k}}{{index}};{{/each}}{{>t0}}{{>nope}}{{b|dflt}}` -/
def eReg : SReg := [([116, 48], [.tok (.text [60]), .tok (.var [97]), .tok (.var [122, 122]), .tok (.text [62])])]
def eTmpl : Tmpl :=
  [.ifB [32] [102] [.text [110, 111]] (some [.pipe [97] [117, 112]]),
   .each [32] [120, 115] [.var kItem, .var [107], .var kIndex, .text [59]],
   .tok (.inc [116, 48]), .tok (.inc [110, 111, 112, 101]), .tok (.pipe [98] [100, 102, 108, 116])]

def eBF : BF eCfg eCtx :=
  BF_of_ok eCfg eCtx (by decide) (by intro f n r h; cases h; exact NoLB_of_bool (by decide))
    (NoLB_of_bool (by decide)) (NoLB_of_bool (by decide))

def eGrammar : Grammar eTmpl ∧ GrammarReg eReg := by
  refine ⟨⟨by decide, ?_⟩, ?_⟩
  · intro s hs
    simp only [eTmpl, List.mem_cons, List.not_mem_nil, or_false] at hs
    rcases hs with rfl | rfl | rfl | rfl | rfl <;> simp [Seg.clean, Tok.clean, NoLB]
  · intro n b h
    simp only [eReg, lookup] at h
    split at h
    · cases h
      refine ⟨by decide, ?_⟩
      intro s hs
      simp only [List.mem_cons, List.not_mem_nil, or_false] at hs
      rcases hs with rfl | rfl | rfl | rfl <;> simp [Seg.clean, Tok.clean]
    · cases h

/-- the hypotheses of `c12_tok_eq_spec_brace_free_values` hold for a template with every kind of construct, and both
    sides compute `U` `p{{k}}0;` `qv1;` `<x{{zz}}>` `[?nope]` `dflt`, warning about item, k, index (unbound names of
    the template), k and zz (left in the output) -/
example : BF eCfg eCtx ∧ Grammar eTmpl ∧ GrammarReg eReg ∧
    (renderSpec eCfg false eReg eCtx 3 eTmpl).toOption =
      some ([85] ++ [112] ++ tagOf [107] ++ [48, 59] ++ [113, 118, 49, 59] ++ [60, 120] ++ tagOf [122, 122] ++ [62]
        ++ [91, 63, 110, 111, 112, 101, 93] ++ [100, 102, 108, 116]) ∧
    (renderTok eCfg false (tokReg eReg) eCtx 3 (flatten eTmpl)).toOption.map (·.2)
      = some [kItem, [107], kIndex, [107], [122, 122]] :=
  ⟨eBF, eGrammar.1, eGrammar.2, by decide, by decide⟩

/-- a template with every kind of construct has non-nested blocks: hypothesis of `c12_parse_flatten` -/
example : (∀ s ∈ eTmpl, s.wf = true) ∧ parse (flatten eTmpl) = some eTmpl := by decide

/-- every kind of token, grammar or not (stray `{{#else}}`, an unclosed `{{#if f}}`) -/
def eToks : List Tok :=
  [Tok.text [120], Tok.opt [97], Tok.var [97], Tok.pipe [97] [117, 112], Tok.opt [122], Tok.var [122], Tok.dot,
   Tok.els, Tok.inc [116, 48], Tok.eachO [32] [120, 115], Tok.var kItem, Tok.var [107], Tok.eachC,
   Tok.pipe [98] [100, 32, 102], Tok.ifO [32] [102], Tok.text [125, 125]]

/-- the environment `eCfg` with the registry `eReg` printed into it -/
def eCfgS : Cfg := { eCfg with templates := (tokReg eReg).map (fun p => (p.1, printToks p.2)) }

def eStrOK : StrOK eCfgS eCtx where
  sane := { lb := by decide, rb := by decide, q := by decide, hash := by decide, slash := by decide, gt := by decide,
            dot := by decide, bar := by decide, splb := by decide, disj := ascii_disj }
  words := ⟨WordName_of_bool (by decide), WordName_of_bool (by decide), WordName_of_bool (by decide),
            WordName_of_bool (by decide)⟩
  text := eBF.text
  items := CtxItemsOK_of_bool (by decide)
  filt := eBF.filt
  marker := eBF.marker

def eRegOK : RegOK eCfgS (tokReg eReg) where
  printed := rfl
  wf := by
    intro n b hl
    simp only [tokReg, eReg, List.map, lookup] at hl
    split at hl
    · cases hl; exact wfs_all_of_bool (by decide)
    · cases hl

/-- the hypotheses of `c12_str_eq_tok_brace_free` hold for a token list with every kind of token (not a grammar
    template), and both layers compute the same text and warnings on it (the second part is a test) -/
example : StrOK eCfgS eCtx ∧ RegOK eCfgS (tokReg eReg) ∧ (∀ t ∈ eToks, t.wfs eCfgS) ∧
    (translate eCfgS eCtx 3 (printToks eToks)).toOption
      = (renderTok eCfgS false (tokReg eReg) eCtx 3 eToks).toOption.map (fun r => (printToks r.1, r.2)) :=
  ⟨eStrOK, eRegOK, wfs_all_of_bool (by decide), by decide⟩

/-- hypotheses of `c12_str_eq_tok_on_strings` on concrete data: the TEXT `x{{?a}}{{a}}{{a|up}}…` lexes into well-formed
    tokens (it is the printed form of `eToks`, and lexing it gives the same tokens back with adjacent text coalesced) -/
example : (∀ p ∈ eCfgS.templates, ∀ t ∈ lex eCfgS p.2, t.wfs eCfgS) ∧ (∀ t ∈ lex eCfgS (printToks eToks), t.wfs eCfgS) ∧
    lex eCfgS (printToks eToks) = eToks := by
  refine ⟨?_, wfs_all_of_bool (by decide), by decide⟩
  intro p hp
  simp only [eCfgS, tokReg, eReg, List.map, List.mem_cons, List.not_mem_nil, or_false] at hp
  subst hp
  exact wfs_all_of_bool (by decide)

/-- hypotheses of `c12_str_eq_spec_on_strings` / `c12_str_missing_reported` on concrete data: the registered TEXTS lex to
    the flattened registry, the top-level TEXT lexes and parses to `eTmpl` (every kind of construct), all tokens well
    formed; `{{zz}}`… the text has unbound plain variables (`item`, `k`, `index` of the loop body) -/
example : lexReg eCfgS = tokReg eReg ∧ (∀ n b, lookup n eReg = some b → ∀ sg ∈ b, sg.wf = true) ∧
    parse (lex eCfgS (printToks (flatten eTmpl))) = some eTmpl ∧
    (∀ x ∈ lex eCfgS (printToks (flatten eTmpl)), x.wfs eCfgS) ∧
    Tok.var kItem ∈ lex eCfgS (printToks (flatten eTmpl)) ∧ isBound eCtx kItem = false := by
  refine ⟨by decide, ?_, by decide, wfs_all_of_bool (by decide), by decide, by decide⟩
  intro n b hl
  simp only [eReg, lookup] at hl
  split at hl
  · cases hl; decide
  · cases hl

/-- hypotheses of `c12_tok_strict_eq_spec` (2) / `c12_str_strict_refines_spec` on concrete data: the text `{{>t0}}` has no
    plain variable of its own, the included `t0 = <{{a}}{{zz}}>` has the unbound `zz`: the expansion finds `zz` missing,
    and the strict render (token layer and string layer) fails with the missing-variable error (a test) -/
example : (specToks eCfg eReg eCtx 3 [.tok (.inc [116, 48])]).toOption.map specMissing = some [[122, 122]] ∧
    varNames (flatten [.tok (.inc [116, 48])]) = [] ∧
    isValueErr (renderTok eCfg true (tokReg eReg) eCtx 3 (flatten [.tok (.inc [116, 48])])) = true ∧
    isValueErr (translate { eCfgS with strict := true } eCtx 3 (INCH ++ [116, 48] ++ RR)) = true := by
  decide

/-- hypotheses of `c12_str_unknown_include_marker` on concrete data: `nope` is a word and is not registered; the TEXT
    `{{>nope}}` renders as `[?nope]` in the string layer -/
example : WordName eCfgS [110, 111, 112, 101] ∧ lookup [110, 111, 112, 101] (tokReg eReg) = none ∧
    (translate eCfgS eCtx 3 (INCH ++ [110, 111, 112, 101] ++ RR)).toOption = some ([91, 63, 110, 111, 112, 101, 93], []) :=
  ⟨WordName_of_bool (by decide), by decide, by decide⟩

/-- `c12_plain_templates_values_verbatim` on hostile data: `Hi {{a}}!{{zz}}` with `a = "{{>t0}}{{#if f}}x{{/if}}{{b|up}}"`
    renders the value as it stands (a test of the concrete instance; the hypotheses are the two `decide`d facts) -/
example :
    let hostile : Str := INCH ++ [116, 48] ++ RR ++ IFH ++ [32, 102] ++ RR ++ [120] ++ ENDIF ++ pipeTag [98] [117, 112]
    let ts : List Tok := [.text [72, 105, 32], .var [97], .text [33], .var [122, 122]]
    (∀ t ∈ ts, t.plain = true) ∧ (∀ t ∈ ts, t.wfs eCfgS) ∧
    (translate eCfgS [([97], ⟨hostile, true, none⟩)] 3 (printToks ts)).toOption
      = some ([72, 105, 32] ++ hostile ++ [33] ++ tagOf [122, 122], [[122, 122], [122, 122]]) :=
  ⟨by decide, wfs_all_of_bool (by decide), by decide⟩

/-- the hypotheses of `c12_str_eq_spec_brace_free_values` hold for the template with every kind of construct, and the
    string layer renders `U` `p{{k}}0;` `qv1;` `<x{{zz}}>` `[?nope]` `dflt` -/
example : eCfgS.strict = false ∧ Grammar eTmpl ∧ GrammarReg eReg ∧ (∀ x ∈ flatten eTmpl, x.wfs eCfgS) ∧
    (translate eCfgS eCtx 3 (printToks (flatten eTmpl))).toOption.map (·.1) =
      some ([85] ++ [112] ++ tagOf [107] ++ [48, 59] ++ [113, 118, 49, 59] ++ [60, 120] ++ tagOf [122, 122] ++ [62]
        ++ [91, 63, 110, 111, 112, 101, 93] ++ [100, 102, 108, 116]) :=
  ⟨rfl, eGrammar.1, eGrammar.2, wfs_all_of_bool (by decide), by decide⟩

/-- strict mode over the same data fails (the loop variables `item`, `k`, `index` are unbound names of the template):
    hypotheses of `c12_missing_reported` (a) -/
example : Tok.var kItem ∈ flatten eTmpl ∧ isBound eCtx kItem = false := by decide

/-- two contexts of the same shape and different content: hypotheses of `c12_spec_values_opaque` -/
example : CtxSim eCtx eCtx' ∧ EnvSim eCfg { eCfg with applyF := fun _ _ => .ok [123, 123, 97, 125, 125] } := by
  refine ⟨?_, ⟨rfl, rfl, rfl, rfl, fun _ _ => rfl⟩⟩
  refine .cons ⟨rfl, rfl, rfl, .nil⟩ (.cons ⟨rfl, rfl, rfl, .nil⟩ (.cons ⟨rfl, rfl, rfl, ?_⟩ .nil))
  exact .cons rfl (.cons rfl .nil)

/-- an unregistered include name with a brace-free marker: hypotheses of `c12_unknown_include_marker` -/
example : lookup [110, 111, 112, 101] eReg = none ∧ noLBb (eCfg.markerPre ++ [110, 111, 112, 101] ++ eCfg.markerSuf) = true := by
  decide

/-- a variable called `strict` (or `filters`, `class`, `__init__`) is an ordinary binding: hypothesis (a) of
    `c12_bindings_reach_context` with the pinned reserved names, and `{{strict}}` renders its value; a variable called
    `template` meets hypothesis (b) -/
example :
    let rsv : List Str := [[115, 101, 108, 102], [116, 101, 109, 112, 108, 97, 116, 101]]     -- self, template
    let strict : Str := [115, 116, 114, 105, 99, 116]
    (∀ p ∈ ([(strict, ⟨[121], true, none⟩)] : Ctx), p.1 ∉ rsv) ∧
    (synthesizeCall eCfg rsv [(strict, ⟨[121], true, none⟩)] (tagOf strict)).toOption = some ([121], []) ∧
    (∃ p ∈ ([([116, 101, 109, 112, 108, 97, 116, 101], ⟨[121], true, none⟩)] : Ctx), p.1 ∈ rsv) := by
  decide

/-- string layer, same data, concrete check (a test, not a theorem): `{{>nope}}` renders as the marker -/
example : (translate eCfg eCtx 3 (INCH ++ [110, 111, 112, 101] ++ RR)).toOption.map (·.1)
    = some [91, 63, 110, 111, 112, 101, 93] := by decide

/-- hypotheses of `c12_reregistered_key_renders_new_template` / `c12_histories_with_same_last_writes_render_alike` on a
    concrete history (the shape of the seeded change the check once missed): `alias` registered with
    `register_template(mRNA("1:{{a}}{{q}}", name="alias_v1"), name="alias")`, `page = <{{>alias}}>` created, then
    `register_template(mRNA("2:{{b}}", name="alias_v2"), name="alias")`: the last write under `alias` is the second
    sequence, the one-step history `templates["alias"] = …; create page` has the same last writes, and a STRICT render
    of `alias` and of `page` with only `b` bound succeeds with the new text (a test of the concrete instance) -/
example :
    let alias : Str := [97, 108, 105, 97, 115]
    let page : Str := [112, 97, 103, 101]
    let s1 : Str := [49, 58] ++ tagOf [97] ++ tagOf [113]
    let s2 : Str := [50, 58] ++ tagOf [98]
    let pg : Str := [60] ++ INCH ++ alias ++ RR ++ [62]
    let ops : List RegOp := [.register alias (alias ++ [95, 118, 49]) s1, .create page pg]
    let op : RegOp := .register alias (alias ++ [95, 118, 50]) s2
    let cfg : Cfg := { eCfgS with strict := true }
    let ctx : Ctx := [([98], ⟨[66], true, none⟩)]
    op.key = some alias ∧ lastWrite alias (ops ++ [op]) = some s2 ∧ lastWrite page (ops ++ [op]) = some pg ∧
    (∀ k, k = alias ∨ k = page → lastWrite k (ops ++ [op]) = lastWrite k [.assign alias [] s2, .create page pg]) ∧
    (translateNamed (withReg cfg (regRun [] (ops ++ [op]))) ctx alias).toOption = some ([50, 58, 66], []) ∧
    (translateNamed (withReg cfg (regRun [] (ops ++ [op]))) ctx page).toOption = some ([60, 50, 58, 66, 62], []) ∧
    isValueErr (translateNamed (withReg cfg (regRun [] ops)) ctx alias) = true := by
  refine ⟨by decide, by decide, by decide, ?_, by decide, by decide, by decide⟩
  intro k hk
  rcases hk with rfl | rfl <;> decide

/-- `c12_instances_are_independent` on a concrete interleaving: instance `1` is created strict with a template under
    `k`, instance `2` is created, re-registers `k` with another text and is made strict, instance `1` is made lenient:
    each ends in the state of its own operations (a test of the concrete instance) -/
example :
    let ops : List (String × InstOp) :=
      [("1", .create true "none" [.assign [107] [] [49]]), ("2", .create false "over" []),
       ("2", .reg (.register [107] [111] [50])), ("2", .setStrict true), ("1", .setStrict false), ("3", .setStrict true)]
    instGet (worldRun [] ops) "1" = some { strict := false, fset := "none", templates := [([107], [49])] } ∧
    instGet (worldRun [] ops) "2" = some { strict := true, fset := "over", templates := [([107], [50])] } ∧
    instGet (worldRun [] ops) "3" = none := by
  decide

/-- hypothesis of `c12_render_reads_registry_by_lookup_only` on two DIFFERENT registries: other slot order, and a
    shadowed second entry for `k` — every name resolves alike -/
example : ∀ n, lookup n ([([107], [49]), ([108], [50])] : List (Str × Str))
    = lookup n [([108], [50]), ([107], [49]), ([107], [51])] := by
  intro n
  by_cases h1 : ([107] : Str) = n
  · subst h1; decide
  · by_cases h2 : ([108] : Str) = n
    · subst h2; decide
    · simp [lookup, h1, h2]

end Operon.Tmpl
