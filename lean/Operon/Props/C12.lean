import Operon.Model.Ribosome
namespace Operon.Ribosome

def wCfg : Cfg :=
  { isWord := asciiWord, isSpace := asciiSpace, filters := [], applyF := fun _ _ => .raise [],
    templates := [], strict := false, markerPre := [], markerSuf := [] }

-- `{{#each xs}}[{{item}}]{{/each}}`
def wTmpl : Str := EACHH ++ [32, 120, 115] ++ RR ++ [91] ++ tagOf kItem ++ [93] ++ ENDEACH
def wCtx : Ctx :=
  [([120, 115], ⟨[], true, some [⟨tagOf [115], []⟩, ⟨tagOf kIndex, []⟩]⟩), ([115], ⟨[83], true, none⟩)]

theorem c12_value_reinterpreted_witness :
    (translate wCfg wCtx 5 wTmpl).toOption.map (·.1) = some [91, 83, 93, 91, 49, 93] := by decide

end Operon.Ribosome
