import Operon.Model.Chaperone
namespace Operon.Chaperone
theorem c11_placeholder : (1 : Nat) = 1 := rfl
end Operon.Chaperone
